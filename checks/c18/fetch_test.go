package c18

// FetchPartsSchedule - the body fetcher loop (Downloader.fetchParts as fetchBodies wires
// it) never wedges silently.
//
// The real fetchParts runs in its own goroutine on a hand-assembled Downloader with real
// queue, peer set and peer connections; the harness is the network, the header
// processor, the clock and the importer. It injects one event at a time (new headers +
// wake, a peer's answer to one of its outstanding requests - in time or late, honest or
// not -, "every request in flight has timed out", a peer leaving / joining, an import)
// and after each event waits on a barrier until the loop has finished the scheduling
// pass that follows it (body and wake channels are unbuffered: a send returns when the
// loop took the event; passes are counted through the expire callback). Expiry is
// harness-driven (never wall clock); measured throughput is replaced by scripted rates.
//
// Oracle: (safety) the importer receives block origin+1, origin+2, ... each once, with
// its own transactions; (no silent wedge) after the adversarial prefix every other peer
// leaves, timed-out requests expire and one peer that never lied (it may have been slow)
// answers every request it was ever sent: then either all blocks reach the importer or
// fetchParts returns an error - a round in which the loop is alive, work is queued, the
// honest peer has nothing outstanding and no request is assigned to it is a wedge.

import (
	"fmt"
	"sort"

	"github.com/youchainhq/go-youchain/core/types"
	"github.com/youchainhq/go-youchain/you/downloader"
	"pgregory.net/rapid"
	"verif/kit"
)

// FOp is one event of the fetcher schedule.
type FOp struct {
	Kind string `json:"k"`
	Peer int    `json:"p,omitempty"`
	N    int    `json:"n,omitempty"`
	How  string `json:"how,omitempty"`
}

// FetchCase is a chain, scripted peers and an event schedule.
type FetchCase struct {
	Blocks []int `json:"blocks"` // transactions per block
	Cache  int   `json:"cache"`  // result cache slots (0 = default)
	Rates  []int `json:"rates"`  // per peer: index into the rate table (=> request allowance)
	Honest int   `json:"honest"` // the peer that never lies (but may answer late)
	Ops    []FOp `json:"ops"`
}

// blocks per second -> allowance int(min(1+max(1, rate*18s), 128)): 3, 5, 2, 19, 128
var rateTable = []float64{0.12, 0.25, 0.06, 1.0, 14}

var fopKinds = []string{
	"sched", "sched",
	"answer", "answer", "answer", "answer", "answer", "answer", "answer",
	"expire", "expire", "leave", "join", "import", "import",
}

func genFetchCase(t *rapid.T) FetchCase {
	var c FetchCase
	n := rapid.SampledFrom([]int{10, 6, 16, 24, 4, 40}).Draw(t, "n")
	for i := 0; i < n; i++ {
		ntx := 1
		if rapid.IntRange(0, 9).Draw(t, "e") == 0 {
			ntx = 0
		}
		c.Blocks = append(c.Blocks, ntx)
	}
	if rapid.IntRange(0, 3).Draw(t, "smallcache") == 0 {
		c.Cache = rapid.IntRange(3, 12).Draw(t, "cache")
	}
	np := rapid.SampledFrom([]int{2, 3, 2, 4, 1}).Draw(t, "peers")
	for i := 0; i < np; i++ {
		c.Rates = append(c.Rates, rapid.SampledFrom([]int{1, 0, 1, 3, 2, 4}).Draw(t, "rate"))
	}
	c.Honest = rapid.IntRange(0, np-1).Draw(t, "honest")
	nops := rapid.SampledFrom([]int{12, 20, 8, 30, 5, 2}).Draw(t, "nops")
	for i := 0; i < nops; i++ {
		op := FOp{Kind: rapid.SampledFrom(fopKinds).Draw(t, "kind")}
		if i == 0 {
			op.Kind = "sched"
		}
		op.Peer = rapid.IntRange(0, 7).Draw(t, "peer")
		switch op.Kind {
		case "sched":
			op.N = rapid.SampledFrom([]int{8, 40, 4, 12, 2}).Draw(t, "chunk")
		case "answer":
			op.N = rapid.SampledFrom([]int{0, 0, 0, 1, 2}).Draw(t, "which")
			op.How = rapid.SampledFrom([]string{"honest", "honest", "honest", "wrong", "empty", "partial"}).Draw(t, "how")
		}
		c.Ops = append(c.Ops, op)
	}
	return c
}

type fpeer struct {
	id          string
	idx         int
	outstanding [][]*types.Header // requests sent to the peer and not answered yet (oldest first)
}

type fharness struct {
	c        FetchCase
	ch       *chain
	f        *downloader.VerifFetcher
	q        *downloader.VerifQueue
	peers    []*fpeer
	next     int // headers scheduled
	imported int
	labels   map[string]bool
	assigned int // fetch assignments seen so far
}

func (h *fharness) join(p *fpeer) bool {
	rate := rateTable[h.c.Rates[p.idx]%len(rateTable)]
	return h.f.Join(p.id, rate, p.idx, rate)
}

// collect files the fetch assignments and delivery outcomes recorded since the last call.
func (h *fharness) collect() {
	for _, r := range h.f.TakeRequests() {
		for _, p := range h.peers {
			if p.id == r.PeerID {
				p.outstanding = append(p.outstanding, r.Headers)
			}
		}
		h.assigned++
	}
	for _, d := range h.f.TakeDeliveries() {
		switch d.Err {
		case nil:
		case downloader.VerifErrStaleDelivery:
			h.labels["stale-delivery"] = true
		case downloader.VerifErrNoFetchesPending:
			h.labels["delivery-without-reservation"] = true
		default:
			h.labels["partial-failure"] = true
		}
	}
}

func (h *fharness) importNow(when string) *violation {
	for _, r := range h.q.Results() {
		if h.imported >= len(h.ch.headers) {
			return vio("order", "%s: a result beyond the end of the chain was handed out", when)
		}
		want := h.ch.first + uint64(h.imported)
		if r.Header == nil || r.Header.Number.Uint64() != want || r.Header != h.ch.headers[h.imported] {
			return vio("order", "%s: the importer was handed block %v, the next block in order is %d", when, r.Header.Number, want)
		}
		if r.Pending != 0 || !sameBody(r.Transactions, h.ch.bodies[h.imported]) {
			return vio("body-mismatch", "%s: block %d handed out with a body that is not its own (pending=%d)", when, want, r.Pending)
		}
		h.imported++
	}
	return nil
}

func (h *fharness) bodiesFor(hdrs []*types.Header) [][]*types.Transaction {
	out := make([][]*types.Transaction, len(hdrs))
	for i, hd := range hdrs {
		out[i] = h.ch.bodies[h.ch.ptr[hd]]
	}
	return out
}

func runFetchCase(c FetchCase) kit.Result {
	if len(c.Blocks) == 0 || len(c.Rates) == 0 {
		return kit.Discarded("empty case")
	}
	h := &fharness{c: c, ch: buildChain(0, c.Blocks, 0), labels: map[string]bool{}}
	n := len(c.Blocks)
	h.f = downloader.VerifNewFetcher(c.Cache, 1)
	h.q = h.f.Queue()
	defer h.f.Stop()
	for i := range c.Rates {
		p := &fpeer{id: fmt.Sprintf("peer-%d", i), idx: i}
		h.peers = append(h.peers, p)
		h.join(p)
	}
	honest := h.peers[c.Honest%len(h.peers)]
	h.f.Start()
	fail := func(v *violation) kit.Result { return kit.Fail(v.class, "%s", v.msg) }
	finish := func(nontrivial bool) kit.Result {
		var ls []string
		for l := range h.labels {
			ls = append(ls, l)
		}
		sort.Strings(ls)
		return kit.OK(nontrivial, ls...)
	}
	// exited decides a run whose loop has returned.
	exited := func(when string) (kit.Result, bool) {
		done, err, pv := h.f.Exited()
		if !done {
			return kit.Result{}, false
		}
		if pv != nil {
			return kit.Fail("panic", "%s: panic inside fetchParts: %v", when, pv), true
		}
		h.collect() // the loop goroutine is gone: everything it recorded is visible
		if v := h.importNow(when); v != nil {
			return fail(v), true
		}
		if err == nil {
			h.labels["loop-returned-nil"] = true
			if h.imported != h.next {
				return kit.Fail("liveness", "%s: fetchParts returned nil (download complete) but only %d of %d scheduled blocks reached the importer", when, h.imported, h.next), true
			}
		} else {
			h.labels["loop-returned-error"] = true
			h.labels["loop-error: "+err.Error()] = true
			if err == downloader.VerifErrInvalidChain {
				return kit.Fail("invalid-chain", "%s: fetchParts aborted a valid chain with errInvalidChain", when), true
			}
		}
		return finish(h.labels["stale-delivery"] || h.labels["expired"]), true // (after collect)
	}
	schedule := func(cnt int, when string) *violation {
		if cnt > n-h.next {
			cnt = n - h.next
		}
		if cnt == 0 {
			return nil
		}
		ins := h.q.Schedule(h.ch.headers[h.next:h.next+cnt], h.ch.first+uint64(h.next))
		if len(ins) != cnt {
			return vio("schedule-refused-good", "%s: Schedule accepted %d of %d contiguous headers", when, len(ins), cnt)
		}
		h.next += cnt
		return nil
	}

	type packet struct {
		id     string
		bodies [][]*types.Transaction
	}
	// do runs fn inside the loop goroutine at the start of a scheduling pass (all earlier
	// passes are over, so everything recorded so far is visible); it reports false when
	// the loop has exited instead.
	do := func(fn func()) bool {
		return h.f.Do(func() {
			h.collect()
			fn()
		})
	}

	for k, op := range c.Ops {
		when := fmt.Sprintf("op %d (%s %s)", k, op.Kind, op.How)
		var pkt *packet
		var v *violation
		alive := do(func() {
			switch op.Kind {
			case "sched":
				v = schedule(op.N, when)
			case "answer":
				var cand []*fpeer
				for _, p := range h.peers {
					if len(p.outstanding) > 0 {
						cand = append(cand, p)
					}
				}
				if len(cand) == 0 {
					return
				}
				p := cand[op.Peer%len(cand)]
				ri := op.N % len(p.outstanding)
				hdrs := p.outstanding[ri]
				p.outstanding = append(p.outstanding[:ri:ri], p.outstanding[ri+1:]...)
				bodies := h.bodiesFor(hdrs)
				how := op.How
				if p == honest {
					how = "honest"
				}
				switch how {
				case "wrong":
					for i := range bodies {
						bodies[i] = []*types.Transaction{mkTx(h.ch.ptr[hdrs[i]], 0, 9)}
					}
					h.labels["lie"] = true
				case "empty":
					bodies = [][]*types.Transaction{}
				case "partial":
					bodies = bodies[:1]
				}
				if ri > 0 {
					h.labels["answer-out-of-order"] = true
				}
				pkt = &packet{p.id, bodies}
			case "expire":
				h.f.ExpireAllOnce()
				h.labels["expired"] = true
			case "leave":
				p := h.peers[op.Peer%len(h.peers)]
				if reg, _ := h.f.Registered(p.id); reg {
					h.f.Leave(p.id)
					h.labels["peer-left"] = true
				}
			case "join":
				p := h.peers[op.Peer%len(h.peers)]
				if reg, _ := h.f.Registered(p.id); !reg {
					h.join(p)
					h.labels["peer-rejoined"] = true
				}
			case "import":
				v = h.importNow(when)
			}
		})
		if v != nil {
			return fail(v)
		}
		if !alive {
			if r, ok := exited(when); ok {
				return r
			}
		}
		if pkt != nil {
			h.f.Deliver(pkt.id, pkt.bodies)
		}
	}

	// ---- fairness suffix -------------------------------------------------------------
	var v *violation
	alive := do(func() {
		v = schedule(n, "suffix")
		if reg, _ := h.f.Registered(honest.id); !reg {
			h.join(honest) // a dropped peer reconnects
			h.labels["honest-peer-reconnected"] = true
		}
		for _, p := range h.peers {
			if p != honest {
				if reg, _ := h.f.Registered(p.id); reg {
					h.f.Leave(p.id)
				}
			}
		}
	})
	if v != nil {
		return fail(v)
	}
	if alive {
		alive = h.f.Wake(false) // header processing is finished
	}
	if !alive {
		if r, ok := exited("suffix start"); ok {
			return r
		}
	}
	last, idleRounds := "", 0
	for rounds := 0; rounds < 8*n+48; rounds++ {
		when := fmt.Sprintf("suffix round %d", rounds)
		var pkt *packet
		var v *violation
		var wedge string
		alive := do(func() {
			acted := false
			if reg, _ := h.f.Registered(honest.id); !reg {
				h.join(honest) // a dropped peer reconnects
				h.labels["honest-peer-reconnected"] = true
				acted = true
			}
			if v = h.importNow(when); v != nil {
				return
			}
			if len(honest.outstanding) > 0 {
				// the honest peer answers everything it was ever asked, oldest first
				hdrs := honest.outstanding[0]
				honest.outstanding = honest.outstanding[1:]
				pkt = &packet{honest.id, h.bodiesFor(hdrs)}
				acted = true
			} else if snap := h.q.Snapshot(); len(snap.Pend) > 0 {
				// nobody is going to answer what is still reserved (peers gone or silent, or the
				// honest peer's answer already came): those requests time out
				h.f.ExpireAllOnce()
				h.labels["suffix-expiry"] = true
				acted = true
			}
			state := fmt.Sprintf("%d/%d", h.imported, h.assigned)
			if acted || state != last {
				idleRounds = 0
			} else {
				idleRounds++
			}
			last = state
			if idleRounds >= 2 {
				reg, busy := h.f.Registered(honest.id)
				wedge = fmt.Sprintf("%s: fetchParts is alive but makes no progress: %d of %d blocks imported, %d tasks queued, in-flight=%v; the honest peer %s answered every request it was sent, has nothing outstanding, nothing is reserved in the queue, and it gets no new request (registered=%v busy-flag=%v)",
					when, h.imported, n, h.q.PendingBlocks(), h.q.InFlightBlocks(), honest.id, reg, busy)
			}
		})
		if v != nil {
			return fail(v)
		}
		if wedge != "" {
			class := "wedged"
			if h.imported == n {
				class = "no-termination"
			}
			return kit.Fail(class, "%s", wedge)
		}
		if !alive {
			if r, ok := exited(when); ok {
				return r
			}
		}
		if pkt != nil {
			h.f.Deliver(pkt.id, pkt.bodies)
		}
	}
	h.f.Stop()
	h.collect()
	if v := h.importNow("suffix end"); v != nil {
		return fail(v)
	}
	if h.imported < n {
		return kit.Fail("liveness", "after %d suffix rounds only %d of %d blocks were imported and fetchParts is still running", 8*n+48, h.imported, n)
	}
	return kit.Fail("no-termination", "all %d blocks were imported but fetchParts did not return within %d further rounds", n, 8*n+48)
}

var _ = kit.Register(kit.Prop[FetchCase]{
	Name: "FetchPartsSchedule",
	Rule: "chains of 4-40 blocks, 1-4 scripted peers with request allowances 2/3/5/19/128, result cache default or 3-12 slots, 2-30 generated events against the REAL Downloader.fetchParts loop (wired as fetchBodies does; own goroutine): schedule headers + wake, a peer's answer to one of its outstanding requests (oldest or a later one; honest / wrong / empty / partial - the designated honest peer only ever answers correctly, possibly late), harness-driven expiry of everything in flight, peer leaves / rejoins, import; a barrier after each event (unbuffered channels + pass counter) makes the loop's behaviour a function of the schedule. Then the other peers leave, leftover reservations expire and the honest peer answers every request it was ever sent. Oracle: importer gets each block once in order with its own body; fetchParts either completes (nil, everything imported) or returns an error - never alive without progress. non-trivial = an expiry or a stale (mismatching) delivery occurred; distinct = FNV-64 of the case JSON",
	Gen:  genFetchCase, Run: runFetchCase,
	Quick: 2500, Thorough: 30000, Chunk: 500, MinNonTrivialPct: 25,
})
