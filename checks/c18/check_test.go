package c18

// C18 - block download delivers every block once, in order, with a matching body.
//
// The harness owns the schedule: a generated list of operations is interpreted against
// the real, unexported download queue (you/downloader/queue.go) in FullSync mode with
// real peerConnection objects and no network, no goroutines and no wall clock (expiry
// uses a negative / one-hour timeout, so "everything in flight expired" / "nothing
// expired" are decided independently of elapsed time).
//
// Oracle (all written here, nothing taken from the queue's own answers):
//   - safety after every operation: the concatenation of all Results() batches is
//     exactly block origin+1, origin+2, ... without gap or repeat, each result carries
//     the header that was scheduled for that number and exactly the transaction list
//     the chain generator put into that block;
//   - bookkeeping partition after every operation: every scheduled and not yet handed
//     out header is in exactly one of {task queue (+task pool), one pending request of a
//     live peer (+task pool), done pool (+completed result slot)}; nothing else is in
//     any pool; per operation only the transitions that operation may cause happen
//     (e.g. a cancel/expiry/revoke/failed delivery returns the work to the task queue);
//   - bounded liveness: after the adversarial prefix, one honest peer that reserves and
//     answers completely finishes the whole range within 4n+16 rounds.

import (
	"fmt"
	"math/big"
	"sort"
	"testing"
	"time"

	"github.com/youchainhq/go-youchain/common"
	"github.com/youchainhq/go-youchain/core/types"
	"github.com/youchainhq/go-youchain/you/downloader"
	"pgregory.net/rapid"
	"verif/kit"
)

func TestMain(m *testing.M)   { kit.Main(m, "C18") }
func TestProps(t *testing.T)  { kit.RunAll(t) }
func TestReplay(t *testing.T) { kit.ReplayAll(t) }

// ---------------------------------------------------------------------------------
// case

// Op is one step of the schedule.
type Op struct {
	Kind string `json:"k"`
	Peer int    `json:"p,omitempty"`
	N    int    `json:"n,omitempty"`
	M    int    `json:"m,omitempty"`
	How  string `json:"how,omitempty"`
}

// Case is a header chain, a peer count and an adversarial schedule.
type Case struct {
	Origin      uint64 `json:"origin"`
	Blocks      []int  `json:"blocks"`            // transactions per block (0 = empty block, takes the no-fetch path)
	Cache       int    `json:"cache"`             // result cache slots (0 = the package default 8192)
	Mem         int    `json:"mem,omitempty"`     // result cache memory allowance in bytes (0 = the package default 64 MiB)
	Payload     int    `json:"payload,omitempty"` // largest transaction payload; block i's first transaction carries Payload*((7i+3)%4)/3 bytes
	Peers       int    `json:"peers"`
	Ops         []Op   `json:"ops"`
	HonestCount int    `json:"honest_count"` // reservation size of the honest peer in the fairness suffix
	HonestPeer  int    `json:"honest_peer"`  // -1: a fresh peer; else an existing peer (if it is not marked as lacking data)
}

var opKinds = []string{
	"schedule", "schedule", "schedule", "badsched",
	"reserve", "reserve", "reserve", "reserve", "reserve", "reserve", "reserve", "reserve",
	"deliver", "deliver", "deliver", "deliver", "deliver", "deliver", "deliver", "deliver",
	"unsolicited", "cancel", "expire", "revoke", "revoke",
	"results", "results", "results", "rare",
}

var rareKinds = []string{"expire_none", "expire_none", "resync"}

var deliverHows = []string{"complete", "complete", "complete", "prefix", "empty", "other", "shuffled", "corrupt", "corrupt", "duplicate", "extra", "shifted"}
var badKinds = []string{"stale", "gap", "wrongfrom", "fork", "midbreak", "middup"}

func genCase(t *rapid.T) Case {
	var c Case
	c.Origin = rapid.SampledFrom([]uint64{0, 0, 1, 7, 1000, 1 << 33}).Draw(t, "origin")
	n := rapid.SampledFrom([]int{12, 8, 20, 16, 5, 30, 25, 40, 3, 60, 2, 100, 1, 300}).Draw(t, "n")
	emptyPct := rapid.SampledFrom([]int{20, 10, 30, 0, 50, 90}).Draw(t, "emptyPct")
	for i := 0; i < n; i++ {
		if rapid.IntRange(0, 99).Draw(t, "e") < emptyPct {
			c.Blocks = append(c.Blocks, 0)
		} else {
			c.Blocks = append(c.Blocks, rapid.IntRange(1, 3).Draw(t, "ntx"))
		}
	}
	if rapid.Bool().Draw(t, "smallcache") {
		c.Cache = rapid.IntRange(2, 12).Draw(t, "cache")
	}
	// the memory allowance is scaled down together with the block sizes so that a handful
	// of completed blocks exceed a fraction of it (64 MiB would need megabyte transactions)
	c.Mem = rapid.SampledFrom([]int{0, 16384, 0, 4096, 65536, 2048}).Draw(t, "mem")
	c.Payload = rapid.SampledFrom([]int{0, 600, 0, 3000, 150}).Draw(t, "payload")
	c.Peers = rapid.SampledFrom([]int{3, 2, 4, 2, 5, 1}).Draw(t, "peers")
	nops := rapid.SampledFrom([]int{40, 25, 60, 30, 15, 80, 8, 3, 1}).Draw(t, "nops")
	for i := 0; i < nops; i++ {
		op := Op{Kind: rapid.SampledFrom(opKinds).Draw(t, "kind")}
		if i == 0 {
			op.Kind = "schedule" // nothing can happen before the first headers arrive
		}
		if op.Kind == "rare" {
			op.Kind = rapid.SampledFrom(rareKinds).Draw(t, "rare")
		}
		switch op.Kind {
		case "schedule":
			op.N = rapid.SampledFrom([]int{8, 5, 12, 3, 20, 2, 50, 1, 300}).Draw(t, "chunk")
		case "badsched":
			op.How = rapid.SampledFrom(badKinds).Draw(t, "bad")
			op.N = rapid.IntRange(1, 6).Draw(t, "len")
			op.M = rapid.IntRange(0, 40).Draw(t, "sel")
		case "reserve":
			op.Peer = rapid.IntRange(0, c.Peers-1).Draw(t, "peer")
			op.N = rapid.SampledFrom([]int{2, 1, 3, 2, 4, 1, 5, 3, 6, 8, 128}).Draw(t, "count")
			if rapid.IntRange(0, 9).Draw(t, "busy") == 0 {
				op.M = 1 // address the peer directly even if it is busy (the queue must refuse)
			}
		case "deliver":
			op.Peer = rapid.IntRange(0, c.Peers-1).Draw(t, "peer")
			op.How = rapid.SampledFrom(deliverHows).Draw(t, "how")
			op.N = rapid.IntRange(0, 40).Draw(t, "sel")
			op.M = rapid.IntRange(0, 40).Draw(t, "sel2")
		case "unsolicited":
			op.Peer = rapid.IntRange(0, c.Peers).Draw(t, "peer") // == Peers: an id the queue has never seen
			op.N = rapid.IntRange(0, 40).Draw(t, "sel")
			op.M = rapid.IntRange(0, 3).Draw(t, "count")
		case "cancel", "revoke":
			op.Peer = rapid.IntRange(0, c.Peers-1).Draw(t, "peer")
			if op.Kind == "revoke" && rapid.IntRange(0, 3).Draw(t, "any") == 0 {
				op.M = 1 // the addressed peer itself, busy or not
			}
		}
		c.Ops = append(c.Ops, op)
	}
	c.HonestCount = rapid.SampledFrom([]int{1, 2, 3, 8, 128}).Draw(t, "honestCount")
	c.HonestPeer = rapid.IntRange(-1, c.Peers-1).Draw(t, "honestPeer")
	return c
}

// ---------------------------------------------------------------------------------
// chain model

type chain struct {
	first   uint64 // number of headers[0]
	headers []*types.Header
	hashes  []common.Hash
	bodies  [][]*types.Transaction
	index   map[common.Hash]int
	ptr     map[*types.Header]int // header object -> index (avoids re-hashing in the oracle)
}

func mkTx(block, j, salt int) *types.Transaction { return mkTxData(block, j, salt, 0) }

func mkTxData(block, j, salt, payload int) *types.Transaction {
	to := common.BytesToAddress([]byte{byte(j + 1), byte(block), byte(block >> 8)})
	var data []byte
	if payload > 0 {
		data = make([]byte, payload)
		for i := range data {
			data[i] = byte(block + i)
		}
	}
	return types.NewTransaction(uint64(block*8+j+salt*100000), to, big.NewInt(int64(block+1)), 21000, big.NewInt(1), data)
}

func buildChain(origin uint64, blocks []int, payload int) *chain {
	c := &chain{first: origin + 1, index: map[common.Hash]int{}, ptr: map[*types.Header]int{}}
	parent := common.BytesToHash([]byte(fmt.Sprintf("origin-%d", origin)))
	for i, ntx := range blocks {
		var txs []*types.Transaction
		for j := 0; j < ntx; j++ {
			pl := 0
			if j == 0 {
				pl = payload * ((7*i + 3) % 4) / 3
			}
			txs = append(txs, mkTxData(i, j, 0, pl))
		}
		h := &types.Header{
			ParentHash:  parent,
			Number:      new(big.Int).SetUint64(c.first + uint64(i)),
			TxHash:      types.DeriveSha(types.Transactions(txs)),
			ReceiptHash: types.EmptyRootHash,
			Subsidy:     new(big.Int),
			GasRewards:  new(big.Int),
			GasLimit:    8000000,
			Time:        1600000000 + uint64(i),
			Extra:       []byte{byte(i), byte(i >> 8)},
		}
		hash := h.Hash()
		c.headers = append(c.headers, h)
		c.hashes = append(c.hashes, hash)
		c.bodies = append(c.bodies, txs)
		c.index[hash] = i
		c.ptr[h] = i
		parent = hash
	}
	return c
}

func sameBody(a, b []*types.Transaction) bool {
	if len(a) != len(b) {
		return false
	}
	for i := range a {
		if a[i] == nil || b[i] == nil || a[i].Hash() != b[i].Hash() {
			return false
		}
	}
	return true
}

// ---------------------------------------------------------------------------------
// harness

const (
	locU = iota // not scheduled (or unscheduled again by a re-sync)
	locQ        // in the task queue
	locF        // in flight with exactly one peer
	locD        // done, waiting in the result cache
	locO        // handed out by Results
)

var locName = []string{"unscheduled", "queued", "in-flight", "done", "handed-out"}

type peerState struct {
	id      string
	conn    *downloader.VerifPeer    // nil: not connected
	req     *downloader.VerifRequest // in-flight request (harness view)
	hdrs    []*types.Header          // headers of req at reservation time
	last    [][]*types.Transaction   // last bodies this peer ever sent
	sent    bool
	emptied bool // delivered an empty answer at least once on the current connection (=> marked lacking)
}

type harness struct {
	c         Case
	ch        *chain
	q         *downloader.VerifQueue
	peers     []*peerState
	nextSched int  // headers[0:nextSched] were accepted by Schedule (since the last resync: >= delivered)
	delivered int  // headers[0:delivered] were returned by Results
	headSet   bool // the queue has a header head to check ancestry against
	loc       []int
	labels    map[string]bool
	nontriv   bool
}

type violation struct {
	class string
	msg   string
}

func vio(class, format string, args ...interface{}) *violation {
	return &violation{class, fmt.Sprintf(format, args...)}
}

func (h *harness) inflightCount() int {
	n := 0
	for _, p := range h.peers {
		if p.req != nil {
			n++
		}
	}
	return n
}

// observe reads the real bookkeeping, checks the partition invariant and returns the
// location of every header.
func (h *harness) observe(when string) ([]int, *violation) {
	s := h.q.Snapshot()
	n := len(h.ch.headers)
	if want := h.ch.first + uint64(h.delivered); s.ResultOffset != want {
		return nil, vio("bookkeeping", "%s: result offset is %d, but %d results were handed out from first block %d (want %d)", when, s.ResultOffset, h.delivered, h.ch.first, want)
	}
	if s.ReceiptTasks != 0 {
		return nil, vio("bookkeeping", "%s: %d receipt bookkeeping entries in full sync mode", when, s.ReceiptTasks)
	}
	cQ, cF, cP, cD := make([]int, n), make([]int, n), make([]int, n), make([]int, n)
	slot := make([]int, n) // 0: none, 1: pending, 2: complete
	lookup := func(hd *types.Header, where string) (int, *violation) {
		if hd == nil {
			return 0, vio("bookkeeping", "%s: nil header in %s", when, where)
		}
		idx, ok := h.ch.ptr[hd]
		if !ok {
			return 0, vio("bookkeeping", "%s: %s holds header #%v %x which was never accepted by Schedule", when, where, hd.Number, hd.Hash())
		}
		return idx, nil
	}
	for i, hd := range s.TaskQueue {
		idx, v := lookup(hd, "task queue")
		if v != nil {
			return nil, v
		}
		cQ[idx]++
		if want := -int64(hd.Number.Uint64()); s.TaskPrio[i] != want {
			return nil, vio("bookkeeping", "%s: header #%v queued with priority %d, want %d", when, hd.Number, s.TaskPrio[i], want)
		}
	}
	for i, hd := range s.TaskPool {
		idx, v := lookup(hd, "task pool")
		if v != nil {
			return nil, v
		}
		if s.TaskPoolKeys[i] != h.ch.hashes[idx] {
			return nil, vio("bookkeeping", "%s: task pool key %x maps to header %x", when, s.TaskPoolKeys[i], h.ch.hashes[idx])
		}
		cP[idx]++
	}
	for id, hdrs := range s.Pend {
		var owner *peerState
		for _, p := range h.peers {
			if p.id == id {
				owner = p
			}
		}
		if owner == nil || owner.conn == nil {
			return nil, vio("bookkeeping", "%s: pending request for peer %q which is not connected", when, id)
		}
		if owner.req == nil {
			return nil, vio("bookkeeping", "%s: peer %q has a pending request the harness does not know of (it was delivered, cancelled, expired or revoked)", when, id)
		}
		if s.PendPeer[id] != id {
			return nil, vio("bookkeeping", "%s: pending request filed under %q belongs to peer %q", when, id, s.PendPeer[id])
		}
		var live []*types.Header
		for _, hd := range hdrs {
			if hd != nil {
				live = append(live, hd)
			}
		}
		if len(live) != len(owner.hdrs) {
			return nil, vio("bookkeeping", "%s: pending request of %q holds %d headers, it was reserved with %d", when, id, len(live), len(owner.hdrs))
		}
		for i, hd := range live {
			idx, v := lookup(hd, "pending request of "+id)
			if v != nil {
				return nil, v
			}
			if hd != owner.hdrs[i] {
				return nil, vio("bookkeeping", "%s: pending request of %q changed: position %d is #%v, reserved #%v", when, id, i, hd.Number, owner.hdrs[i].Number)
			}
			cF[idx]++
		}
	}
	for _, p := range h.peers {
		if p.req != nil {
			if _, ok := s.Pend[p.id]; !ok {
				return nil, vio("bookkeeping", "%s: the request reserved for peer %q is no longer pending although nothing ended it", when, p.id)
			}
		}
	}
	for _, k := range s.Done {
		idx, ok := h.ch.index[k]
		if !ok {
			return nil, vio("bookkeeping", "%s: done pool holds unknown hash %x", when, k)
		}
		cD[idx]++
	}
	for _, sl := range s.Slots {
		num := s.ResultOffset + uint64(sl.Index)
		if num < h.ch.first || num >= h.ch.first+uint64(n) {
			return nil, vio("bookkeeping", "%s: result slot %d (block %d) is outside the chain", when, sl.Index, num)
		}
		idx := int(num - h.ch.first)
		r := sl.Result
		if r.Header != h.ch.headers[idx] || r.Hash != h.ch.hashes[idx] {
			return nil, vio("order", "%s: result slot for block %d holds header #%v %x", when, num, r.Header.Number, r.Hash)
		}
		switch r.Pending {
		case 1:
			slot[idx] = 1
		case 0:
			slot[idx] = 2
			if !sameBody(r.Transactions, h.ch.bodies[idx]) {
				return nil, vio("body-mismatch", "%s: completed result for block %d carries %d transactions that are not the block's %d transactions", when, num, len(r.Transactions), len(h.ch.bodies[idx]))
			}
		default:
			return nil, vio("bookkeeping", "%s: result slot for block %d has Pending=%d", when, num, r.Pending)
		}
		if len(r.Receipts) != 0 {
			return nil, vio("bookkeeping", "%s: result for block %d carries receipts in full sync", when, num)
		}
	}
	loc := make([]int, n)
	for i := 0; i < n; i++ {
		num := h.ch.first + uint64(i)
		desc := func() string {
			return fmt.Sprintf("queue=%d pending=%d taskpool=%d done=%d slot=%d", cQ[i], cF[i], cP[i], cD[i], slot[i])
		}
		switch {
		case i < h.delivered:
			loc[i] = locO
			if cQ[i]+cF[i]+cP[i]+cD[i]+slot[i] != 0 {
				return nil, vio("bookkeeping", "%s: block %d was already handed out by Results but is still tracked (%s)", when, num, desc())
			}
		case i >= h.nextSched:
			loc[i] = locU
			if cQ[i]+cF[i]+cP[i]+cD[i]+slot[i] != 0 {
				return nil, vio("bookkeeping", "%s: block %d was not accepted by Schedule but is tracked (%s)", when, num, desc())
			}
		case cQ[i] == 1 && cF[i] == 0 && cP[i] == 1 && cD[i] == 0 && slot[i] != 2:
			loc[i] = locQ
		case cQ[i] == 0 && cF[i] == 1 && cP[i] == 1 && cD[i] == 0 && slot[i] == 1:
			loc[i] = locF
		case cQ[i] == 0 && cF[i] == 0 && cP[i] == 0 && cD[i] == 1 && slot[i] == 2:
			loc[i] = locD
		default:
			return nil, vio("bookkeeping", "%s: scheduled block %d is not in exactly one of {task queue, one pending request, done pool}: %s", when, num, desc())
		}
	}
	// derived counters must agree
	nQ, nActive := 0, 0
	for i := range loc {
		if loc[i] == locQ {
			nQ++
		}
		if loc[i] == locQ || loc[i] == locF || loc[i] == locD {
			nActive++
		}
	}
	if got := h.q.PendingBlocks(); got != nQ {
		return nil, vio("bookkeeping", "%s: PendingBlocks() = %d, %d headers are queued", when, got, nQ)
	}
	if got := h.q.InFlightBlocks(); got != (h.inflightCount() > 0) {
		return nil, vio("bookkeeping", "%s: InFlightBlocks() = %v with %d requests in flight", when, got, h.inflightCount())
	}
	if got := h.q.Idle(); got != (nActive == 0) {
		return nil, vio("bookkeeping", "%s: Idle() = %v with %d blocks scheduled and not handed out", when, got, nActive)
	}
	if h.q.PendingReceipts() != 0 || h.q.InFlightReceipts() {
		return nil, vio("bookkeeping", "%s: receipt work in full sync mode", when)
	}
	return loc, nil
}

// step observes the queue and checks that, compared with the previous observation,
// only transitions listed in allowed happened. allowed maps header index -> permitted
// new location(s) (bit set of 1<<loc); all other headers must not have moved.
func (h *harness) step(when string, allowed map[int]int) *violation {
	loc, v := h.observe(when)
	if v != nil {
		return v
	}
	for i := range loc {
		if loc[i] == h.loc[i] {
			continue
		}
		if allowed[i]&(1<<uint(loc[i])) == 0 {
			class := "bookkeeping"
			if h.loc[i] == locF && loc[i] != locQ {
				class = "reassign"
			}
			return vio(class, "%s: block %d moved from %s to %s, which this operation must not cause", when, h.ch.first+uint64(i), locName[h.loc[i]], locName[loc[i]])
		}
	}
	h.loc = loc
	return nil
}

// pick lists the peers that have (busy) or do not have a request in flight.
func (h *harness) pick(busy bool) []*peerState {
	var out []*peerState
	for _, p := range h.peers {
		if (p.req != nil) == busy {
			out = append(out, p)
		}
	}
	return out
}

func (h *harness) idxOf(hd *types.Header) int { return h.ch.ptr[hd] }

// fault records that a fault hit an in-flight request.
func (h *harness) fault(kind string, othersInFlight bool) {
	h.labels["fault:"+kind] = true
	h.nontriv = true
	if othersInFlight {
		h.labels["fault-while-others-in-flight"] = true
	}
}

func (h *harness) peerConn(p *peerState) *downloader.VerifPeer {
	if p.conn == nil {
		p.conn = downloader.VerifNewPeer(p.id)
		p.emptied = false
	}
	return p.conn
}

func (h *harness) schedule(when string, hdrs []*types.Header, from uint64, wantAccepted int) *violation {
	ins := h.q.Schedule(hdrs, from)
	if len(ins) != wantAccepted {
		class := "schedule-refused-good"
		if len(ins) > wantAccepted {
			class = "schedule-accepted-bad"
		}
		return vio(class, "%s: Schedule(%d headers, from %d) accepted %d, the contiguous hash-linked continuation has %d", when, len(hdrs), from, len(ins), wantAccepted)
	}
	allowed := map[int]int{}
	for i, hd := range ins {
		if hd != hdrs[i] {
			return vio("schedule-accepted-bad", "%s: Schedule returned header #%v at position %d, submitted #%v", when, hd.Number, i, hdrs[i].Number)
		}
		allowed[h.nextSched+i] = 1 << locQ
	}
	h.nextSched += len(ins)
	if len(ins) > 0 {
		h.headSet = true
	}
	if v := h.step(when, allowed); v != nil {
		return v
	}
	for i := range ins {
		if h.loc[h.nextSched-len(ins)+i] != locQ {
			return vio("schedule-refused-good", "%s: accepted block %d is not queued", when, h.ch.first+uint64(h.nextSched-len(ins)+i))
		}
	}
	return nil
}

func (h *harness) reserve(when string, p *peerState, count int) (*violation, bool) {
	conn := h.peerConn(p)
	had := p.req != nil
	req, progress, err := h.q.ReserveBodies(conn, count)
	if err != nil {
		return vio("invalid-chain", "%s: ReserveBodies failed on a valid chain: %v (the downloader aborts the sync on this)", when, err), false
	}
	if had {
		if req != nil || progress {
			return vio("bookkeeping", "%s: peer %s already has a request in flight but ReserveBodies returned request=%v progress=%v", when, p.id, req != nil, progress), false
		}
		return h.step(when, nil), false
	}
	allowed := map[int]int{}
	for i := h.delivered; i < h.nextSched; i++ {
		if h.loc[i] == locQ && h.c.Blocks[i] == 0 {
			allowed[i] = 1 << locD // empty blocks complete without a fetch
		}
	}
	if req != nil {
		hs := req.Headers()
		if req.PeerID() != p.id {
			return vio("bookkeeping", "%s: request for %s is owned by %s", when, p.id, req.PeerID()), false
		}
		if len(hs) == 0 || len(hs) > count {
			return vio("bookkeeping", "%s: reserved %d headers with count %d", when, len(hs), count), false
		}
		seen := map[int]bool{}
		for _, hd := range hs {
			idx, ok := h.ch.ptr[hd]
			if !ok {
				return vio("bookkeeping", "%s: reserved unknown header #%v", when, hd.Number), false
			}
			if seen[idx] {
				return vio("bookkeeping", "%s: block %d reserved twice in one request", when, hd.Number), false
			}
			seen[idx] = true
			if h.loc[idx] != locQ {
				return vio("bookkeeping", "%s: reserved block %d which was %s, not queued", when, hd.Number, locName[h.loc[idx]]), false
			}
			if h.c.Blocks[idx] == 0 {
				return vio("bookkeeping", "%s: reserved the empty block %d for download", when, hd.Number), false
			}
			allowed[idx] = 1 << locF
		}
		p.req, p.hdrs = req, hs
		if h.inflightCount() >= 2 {
			h.labels["concurrent-requests"] = true
		}
	}
	old := append([]int(nil), h.loc...)
	if v := h.step(when, allowed); v != nil {
		return v, false
	}
	moved := false
	for i := range old {
		if old[i] == locQ && h.loc[i] == locD {
			moved = true
		}
	}
	if moved != progress {
		return vio("bookkeeping", "%s: ReserveBodies reported progress=%v, empty blocks completed=%v", when, progress, moved), false
	}
	if req != nil {
		for _, hd := range p.hdrs {
			if h.loc[h.idxOf(hd)] != locF {
				return vio("bookkeeping", "%s: reserved block %d is not in flight", when, hd.Number), false
			}
		}
	}
	return nil, req != nil || progress
}

// deliver sends bodies on behalf of p and checks the outcome. honest: the bodies are the
// complete, correct answer to the request (possibly followed by extra ones).
func (h *harness) deliver(when string, p *peerState, bodies [][]*types.Transaction, honest bool) *violation {
	p.last, p.sent = bodies, true
	accepted, err := h.q.DeliverBodies(p.id, bodies)
	if err == downloader.VerifErrInvalidChain {
		return vio("invalid-chain", "%s: DeliverBodies returned errInvalidChain on a valid chain (the downloader aborts the sync on this)", when)
	}
	if p.req == nil {
		if accepted != 0 || err == nil {
			return vio("unsolicited-accepted", "%s: peer %s has no request in flight, DeliverBodies(%d bodies) returned accepted=%d err=%v", when, p.id, len(bodies), accepted, err)
		}
		return h.step(when, nil)
	}
	hdrs := p.hdrs
	p.req, p.hdrs = nil, nil
	allowed := map[int]int{}
	matching := 0
	for pos, hd := range hdrs {
		idx := h.idxOf(hd)
		allowed[idx] = 1 << locQ
		if pos < len(bodies) && sameBody(bodies[pos], h.ch.bodies[idx]) {
			allowed[idx] |= 1 << locD
			matching++
		}
	}
	if len(bodies) == 0 && p.conn != nil {
		p.emptied = true
	}
	if v := h.step(when, allowed); v != nil {
		return v
	}
	done := 0
	for _, hd := range hdrs {
		if h.loc[h.idxOf(hd)] == locD {
			done++
		}
	}
	if done != accepted {
		return vio("bookkeeping", "%s: DeliverBodies returned accepted=%d, %d requested blocks completed", when, accepted, done)
	}
	if honest {
		if done != len(hdrs) || err != nil {
			return vio("honest-delivery-refused", "%s: the complete correct answer to %d requested blocks completed %d (err=%v)", when, len(hdrs), done, err)
		}
	}
	_ = matching
	return nil
}

func (h *harness) results(when string) *violation {
	rs := h.q.Results()
	if len(rs) > downloader.VerifMaxResultsProcess() {
		return vio("order", "%s: Results returned %d items", when, len(rs))
	}
	allowed := map[int]int{}
	for k, r := range rs {
		i := h.delivered + k
		if i >= len(h.ch.headers) {
			return vio("order", "%s: Results returned %d blocks beyond the end of the chain", when, len(rs)-k)
		}
		want := h.ch.first + uint64(i)
		if r.Header == nil || r.Header.Number == nil || r.Header.Number.Uint64() != want {
			return vio("order", "%s: Results item %d is block %v, the next block to hand out is %d (already handed out: %d blocks from %d)", when, k, r.Header.Number, want, h.delivered, h.ch.first)
		}
		if r.Header != h.ch.headers[i] || r.Hash != h.ch.hashes[i] {
			return vio("order", "%s: Results item %d for block %d carries a different header %x", when, k, want, r.Header.Hash())
		}
		if r.Pending != 0 {
			return vio("order", "%s: Results handed out block %d with %d fetches pending", when, want, r.Pending)
		}
		if !sameBody(r.Transactions, h.ch.bodies[i]) {
			return vio("body-mismatch", "%s: Results handed out block %d with %d transactions that are not the block's %d transactions", when, want, len(r.Transactions), len(h.ch.bodies[i]))
		}
		if h.loc[i] != locD {
			return vio("order", "%s: Results handed out block %d which was %s", when, want, locName[h.loc[i]])
		}
		allowed[i] = 1 << locO
	}
	h.delivered += len(rs)
	if len(rs) >= 2 {
		h.labels["results-batch>=2"] = true
		if h.c.Mem > 0 {
			h.labels["results-batch>=2,small-mem"] = true
		}
	}
	return h.step(when, allowed)
}

func (h *harness) expireAll(when string, countFault bool) *violation {
	allowed := map[int]int{}
	want := map[string]int{}
	for _, p := range h.peers {
		if p.req != nil {
			want[p.id] = len(p.hdrs)
			for _, hd := range p.hdrs {
				allowed[h.idxOf(hd)] = 1 << locQ
			}
		}
	}
	if len(want) > 0 && countFault {
		h.fault("expire", len(want) >= 2)
	}
	got := h.q.ExpireBodies(-time.Hour) // every in-flight request is older than a negative timeout
	if len(got) != len(want) {
		return vio("reassign", "%s: ExpireBodies(everything) reported %d peers, %d requests were in flight", when, len(got), len(want))
	}
	for id, n := range want {
		if got[id] != n {
			return vio("reassign", "%s: ExpireBodies reported %d expired fetches for %s, its request had %d", when, got[id], id, n)
		}
	}
	for _, p := range h.peers {
		p.req, p.hdrs = nil, nil
	}
	if v := h.step(when, allowed); v != nil {
		return v
	}
	for i, l := range h.loc {
		if l == locF {
			return vio("reassign", "%s: block %d still in flight after everything expired", when, h.ch.first+uint64(i))
		}
	}
	return nil
}

// otherBody returns the body of some non-empty block other than idx (nil if there is none).
func (h *harness) otherBody(idx, sel int) []*types.Transaction {
	var cand []int
	for i, n := range h.c.Blocks {
		if n > 0 && i != idx {
			cand = append(cand, i)
		}
	}
	if len(cand) == 0 {
		return []*types.Transaction{mkTx(idx, 0, 7)}
	}
	return h.ch.bodies[cand[sel%len(cand)]]
}

func (h *harness) buildBodies(op Op, hdrs []*types.Header, p *peerState) ([][]*types.Transaction, bool, string) {
	full := make([][]*types.Transaction, len(hdrs))
	for i, hd := range hdrs {
		full[i] = h.ch.bodies[h.idxOf(hd)]
	}
	how := op.How
	switch how {
	case "prefix":
		if len(full) < 2 {
			how = "empty"
		}
	case "shuffled":
		if len(full) < 2 {
			how = "other"
		}
	case "duplicate":
		if !p.sent {
			how = "other"
		}
	}
	switch how {
	case "complete":
		return full, true, how
	case "extra":
		return append(full, h.otherBody(-1, op.N), nil), true, how
	case "prefix":
		return full[:1+op.N%(len(full)-1)], false, how
	case "empty":
		return [][]*types.Transaction{}, false, how
	case "other":
		out := make([][]*types.Transaction, len(full))
		for i, hd := range hdrs {
			out[i] = h.otherBody(h.idxOf(hd), op.N+i)
		}
		return out, false, how
	case "shifted":
		// the right bodies, one position late (first one is another block's)
		out := append([][]*types.Transaction{h.otherBody(h.idxOf(hdrs[0]), op.N)}, full...)
		return out[:len(full)], false, how
	case "shuffled":
		out := append([][]*types.Transaction(nil), full...)
		r := 1 + op.N%(len(out)-1)
		out = append(out[r:], out[:r]...)
		if op.M%2 == 1 { // keep a correct head, swap two later ones (partial acceptance)
			out = append([][]*types.Transaction(nil), full...)
			i := op.N % len(out)
			j := (i + 1) % len(out)
			out[i], out[j] = out[j], out[i]
		}
		return out, false, how
	case "corrupt":
		out := append([][]*types.Transaction(nil), full...)
		j := op.N % len(out)
		orig := out[j]
		idx := h.idxOf(hdrs[j])
		switch op.M % 5 {
		case 0: // one transaction altered
			b := append([]*types.Transaction(nil), orig...)
			b[op.N%len(b)] = mkTx(idx, op.N%len(b), 3)
			out[j] = b
		case 1: // one transaction dropped
			out[j] = orig[1:]
		case 2: // one appended
			out[j] = append(append([]*types.Transaction(nil), orig...), mkTx(idx, 5, 4))
		case 3: // empty list
			out[j] = nil
		default: // order of transactions changed (or altered if there is only one)
			b := append([]*types.Transaction(nil), orig...)
			if len(b) >= 2 {
				b[0], b[1] = b[1], b[0]
			} else {
				b[0] = mkTx(idx, 0, 5)
			}
			out[j] = b
		}
		return out, false, how
	case "duplicate":
		return p.last, false, how
	}
	return full, true, "complete"
}

func runCase(c Case) kit.Result {
	if len(c.Blocks) == 0 || c.Peers < 1 {
		return kit.Discarded("empty case")
	}
	defer downloader.VerifSetBlockCacheMemory(c.Mem)()
	h := &harness{c: c, ch: buildChain(c.Origin, c.Blocks, c.Payload), labels: map[string]bool{}}
	n := len(c.Blocks)
	h.q = downloader.VerifNewQueue(c.Cache)
	h.q.Reset() // Downloader.synchronise resets the queue before every sync
	h.q.Prepare(c.Origin + 1)
	for i := 0; i < c.Peers; i++ {
		h.peers = append(h.peers, &peerState{id: fmt.Sprintf("peer-%d", i)})
	}
	stranger := &peerState{id: "stranger"}
	h.loc = make([]int, n)
	if v := h.step("start", nil); v != nil {
		return kit.Fail(v.class, "%s", v.msg)
	}
	fail := func(v *violation) kit.Result { return kit.Fail(v.class, "%s", v.msg) }

	for k, op := range c.Ops {
		when := fmt.Sprintf("op %d (%s %s)", k, op.Kind, op.How)
		switch op.Kind {
		case "schedule":
			cnt := op.N
			if cnt > n-h.nextSched {
				cnt = n - h.nextSched
			}
			if cnt == 0 {
				continue
			}
			if v := h.schedule(when, h.ch.headers[h.nextSched:h.nextSched+cnt], h.ch.first+uint64(h.nextSched), cnt); v != nil {
				return fail(v)
			}
		case "badsched":
			hdrs, from, want, ok := h.badChunk(op)
			if !ok {
				continue
			}
			h.labels["badsched:"+op.How] = true
			if v := h.schedule(when, hdrs, from, want); v != nil {
				return fail(v)
			}
		case "reserve":
			p := h.peers[op.Peer%len(h.peers)]
			if op.M == 0 {
				if idle := h.pick(false); len(idle) > 0 {
					p = idle[op.Peer%len(idle)]
				}
			}
			v, _ := h.reserve(when, p, op.N)
			if v != nil {
				return fail(v)
			}
		case "deliver":
			busy := h.pick(true)
			if len(busy) == 0 {
				continue
			}
			p := busy[op.Peer%len(busy)]
			bodies, honest, how := h.buildBodies(op, p.hdrs, p)
			if !honest {
				h.fault("deliver-"+how, h.inflightCount() >= 2)
			} else {
				h.labels["deliver-"+how] = true
			}
			if v := h.deliver(when, p, bodies, honest); v != nil {
				return fail(v)
			}
		case "unsolicited":
			p := stranger
			if op.Peer < len(h.peers) {
				p = h.peers[op.Peer]
			}
			if p.req != nil {
				continue
			}
			var bodies [][]*types.Transaction
			for j := 0; j < op.M; j++ {
				bodies = append(bodies, h.otherBody(-1, op.N+j))
			}
			h.labels["unsolicited"] = true
			if v := h.deliver(when, p, bodies, false); v != nil {
				return fail(v)
			}
		case "cancel":
			busy := h.pick(true)
			if len(busy) == 0 {
				continue
			}
			p := busy[op.Peer%len(busy)]
			h.fault("cancel", h.inflightCount() >= 2)
			allowed := map[int]int{}
			for _, hd := range p.hdrs {
				allowed[h.idxOf(hd)] = 1 << locQ
			}
			h.q.CancelBodies(p.req)
			hdrs := p.hdrs
			p.req, p.hdrs = nil, nil
			if v := h.step(when, allowed); v != nil {
				return fail(v)
			}
			for _, hd := range hdrs {
				if h.loc[h.idxOf(hd)] != locQ {
					return fail(vio("reassign", "%s: block %d of the cancelled request is %s, not queued", when, hd.Number, locName[h.loc[h.idxOf(hd)]]))
				}
			}
		case "expire":
			if v := h.expireAll(when, true); v != nil {
				return fail(v)
			}
		case "expire_none":
			if got := h.q.ExpireBodies(1000 * time.Hour); len(got) != 0 {
				return fail(vio("reassign", "%s: ExpireBodies(1000h) expired %d requests that are at most seconds old", when, len(got)))
			}
			if v := h.step(when, nil); v != nil {
				return fail(v)
			}
		case "revoke":
			p := h.peers[op.Peer%len(h.peers)]
			if busy := h.pick(true); len(busy) > 0 && op.M == 0 {
				p = busy[op.Peer%len(busy)]
			}
			allowed := map[int]int{}
			hdrs := p.hdrs
			if p.req != nil {
				h.fault("revoke", h.inflightCount() >= 2)
				for _, hd := range p.hdrs {
					allowed[h.idxOf(hd)] = 1 << locQ
				}
			}
			h.q.Revoke(p.id) // UnregisterPeer: revoke, then the peer is gone
			p.req, p.hdrs, p.conn = nil, nil, nil
			if v := h.step(when, allowed); v != nil {
				return fail(v)
			}
			for _, hd := range hdrs {
				if h.loc[h.idxOf(hd)] != locQ {
					return fail(vio("reassign", "%s: block %d of the revoked peer is %s, not queued", when, hd.Number, locName[h.loc[h.idxOf(hd)]]))
				}
			}
		case "results":
			if v := h.results(when); v != nil {
				return fail(v)
			}
		case "resync":
			// a new Synchronise cycle on the same queue: everything handed out so far was
			// imported, so the new origin is the last handed-out block
			if h.inflightCount() > 0 {
				h.labels["resync-with-requests-in-flight"] = true
			}
			h.labels["resync"] = true
			h.q.Reset()
			for _, p := range h.peers {
				p.req, p.hdrs = nil, nil
				if p.conn != nil {
					p.conn.Reset() // PeerSet.Reset
					p.emptied = false
				}
			}
			h.q.Prepare(h.ch.first + uint64(h.delivered))
			allowed := map[int]int{}
			for i := h.delivered; i < h.nextSched; i++ {
				allowed[i] = 1 << locU
			}
			h.nextSched, h.headSet = h.delivered, false
			if v := h.step(when, allowed); v != nil {
				return fail(v)
			}
		}
	}

	// ---- bounded fairness suffix -----------------------------------------------------
	prefixDelivered := h.delivered
	if h.nextSched < n {
		if v := h.schedule("suffix schedule", h.ch.headers[h.nextSched:], h.ch.first+uint64(h.nextSched), n-h.nextSched); v != nil {
			return fail(v)
		}
	}
	if v := h.expireAll("suffix expire", false); v != nil { // every stalled request times out eventually
		return fail(v)
	}
	honest := &peerState{id: "honest"}
	if c.HonestPeer >= 0 && c.HonestPeer < len(h.peers) && !h.peers[c.HonestPeer].emptied {
		honest = h.peers[c.HonestPeer]
		h.labels["honest=existing-peer"] = true
	} else {
		h.peers = append(h.peers, honest)
	}
	count := c.HonestCount
	if count < 1 {
		count = 1
	}
	rounds := 0
	for ; h.delivered < n && rounds < 4*n+16; rounds++ {
		when := fmt.Sprintf("suffix round %d", rounds)
		v, _ := h.reserve(when+" reserve", honest, count)
		if v != nil {
			return fail(v)
		}
		if honest.req != nil {
			bodies, _, _ := h.buildBodies(Op{How: "complete"}, honest.hdrs, honest)
			if v := h.deliver(when+" deliver", honest, bodies, true); v != nil {
				return fail(v)
			}
		}
		if v := h.results(when + " results"); v != nil {
			return fail(v)
		}
	}
	if h.delivered < n {
		return kit.Fail("liveness", "after the adversarial prefix (%d of %d blocks handed out) an honest peer reserving %d at a time and answering completely got only %d of %d blocks handed out in %d rounds; locations: %s",
			prefixDelivered, n, count, h.delivered, n, rounds, h.locSummary())
	}
	if !h.q.Idle() || h.q.PendingBlocks() != 0 || h.q.InFlightBlocks() {
		return kit.Fail("bookkeeping", "everything handed out but Idle()=%v PendingBlocks()=%d InFlightBlocks()=%v", h.q.Idle(), h.q.PendingBlocks(), h.q.InFlightBlocks())
	}
	if extra := h.q.Results(); len(extra) != 0 {
		return kit.Fail("order", "Results returned %d more items after the whole chain was handed out", len(extra))
	}

	var ls []string
	for l := range h.labels {
		ls = append(ls, l)
	}
	if c.Mem > 0 {
		ls = append(ls, "small-mem")
	}
	if c.Payload > 0 {
		ls = append(ls, "payloads")
	}
	if c.Cache > 0 {
		ls = append(ls, "small-cache")
		if c.Cache < n {
			ls = append(ls, "cache<chain")
		}
	}
	switch {
	case n <= 3:
		ls = append(ls, "n:1-3")
	case n <= 12:
		ls = append(ls, "n:4-12")
	case n <= 40:
		ls = append(ls, "n:13-40")
	default:
		ls = append(ls, "n:41-300")
	}
	if len(c.Ops) >= 25 {
		ls = append(ls, "ops>=25")
	}
	if prefixDelivered > 0 && prefixDelivered < n {
		ls = append(ls, "prefix-handed-out-part")
	}
	sort.Strings(ls)
	return kit.OK(h.nontriv, ls...)
}

func (h *harness) locSummary() string {
	cnt := make([]int, 5)
	for _, l := range h.loc {
		cnt[l]++
	}
	return fmt.Sprintf("unscheduled=%d queued=%d in-flight=%d done=%d handed-out=%d", cnt[0], cnt[1], cnt[2], cnt[3], cnt[4])
}

// badChunk builds a header batch that is not the contiguous, hash-linked continuation
// of what was scheduled (entirely, or after a good prefix). It returns the batch, the
// `from` argument, and how many headers Schedule must accept.
func (h *harness) badChunk(op Op) ([]*types.Header, uint64, int, bool) {
	n := len(h.ch.headers)
	next := h.nextSched
	nextNum := h.ch.first + uint64(next)
	switch op.How {
	case "stale": // an earlier batch again (number matches `from`, ancestry does not)
		if !h.headSet || next < 2 {
			return nil, 0, 0, false
		}
		a := op.M % (next - 1) // a <= next-2, so its parent is not the queue's head
		b := a + op.N
		if b > next {
			b = next
		}
		return h.ch.headers[a:b], h.ch.first + uint64(a), 0, true
	case "gap": // skips at least one header
		if !h.headSet || next+1 >= n {
			return nil, 0, 0, false
		}
		a := next + 1 + op.M%(n-next-1)
		b := a + op.N
		if b > n {
			b = n
		}
		return h.ch.headers[a:b], h.ch.first + uint64(a), 0, true
	case "wrongfrom": // the right headers announced under a wrong start number
		if next >= n {
			return nil, 0, 0, false
		}
		b := next + op.N
		if b > n {
			b = n
		}
		from := nextNum + 1
		if op.M%2 == 1 && nextNum > 0 {
			from = nextNum - 1
		}
		return h.ch.headers[next:b], from, 0, true
	case "fork": // right number, unknown parent
		if !h.headSet || next >= n {
			return nil, 0, 0, false
		}
		f := types.CopyHeader(h.ch.headers[next])
		f.ParentHash = common.BytesToHash([]byte{0xf0, byte(op.M)})
		return []*types.Header{f}, nextNum, 0, true
	case "midbreak", "middup": // good prefix, then a skipped (or repeated) header
		good := 1 + op.M%3
		if next+good+1 >= n {
			return nil, 0, 0, false
		}
		hdrs := append([]*types.Header(nil), h.ch.headers[next:next+good]...)
		if op.How == "midbreak" {
			hdrs = append(hdrs, h.ch.headers[next+good+1:]...)
		} else {
			hdrs = append(hdrs, h.ch.headers[next+good-1])
			hdrs = append(hdrs, h.ch.headers[next+good:]...)
		}
		if len(hdrs) > good+1+op.N {
			hdrs = hdrs[:good+1+op.N]
		}
		return hdrs, nextNum, good, true
	}
	return nil, 0, 0, false
}

var _ = kit.Register(kit.Prop[Case]{
	Name: "QueueSchedule",
	Rule: "header chains of 1-300 blocks (each empty or with 1-3 transactions) from origins {0,1,7,1000,2^33}, 1-5 peers, result cache of 8192 or 2-12 slots, result cache memory allowance (package variable blockCacheMemory, set through the shim for the duration of the case) of the default 64 MiB or scaled down to 2-64 KiB together with the block sizes (first transaction of a block carries 0-3000 bytes of payload) so that a few completed blocks exceed fractions of the allowance, and 1-60 generated operations: schedule next chunk / bad chunk (stale, gap, wrong start number, unknown parent, break or repeat after a good prefix), reserve(peer,count), deliver(peer, complete|extra|prefix|empty|other blocks|shifted|shuffled|one body corrupted|duplicate of earlier delivery), unsolicited delivery, cancel, expire(all / none), revoke (peer disconnects, may reconnect), results, re-sync (Reset+Prepare at the handed-out height); then a bounded fairness suffix with one honest peer. After every operation the real bookkeeping is read and checked (partition, permitted transitions, results in order with the block's own transactions); non-trivial = a cancel, expiry, revoke or incomplete/wrong delivery hit a request that was in flight; distinct = FNV-64 of the case JSON",
	Gen:  genCase, Run: runCase,
	Quick: 2500, Thorough: 30000, Chunk: 500, MinNonTrivialPct: 28,
})
