package c04

import (
	"bytes"
	"crypto/ecdsa"
	"crypto/sha256"
	"encoding/hex"
	"fmt"
	"math"
	"math/big"
	"sort"
	"strings"
	"sync"
	"testing"

	"github.com/youchainhq/go-youchain/common"
	"github.com/youchainhq/go-youchain/consensus/ucon"
	ycrypto "github.com/youchainhq/go-youchain/crypto"
	"github.com/youchainhq/go-youchain/crypto/vrf"
	secp256k1VRF "github.com/youchainhq/go-youchain/crypto/vrf/secp256k1"
	"gonum.org/v1/gonum/stat/distuv"
	"pgregory.net/rapid"
	"verif/kit"
)

func TestMain(m *testing.M)   { kit.Main(m, "C04") }
func TestProps(t *testing.T)  { kit.RunAll(t) }
func TestReplay(t *testing.T) { kit.ReplayAll(t) }

// pFloat is the probability exactly as every caller of choose computes it
// (VrfSortition / VrfVerifySortition / VrfVerifyPriority).
func pFloat(T, S uint64) float64 {
	p, _ := new(big.Float).Quo(new(big.Float).SetUint64(T), new(big.Float).SetInt(new(big.Int).SetUint64(S))).Float64()
	return p
}

func bigU(x uint64) *big.Int { return new(big.Int).SetUint64(x) }

func sortedLabels(m map[string]bool) []string {
	var ls []string
	for k := range m {
		ls = append(ls, k)
	}
	sort.Strings(ls)
	return ls
}

// ---------------------------------------------------------------------------------
// parameters shared by the generators

var shippedT = []uint64{1, 26, 2000, 4000}

type sizes struct{ T, S, W uint64 }

// drawDecades draws a value in [1, 10^maxExp], log-uniform over the decades (rapid's
// plain integer ranges are heavily biased towards small values).
func drawDecades(t *rapid.T, label string, maxExp int) uint64 {
	e := rapid.IntRange(0, maxExp).Draw(t, label+"Exp")
	if e == maxExp {
		return uint64(math.Pow(10, float64(maxExp)))
	}
	frac := float64(rapid.IntRange(0, 9999).Draw(t, label+"Frac")) / 10000
	return uint64(math.Pow(10, float64(e)) * (1 + 9*frac))
}

// genSizes draws (threshold, total stake, stake) with T in [1,10^4], w in [1,10^7],
// max(T,w) <= S <= 10^9 (so p = T/S <= 1, p = 1 included), with extra mass on
// w in {1, 2, S}, on the shipped thresholds, and on expected seat counts w*T/S chosen
// log-uniformly in [max(0.01,minLambda), min(w,T)] with a cluster around 12..30 (the
// forward / binary search switch of choose sits at 20).
func genSizes(t *rapid.T, minLambda float64) sizes {
	var z sizes
	if rapid.IntRange(0, 9).Draw(t, "tShipped") < 3 {
		z.T = rapid.SampledFrom(shippedT).Draw(t, "T")
	} else {
		z.T = drawDecades(t, "T", 4)
	}
	switch rapid.IntRange(0, 9).Draw(t, "wKind") {
	case 0:
		z.W = 1
	case 1:
		z.W = 2
	default:
		z.W = drawDecades(t, "w", 7)
	}
	lo := z.T
	if z.W > lo {
		lo = z.W
	}
	mn := float64(z.T)
	if float64(z.W) < mn {
		mn = float64(z.W)
	}
	switch k := rapid.IntRange(0, 19).Draw(t, "sKind"); {
	case k == 0: // the validator holds the whole stake: w = S >= T
		z.S = lo
		if lo <= 10000000 {
			z.W = lo
		}
	case k == 1:
		z.S = lo // p = 1 when T >= w
	case k == 2:
		z.S = lo + drawDecades(t, "Sabove", 9) - 1
		if z.S > 1000000000 {
			z.S = 1000000000
		}
	default:
		// aim at an expected seat count lambda = w*T/S, reachable iff lambda <= min(w,T)
		var lambda float64
		if mn >= 30 && rapid.IntRange(0, 3).Draw(t, "near20") == 0 {
			lambda = float64(rapid.IntRange(1200, 3000).Draw(t, "lambda100")) / 100
		} else {
			loE := -2.0
			if minLambda > 0 {
				loE = math.Log10(minLambda)
			}
			hiE := math.Log10(mn)
			if hiE > 4 {
				hiE = 4
			}
			if hiE < loE {
				loE = hiE
			}
			// two small draws: rapid's wide integer ranges are biased towards their ends
			u := (float64(rapid.IntRange(0, 9).Draw(t, "lambdaDec")*100+rapid.IntRange(0, 99).Draw(t, "lambdaFine")) + 0.5) / 1000
			lambda = math.Pow(10, loE+u*(hiE-loE))
		}
		s := float64(z.W) * float64(z.T) / lambda
		if s > 1e9 {
			s = 1e9
		}
		z.S = uint64(s)
		if z.S < lo {
			z.S = lo
		}
	}
	return z
}

func (z sizes) lambda() float64 { return float64(z.W) * float64(z.T) / float64(z.S) }

// ---------------------------------------------------------------------------------
// Oracle A: choose is the exact binomial quantile (up to the stated float64 band)

// QCase is one evaluation of choose. The hash is given (raw) or constructed by runCase
// from the reference CDF (step: next to the CDF step found at quantile(Pos), DJ steps
// further, Dq quarters of the band half-width away; switch: around the 0.99 constant).
type QCase struct {
	T    uint64 `json:"threshold"`
	S    uint64 `json:"total_stake"`
	W    uint64 `json:"stake"`
	Kind string `json:"kind"`
	Hash string `json:"hash,omitempty"`
	Pos  string `json:"pos,omitempty"`
	DJ   int    `json:"dj,omitempty"`
	Dq   int    `json:"delta_quarters,omitempty"`
	M    int    `json:"tail_level,omitempty"` // tailstep: the upper-tail step found at Pr(X > j) <= 2^-M
}

var specialHashes = []string{
	"0000000000000000000000000000000000000000000000000000000000000000",
	"0000000000000000000000000000000000000000000000000000000000000001",
	"0000000000000000000000000000000000000000000000000000000000000002",
	"ffffffffffffffffffffffffffffffffffffffffffffffffffffffffffffffff",
	"fffffffffffffffffffffffffffffffffffffffffffffffffffffffffffffffe",
	"8000000000000000000000000000000000000000000000000000000000000000",
	"7fffffffffffffffffffffffffffffffffffffffffffffffffffffffffffffff",
	"fd70a3d70a3d70a3d70a3d70a3d70a3d70a3d70a3d70a3d70a3d70a3d70a3d70", // 0.99 (decimal) * 2^256
	"00000000000000000000000000000000ffffffffffffffffffffffffffffffff",
	"ffffffffffffffffffffffffffffffff00000000000000000000000000000000",
}

var stepPositions = []string{"1e-30", "1e-12", "1e-9", "1e-6", "0.001", "0.01", "0.1", "0.25", "0.5", "0.75", "0.9", "0.97", "0.985",
	"0.99", "0.992", "0.999", "0.999999", "0.999999999", "0.999999999999", "0.99999999999999999999"}

var deltaQuarters = []int{0, 1, -1, 2, -2, 8, -8, 8, -8, 40, -40, 4000, -4000, 4000000, -4000000}

func genQCase(t *rapid.T) QCase {
	z := genSizes(t, 0)
	c := QCase{T: z.T, S: z.S, W: z.W}
	switch k := rapid.IntRange(0, 19).Draw(t, "hashKind"); {
	case k < 6:
		c.Kind = "raw"
		c.Hash = hex.EncodeToString(rapid.SliceOfN(rapid.Byte(), 32, 32).Draw(t, "hash"))
	case k < 8:
		c.Kind = "raw"
		c.Hash = rapid.SampledFrom(specialHashes).Draw(t, "special")
	case k < 10:
		// uniform in the upper-tail branch: t in (0.9922, 1)
		c.Kind = "raw"
		b := rapid.SliceOfN(rapid.Byte(), 32, 32).Draw(t, "hash")
		b[0] = 0xfe + b[0]&1
		c.Hash = hex.EncodeToString(b)
	case k < 12:
		// just below the top: 2^256-1-k for small k, or 1 - 2^-m (the statement quantifies over
		// outputs up to 2^256-1; the upper-tail budget 1-t is far below float64 resolution at 1.0)
		c.Kind = "raw"
		top := new(big.Int).Set(maxHash)
		if rapid.IntRange(0, 2).Draw(t, "topKind") == 0 {
			k := rapid.SampledFrom([]int64{1, 2, 3, 4, 5, 7, 8, 15, 16, 100, 255, 256, 1000, 65535, 1 << 20, 1 << 40, 1 << 53, 1 << 62}).Draw(t, "k")
			top.Sub(top, big.NewInt(k))
		} else {
			m := rapid.IntRange(20, 250).Draw(t, "m")
			top.Sub(two256, new(big.Int).Lsh(big.NewInt(1), uint(256-m)))
			if rapid.IntRange(0, 3).Draw(t, "topMinus") == 0 {
				top.Sub(top, big.NewInt(1))
			}
		}
		c.Hash = fmt.Sprintf("%064x", top)
	case k < 14:
		// next to a step of the UPPER TAIL, at a relative distance (quarters of epsRel)
		c.Kind = "tailstep"
		c.M = rapid.IntRange(7, 190).Draw(t, "level")
		c.Dq = rapid.SampledFrom(deltaQuarters).Draw(t, "dq")
	case k < 19:
		c.Kind = "step"
		if rapid.Bool().Draw(t, "fixedPos") {
			c.Pos = rapid.SampledFrom(stepPositions).Draw(t, "pos")
		} else {
			c.Pos = fmt.Sprintf("0.%06d", rapid.IntRange(0, 999999).Draw(t, "ppm"))
		}
		c.DJ = rapid.IntRange(-1, 1).Draw(t, "dj")
		c.Dq = rapid.SampledFrom(deltaQuarters).Draw(t, "dq")
	default:
		c.Kind = "switch"
		c.Dq = rapid.SampledFrom(deltaQuarters).Draw(t, "dq")
	}
	return c
}

// the float64 constant 0.99 of the code under test, as an exact value
var const099 = newF().SetFloat64(0.99)

func (c QCase) hash() (*big.Int, error) {
	switch c.Kind {
	case "raw":
		b, err := hex.DecodeString(c.Hash)
		if err != nil || len(b) != 32 {
			return nil, fmt.Errorf("bad hash")
		}
		return new(big.Int).SetBytes(b), nil
	case "switch":
		// around the switch-over constant: exactly 0.99 (float64), one float64 ulp and more away
		d := newF().SetFloat64(float64(c.Dq) * 2.7e-17)
		return toHash(newF().Add(const099, d)), nil
	case "tailstep":
		s := newScanner(c.W, c.T, c.S)
		one := fU(1)
		if s.one || c.M < 1 || c.M > 250 {
			return new(big.Int).Sub(maxHash, big.NewInt(1)), nil
		}
		j := s.advanceTo(newF().Sub(one, newF().SetMantExp(one, -c.M)))
		if j >= c.W {
			return new(big.Int).Sub(maxHash, big.NewInt(1)), nil
		}
		tail := newF().Sub(one, s.cdf) // Pr(X > j)
		r := float64(c.Dq) / 4 * epsRel(c.W, c.T, c.S, j)
		if r < -0.5 {
			r = -0.5
		}
		u := newF().Mul(tail, newF().SetFloat64(1+r))
		return toHash(newF().Sub(one, u)), nil
	case "step":
		pos, ok := newF().SetString(c.Pos)
		if !ok {
			return nil, fmt.Errorf("bad pos")
		}
		s := newScanner(c.W, c.T, c.S)
		if s.one {
			// p = 1: F(j) = 0 for j < w, the only step is the one from 0 to 1 at j = w
			d := newF().SetFloat64(float64(c.Dq) / 4 * tau(c.W, 0))
			return toHash(d), nil
		}
		j := s.advanceTo(pos)
		var step *big.Float
		switch {
		case j >= c.W: // the last step below 1 is F(w-1)
			step = newF().Set(s.prev)
		case c.DJ < 0 && j > 0:
			step = newF().Set(s.prev)
		case c.DJ > 0 && j+1 < c.W:
			s.next()
			step = newF().Set(s.cdf)
		default:
			step = newF().Set(s.cdf)
		}
		sf, _ := step.Float64()
		d := newF().SetFloat64(float64(c.Dq) / 4 * tau(c.W, sf))
		return toHash(newF().Add(step, d)), nil
	}
	return nil, fmt.Errorf("bad kind")
}

func runQCase(c QCase) kit.Result {
	if c.T < 1 || c.W < 1 || c.S < c.T || c.S < c.W || c.W > 10000000 || c.S > 4000000000 || c.T > 100000 {
		return kit.Discarded("outside the domain 1<=T, 1<=w<=10^7, max(T,w)<=S")
	}
	hb, err := c.hash()
	if err != nil {
		return kit.Discarded(err.Error())
	}
	p := pFloat(c.T, c.S)
	got := ucon.VerifChoose(common.BigToHash(hb), bigU(c.W), p)
	if got < 0 || uint64(got) > c.W {
		return kit.Fail("seats-out-of-range", "choose(%064x, w=%d, p=%d/%d) = %d is outside [0, stake]", hb, c.W, c.T, c.S, got)
	}
	bi := band(c.W, c.T, c.S, hb)
	lo, mid, hi, steps := bi.lo, bi.mid, bi.hi, bi.steps
	tf, _ := fraction(hb).Float64()
	if uint64(got) < lo || uint64(got) > hi {
		rule := fmt.Sprintf("absolute band +-%.3g", tau(c.W, tf))
		if bi.relative {
			uf, _ := newF().Sub(fU(1), fraction(hb)).Float64()
			rule = fmt.Sprintf("mirrored branch: upper-tail budget 1-t = %.6g, relative band +-%.3g", uf, bi.eps)
		}
		return kit.Fail("not-the-quantile", "choose(hash=%064x, stake w=%d, p=%d/%d=%g) = %d, but the smallest j with F(j) >= hash/2^256 = %.18g is %d (accepted: [%d, %d]; %s); E[seats]=%.4g",
			hb, c.W, c.T, c.S, p, got, tf, mid, lo, hi, rule, float64(c.W)*p)
	}
	labels := map[string]bool{"kind:" + c.Kind: true}
	upper := tf > 0.99
	lam := float64(c.W) * p
	if upper {
		labels["upper-tail-branch"] = true
	} else if lam >= 20 {
		labels["binary-search-branch"] = true
	} else {
		labels["forward-search-branch"] = true
	}
	if lo != hi {
		labels["band-ambiguous"] = true
	}
	if uint64(got) == mid {
		labels["equals-exact-quantile"] = true
	} else {
		// how much of the band does the float64 result actually use? distance from t to the
		// CDF step the implementation put on the wrong side, as a fraction of tau
		labels["within-band-not-exact"] = true
	}
	if d := int64(got) - int64(mid); uint64(got) != mid && d < 50 && d > -50 && c.T < c.S {
		sc := newScanner(c.W, c.T, c.S)
		t := fraction(hb)
		var dev *big.Float
		if uint64(got) > mid {
			for sc.j+1 < uint64(got) && sc.j+1 < c.W {
				sc.next()
			}
			dev = newF().Sub(sc.cdf, t) // F(got-1) - t >= 0
		} else {
			for sc.j < uint64(got) && sc.j+1 < c.W {
				sc.next()
			}
			dev = newF().Sub(t, sc.cdf) // t - F(got) > 0
		}
		d, _ := dev.Float64()
		switch r := d / tau(c.W, tf); {
		case r < 0.001:
			labels["band-used:<0.1%"] = true
		case r < 0.01:
			labels["band-used:<1%"] = true
		case r < 0.1:
			labels["band-used:<10%"] = true
		case r < 0.5:
			labels["band-used:<50%"] = true
		default:
			labels["band-used:>=50%"] = true
		}
	}
	if bi.relative {
		labels["relative-upper-tail-rule"] = true
		if new(big.Int).Sub(maxHash, hb).BitLen() <= 256-53 {
			labels["far-upper-tail(1-t<2^-53)"] = true
			if hi < c.W {
				labels["far-upper-tail:quantile-below-stake"] = true
			}
		}
	}
	if c.Kind != "raw" {
		labels["boundary-constructed"] = true
		if c.Dq >= 8 || c.Dq <= -8 {
			labels["boundary-outside-band(decisive)"] = true
		}
	}
	if mid >= 1 {
		labels["seats>=1"] = true
	}
	if c.T == c.S {
		labels["p=1"] = true
	}
	if c.W == c.S {
		labels["w=S"] = true
	}
	if c.W >= 1000000 {
		labels["stake>=1e6"] = true
	}
	if steps >= 1000 {
		labels["ref-steps>=1000"] = true
	}
	return kit.OK(mid >= 1 || upper, sortedLabels(labels)...)
}

var _ = kit.Register(kit.Prop[QCase]{
	Name: "Quantile",
	Rule: "choose(hash, w, p) through the export shim for T in {1,26,2000,4000} u [1,10^4], w in [1,10^7] (mass on 1, 2, S), max(T,w) <= S <= 10^9 (p = 1 included; expected seats log-uniform 0.01..10^4 with a cluster at 12..30), hash uniform / constants (0, 1, 2, 2^256-1, 2^256-2, ...) / constructed next to a step of the reference CDF (at 20 fixed positions from 1e-30 to 1-1e-20 or a uniform one, +-1 step, 0, 1/4, 1/2, 2, 10, 10^3, 10^6 band half-widths to either side) / around the float64 constant 0.99; / just below the top (2^256-1-k, 1-2^-m for m in 20..250) / next to an upper-tail step at level 2^-7..2^-190 at relative distances; oracle: 512-bit reference CDF with p = T/S exact, accept iff quantile(t-tau) <= j <= quantile(t+tau), tau = 1e-9(1+t) + 2e-15*w*ln(w+2), and in the mirrored branch (t > 0.99) also iff the upper-tail budget u = 1-t explains j up to a RELATIVE eps = 2e-9 + 4e-15*w*ln(w+2) + 4(j+2)2^-53/p (u read as a fraction of 2^256 or of 2^256-1), and 0 <= j <= w; non-trivial = exact quantile >= 1 or the upper-tail branch (t > 0.99)",
	Gen:  genQCase, Run: runQCase,
	Quick: 12000, Thorough: 500000, Chunk: 2000, MinNonTrivialPct: 30,
})

// ---------------------------------------------------------------------------------
// Oracle A': exact points (no tolerance)

// XCase names a point where float64 arithmetic is exact: p = T/64 is dyadic, F(J) is a
// float64, and (verified by runCase in exact rational arithmetic) gonum's CDF returns
// exactly F(J) there and strictly less for every smaller j. The hash is F(J)*2^256
// exactly, so hash/2^256 == F(J): the smallest j whose CDF REACHES the output is J.
type XCase struct {
	T uint64 `json:"threshold"` // p = T/64
	W uint64 `json:"stake"`
	J uint64 `json:"j"`
}

type exactPoint struct{ T, W, J uint64 }

var (
	exactOnce   sync.Once
	exactPoints []exactPoint
)

var (
	exactFMu    sync.Mutex
	exactFCache = map[[2]uint64][]*big.Rat{}
)

// exactF returns F(0..W) for p = T/64 as exact rationals (integer numerators over 64^W).
func exactF(T, W uint64) []*big.Rat {
	exactFMu.Lock()
	defer exactFMu.Unlock()
	if f, ok := exactFCache[[2]uint64{T, W}]; ok {
		return f
	}
	den := new(big.Int).Lsh(big.NewInt(1), uint(6*W))
	pw := make([]*big.Int, W+1) // T^i
	qw := make([]*big.Int, W+1) // (64-T)^i
	pw[0], qw[0] = big.NewInt(1), big.NewInt(1)
	for i := uint64(1); i <= W; i++ {
		pw[i] = new(big.Int).Mul(pw[i-1], bigU(T))
		qw[i] = new(big.Int).Mul(qw[i-1], bigU(64-T))
	}
	out := make([]*big.Rat, W+1)
	cum := new(big.Int)
	for j := uint64(0); j <= W; j++ {
		term := new(big.Int).Binomial(int64(W), int64(j))
		term.Mul(term, pw[j])
		term.Mul(term, qw[W-j])
		cum = new(big.Int).Add(cum, term)
		out[j] = new(big.Rat).SetFrac(cum, den)
	}
	exactFCache[[2]uint64{T, W}] = out
	return out
}

// isExactPoint checks the precondition in exact arithmetic.
func isExactPoint(T, W, J uint64) (*big.Rat, bool) {
	if T < 1 || T > 63 || W < 1 || W > 64 || J >= W {
		return nil, false
	}
	F := exactF(T, W)
	if F[J].Cmp(new(big.Rat).SetFloat64(0.98)) > 0 { // stay in the lower branch (target <= 0.99)
		return nil, false
	}
	b := distuv.Binomial{N: float64(W), P: float64(T) / 64}
	if new(big.Rat).SetFloat64(b.CDF(float64(J))).Cmp(F[J]) != 0 {
		return nil, false
	}
	// the float64 predicate "target <= CDF(h)" must be false below J and true from J on,
	// for every h a forward or binary search may probe
	for h := uint64(0); h < W; h++ {
		c := new(big.Rat).SetFloat64(b.CDF(float64(h))).Cmp(F[J])
		if (h < J && c >= 0) || (h > J && c < 0) {
			return nil, false
		}
	}
	return F[J], true
}

func allExactPoints() []exactPoint {
	exactOnce.Do(func() {
		for _, T := range []uint64{8, 16, 24, 32, 40, 48, 56} {
			for W := uint64(1); W <= 48; W++ {
				for J := uint64(0); J < W; J++ {
					if _, ok := isExactPoint(T, W, J); ok {
						exactPoints = append(exactPoints, exactPoint{T, W, J})
					}
				}
			}
		}
	})
	return exactPoints
}

func genXCase(t *rapid.T) XCase {
	pts := allExactPoints()
	if len(pts) == 0 {
		return XCase{T: 32, W: 1, J: 0}
	}
	pt := pts[rapid.IntRange(0, len(pts)-1).Draw(t, "point")]
	return XCase{T: pt.T, W: pt.W, J: pt.J}
}

func runXCase(c XCase) kit.Result {
	F, ok := isExactPoint(c.T, c.W, c.J)
	if !ok {
		return kit.OK(false, "not-an-exact-point")
	}
	// hash = F(J) * 2^256 exactly (F(J) is a dyadic rational with denominator <= 2^(6*48))
	num := new(big.Int).Mul(F.Num(), two256)
	if new(big.Int).Mod(num, F.Denom()).Sign() != 0 {
		return kit.OK(false, "not-representable")
	}
	hb := num.Div(num, F.Denom())
	got := ucon.VerifChoose(common.BigToHash(hb), bigU(c.W), pFloat(c.T, 64))
	if uint64(got) != c.J {
		f, _ := F.Float64()
		return kit.Fail("step-not-reached", "choose(hash=%064x, w=%d, p=%d/64) = %d; hash/2^256 equals F(%d) = %.17g exactly (and float64 arithmetic is exact at this point), so the smallest j whose CDF reaches the output is %d",
			hb, c.W, c.T, got, c.J, f, c.J)
	}
	return kit.OK(true, fmt.Sprintf("p=%d/64", c.T))
}

var _ = kit.Register(kit.Prop[XCase]{
	Name: "ExactSteps",
	Rule: "points (p = k/8, w <= 48, j) where F(j) is a float64 and gonum's CDF is verified in exact rational arithmetic to return exactly F(j) (and less for smaller j), hash = F(j)*2^256 exactly: the result must be exactly j ('reaches' includes equality), no tolerance; non-trivial = every such point",
	Gen:  genXCase, Run: runXCase,
	Quick: 400, Thorough: 4000, Chunk: 200, MinNonTrivialPct: 50,
})

// ---------------------------------------------------------------------------------
// Oracles B and C: credentials and priorities through the exported VRF entry points

// VCase is one sortition by a key, verified as issued and under single-field changes.
type VCase struct {
	Key   string `json:"key"`  // 32-byte private scalar
	Seed  string `json:"seed"` // 32 bytes
	Index uint32 `json:"index"`
	Role  uint32 `json:"role"`
	T     uint64 `json:"threshold"`
	S     uint64 `json:"total_stake"`
	W     uint64 `json:"stake"`
	// perturbations
	OtherKey  string `json:"other_key"`
	SeedBit   int    `json:"seed_bit"`
	IndexXor  uint32 `json:"index_xor"`
	RoleXor   uint32 `json:"role_xor"`
	Scale     int    `json:"scale"` // parameter changes: 0: x2, 1: /2, 2: x3
	ProofByte int    `json:"proof_byte"`
	ProofXor  int    `json:"proof_xor"`
	Seat      uint64 `json:"seat"`      // which other seat's hash is offered as priority
	RandPrio  string `json:"rand_prio"` // an unrelated priority
	PHash     string `json:"p_hash"`    // direct VrfComputePriority check
	PJ        uint32 `json:"p_j"`
	// NoZeroSeatPriority: the case does not ask VrfVerifyPriority about a credential that
	// won no seat (set by the generator while the recorded defect zero-seat-proposer
	// reproduces: exclusion by construction; everything else is still asked).
	NoZeroSeatPriority bool `json:"no_zero_seat_priority,omitempty"`
}

const classZeroSeat = "zero-seat-proposer"

func keyOf(hexKey string) (*ecdsa.PrivateKey, error) {
	b, err := hex.DecodeString(hexKey)
	if err != nil || len(b) != 32 {
		return nil, fmt.Errorf("bad key")
	}
	return ycrypto.ToECDSA(b)
}

func vrfPair(k *ecdsa.PrivateKey) (vrf.PrivateKey, vrf.PublicKey, error) {
	sk, err := secp256k1VRF.NewVRFSigner(k)
	if err != nil {
		return nil, nil, err
	}
	pk, err := secp256k1VRF.NewVRFVerifier(&k.PublicKey)
	return sk, pk, err
}

func genKeyHex(t *rapid.T, label string) string {
	b := rapid.SliceOfN(rapid.Byte(), 32, 32).Draw(t, label)
	b[0] &= 0x7f // below the group order
	b[31] |= 1   // non-zero
	return hex.EncodeToString(b)
}

var (
	zeroOnce     sync.Once
	zeroExcluded bool
)

// zeroSeatReplay is the recorded minimal case of the zero-seat defect (found by search).
func zeroSeatExcluded() bool {
	zeroOnce.Do(func() {
		if !kit.IsKnown(classZeroSeat) {
			return
		}
		// still reproduces? a key/seed whose proposer sortition wins no seat
		c := VCase{Key: strings.Repeat("11", 32), Seed: strings.Repeat("22", 32), Role: 0, T: 26, S: 1000000, W: 1000,
			OtherKey: strings.Repeat("33", 32), RandPrio: strings.Repeat("44", 32), PHash: strings.Repeat("55", 32)}
		for i := uint32(0); i < 64; i++ {
			c.Index = i
			if res := runVCase(c); res.Violation != nil && res.Violation.Class == classZeroSeat {
				zeroExcluded = true
				return
			}
		}
	})
	return zeroExcluded
}

func genVCase(t *rapid.T) VCase {
	var z sizes
	if rapid.IntRange(0, 3).Draw(t, "fewSeats") == 0 {
		// expected seats around 1: both outcomes (no seat / some seats) are frequent
		z = genSizes(t, 0.3)
	} else {
		z = genSizes(t, 2)
	}
	c := VCase{
		Key:       genKeyHex(t, "key"),
		Seed:      hex.EncodeToString(rapid.SliceOfN(rapid.Byte(), 32, 32).Draw(t, "seed")),
		Index:     rapid.Uint32().Draw(t, "index"),
		Role:      rapid.SampledFrom([]uint32{0, 1, 2, 3, 4, 5, 0xffffffff, 7, 1 << 16}).Draw(t, "role"),
		T:         z.T, S: z.S, W: z.W,
		OtherKey:  genKeyHex(t, "otherKey"),
		SeedBit:   rapid.IntRange(0, 255).Draw(t, "seedBit"),
		IndexXor:  rapid.SampledFrom([]uint32{1, 2, 0x100, 0x10000, 0x1000000, 0x80000000, 0xffffffff}).Draw(t, "indexXor"),
		RoleXor:   rapid.SampledFrom([]uint32{1, 2, 0x100, 0x10000, 0x1000000, 0x80000000, 0xffffffff}).Draw(t, "roleXor"),
		Scale:     rapid.IntRange(0, 2).Draw(t, "scale"),
		ProofByte: rapid.IntRange(0, 128).Draw(t, "proofByte"),
		ProofXor:  rapid.IntRange(1, 255).Draw(t, "proofXor"),
		Seat:      uint64(rapid.IntRange(0, 1<<20).Draw(t, "seat")),
		RandPrio:  hex.EncodeToString(rapid.SliceOfN(rapid.Byte(), 32, 32).Draw(t, "randPrio")),
		PHash:     hex.EncodeToString(rapid.SliceOfN(rapid.Byte(), 32, 32).Draw(t, "pHash")),
		PJ:        uint32(rapid.SampledFrom([]int{0, 1, 2, 3, 26, 255, 256, 257, 300, 1000}).Draw(t, "pJ")),
	}
	if c.IndexXor == 0 {
		c.IndexXor = 1
	}
	c.NoZeroSeatPriority = zeroSeatExcluded()
	return c
}

type altProof struct {
	name  string
	proof []byte
}

var (
	curveN = ycrypto.S256().Params().N
	curveP = ycrypto.S256().Params().P
)

func cat(parts ...[]byte) []byte {
	var out []byte
	for _, p := range parts {
		out = append(out, p...)
	}
	return out
}

func pad(b []byte, n int) []byte {
	if len(b) >= n {
		return b
	}
	return append(make([]byte, n-len(b)), b...)
}

// alternateEncodings re-encodes an honest 129-byte proof s(32) || t(32) || 04 || X || Y
// in every way a lenient parser could also understand.
func alternateEncodings(proof []byte) []altProof {
	if len(proof) != 129 || proof[64] != 4 {
		return nil
	}
	s, t, X, Y := proof[0:32], proof[32:64], proof[65:97], proof[97:129]
	pt := proof[64:]
	yBig := new(big.Int).SetBytes(Y)
	par := byte(2 + yBig.Bit(0))
	negY := pad(new(big.Int).Sub(curveP, yBig).Bytes(), 32)
	sN := new(big.Int).Add(new(big.Int).SetBytes(s), curveN).Bytes() // 33 bytes unless s is tiny
	tN := new(big.Int).Add(new(big.Int).SetBytes(t), curveN).Bytes()
	alts := []altProof{
		{"VRF point compressed (parity prefix)", cat(s, t, []byte{par}, X)},
		{"VRF point compressed, other parity", cat(s, t, []byte{par ^ 1}, X)},
		{"VRF point compressed, zero-padded to 129 bytes", cat(s, t, []byte{par}, X, make([]byte, 32))},
		{"VRF point with y negated", cat(s, t, []byte{4}, X, negY)},
		{"VRF point hybrid prefix 06/07", cat(s, t, []byte{4 + par}, X, Y)},
		{"VRF point hybrid prefix, other parity", cat(s, t, []byte{4 + (par ^ 1)}, X, Y)},
		{"VRF point prefix 00", cat(s, t, []byte{0}, X, Y)},
		{"VRF point without prefix", cat(s, t, X, Y)},
		{"s+N", cat(pad(sN, 32), t, pt)},
		{"t+N", cat(s, pad(tN, 32), pt)},
		{"s and t zero-padded to 33 bytes", cat([]byte{0}, s, []byte{0}, t, pt)},
		{"leading zero byte", cat([]byte{0}, proof)},
		{"trailing zero byte", cat(proof, []byte{0})},
		{"trailing copy of the point", cat(proof, pt)},
		{"zero byte between t and the point", cat(s, t, []byte{0}, pt)},
		{"s without its first byte (shifted fields)", cat(s[1:], t, pt, []byte{0})},
		{"s and t swapped", cat(t, s, pt)},
		{"uncompressed point twice compressed length (97 bytes of the honest proof)", proof[:97]},
	}
	// s+N / t+N that still fit 32 bytes keep the length: only then are they equal-length variants
	return alts
}

func scaled(x uint64, mode int) uint64 {
	switch mode {
	case 0:
		return x * 2
	case 1:
		return x / 2
	default:
		return x * 3
	}
}

func runVCase(c VCase) kit.Result {
	if c.T < 1 || c.W < 1 || c.S < c.T || c.S < c.W || c.W > 10000000 || c.S > 1000000000 || c.T > 10000 {
		return kit.Discarded("outside the domain")
	}
	k, err := keyOf(c.Key)
	if err != nil {
		return kit.Discarded("invalid private key")
	}
	k2, err := keyOf(c.OtherKey)
	if err != nil || k2.D.Cmp(k.D) == 0 {
		return kit.Discarded("invalid second key")
	}
	sk, pk, err := vrfPair(k)
	if err != nil {
		return kit.Discarded("key not on curve")
	}
	_, pk2, err := vrfPair(k2)
	if err != nil {
		return kit.Discarded("key not on curve")
	}
	seed := common.HexToHash(c.Seed)
	w, S := bigU(c.W), bigU(c.S)
	labels := map[string]bool{}

	// Oracle C, direct: VrfComputePriority is the maximum over seats 0..j
	ph := common.HexToHash(c.PHash)
	if got, want := ucon.VrfComputePriority(ph, c.PJ), refPriority(ph[:], uint64(c.PJ)); !bytes.Equal(got[:], want) {
		return kit.Fail("priority-not-max", "VrfComputePriority(%x, %d) = %x, the largest keccak(hash||i), i=0..%d, is %x", ph, c.PJ, got, c.PJ, want)
	}

	value, proof, j := ucon.VrfSortition(sk, seed, c.Index, c.Role, c.T, w, S)
	if len(proof) != 129 {
		return kit.Fail("sortition-failed", "VrfSortition returned a %d-byte proof", len(proof))
	}
	// the seat count of the issued credential is the quantile of the VRF output
	bv := band(c.W, c.T, c.S, new(big.Int).SetBytes(value[:]))
	lo, mid, hi := bv.lo, bv.mid, bv.hi
	if uint64(j) > c.W || uint64(j) < lo || uint64(j) > hi {
		return kit.Fail("not-the-quantile", "VrfSortition(w=%d, p=%d/%d) gives %d seats for VRF output %x; exact quantile %d (band [%d,%d])", c.W, c.T, c.S, j, value, mid, lo, hi)
	}
	// the proof really is a proof of that value for this key and message
	if v2, err := pk.ProofToHash(ucon.MakeM(seed, c.Role, c.Index), proof); err != nil || common.Hash(v2) != value {
		return kit.Fail("own-proof-rejected", "the proof returned by VrfSortition does not verify to its own value: %v", err)
	}
	verify := func(pk vrf.PublicKey, seed common.Hash, index, role uint32, proof []byte, sub uint32, T uint64, w, S *big.Int) bool {
		ok, err := ucon.VrfVerifySortition(pk, seed, index, role, proof, sub, T, w, S)
		if ok && err != nil {
			return false
		}
		return ok
	}
	// B: agreement
	ok := verify(pk, seed, c.Index, c.Role, proof, j, c.T, w, S)
	if j >= 1 && !ok {
		return kit.Fail("own-credential-rejected", "VrfVerifySortition rejects the credential VrfSortition issued (%d seats) with identical inputs", j)
	}
	if j == 0 && ok {
		return kit.Fail("zero-seat-credential-accepted", "VrfVerifySortition accepts a credential with 0 seats")
	}
	type pert struct {
		name string
		ok   bool
	}
	var perts []pert
	if j >= 1 {
		labels["seats>=1"] = true
		seed2 := seed
		seed2[c.SeedBit/8] ^= 1 << uint(c.SeedBit%8)
		perts = append(perts,
			pert{"other key", verify(pk2, seed, c.Index, c.Role, proof, j, c.T, w, S)},
			pert{"one seed bit", verify(pk, seed2, c.Index, c.Role, proof, j, c.T, w, S)},
			pert{"round index", verify(pk, seed, c.Index^c.IndexXor, c.Role, proof, j, c.T, w, S)},
			pert{"round index+1", verify(pk, seed, c.Index+1, c.Role, proof, j, c.T, w, S)},
			pert{"round index-1", verify(pk, seed, c.Index-1, c.Role, proof, j, c.T, w, S)},
			pert{"step", verify(pk, seed, c.Index, c.Role^c.RoleXor, proof, j, c.T, w, S)},
			pert{"index and step swapped", c.Index != c.Role && verify(pk, seed, c.Role, c.Index, proof, j, c.T, w, S)},
			pert{"seats+1", verify(pk, seed, c.Index, c.Role, proof, j+1, c.T, w, S)},
			pert{"seats-1", verify(pk, seed, c.Index, c.Role, proof, j-1, c.T, w, S)},
		)
		// parameter changes that move the exact quantile away from j must be rejected
		hv := new(big.Int).SetBytes(value[:])
		try := func(name string, T2, W2, S2 uint64) {
			if T2 < 1 || W2 < 1 || S2 < T2 || S2 < W2 || W2 > 10000000 || S2 > 4000000000 || T2 > 100000 {
				return
			}
			b2 := band(W2, T2, S2, hv)
			lo2, hi2 := b2.lo, b2.hi
			if uint64(j) >= lo2 && uint64(j) <= hi2 {
				labels["param-change-keeps-quantile:"+name] = true
				return
			}
			labels["param-change-moves-quantile"] = true
			perts = append(perts, pert{name, verify(pk, seed, c.Index, c.Role, proof, j, T2, bigU(W2), bigU(S2))})
		}
		try("threshold", scaled(c.T, c.Scale), c.W, c.S)
		try("stake", c.T, scaled(c.W, c.Scale), c.S)
		try("total stake", c.T, c.W, scaled(c.S, c.Scale))
		try("threshold+1", c.T+1, c.W, c.S)
		try("stake+1", c.T, c.W+1, c.S)
		// a corrupted proof is rejected, or it still proves the identical VRF value
		bad := append([]byte(nil), proof...)
		bad[c.ProofByte%len(bad)] ^= byte(c.ProofXor)
		v3, err := pk.ProofToHash(ucon.MakeM(seed, c.Role, c.Index), bad)
		switch {
		case err == nil && common.Hash(v3) == value:
			labels["corrupted-proof-same-value"] = true
			if !verify(pk, seed, c.Index, c.Role, bad, j, c.T, w, S) {
				return kit.Fail("equivalent-proof-rejected", "a different proof of the same VRF value is rejected")
			}
		case err == nil:
			return kit.Fail("corrupted-proof-new-value", "proof with byte %d xor %#x verifies to a DIFFERENT VRF value %x (issued %x)", c.ProofByte%len(bad), c.ProofXor, v3, value)
		default:
			perts = append(perts, pert{"corrupted proof byte", verify(pk, seed, c.Index, c.Role, bad, j, c.T, w, S)})
		}
		perts = append(perts, pert{"truncated proof", verify(pk, seed, c.Index, c.Role, proof[:128], j, c.T, w, S)})
	} else {
		labels["seats=0"] = true
	}
	// VRF uniqueness: whatever other ENCODING of the honest proof is offered for the same
	// (key, seed, index, step), it is rejected or yields exactly the honest output and
	// seat count (one key and message have one output).
	m := ucon.MakeM(seed, c.Role, c.Index)
	for _, alt := range alternateEncodings(proof) {
		v, err := pk.ProofToHash(m, alt.proof)
		if err == nil && common.Hash(v) != value {
			return kit.Fail("vrf-output-not-unique", "ProofToHash accepts a re-encoded proof (%s, %d bytes) of the honest credential and returns a DIFFERENT output %x (honest output %x): one (key, message) has two verifiable VRF outputs",
				alt.name, len(alt.proof), v, value)
		}
		if err == nil {
			labels["alternate-encoding-accepted-same-value"] = true
		}
		// seat counts: the issued one behaves as with the honest proof or is rejected; any
		// other one - in particular the one the raw bytes of this encoding would give - is rejected
		subs := []uint32{j + 1, j - 1}
		if len(alt.proof) > 64 {
			raw := sha256.Sum256(alt.proof[64:])
			jr64 := ucon.VerifChoose(common.Hash(raw), w, pFloat(c.T, c.S))
			if jr64 < 0 || uint64(jr64) > c.W {
				return kit.Fail("seats-out-of-range", "choose(%x, w=%d, p=%d/%d) = %d is outside [0, stake]", raw, c.W, c.T, c.S, jr64)
			}
			jr := uint32(jr64)
			subs = append(subs, jr)
			if common.Hash(raw) != value {
				rp := ucon.VrfComputePriority(common.Hash(raw), jr)
				if ok, e := ucon.VrfVerifyPriority(pk, seed, c.Index, c.Role, alt.proof, rp, jr, c.T, w, S); ok && e == nil && !(jr == 0 && c.NoZeroSeatPriority) {
					return kit.Fail("vrf-output-not-unique", "VrfVerifyPriority accepts a re-encoded proof (%s) with the priority and %d seats of a different VRF output (issued: %d seats)", alt.name, jr, j)
				}
			}
		}
		for _, sub := range subs {
			if sub == j {
				continue
			}
			if verify(pk, seed, c.Index, c.Role, alt.proof, sub, c.T, w, S) {
				return kit.Fail("vrf-output-not-unique", "VrfVerifySortition accepts a re-encoded proof (%s, %d bytes) of the credential issued for %d seats with %d seats", alt.name, len(alt.proof), j, sub)
			}
		}
		if got := verify(pk, seed, c.Index, c.Role, alt.proof, j, c.T, w, S); got && (err != nil || j == 0) {
			return kit.Fail("vrf-output-not-unique", "VrfVerifySortition accepts a re-encoded proof (%s) that ProofToHash rejects (or with 0 seats)", alt.name)
		}
	}
	labels["alternate-encodings-offered"] = true
	for _, p := range perts {
		if p.ok {
			return kit.Fail("credential-not-bound", "VrfVerifySortition accepts the credential (key %s.., seed %s.., index %d, step %d, %d seats, T=%d w=%d S=%d) after changing: %s",
				c.Key[:8], c.Seed[:8], c.Index, c.Role, j, c.T, c.W, c.S, p.name)
		}
	}

	// C: priority of the issued credential
	prio := ucon.VrfComputePriority(value, j)
	want := refPriority(value[:], uint64(j))
	if !bytes.Equal(prio[:], want) {
		return kit.Fail("priority-not-max", "VrfComputePriority(%x, %d) = %x, the largest seat hash is %x", value, j, prio, want)
	}
	vp := func(pk vrf.PublicKey, seed common.Hash, index, role uint32, prio common.Hash, sub uint32) bool {
		ok, err := ucon.VrfVerifyPriority(pk, seed, index, role, proof, prio, sub, c.T, w, S)
		if ok && err != nil {
			return false
		}
		return ok
	}
	if j == 0 && c.NoZeroSeatPriority {
		labels["excluded:"+classZeroSeat] = true
		return kit.OK(false, sortedLabels(labels)...)
	}
	okp := vp(pk, seed, c.Index, c.Role, prio, j)
	if j == 0 {
		if okp {
			return kit.Fail(classZeroSeat, "VrfVerifyPriority accepts SubUsers=0 with priority keccak(VRF output) for a key whose sortition wins NO seat (VRF output %x, w=%d, p=%d/%d; VrfVerifySortition says 'not a validator' for the same credential): a validator that is not a winner passes the proposer-priority check",
				value, c.W, c.T, c.S)
		}
		labels["zero-seat-priority-rejected"] = true
	} else {
		if !okp {
			return kit.Fail("own-priority-rejected", "VrfVerifyPriority rejects the priority VrfComputePriority derived for the issued credential (%d seats)", j)
		}
		var pp []pert
		// every other seat's hash
		seat := c.Seat % (uint64(j) + 1)
		sh := keccak(value[:], new(big.Int).SetUint64(seat).Bytes())
		if !bytes.Equal(sh, want) {
			labels["non-max-seat-offered"] = true
			pp = append(pp, pert{fmt.Sprintf("priority = hash of seat %d (not the largest)", seat), vp(pk, seed, c.Index, c.Role, common.BytesToHash(sh), j)})
		}
		beyond := keccak(value[:], new(big.Int).SetUint64(uint64(j)+1+c.Seat%3).Bytes())
		pp = append(pp, pert{"priority = hash of a seat beyond the seats won", vp(pk, seed, c.Index, c.Role, common.BytesToHash(beyond), j)})
		pp = append(pp,
			pert{"unrelated priority", vp(pk, seed, c.Index, c.Role, common.HexToHash(c.RandPrio), j)},
			pert{"seats+1 with its own maximum", vp(pk, seed, c.Index, c.Role, common.BytesToHash(refPriority(value[:], uint64(j)+1)), j+1)},
			pert{"seats-1 with its own maximum", vp(pk, seed, c.Index, c.Role, common.BytesToHash(refPriority(value[:], uint64(j)-1)), j-1)},
			pert{"other key", vp(pk2, seed, c.Index, c.Role, prio, j)},
			pert{"round index", vp(pk, seed, c.Index^c.IndexXor, c.Role, prio, j)},
			pert{"step", vp(pk, seed, c.Index, c.Role^c.RoleXor, prio, j)},
		)
		seed2 := seed
		seed2[c.SeedBit/8] ^= 1 << uint(c.SeedBit%8)
		pp = append(pp, pert{"one seed bit", vp(pk, seed2, c.Index, c.Role, prio, j)})
		for _, p := range pp {
			if p.ok {
				return kit.Fail("priority-not-bound", "VrfVerifyPriority accepts (VRF output %x, %d seats, largest seat hash %x) after changing: %s", value, j, want, p.name)
			}
		}
	}
	if float64(c.W)*pFloat(c.T, c.S) >= 20 {
		labels["expected-seats>=20"] = true
	}
	return kit.OK(j >= 1, sortedLabels(labels)...)
}

var _ = kit.Register(kit.Prop[VCase]{
	Name: "Credentials",
	Rule: "a random key runs VrfSortition on a random (seed, round index, step, T, w, S) (expected seats >= 2 in 3/4 of the cases, around 1 otherwise); the seat count must be the reference quantile of the VRF output; VrfVerifySortition with identical inputs is true iff seats >= 1 and false after each single change (other key, one seed bit, index xor/+1/-1, step, index<->step, seats+-1, T/w/S scaled or +1 when that moves the reference quantile, one corrupted proof byte unless it still proves the same value, truncated proof); 18 alternate ENCODINGS of the honest proof (VRF point compressed either parity / y negated / hybrid or zero prefix / no prefix, s+N, t+N, zero-padded or shifted fields, leading / trailing bytes) must each be rejected or yield exactly the honest output, and must never verify for another seat count (VRF uniqueness); VrfComputePriority equals the harness's max keccak(output||i), i=0..j; VrfVerifyPriority accepts it iff seats >= 1 and rejects any other seat's hash, a seat beyond j, seats+-1 with their own maxima, an unrelated priority, other key / index / step / seed bit; non-trivial = the credential won at least one seat (so every perturbation is asked)",
	Gen:  genVCase, Run: runVCase,
	Quick: 250, Thorough: 5000, Chunk: 125, MinNonTrivialPct: 50,
})
