package c04

import (
	"math"
	"math/big"

	"golang.org/x/crypto/sha3"
)

// Reference binomial distribution in 512-bit floating point, independent of gonum and
// of the float64 code under test. p = T/S exactly (the statement's committee/total).
//
//	pmf(0)   = ((S-T)/S)^w                      (binary exponentiation)
//	pmf(i+1) = pmf(i) * ((w-i)*T) / ((i+1)*(S-T))
//
// Every operation rounds at 2^-512 relative; after at most a few 10^4 operations the
// relative error of any partial sum is below 10^-140, while the oracle's comparison band
// is never narrower than 10^-9. The scanner works in place (no allocation per step).
const refPrec = 512

func newF() *big.Float { return new(big.Float).SetPrec(refPrec) }

func fU(x uint64) *big.Float { return newF().SetUint64(x) }

type scanner struct {
	w, T, S uint64
	one     bool // p == 1: F(j) = 0 for j < w
	j       uint64
	pmf     *big.Float
	cdf     *big.Float // F(j)
	prev    *big.Float // F(j-1) (0 for j == 0)
	tmp     *big.Float
	steps   int
}

func newScanner(w, T, S uint64) *scanner {
	s := &scanner{w: w, T: T, S: S, cdf: newF(), prev: newF(), pmf: newF(), tmp: newF()}
	if T >= S {
		s.one = true
		return s
	}
	q := newF().Quo(fU(S-T), fU(S))
	res := fU(1)
	base := newF().Set(q)
	for e := w; e > 0; e >>= 1 {
		if e&1 == 1 {
			res.Mul(res, base)
		}
		base.Mul(base, base)
	}
	s.pmf.Set(res)
	s.cdf.Set(res)
	return s
}

// next moves from j to j+1 (j+1 < w required).
func (s *scanner) next() {
	s.prev.Set(s.cdf)
	s.tmp.SetUint64((s.w - s.j) * s.T) // <= 10^7 * 10^4
	s.pmf.Mul(s.pmf, s.tmp)
	s.tmp.SetUint64((s.j + 1) * (s.S - s.T)) // <= 10^7 * 10^9 < 2^64
	s.pmf.Quo(s.pmf, s.tmp)
	s.cdf.Add(s.cdf, s.pmf)
	s.j++
	s.steps++
}

// advanceTo moves forward to the smallest j >= current j with F(j) >= x and returns it;
// it returns w when no j < w reaches x (F(w) = 1). Thresholds must be asked in
// ascending order.
func (s *scanner) advanceTo(x *big.Float) uint64 {
	if s.j >= s.w {
		return s.w
	}
	if x.Sign() <= 0 {
		return s.j
	}
	if s.one {
		s.j = s.w
		return s.w
	}
	for s.cdf.Cmp(x) < 0 {
		if s.j+1 >= s.w {
			s.prev.Set(s.cdf)
			s.cdf.SetUint64(1)
			s.j = s.w
			return s.w
		}
		s.next()
	}
	return s.j
}

// tau is the half-width of the comparison band around t = hash/2^256. The code under
// test evaluates the CDF in float64 through gonum's regularised incomplete beta
// function, whose log-gamma terms have magnitude ~ w*ln(w); their rounding (a few
// units of 2^-53 relative) is an absolute error ~ 3e-16*w*ln(w) in the exponent and
// so a relative error of that size in the CDF.
//
//	tau = 1e-9*(1+t) + 2e-15 * w * ln(w+2)
//
// Measured on the unchanged code (gonum's CDF against the 512-bit reference at every
// step of 4000 parameter sets): worst deviation 6e-11 at w = 10^4, 5e-10 at 10^5,
// 5e-9 at 10^6, 2.6e-8 at w = 9*10^6, where tau = 2.9e-7.
func tau(w uint64, t float64) float64 {
	return 1e-9*(1+t) + 2e-15*float64(w)*math.Log(float64(w)+2)
}

var (
	two256  = new(big.Int).Lsh(big.NewInt(1), 256)
	maxHash = new(big.Int).Sub(two256, big.NewInt(1))
)

// fraction reads a 256-bit value as a fraction of 2^256.
func fraction(h *big.Int) *big.Float {
	return newF().Quo(newF().SetInt(h), newF().SetInt(two256))
}

// toHash returns floor(x * 2^256) clamped to [0, 2^256-1].
func toHash(x *big.Float) *big.Int {
	if x.Sign() <= 0 {
		return new(big.Int)
	}
	y := newF().Mul(x, newF().SetInt(two256))
	z, _ := y.Int(nil)
	if z.Cmp(maxHash) > 0 {
		return new(big.Int).Set(maxHash)
	}
	return z
}

// band returns quantile(t-tau), quantile(t), quantile(t+tau) for t = h/2^256.
func band(w, T, S uint64, h *big.Int) (lo, mid, hi uint64, steps int) {
	t := fraction(h)
	tf, _ := t.Float64()
	tw := newF().SetFloat64(tau(w, tf))
	s := newScanner(w, T, S)
	lo = s.advanceTo(newF().Sub(t, tw))
	mid = s.advanceTo(t)
	up := newF().Add(t, tw)
	if up.Cmp(fU(1)) >= 0 {
		hi = w // F(j) < 1 for every j < w (0 < p < 1), and F(w) = 1
		if s.one {
			hi = w
		}
	} else {
		hi = s.advanceTo(up)
	}
	return lo, mid, hi, s.steps
}

func keccak(b ...[]byte) []byte {
	h := sha3.NewLegacyKeccak256()
	for _, x := range b {
		h.Write(x)
	}
	return h.Sum(nil)
}

// refPriority is the largest keccak(h || minimal-big-endian(i)) over i = 0..j, compared
// as unsigned 256-bit integers (i = 0 contributes the empty string).
func refPriority(h []byte, j uint64) []byte {
	var best []byte
	for i := uint64(0); i <= j; i++ {
		x := keccak(h, new(big.Int).SetUint64(i).Bytes())
		if best == nil || new(big.Int).SetBytes(x).Cmp(new(big.Int).SetBytes(best)) > 0 {
			best = x
		}
	}
	return best
}
