package c04

import (
	"math"
	"math/big"

	"golang.org/x/crypto/sha3"
)

// Reference binomial distribution in 512-bit floating point, independent of gonum and
// of the float64 code under test. p = T/S exactly (the statement's committee/total).
//
//	pmf(0)   = ((S-T)/S)^w                      (binary exponentiation)
//	pmf(i+1) = pmf(i) * ((w-i)*T) / ((i+1)*(S-T))
//
// Every operation rounds at 2^-512 relative; after at most a few 10^4 operations the
// relative error of any partial sum is below 10^-140, while the oracle's comparison band
// is never narrower than 10^-9. The scanner works in place (no allocation per step).
const refPrec = 512

func newF() *big.Float { return new(big.Float).SetPrec(refPrec) }

func fU(x uint64) *big.Float { return newF().SetUint64(x) }

type scanner struct {
	w, T, S uint64
	one     bool // p == 1: F(j) = 0 for j < w
	j       uint64
	pmf     *big.Float
	cdf     *big.Float // F(j)
	prev    *big.Float // F(j-1) (0 for j == 0)
	tmp     *big.Float
	steps   int
}

func newScanner(w, T, S uint64) *scanner {
	s := &scanner{w: w, T: T, S: S, cdf: newF(), prev: newF(), pmf: newF(), tmp: newF()}
	if T >= S {
		s.one = true
		return s
	}
	q := newF().Quo(fU(S-T), fU(S))
	res := fU(1)
	base := newF().Set(q)
	for e := w; e > 0; e >>= 1 {
		if e&1 == 1 {
			res.Mul(res, base)
		}
		base.Mul(base, base)
	}
	s.pmf.Set(res)
	s.cdf.Set(res)
	return s
}

// next moves from j to j+1 (j+1 < w required).
func (s *scanner) next() {
	s.prev.Set(s.cdf)
	s.tmp.SetUint64((s.w - s.j) * s.T) // <= 10^7 * 10^4
	s.pmf.Mul(s.pmf, s.tmp)
	s.tmp.SetUint64((s.j + 1) * (s.S - s.T)) // <= 10^7 * 10^9 < 2^64
	s.pmf.Quo(s.pmf, s.tmp)
	s.cdf.Add(s.cdf, s.pmf)
	s.j++
	s.steps++
}

// advanceTo moves forward to the smallest j >= current j with F(j) >= x and returns it;
// it returns w when no j < w reaches x (F(w) = 1). Thresholds must be asked in
// ascending order.
func (s *scanner) advanceTo(x *big.Float) uint64 {
	if s.j >= s.w {
		return s.w
	}
	if x.Sign() <= 0 {
		return s.j
	}
	if s.one {
		s.j = s.w
		return s.w
	}
	for s.cdf.Cmp(x) < 0 {
		if s.j+1 >= s.w {
			s.prev.Set(s.cdf)
			s.cdf.SetUint64(1)
			s.j = s.w
			return s.w
		}
		s.next()
	}
	return s.j
}

// tau is the half-width of the comparison band around t = hash/2^256. The code under
// test evaluates the CDF in float64 through gonum's regularised incomplete beta
// function, whose log-gamma terms have magnitude ~ w*ln(w); their rounding (a few
// units of 2^-53 relative) is an absolute error ~ 3e-16*w*ln(w) in the exponent and
// so a relative error of that size in the CDF.
//
//	tau = 1e-9*(1+t) + 2e-15 * w * ln(w+2)
//
// Measured on the unchanged code (gonum's CDF against the 512-bit reference at every
// step of 4000 parameter sets): worst deviation 6e-11 at w = 10^4, 5e-10 at 10^5,
// 5e-9 at 10^6, 2.6e-8 at w = 9*10^6, where tau = 2.9e-7.
func tau(w uint64, t float64) float64 {
	return 1e-9*(1+t) + 2e-15*float64(w)*math.Log(float64(w)+2)
}

var (
	two256  = new(big.Int).Lsh(big.NewInt(1), 256)
	maxHash = new(big.Int).Sub(two256, big.NewInt(1))
)

// fraction reads a 256-bit value as a fraction of 2^256.
func fraction(h *big.Int) *big.Float {
	return newF().Quo(newF().SetInt(h), newF().SetInt(two256))
}

// toHash returns floor(x * 2^256) clamped to [0, 2^256-1].
func toHash(x *big.Float) *big.Int {
	if x.Sign() <= 0 {
		return new(big.Int)
	}
	y := newF().Mul(x, newF().SetInt(two256))
	z, _ := y.Int(nil)
	if z.Cmp(maxHash) > 0 {
		return new(big.Int).Set(maxHash)
	}
	return z
}

// epsRel is the RELATIVE half-width of the band on the upper-tail budget u = 1 - t in
// the mirrored branch of choose (t > 0.99). There the code computes u from the 256-bit
// quotient BEFORE rounding to float64 and compares it with the mirrored CDF
// F(h; n, 1-p), so its error is relative to u, however small u is:
//
//	epsRel = 2e-9 + 4e-15*w*ln(w+2) + 4*(j+2)*2^-53/p
//
// (log-gamma rounding of the incomplete beta function, as in tau; and the rounding of
// 1-p to float64, a relative error 2^-54/p of p, which enters the tail Pr(X > j) ~ p^(j+1)
// about j+1 times.) Measured on the unchanged code (30000 parameter sets, probes at
// relative distances 1e-12..1e-4 on either side of upper-tail steps at levels 2^-7..2^-176):
// the largest distance at which choose was on the wrong side is 0.15*epsRel
// (5e-10 at w = 10^5; 1e-7 at p = 4e-9, j = 7).
func epsRel(w, T, S, j uint64) float64 {
	p := float64(T) / float64(S)
	return 2e-9 + 4e-15*float64(w)*math.Log(float64(w)+2) + 4*float64(j+2)*math.Pow(2, -53)/p
}

// the mirrored branch is taken for float64(t) > 0.99; the relative rule is applied
// only clearly inside it
var mirroredFrom = newF().SetFloat64(0.9900001)

// bandInfo is the set of seat counts the oracle accepts for one (w, T, S, hash).
type bandInfo struct {
	lo, mid, hi uint64 // accept lo <= j <= hi; mid = exact quantile of hash/2^256
	steps       int
	relative    bool    // the relative upper-tail rule was applied
	eps         float64 // its relative half-width
}

// band computes the accepted seat counts.
//
// Everywhere: quantile(t-tau) <= j <= quantile(t+tau), t = hash/2^256 (absolute rule).
// In the mirrored branch additionally: uq(uS*(1+eps)) <= j <= uq(uI*(1-eps)), where
// uq(x) is the smallest j with Pr(X > j) <= x, eps = epsRel, and uS = 1 - hash/2^256
// (the statement's reading) and uI = 1 - hash/(2^256-1) (the code's reading, under which
// the all-ones output means t = 1 and wins the whole stake) - the two readings differ
// only within ~2^-200 of the top, and a result is accepted if either explains it.
func band(w, T, S uint64, h *big.Int) bandInfo {
	t := fraction(h)
	tf, _ := t.Float64()
	tw := newF().SetFloat64(tau(w, tf))
	s := newScanner(w, T, S)
	var b bandInfo
	b.lo = s.advanceTo(newF().Sub(t, tw))
	b.mid = s.advanceTo(t)
	up := newF().Add(t, tw)
	if up.Cmp(fU(1)) >= 0 {
		b.hi = w // F(j) < 1 for every j < w (0 < p < 1), and F(w) = 1
	} else {
		b.hi = s.advanceTo(up)
	}
	b.steps = s.steps
	if t.Cmp(mirroredFrom) <= 0 {
		return b
	}
	one := fU(1)
	uS := newF().Sub(one, t)
	uI := newF().Sub(one, newF().Quo(newF().SetInt(h), newF().SetInt(maxHash)))
	s1 := newScanner(w, T, S)
	jI := s1.advanceTo(newF().Sub(one, uS)) // (uI may be 0: F never reaches 1 below w)
	b.eps = epsRel(w, T, S, jI)
	if b.eps > 0.5 {
		b.eps = 0.5
	}
	b.relative = true
	s2 := newScanner(w, T, S)
	loR := s2.advanceTo(newF().Sub(one, newF().Mul(uS, newF().SetFloat64(1+b.eps))))
	hiR := w
	if uI.Sign() > 0 {
		hiR = s2.advanceTo(newF().Sub(one, newF().Mul(uI, newF().SetFloat64(1-b.eps))))
	}
	b.steps += s1.steps + s2.steps
	if loR > b.lo {
		b.lo = loR
	}
	if hiR < b.hi {
		b.hi = hiR
	}
	return b
}

func keccak(b ...[]byte) []byte {
	h := sha3.NewLegacyKeccak256()
	for _, x := range b {
		h.Write(x)
	}
	return h.Sum(nil)
}

// refPriority is the largest keccak(h || minimal-big-endian(i)) over i = 0..j, compared
// as unsigned 256-bit integers (i = 0 contributes the empty string).
func refPriority(h []byte, j uint64) []byte {
	var best []byte
	for i := uint64(0); i <= j; i++ {
		x := keccak(h, new(big.Int).SetUint64(i).Bytes())
		if best == nil || new(big.Int).SetBytes(x).Cmp(new(big.Int).SetBytes(best)) > 0 {
			best = x
		}
	}
	return best
}
