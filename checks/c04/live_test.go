package c04

// LiveVerifier: the credential checks of a RUNNING node (Server.verifySortition and
// Server.verifyPriority, the callbacks the voter and proposal components are wired with)
// must give, for every call, the verdict the statement gives for that call alone: a
// credential verifies only for the exact key, seed, round index, step and seat count it was
// issued for, a priority only if it is the largest hash over the winner's seats - whatever
// was verified before (caches, step views and other per-process state must not leak
// between calls).

import (
	"fmt"
	"math/big"
	"sort"
	"strings"

	"github.com/youchainhq/go-youchain/common"
	"github.com/youchainhq/go-youchain/consensus/ucon"
	"github.com/youchainhq/go-youchain/params"
	"github.com/youchainhq/go-youchain/youdb"
	"golang.org/x/crypto/sha3"
	"pgregory.net/rapid"
	"verif/kit"
	uk "verif/lib/uconkit"
)

const liveVersionBase = 151 // private protocol versions 151..153

var liveTriples = [3][3]uint64{{26, 2000, 4000}, {5, 50, 100}, {3, 10, 20}}

func init() {
	if params.Versions == nil {
		params.InitNetworkId(params.NetworkIdForTestCase)
	}
	for i, tr := range liveTriples {
		yp := params.Versions[params.YouV5]
		yp.Version = params.YouVersion(liveVersionBase + i)
		yp.ProposerThreshold, yp.ValidatorThreshold, yp.CertValThreshold = tr[0], tr[1], tr[2]
		yp.EnableBls = true
		params.Versions[yp.Version] = yp
	}
}

// LiveOp is one question put to the running node.
type LiveOp struct {
	Priority bool   `json:"priority"` // verifyPriority (proposer credential) instead of verifySortition (vote credential)
	Val      int    `json:"val"`
	RI       uint32 `json:"ri"`
	Step     uint32 `json:"step"` // vote credentials: 2 prevote, 3 precommit, 4 next
	Variant  int    `json:"variant"`
}

type LiveCase struct {
	Cert   bool         `json:"cert,omitempty"` // round 32768: certificate-step credentials (step 5) use the certificate look-backs
	Params int          `json:"params"`
	Vals   []uk.ValSpec `json:"vals"`
	Seed   uint8        `json:"seed"`
	Ops    []LiveOp     `json:"ops"`
}

func genLiveCase(t *rapid.T) LiveCase {
	c := LiveCase{Params: rapid.IntRange(0, 2).Draw(t, "params"), Seed: rapid.Uint8().Draw(t, "seed"), Cert: rapid.IntRange(0, 2).Draw(t, "cert") == 0}
	T := liveTriples[c.Params][1]
	if c.Cert {
		T = liveTriples[c.Params][2]
	}
	n := rapid.IntRange(3, 6).Draw(t, "nvals")
	var chamber uint64
	for i := 0; i < n; i++ {
		v := uk.ValSpec{Key: i, Online: true, Role: uint8(params.RoleSenator)}
		v.Stake = 1 + uint64(rapid.IntRange(0, int(T)).Draw(t, "stake"))
		chamber += v.Stake
		c.Vals = append(c.Vals, v)
	}
	if chamber < T {
		c.Vals[0].Stake += T - chamber
	}
	// few distinct credentials, asked about repeatedly in different variants and orders
	ncred := rapid.IntRange(1, 3).Draw(t, "ncred")
	type credSel struct {
		prio bool
		val  int
		ri   uint32
		step uint32
	}
	var creds []credSel
	for i := 0; i < ncred; i++ {
		maxStep := 4
		if c.Cert {
			maxStep = 5
		}
		cs := credSel{rapid.Bool().Draw(t, "prio"), rapid.IntRange(0, n-1).Draw(t, "val"),
			uint32(rapid.IntRange(1, 3).Draw(t, "ri")), uint32(rapid.IntRange(2, maxStep).Draw(t, "step"))}
		if c.Cert && rapid.Bool().Draw(t, "certstep") {
			cs.prio, cs.step = false, 5
		}
		creds = append(creds, cs)
	}
	nops := rapid.IntRange(2, 10).Draw(t, "nops")
	for i := 0; i < nops; i++ {
		cs := creds[rapid.IntRange(0, ncred-1).Draw(t, "cred")]
		variant := rapid.SampledFrom([]int{0, 0, 0, 1, 2, 3, 4, 5}).Draw(t, "variant")
		c.Ops = append(c.Ops, LiveOp{Priority: cs.prio, Val: cs.val, RI: cs.ri, Step: cs.step, Variant: variant})
	}
	return c
}

func liveKeccak(b ...[]byte) common.Hash {
	h := sha3.NewLegacyKeccak256()
	for _, x := range b {
		h.Write(x)
	}
	var out common.Hash
	h.Sum(out[:0])
	return out
}

// seat hashes 0..j (the statement: the priority is the largest of them)
func liveSeatHashes(value common.Hash, j uint32) []common.Hash {
	var out []common.Hash
	for i := uint32(0); i <= j; i++ {
		out = append(out, liveKeccak(value[:], new(big.Int).SetUint64(uint64(i)).Bytes()))
	}
	return out
}

func runLiveCase(c LiveCase) kit.Result {
	set, err := uk.BuildSet(c.Vals)
	if err != nil {
		return kit.Discarded("set: " + err.Error())
	}
	yp := params.Versions[params.YouVersion(liveVersionBase+c.Params)]
	round := uint64(40)
	if c.Cert {
		round = 32768
	}
	chain := uk.NewFakeChain(set, &yp, round-1, c.Seed)
	chain.HeaderVersion = yp.Version
	own := uk.PoolKey(c.Vals[0].Key)
	rig, err := ucon.VerifNewRig(youdb.NewMemDatabase(), chain, own.Ecdsa, own.BlsSk, &yp, round)
	if err != nil {
		return kit.Discarded("rig: " + err.Error())
	}
	defer rig.Mux.Stop()
	rig.SetContext(round, 1, 0)
	voteSeed, certSeed := chain.SeedOf(round-yp.SeedLookBack), chain.SeedOf(0)
	trip := liveTriples[c.Params]
	var hist []string
	asked := map[string]bool{}
	accepted, rejected, repeats, afterAccept := 0, 0, 0, 0
	acceptedCred := map[string]bool{}
	for i, op := range c.Ops {
		sp := c.Vals[op.Val]
		key := uk.PoolKey(sp.Key)
		step, T := op.Step, trip[1]
		if op.Priority {
			step, T = 1, trip[0]
		}
		// certificate-step credentials are drawn from the certificate look-back (seed of header round-32768,
		// certificate committee), everything else from the ordinary vote look-back
		seed, otherSeed, lb := voteSeed, certSeed, params.LookBackPos
		if step == 5 {
			seed, otherSeed, lb, T = certSeed, voteSeed, params.LookBackCert, trip[2]
		}
		ri := op.RI
		credRI, credStep, credKey := ri, step, sp.Key
		switch op.Variant {
		case 2:
			credStep = step%4 + 1 // a credential issued for another step
		case 3:
			credRI = ri + 1 // ... for another round index
		case 4:
			credKey = c.Vals[(op.Val+1)%len(c.Vals)].Key // ... to another validator
		}
		credSeed := seed
		if op.Variant == 5 {
			credSeed = otherSeed // ... from the seed of the other look-back (ordinary vs certificate)
		}
		cr := uk.Sortition(credKey, credSeed, credRI, credStep, T, sp.Stake, set.TotalChamber)
		// what the honest credential of (val, ri, step) is worth
		honest := uk.Sortition(sp.Key, seed, ri, step, T, sp.Stake, set.TotalChamber)
		votes := cr.J
		if op.Variant == 1 {
			votes = honest.J + 1
		}
		id := fmt.Sprintf("%v/%d/%d/%d", op.Priority, op.Val, ri, step)
		if asked[id] {
			repeats++
		}
		if acceptedCred[id] && op.Variant != 0 {
			afterAccept++
		}
		asked[id] = true
		var verr error
		var want bool
		var what string
		if op.Priority {
			hs := liveSeatHashes(cr.Value, votes)
			best := hs[0]
			for _, h := range hs {
				if new(big.Int).SetBytes(h[:]).Cmp(new(big.Int).SetBytes(best[:])) > 0 {
					best = h
				}
			}
			prio := best
			want = op.Variant == 0 && honest.J >= 1
			data := &ucon.ConsensusCommon{Round: new(big.Int).SetUint64(round), RoundIndex: ri, Step: 1, Priority: prio, SortitionProof: cr.Proof, SubUsers: votes}
			what = fmt.Sprintf("verifyPriority(v%d, index %d, seats %d (won %d), variant %d)", op.Val, ri, votes, honest.J, op.Variant)
			verr = rig.VerifVerifyPriority(&key.Ecdsa.PublicKey, data)
			hist = append(hist, fmt.Sprintf("[%d] %s -> %v (statement: accept=%v)", i, what, verr, want))
			if (verr == nil) != want {
				return liveFail(c, hist, verr, want)
			}
			if verr == nil {
				acceptedCred[id] = true
				// the same, verified credential with priorities that are NOT the largest seat hash
				forged := []common.Hash{common.HexToHash("0xffffffffffffffffffffffffffffffffffffffffffffffffffffffffffffffff")}
				for _, h := range hs {
					if h != best {
						forged = append(forged, h)
						break
					}
				}
				for _, f := range forged {
					d2 := *data
					d2.Priority = f
					e2 := rig.VerifVerifyPriority(&key.Ecdsa.PublicKey, &d2)
					hist = append(hist, fmt.Sprintf("    same credential, priority %x (not the largest seat hash) -> %v (statement: accept=false)", f[:4], e2))
					afterAccept++
					if e2 == nil {
						return liveFail(c, hist, e2, false)
					}
				}
			}
		} else {
			want = op.Variant == 0 && honest.J >= 1
			data := &ucon.SortitionData{Round: new(big.Int).SetUint64(round), RoundIndex: ri, Step: step, Proof: cr.Proof, Votes: votes}
			what = fmt.Sprintf("verifySortition(v%d, index %d, step %d, seats %d (won %d), variant %d)", op.Val, ri, step, votes, honest.J, op.Variant)
			verr = rig.VerifVerifySortition(&key.Ecdsa.PublicKey, data, lb)
			hist = append(hist, fmt.Sprintf("[%d] %s -> %v (statement: accept=%v)", i, what, verr, want))
			if (verr == nil) != want {
				return liveFail(c, hist, verr, want)
			}
			if verr == nil {
				acceptedCred[id] = true
			}
		}
		if verr == nil {
			accepted++
		} else {
			rejected++
		}
	}
	labels := []string{fmt.Sprintf("params:%d", c.Params)}
	if c.Cert {
		labels = append(labels, "cert-round")
	}
	if repeats > 0 {
		labels = append(labels, "credential-asked-again")
	}
	if afterAccept > 0 {
		labels = append(labels, "altered-after-accepted")
	}
	if accepted > 0 {
		labels = append(labels, "some-accepted")
	}
	if rejected > 0 {
		labels = append(labels, "some-rejected")
	}
	sort.Strings(labels)
	return kit.OK(afterAccept > 0, labels...)
}

func liveFail(c LiveCase, hist []string, got error, want bool) kit.Result {
	class := "live-credential-accepted"
	if want {
		class = "live-honest-credential-rejected"
	}
	return kit.Fail(class, "the running node's verdict (%v) differs from the statement's (accept=%v) for the last question\nvalidators: %+v, thresholds %v\nquestions:\n%s",
		got, want, c.Vals, liveTriples[c.Params], strings.Join(hist, "\n"))
}

var _ = kit.Register(kit.Prop[LiveCase]{
	Name: "LiveVerifier",
	Rule: "3-6 online senators on a real validator trie behind a synthetic header table, a Server wired as in StartMining (rig shim), round 40 index 1; 2-10 questions to Server.verifySortition / Server.verifyPriority about 1-3 credentials (validator, index 1-3, step), each asked repeatedly in generated order as: genuine, one seat more than won, issued for another step, for another round index, to another validator; after every accepted proposer credential the same proof and seat count are asked again with the all-ones priority and with a seat hash that is not the largest. Oracle: per question, accept iff genuine and at least one seat was won - independent of the questions before. Non-trivial: an altered form was asked after the genuine one had been accepted",
	Gen:  genLiveCase, Run: runLiveCase,
	Quick: 150, Thorough: 4000, Chunk: 50, MinNonTrivialPct: 20,
})

// ---------------------------------------------------------------------------------
// LiveIssuer: the node's own credential issuer (SortitionManager.isProposer / isValidator, used by
// Prepare and by the voter) must hand out, for every (round, round index, step) it is asked about, the
// credential of exactly that round's seed - whatever it was asked before and whether or not its step
// views were cleared in between (Prepare asks about round head+1 before the engine has switched rounds).

type IssueOp struct {
	NextRound bool   `json:"next"` // ask about round+1 instead of round
	Proposer  bool   `json:"proposer"`
	RI        uint32 `json:"ri"`
	Step      uint32 `json:"step"`
	Clear     bool   `json:"clear"` // the engine switches to that round first (ClearStepView)
}

type IssueCase struct {
	Params int          `json:"params"`
	Vals   []uk.ValSpec `json:"vals"`
	Seed   uint8        `json:"seed"`
	Ops    []IssueOp    `json:"ops"`
}

func genIssueCase(t *rapid.T) IssueCase {
	c := IssueCase{Params: rapid.IntRange(0, 2).Draw(t, "params"), Seed: rapid.Uint8().Draw(t, "seed")}
	T := liveTriples[c.Params][1]
	n := rapid.IntRange(3, 5).Draw(t, "nvals")
	var chamber uint64
	for i := 0; i < n; i++ {
		v := uk.ValSpec{Key: i, Online: true, Role: uint8(params.RoleSenator)}
		v.Stake = 1 + uint64(rapid.IntRange(0, int(T)).Draw(t, "stake"))
		chamber += v.Stake
		c.Vals = append(c.Vals, v)
	}
	if chamber < T {
		c.Vals[0].Stake += T - chamber
	}
	// the node's own stake decides how often it wins a seat at all: make it substantial
	c.Vals[0].Stake += T / 2
	nops := rapid.IntRange(2, 8).Draw(t, "nops")
	for i := 0; i < nops; i++ {
		c.Ops = append(c.Ops, IssueOp{NextRound: rapid.Bool().Draw(t, "next"), Proposer: rapid.IntRange(0, 2).Draw(t, "proposer") == 0,
			RI: uint32(rapid.IntRange(1, 2).Draw(t, "ri")), Step: uint32(rapid.IntRange(2, 4).Draw(t, "step")), Clear: rapid.IntRange(0, 5).Draw(t, "clear") == 0})
	}
	return c
}

func runIssueCase(c IssueCase) kit.Result {
	set, err := uk.BuildSet(c.Vals)
	if err != nil {
		return kit.Discarded("set: " + err.Error())
	}
	yp := params.Versions[params.YouVersion(liveVersionBase+c.Params)]
	const round = uint64(40)
	chain := uk.NewFakeChain(set, &yp, round, c.Seed) // head = block 40: both round 40 and round 41 can be asked about
	chain.HeaderVersion = yp.Version
	own := uk.PoolKey(c.Vals[0].Key)
	rig, err := ucon.VerifNewRig(youdb.NewMemDatabase(), chain, own.Ecdsa, own.BlsSk, &yp, round)
	if err != nil {
		return kit.Discarded("rig: " + err.Error())
	}
	defer rig.Mux.Stop()
	rig.SetContext(round, 1, 0)
	trip := liveTriples[c.Params]
	var hist []string
	askedRounds := map[string]map[uint64]bool{}
	crossRound, won := 0, 0
	for i, op := range c.Ops {
		r := round
		if op.NextRound {
			r++
		}
		if op.Clear {
			rig.VerifClearStepViews(r)
			hist = append(hist, fmt.Sprintf("[%d] engine switches to round %d (step views cleared)", i, r))
		}
		step, T := op.Step, trip[1]
		if op.Proposer {
			step, T = 1, trip[0]
		}
		seed := chain.SeedOf(r - yp.SeedLookBack)
		want := uk.Sortition(own.N, seed, op.RI, step, T, c.Vals[0].Stake, set.TotalChamber)
		var ok bool
		var sv *ucon.StepView
		if op.Proposer {
			ok, sv = rig.VerifIsProposer(r, op.RI)
		} else {
			ok, sv = rig.VerifIsValidator(r, op.RI, step, params.LookBackPos)
		}
		id := fmt.Sprintf("%d/%d", op.RI, step)
		if askedRounds[id] == nil {
			askedRounds[id] = map[uint64]bool{}
		}
		if len(askedRounds[id]) > 0 && !askedRounds[id][r] {
			crossRound++
		}
		askedRounds[id][r] = true
		got := uint32(0)
		if sv != nil {
			got = sv.SubUsers
		}
		hist = append(hist, fmt.Sprintf("[%d] credential for (round %d, index %d, step %d): selected=%v seats=%d (that round's seed gives %d)", i, r, op.RI, step, ok, got, want.J))
		fail := func(f string, a ...interface{}) kit.Result {
			return kit.Fail("issued-credential-of-another-context", "%s\nvalidators: %+v, thresholds %v, node = v0\nquestions:\n%s", fmt.Sprintf(f, a...), c.Vals, trip, strings.Join(hist, "\n"))
		}
		if ok != (want.J >= 1) {
			return fail("the node says selected=%v for (round %d, index %d, step %d); the sortition of that round's seed gives %d seats", ok, r, op.RI, step, want.J)
		}
		if !ok {
			continue
		}
		won++
		if sv == nil || sv.SubUsers != want.J {
			return fail("the node claims %d seats for (round %d, index %d, step %d); the sortition of that round's seed gives %d", got, r, op.RI, step, want.J)
		}
		// the issued proof must verify for exactly that context through the running verifier
		if op.Proposer {
			data := &ucon.ConsensusCommon{Round: new(big.Int).SetUint64(r), RoundIndex: op.RI, Step: 1, Priority: sv.Priority, SortitionProof: sv.SortitionProof, SubUsers: sv.SubUsers}
			if e := rig.VerifVerifyPriority(&own.Ecdsa.PublicKey, data); e != nil {
				return fail("the proposer credential the node issued for (round %d, index %d) does not verify for that round: %v", r, op.RI, e)
			}
		} else {
			data := &ucon.SortitionData{Round: new(big.Int).SetUint64(r), RoundIndex: op.RI, Step: step, Proof: sv.SortitionProof, Votes: sv.SubUsers}
			if e := rig.VerifVerifySortition(&own.Ecdsa.PublicKey, data, params.LookBackPos); e != nil {
				return fail("the vote credential the node issued for (round %d, index %d, step %d) does not verify for that round: %v", r, op.RI, step, e)
			}
		}
	}
	labels := []string{fmt.Sprintf("params:%d", c.Params)}
	if crossRound > 0 {
		labels = append(labels, "same-index-and-step-asked-for-two-rounds")
	}
	if won > 0 {
		labels = append(labels, "some-selected")
	}
	sort.Strings(labels)
	return kit.OK(crossRound > 0 && won > 0, labels...)
}

var _ = kit.Register(kit.Prop[IssueCase]{
	Name: "LiveIssuer",
	Rule: "3-5 online senators, the node holds a substantial stake; a Server wired as in StartMining at round 40 (head = block 40); 2-8 questions to SortitionManager.isProposer / isValidator about (round 40 or 41, index 1-2, step), in generated order, with or without the engine's round switch (ClearStepView) in between - Prepare asks about round head+1 before the engine has switched. Oracle: selected iff the sortition of THAT round's seed gives a seat, the claimed seat count is that sortition's, and the issued proof verifies for that round through the running verifier. Non-trivial: the same (index, step) was asked for both rounds and a seat was won",
	Gen:  genIssueCase, Run: runIssueCase,
	Quick: 150, Thorough: 4000, Chunk: 50, MinNonTrivialPct: 20,
})
