package c02

import (
	"crypto/ecdsa"
	"fmt"
	"math/big"
	"sort"
	"strings"
	"sync"
	"testing"

	"github.com/youchainhq/go-youchain/common"
	"github.com/youchainhq/go-youchain/consensus/ucon"
	"github.com/youchainhq/go-youchain/core/state"
	"github.com/youchainhq/go-youchain/core/types"
	"github.com/youchainhq/go-youchain/event"
	"github.com/youchainhq/go-youchain/params"
	"github.com/youchainhq/go-youchain/rlp"
	"github.com/youchainhq/go-youchain/staking"
	"github.com/youchainhq/go-youchain/youdb"
	"pgregory.net/rapid"
	"verif/kit"
	uk "verif/lib/uconkit"
)

func TestMain(m *testing.M) {
	params.InitNetworkId(params.NetworkIdForTestCase)
	kit.Main(m, "C02")
}
func TestProps(t *testing.T)  { kit.RunAll(t) }
func TestReplay(t *testing.T) { kit.ReplayAll(t) }

const (
	nVals     = 6
	committee = 100 // committee size T the stubs report; quorum = 68, certificate quorum = 58
	certStart = 32768
)

// Op is one step of a validator's life.
type Op struct {
	Kind string `json:"kind"`
	A    int    `json:"a"`
	B    int    `json:"b"`
	C    int    `json:"c"`
	D    int    `json:"d"`
	// (nextindex / newround) the context event of the previous context arrives after the new one
	Reordered bool `json:"reordered,omitempty"`
}

// Case is a history of timers, proposals, received votes and crash/restarts.
type Case struct {
	Cert      bool `json:"cert"`       // start at round 32768 (certificate round)
	OwnWeight int  `json:"own_weight"` // seats the node under test wins in every step
	Ops       []Op `json:"ops"`
}

// genCase generates a validator's life as a sequence of round-index episodes: proposals,
// step timers up to some step with received votes / quorums in between, optionally a crash
// armed on one of the events, and a transition (next index, new round, restart, nothing).
func genCase(t *rapid.T) Case {
	c := Case{Cert: rapid.IntRange(0, 3).Draw(t, "cert") == 0, OwnWeight: rapid.SampledFrom([]int{10, 30, 70}).Draw(t, "ownw")}
	op := func(kind string) Op {
		return Op{Kind: kind, A: rapid.IntRange(0, 255).Draw(t, "a"), B: rapid.IntRange(0, 255).Draw(t, "b"),
			C: rapid.IntRange(0, 255).Draw(t, "c"), D: rapid.IntRange(0, 255).Draw(t, "d")}
	}
	episodes := rapid.IntRange(1, 6).Draw(t, "episodes")
	for ep := 0; ep < episodes; ep++ {
		np := rapid.IntRange(0, 2).Draw(t, "nprop")
		for i := 0; i < np; i++ {
			c.Ops = append(c.Ops, op("propose"))
		}
		steps := rapid.IntRange(0, 6).Draw(t, "steps")
		crashAt := -1
		if rapid.IntRange(0, 3).Draw(t, "crashmid") == 0 && steps > 0 {
			crashAt = rapid.IntRange(0, steps-1).Draw(t, "crashat")
		}
		for st := 0; st < steps; st++ {
			nev := rapid.IntRange(0, 2).Draw(t, "nev")
			for i := 0; i < nev; i++ {
				k := rapid.SampledFrom([]string{"recv", "recv", "quorum", "quorum", "propose"}).Draw(t, "ev")
				if st == crashAt && i == 0 && rapid.Bool().Draw(t, "crashOnRecv") {
					cr := op("crash")
					cr.A = rapid.IntRange(0, 1).Draw(t, "crashmode")
					c.Ops = append(c.Ops, cr)
					crashAt = -1
				}
				c.Ops = append(c.Ops, op(k))
			}
			if st == crashAt {
				cr := op("crash")
				cr.A = rapid.IntRange(0, 1).Draw(t, "crashmode") // kill before / after the vote-record write
				c.Ops = append(c.Ops, cr)
			}
			c.Ops = append(c.Ops, op("step"))
		}
		switch rapid.IntRange(0, 9).Draw(t, "end") {
		case 8:
			// the round index times out and the operator pauses / resumes mining before anything is voted in the new one
			c.Ops = append(c.Ops, op("nextindex"), op("resume"))
		case 9:
			c.Ops = append(c.Ops, op("resume"))
		case 0, 1, 2:
			o := op("nextindex")
			o.Reordered = rapid.IntRange(0, 4).Draw(t, "reorder") == 0
			c.Ops = append(c.Ops, o)
		case 3:
			o := op("newround")
			o.Reordered = rapid.IntRange(0, 2).Draw(t, "reorder") == 0
			c.Ops = append(c.Ops, o)
		case 4, 5:
			cr := op("crash")
			cr.A = 2 // clean stop between two events
			c.Ops = append(c.Ops, cr)
		}
	}
	return c
}

// ---------------------------------------------------------------------------------
// crash-injecting database

type crashSignal struct{}

// crashDB applies writes to a MemDatabase until armed; when armed, the k-th Put of the
// running action kills the process: either just before the write reaches the disk
// ("before") or just after it ("after": persisted, but nothing later happened).
type crashDB struct {
	*youdb.MemDatabase
	mu    sync.Mutex
	armed bool
	skip  int
	after bool
	fired bool
	puts  int
}

func (d *crashDB) Put(key, value []byte) error {
	d.mu.Lock()
	d.puts++
	if d.armed {
		if d.skip > 0 {
			d.skip--
		} else {
			d.armed, d.fired = false, true
			after := d.after
			d.mu.Unlock()
			if after {
				d.MemDatabase.Put(key, value)
			}
			panic(crashSignal{})
		}
	}
	d.mu.Unlock()
	return d.MemDatabase.Put(key, value)
}

// ---------------------------------------------------------------------------------
// the environment the voter lives in (everything except the voter itself is a stub
// owned by the harness; other validators' crypto is not the subject here)

type env struct {
	set    *uk.Set
	cp     params.CaravelParams
	yp     *params.YouParams
	own    int
	ownW   uint32
	blocks map[string]*types.Block     // blockKey(round, id) -> block
	props  map[[2]uint64][]proposalRec // (round, index) -> proposals known to this incarnation
}

type proposalRec struct {
	hash     common.Hash
	priority common.Hash
}

func (e *env) CurrentCaravelParams() *params.CaravelParams { return &e.cp }
func (e *env) CertificateParams(round *big.Int) (*params.CaravelParams, error) {
	// as Server.CertificateParams: only certificate rounds have certificate parameters
	if round.Uint64()%params.ACoCHTFrequency != 0 {
		return nil, fmt.Errorf("round %d is not a certificate round", round)
	}
	return &e.cp, nil
}
func (e *env) CurrentYouParams() *params.YouParams { return e.yp }
func (e *env) GetLookBackVldReader(cp *params.CaravelParams, num *big.Int, lbType params.LookBackType) (state.ValidatorReader, error) {
	return e.set.Reader, nil
}

func (e *env) block(round uint64, id int) *types.Block {
	k := fmt.Sprintf("%d/%d", round, id)
	if b, ok := e.blocks[k]; ok {
		return b
	}
	h := uk.NewHeader(nil, round)
	h.Extra = []byte{byte(id)}
	b := types.NewBlockWithHeader(h)
	e.blocks[k] = b
	return b
}

var (
	sigMu    sync.Mutex
	sigCache = map[string][]byte{}
)

// blsSig memoises BLS signatures (a pure function of key and payload).
func blsSig(key int, payload []byte) []byte {
	k := fmt.Sprintf("%d/%x", key, payload)
	sigMu.Lock()
	defer sigMu.Unlock()
	if s, ok := sigCache[k]; ok {
		return s
	}
	c := uk.BlsSign(key, payload).Compress()
	s := append([]byte(nil), c.Bytes()...)
	if len(sigCache) < 200000 {
		sigCache[k] = s
	}
	return s
}

var voteKinds = []ucon.VoteType{ucon.Prevote, ucon.Precommit, ucon.NextIndex, ucon.Certificate}

type emitted struct {
	kind  ucon.VoteType
	round uint64
	index uint32
	hash  common.Hash
	inc   int // incarnation that emitted it
	op    int
}

func kindName(k ucon.VoteType) string { return ucon.VoteTypeToString(k) }

func runCase(c Case) kit.Result {
	var specs []uk.ValSpec
	for i := 0; i < nVals; i++ {
		specs = append(specs, uk.ValSpec{Key: i, Role: uint8(params.RoleSenator), Online: true, Stake: 100})
	}
	set, err := uk.BuildSet(specs)
	if err != nil {
		return kit.Discarded("set: " + err.Error())
	}
	e := &env{set: set, own: 0, ownW: uint32(c.OwnWeight), blocks: map[string]*types.Block{}, props: map[[2]uint64][]proposalRec{}}
	e.cp = params.CaravelParams{ProposerThreshold: 26, ValidatorThreshold: committee, CertValThreshold: committee, EnableBls: true}
	yp := params.Versions[params.YouV5]
	yp.CaravelParams = e.cp
	e.yp = &yp

	db := &crashDB{MemDatabase: youdb.NewMemDatabase()}
	mux := new(event.TypeMux)
	col := uk.NewCollector(mux, ucon.SendMessageEvent{}, ucon.CommitEvent{}, ucon.RoundIndexChangeEvent{}, ucon.UpdateExistedHeaderEvent{}, staking.Evidence{})
	defer func() {
		col.Quiesce()
		col.Close()
		mux.Stop()
	}()

	round := uint64(6)
	if c.Cert {
		round = certStart
	}
	index, step := uint32(1), uint32(0)
	isCert := func(r uint64) bool { return r > 0 && r%params.ACoCHTFrequency == 0 }

	deps := ucon.VerifVoterDeps{
		VerifySortition: func(pubKey *ecdsa.PublicKey, data *ucon.SortitionData, lbType params.LookBackType) error { return nil },
		IsValidator: func(r *big.Int, ri uint32, st uint32, lbType params.LookBackType) (bool, *ucon.StepView) {
			return true, &ucon.StepView{SubUsers: e.ownW, SortitionProof: []byte{1}, ValidatorType: params.KindChamber, Threshold: committee}
		},
		MaxPriority: func(r *big.Int, ri uint32) (common.Hash, common.Hash, bool) {
			ps := e.props[[2]uint64{r.Uint64(), uint64(ri)}]
			if len(ps) == 0 {
				return common.Hash{}, common.Hash{}, false
			}
			best := ps[0]
			for _, p := range ps[1:] {
				if new(big.Int).SetBytes(p.priority[:]).Cmp(new(big.Int).SetBytes(best.priority[:])) > 0 {
					best = p
				}
			}
			return best.priority, best.hash, true
		},
		BlockInCache: func(h common.Hash, prio common.Hash) *types.Block {
			for _, ps := range e.props {
				for _, p := range ps {
					if p.hash == h {
						for _, b := range e.blocks {
							if b.Hash() == h {
								return b
							}
						}
					}
				}
			}
			return nil
		},
		GetStake: func(r *big.Int, addr common.Address, isProposer bool, lbType params.LookBackType) (*big.Int, *big.Int, uint64, params.ValidatorKind, uint8, error) {
			return big.NewInt(100), big.NewInt(100 * nVals), committee, params.KindChamber, params.ValidatorOnline, nil
		},
		ValidatorsCount: func(r *big.Int, kind params.ValidatorKind, lbType params.LookBackType) uint64 { return nVals },
		Params:          e,
		LookBack:        e,
	}
	own := uk.PoolKey(0)
	incarnation := 0
	newVoter := func() *ucon.Voter {
		incarnation++
		e.props = map[[2]uint64][]proposalRec{} // the proposal cache is in memory only
		return ucon.VerifNewVoter(db, own.Ecdsa, own.BlsSk, mux, deps)
	}
	voter := newVoter()

	var all []emitted
	var labels = map[string]bool{}
	var history []string
	quorumBlocks := map[[3]uint64]map[common.Hash]bool{} // (round,index,kind) -> blocks for which the harness delivered a quorum
	votedThisRound := false
	crashAfterVote, twoQuorums := false, false

	collect := func(op int) *kit.Result {
		if !col.Quiesce() {
			r := kit.Discarded("event mux did not quiesce")
			return &r
		}
		for _, ev := range col.Drain() {
			sm, ok := ev.(ucon.SendMessageEvent)
			if !ok {
				continue
			}
			var kind ucon.VoteType
			switch sm.Code {
			case ucon.MsgType(ucon.VerifMsgPrevote):
				kind = ucon.Prevote
			case ucon.MsgType(ucon.VerifMsgPrecommit):
				kind = ucon.Precommit
			case ucon.MsgType(ucon.VerifMsgNext):
				kind = ucon.NextIndex
			case ucon.MsgType(ucon.VerifMsgCertificate):
				kind = ucon.Certificate
			default:
				continue
			}
			var v ucon.BlockHashWithVotes
			if err := rlp.DecodeBytes(sm.Payload, &v); err != nil {
				r := kit.Fail("undecodable-own-vote", "emitted vote payload does not decode: %v", err)
				return &r
			}
			all = append(all, emitted{kind: kind, round: v.Round.Uint64(), index: v.RoundIndex, hash: v.BlockHash, inc: incarnation, op: op})
			history = append(history, fmt.Sprintf("      -> EMITS %s (%d,%d) block %x [incarnation %d]", kindName(kind), v.Round.Uint64(), v.RoundIndex, v.BlockHash[:4], incarnation))
			votedThisRound = true
		}
		// the invariant over the whole history
		type key struct {
			kind  ucon.VoteType
			round uint64
			index uint32
		}
		cnt := map[key][]emitted{}
		for _, em := range all {
			k := key{em.kind, em.round, em.index}
			cnt[k] = append(cnt[k], em)
		}
		for k, ems := range cnt {
			limit := 1
			if k.kind == ucon.NextIndex {
				limit = 2
			}
			distinct := map[common.Hash]bool{}
			for _, em := range ems {
				distinct[em.hash] = true
			}
			conflict := k.kind != ucon.NextIndex && len(distinct) > 1
			if len(ems) > limit || conflict {
				class := "double-vote"
				incs := map[int]bool{}
				for _, em := range ems {
					incs[em.inc] = true
				}
				if len(incs) > 1 {
					class = "double-vote-across-restart"
					if k.kind == ucon.Certificate {
						class = "double-certificate-across-restart"
					}
				}
				what := "the same block twice"
				if conflict {
					what = "CONFLICTING blocks"
				}
				r := kit.Fail(class, "validator emitted %d %s votes in round %d index %d (%s); allowed: %d\nhistory:\n%s",
					len(ems), kindName(k.kind), k.round, k.index, what, limit, strings.Join(history, "\n"))
				return &r
			}
		}
		return nil
	}

	deliver := func(kind ucon.VoteType, sender int, r uint64, ri uint32, hash common.Hash, weight uint32) {
		status := ucon.VerifMsgSame
		switch {
		case r < round:
			status = ucon.VerifMsgOldRound
		case r > round:
			status = ucon.VerifMsgFuture
		case ri < index:
			status = ucon.VerifMsgOldRoundIndex
		case ri > index:
			status = ucon.VerifMsgFuture
		}
		k := uk.PoolKey(sender)
		payload := uk.VotePayload(hash, r, ri)
		data := &ucon.BlockHashWithVotes{Priority: hash, BlockHash: hash, Round: new(big.Int).SetUint64(r), RoundIndex: ri,
			Vote: &ucon.SingleVote{VoterIdx: uint32(set.Index[sender]), Votes: weight, Signature: blsSig(sender, payload), Proof: []byte{1}}, Timestamp: 1}
		voter.VerifProcessVote(kind, k.Addr, data, status)
	}

	// runAction executes fn against the current voter; a fired crash restarts the validator.
	restart := func(note string, newBlockWhileDown bool) {
		if votedThisRound {
			crashAfterVote = true
		}
		voter = newVoter()
		if newBlockWhileDown {
			round++
			votedThisRound = false
		}
		// StartMining -> StartNewRound(true) -> clearData: round = head+1, roundIndex = 1, step timer from 0
		index, step = 1, 0
		history = append(history, fmt.Sprintf("   == %s; RESTART on the same database: context (%d,%d) step 0", note, round, index))
		voter.VerifUpdateContext(round, index, step, isCert(round))
	}
	runAction := func(fn func()) (crashed bool) {
		defer func() {
			if r := recover(); r != nil {
				if _, ok := r.(crashSignal); !ok {
					panic(r)
				}
				crashed = true
			}
		}()
		fn()
		return false
	}

	voter.VerifUpdateContext(round, index, step, isCert(round))
	history = append(history, fmt.Sprintf("start: context (%d,%d) step 0, own weight %d, committee %d", round, index, c.OwnWeight, committee))
	pendingCrash := ""
	for i, op := range c.Ops {
		desc := ""
		var fn func()
		switch op.Kind {
		case "step":
			if step >= 7 {
				continue
			}
			step++
			desc = fmt.Sprintf("timer: step %d at (%d,%d)", step, round, index)
			fn = func() { voter.VerifUpdateContext(round, index, step, isCert(round)) }
		case "nextindex", "timeout":
			or, oi, os := round, index, step
			index += 1 + uint32(op.A%2)
			step = 0
			desc = fmt.Sprintf("next round index: context (%d,%d) step 0", round, index)
			fn = func() { voter.VerifUpdateContext(round, index, step, isCert(round)) }
			if op.Reordered {
				// context changes are posted with AsyncPost (one goroutine each): two consecutive ones - a step tick
				// right before the transition - may reach the voter in swapped order
				labels["context-events-reordered"] = true
				desc += fmt.Sprintf("; the event of the previous context (%d,%d) step %d is delivered AFTER it (AsyncPost reordering)", or, oi, os)
				fn = func() {
					voter.VerifUpdateContext(round, index, step, isCert(round))
					voter.VerifUpdateContext(or, oi, os, isCert(or))
				}
			}
		case "resume":
			// Server.Pause + Server.Resume (or a late ContextChangeEvent): the SAME voter object and vote
			// database re-enter the current round at round index 1 (Resume -> StartNewRound(true) -> clearData)
			index, step = 1, 0
			labels["resume-same-process"] = true
			desc = fmt.Sprintf("pause/resume: context back to (%d,%d) step 0, same process", round, index)
			fn = func() { voter.VerifUpdateContext(round, index, step, isCert(round)) }
		case "newround":
			or, oi, os := round, index, step
			round++
			index, step = 1, 0
			votedThisRound = false
			desc = fmt.Sprintf("new block: context (%d,%d) step 0", round, index)
			fn = func() { voter.VerifUpdateContext(round, index, step, isCert(round)) }
			if op.Reordered {
				labels["context-events-reordered"] = true
				desc += fmt.Sprintf("; the event of the previous context (%d,%d) step %d is delivered AFTER it (AsyncPost reordering)", or, oi, os)
				fn = func() {
					voter.VerifUpdateContext(round, index, step, isCert(round))
					voter.VerifUpdateContext(or, oi, os, isCert(or))
				}
			}
		case "propose":
			b := e.block(round, op.A%3)
			prio := common.BytesToHash([]byte{byte(op.B), byte(op.A % 3), 1})
			k := [2]uint64{round, uint64(index)}
			e.props[k] = append(e.props[k], proposalRec{hash: b.Hash(), priority: prio})
			history = append(history, fmt.Sprintf("[%d] proposal: block #%d (%x) for (%d,%d) priority %x", i, op.A%3, b.Hash().Bytes()[:4], round, index, prio[29:]))
			continue
		case "recv":
			kind := voteKinds[op.A%4]
			sender := 1 + op.B%(nVals-1)
			hash := e.block(round, op.C%3).Hash()
			if kind == ucon.NextIndex && op.C%4 == 3 {
				hash = common.Hash{}
			}
			r, ri := round, index
			switch op.D % 8 {
			case 0:
				if ri > 1 {
					ri--
				}
			case 1:
				ri++
			case 2:
				if r > 1 {
					r--
				}
			}
			weight := []uint32{10, 30, 40, 70}[(op.D/8)%4]
			desc = fmt.Sprintf("recv %s from v%d for (%d,%d) block %x weight %d", kindName(kind), sender, r, ri, hash[:4], weight)
			fn = func() { deliver(kind, sender, r, ri, hash, weight) }
		case "quorum":
			// three senders give one block a quorum of a vote kind (adversaries may do so for several blocks)
			kind := voteKinds[op.A%4]
			hash := e.block(round, op.C%3).Hash()
			off := op.B % (nVals - 1)
			desc = fmt.Sprintf("recv QUORUM of %s for (%d,%d) block %x", kindName(kind), round, index, hash[:4])
			qk := [3]uint64{round, uint64(index), uint64(kind)}
			if quorumBlocks[qk] == nil {
				quorumBlocks[qk] = map[common.Hash]bool{}
			}
			quorumBlocks[qk][hash] = true
			if len(quorumBlocks[qk]) > 1 {
				twoQuorums = true
				labels["two-quorums-one-index"] = true
			}
			r, ri := round, index
			fn = func() {
				for s := 0; s < 3; s++ {
					deliver(kind, 1+(off+s)%(nVals-1), r, ri, hash, 30)
				}
			}
		case "crash":
			switch op.A % 3 {
			case 2:
				history = append(history, fmt.Sprintf("[%d] clean stop", i))
				restart("process stopped between two events", op.C%4 == 0)
				labels["restart-clean"] = true
				if r := collect(i); r != nil {
					return *r
				}
			default:
				db.mu.Lock()
				db.armed, db.skip, db.after = true, op.B%2, op.A%3 == 1
				db.mu.Unlock()
				pendingCrash = "before"
				if op.A%3 == 1 {
					pendingCrash = "after"
				}
			}
			continue
		}
		history = append(history, fmt.Sprintf("[%d] %s", i, desc))
		crashed := runAction(fn)
		if r := collect(i); r != nil {
			return *r
		}
		db.mu.Lock()
		db.armed = false
		db.mu.Unlock()
		if crashed {
			labels["crash-"+pendingCrash+"-write"] = true
			restart(fmt.Sprintf("process KILLED %s a vote-record write reached the disk (record persisted, vote not yet gossiped: %v)", pendingCrash, pendingCrash == "after"), op.D%5 == 0)
			if r := collect(i); r != nil {
				return *r
			}
		}
		pendingCrash = ""
	}
	var ls []string
	for l := range labels {
		ls = append(ls, l)
	}
	if len(all) > 0 {
		ls = append(ls, "voted")
	}
	if c.Cert {
		ls = append(ls, "cert-round")
	}
	kinds := map[ucon.VoteType]bool{}
	for _, em := range all {
		kinds[em.kind] = true
	}
	for k := range kinds {
		ls = append(ls, "emitted-"+kindName(k))
	}
	sort.Strings(ls)
	return kit.OK(crashAfterVote || twoQuorums, ls...)
}

var _ = kit.Register(kit.Prop[Case]{
	Name: "VoteOnce",
	Rule: "histories of 3-45 events for the real Voter+VoteDB+VoteBLSMgr (stubbed sortition/stake/proposal callbacks, real BLS): step timers (monotone), next round index (+1/+2), new round, up to 3 competing proposals, received prevote/precommit/next/certificate votes (single, stale, future, or a 3-sender quorum; adversaries form quorums for different blocks), and crash/restarts: clean stop, or the process killed at the 1st/2nd vote-record write of the next event either before or after the record reaches the disk; the restarted validator gets the context a real restart delivers (round = head+1, index 1); pause/resume (the same process re-enters index 1); context events of a transition delivered in swapped order (they are posted with AsyncPost, one goroutine each). Oracle: over ALL incarnations, per (round, index): <=1 prevote, <=1 precommit, <=1 certificate vote, <=2 next-index votes, never two block hashes for one kind. Non-trivial = a restart after a vote was emitted in that round, or quorums for two different blocks in one index",
	Gen:  genCase, Run: runCase,
	Quick: 200, Thorough: 6000, Chunk: 50, MinNonTrivialPct: 25,
})
