package c17

import (
	"crypto/ecdsa"
	"fmt"
	"math/big"
	"sync"

	"github.com/youchainhq/go-youchain/common"
	"github.com/youchainhq/go-youchain/consensus/solo"
	"github.com/youchainhq/go-youchain/core"
	"github.com/youchainhq/go-youchain/core/state"
	"github.com/youchainhq/go-youchain/core/types"
	"github.com/youchainhq/go-youchain/core/vm"
	"github.com/youchainhq/go-youchain/crypto"
	"github.com/youchainhq/go-youchain/event"
	"github.com/youchainhq/go-youchain/local"
	"github.com/youchainhq/go-youchain/params"
	"github.com/youchainhq/go-youchain/staking"
	"github.com/youchainhq/go-youchain/youdb"
)

// The process-wide network id (and with it params.Versions) is set exactly once, before
// any case runs, and never changed.
const (
	netID      = uint64(params.NetworkIdForTestCase) // 99
	otherNetID = uint64(98)
)

func init() { params.InitNetworkId(netID) }

// ---------------------------------------------------------------------------------
// fixed actors

const nSenders = 4

var (
	keys  []*ecdsa.PrivateKey // nSenders funded senders + 2 validator main keys + 2 spare
	addrs []common.Address

	you = new(big.Int).SetUint64(params.YOU)

	// recipients
	freshAddr       = common.HexToAddress("0x00000000000000000000000000000000000f4e54") // does not exist at genesis
	beneficiaryAddr = common.HexToAddress("0x00000000000000000000000000000000be4ef1c1") // funded; target of SELFDESTRUCT
	coinbaseAddr    = common.HexToAddress("0x00000000000000000000000000000000c014ba5e")
	identityAddr    = common.BytesToAddress([]byte{4}) // precompile: data copy

	acceptAddr   = common.HexToAddress("0x00000000000000000000000000000000c0de0001")
	revertAddr   = common.HexToAddress("0x00000000000000000000000000000000c0de0002")
	invalidAddr  = common.HexToAddress("0x00000000000000000000000000000000c0de0003")
	clearAddr    = common.HexToAddress("0x00000000000000000000000000000000c0de0004")
	destructAddr = common.HexToAddress("0x00000000000000000000000000000000c0de0005")

	stakingAddr = params.StakingModuleAddress

	// validators present in the parent state (main key index -> validator)
	valOwnMain   common.Address // house validator operated by sender 0, accepts delegations
	valOtherMain common.Address // house validator operated by sender 1, does not accept delegations
)

// contract code (hand-assembled; the execution cost of each is a constant of the
// Istanbul gas schedule and is re-derived in model.go)
var (
	codeAccept   = []byte{0x00}                                                   // STOP
	codeRevert   = []byte{0x60, 0x00, 0x60, 0x00, 0xfd}                           // PUSH1 0 PUSH1 0 REVERT
	codeInvalid  = []byte{0xfe}                                                   // INVALID
	codeClear    = []byte{0x60, 0x00, 0x60, 0x00, 0x55, 0x00}                     // PUSH1 0 PUSH1 0 SSTORE STOP  (slot 0 := 0)
	codeDestruct = append(append([]byte{0x73}, beneficiaryAddr.Bytes()...), 0xff) // PUSH20 beneficiary SELFDESTRUCT
)

func keyFor(i int) *ecdsa.PrivateKey {
	d := crypto.Keccak256([]byte(fmt.Sprintf("verif-c17-key-%d", i)))
	k, err := crypto.ToECDSA(d)
	if err != nil {
		panic(err)
	}
	return k
}

func init() {
	for i := 0; i < nSenders+4; i++ {
		k := keyFor(i)
		keys = append(keys, k)
		addrs = append(addrs, crypto.PubkeyToAddress(k.PublicKey))
	}
	valOwnMain = addrs[nSenders]
	valOtherMain = addrs[nSenders+1]
}

func youAmount(n int64) *big.Int { return new(big.Int).Mul(big.NewInt(n), you) }

var blsDummy = func() []byte {
	b := make([]byte, 48)
	for i := range b {
		b[i] = 0x11
	}
	return b
}()

// ---------------------------------------------------------------------------------
// world: a real BlockChain (solo engine, staking module registered on its processor
// exactly as you/backend.go does) per protocol version, created once per process.
// Cases never commit anything into it: each case opens a fresh StateDB on the fixed
// parent roots, so no state leaks between cases.

type world struct {
	ver     params.YouVersion
	bc      *core.BlockChain
	proc    core.Processor
	genesis *types.Block
	root    common.Hash
	valRoot common.Hash
	stkRoot common.Hash
	yp      *params.YouParams
	signer  types.Signer
}

var (
	worldMu sync.Mutex
	worlds  = map[params.YouVersion]*world{}
)

const blockGasLimitGenesis = 30000000

func getWorld(ver params.YouVersion) *world {
	worldMu.Lock()
	defer worldMu.Unlock()
	if w := worlds[ver]; w != nil {
		return w
	}
	alloc := core.GenesisAlloc{}
	for i := 0; i < nSenders; i++ {
		alloc[addrs[i]] = core.GenesisAccount{Balance: youAmount(1000000)}
	}
	alloc[beneficiaryAddr] = core.GenesisAccount{Balance: big.NewInt(1)}
	alloc[acceptAddr] = core.GenesisAccount{Balance: big.NewInt(0), Code: codeAccept}
	alloc[revertAddr] = core.GenesisAccount{Balance: big.NewInt(0), Code: codeRevert}
	alloc[invalidAddr] = core.GenesisAccount{Balance: big.NewInt(0), Code: codeInvalid}
	alloc[clearAddr] = core.GenesisAccount{Balance: big.NewInt(0), Code: codeClear,
		Storage: map[common.Hash]common.Hash{{}: common.BigToHash(big.NewInt(1))}}
	alloc[destructAddr] = core.GenesisAccount{Balance: big.NewInt(7), Code: codeDestruct}

	gspec := &core.Genesis{
		NetworkId:   netID,
		GasLimit:    blockGasLimitGenesis,
		Alloc:       alloc,
		CurrVersion: ver,
		Timestamp:   1600000000,
		Coinbase:    coinbaseAddr,
		Validators: core.GenesisValidators{
			valOtherMain: core.GenesisValidator{
				Name: "other", OperatorAddress: addrs[1], Coinbase: addrs[1],
				MainPubKey: crypto.CompressPubkey(&keys[nSenders+1].PublicKey), BlsPubKey: blsDummy,
				Token: youAmount(1000), Role: params.RoleHouse, Status: params.ValidatorOnline,
			},
		},
	}
	db := youdb.NewMemDatabase()
	gblock := gspec.MustCommit(db)
	mux := new(event.TypeMux)
	bc, err := core.NewBlockChain(db, solo.NewSolo(), mux, params.ArchiveNode, local.FakeDetailDB())
	if err != nil {
		panic(err)
	}
	// the node wires the staking module into the chain's processor like this (you/backend.go)
	staking.NewStaking(mux).Register(bc.Processor())

	// parent state = genesis state + one house validator that accepts delegations
	// (genesis validators cannot; on a live chain this comes from a ValidatorUpdate taking effect)
	st, err := bc.StateAt(gblock.Root(), gblock.ValRoot(), gblock.StakingRoot())
	if err != nil {
		panic(err)
	}
	v := st.CreateValidator("own", addrs[0], addrs[0], params.RoleHouse,
		crypto.CompressPubkey(&keys[nSenders].PublicKey), blsDummy,
		youAmount(1000), params.YOUToStake(youAmount(1000)), params.AcceptDelegation, 1000, 0, params.ValidatorOnline)
	if v == nil {
		panic("could not create validator")
	}
	root, valRoot, stkRoot, err := st.Commit(true)
	if err != nil {
		panic(err)
	}
	yp, err := bc.VersionForRound(1)
	if err != nil {
		panic(err)
	}
	if yp.Version != ver {
		panic("unexpected protocol version")
	}
	w := &world{ver: ver, bc: bc, proc: bc.Processor(), genesis: gblock, root: root, valRoot: valRoot, stkRoot: stkRoot,
		yp: yp, signer: types.MakeSigner(big.NewInt(1))}
	worlds[ver] = w
	return w
}

// newState opens a fresh StateDB on the parent state.
func (w *world) newState() *state.StateDB {
	st, err := w.bc.StateAt(w.root, w.valRoot, w.stkRoot)
	if err != nil {
		panic(err)
	}
	return st
}

// newHeader builds the header of block 1 the way miner.worker.commitNewWork does
// (accumulators start at zero; the caller passes &h.GasUsed and h.GasRewards).
func (w *world) newHeader(gasLimit uint64) *types.Header {
	return &types.Header{
		ParentHash:  w.genesis.Hash(),
		Number:      big.NewInt(1),
		GasLimit:    gasLimit,
		Time:        w.genesis.Time() + 1,
		Coinbase:    coinbaseAddr,
		GasRewards:  big.NewInt(0),
		Subsidy:     big.NewInt(0),
		CurrVersion: w.ver,
	}
}

func (w *world) vmConfig() *vm.Config {
	cfg, err := core.PrepareVMConfig(w.bc, 1, *w.bc.GetVMConfig())
	if err != nil {
		panic(err)
	}
	return cfg
}
