package c17

import (
	"math/big"
)

// ---------------------------------------------------------------------------------
// Independent oracle for the transaction-level rules of the active fork
// (EVM version "Istanbul", protocol versions YouV4 / YouV5). Nothing here calls into
// /repo/core or /repo/staking; constants are those of the published gas schedule
// (EIP-2028 data pricing, EIP-2200 SSTORE metering, EIP-150/161 SELFDESTRUCT) and of
// params/evm_params.go's documentation for the YOUChain-specific staking costs.

const (
	gTx           = 21000  // plain transaction
	gTxCreate     = 53000  // contract-creating transaction
	gTxStaking    = 100000 // transaction addressed to the staking module
	gValCreation  = 900000 // extra for ValidatorCreate under YouV5+
	gDataZero     = 4
	gDataNonZero  = 16 // EIP-2028 (Istanbul)
	gVeryLow      = 3  // PUSHn
	gSstoreClean  = 5000
	gSstoreNoop   = 800
	gSstoreSentry = 2300 // SSTORE fails unless strictly more gas than this is left
	rSstoreClear  = 15000
	gSelfdestruct = 5000
	rSelfdestruct = 24000
	gCodeDeposit  = 200 // per byte of runtime code
	gMemWord      = 3   // first words of memory expansion
	gIdentityBase = 15
	gIdentityWord = 3
)

// intrinsicGas is the up-front cost of a transaction: a base by recipient kind plus a
// per-byte charge for the payload.
func intrinsicGas(kind string, data []byte) uint64 {
	var g uint64
	switch kind {
	case "create":
		g = gTxCreate
	case "staking":
		g = gTxStaking
	default:
		g = gTx
	}
	for _, b := range data {
		if b == 0 {
			g += gDataZero
		} else {
			g += gDataNonZero
		}
	}
	return g
}

// plan is what executing the body of a transaction does, given enough gas.
//
//	need   minimal gas (after the intrinsic charge) for the body to run to its designed end
//	exec   gas the body consumes when it gets at least `need`
//	ok     whether the designed end is a success (value moves) or a failure (nothing moves)
//	burn   when the designed end is a failure: true = consumes everything (exceptional halt),
//	       false = consumes exec only (REVERT)
//	refund refund counter credited by the body (only on success)
//
// With less than `need` gas the body halts exceptionally: failure, everything consumed.
type plan struct {
	need, exec uint64
	ok         bool
	burn       bool
	refund     uint64
}

// creation templates: init code -> (plan, runtime code)
type initTemplate struct {
	code    []byte
	runtime []byte
	p       plan
}

var initTemplates = map[string]initTemplate{
	// no init code at all: an account with empty code is created
	"empty": {code: nil, runtime: nil, p: plan{ok: true}},
	// STOP: returns nothing
	"stop": {code: []byte{0x00}, runtime: nil, p: plan{ok: true}},
	// PUSH1 1 PUSH1 0 RETURN: returns one zero byte of fresh memory => runtime code 0x00
	"ret1": {code: []byte{0x60, 0x01, 0x60, 0x00, 0xf3}, runtime: []byte{0x00},
		p: plan{need: 2*gVeryLow + gMemWord + gCodeDeposit, exec: 2*gVeryLow + gMemWord + gCodeDeposit, ok: true}},
	// PUSH1 0 PUSH1 0 REVERT
	"revert": {code: []byte{0x60, 0x00, 0x60, 0x00, 0xfd}, p: plan{need: 2 * gVeryLow, exec: 2 * gVeryLow, ok: false}},
	// INVALID
	"invalid": {code: []byte{0xfe}, p: plan{ok: false, burn: true}},
	// PUSH1 1 PUSH1 0 SSTORE STOP would cost 20000; kept out: C16 covers storage in init code
}

var initNames = []string{"empty", "stop", "ret1", "revert", "invalid"}

// bodyPlan returns the plan of a call to one of the fixed recipients in the current model state.
func (m *model) bodyPlan(to string, data []byte) plan {
	switch to {
	case "revert":
		return plan{need: 2 * gVeryLow, exec: 2 * gVeryLow, ok: false}
	case "invalid":
		return plan{ok: false, burn: true}
	case "clear":
		if m.clearSet {
			// original = current = 1, new = 0: clean-slot write, clears the slot
			c := uint64(2*gVeryLow + gSstoreClean)
			return plan{need: c, exec: c, ok: true, refund: rSstoreClear}
		}
		// 0 -> 0: no-op write, but the sentry still demands > 2300 gas at the SSTORE
		return plan{need: 2*gVeryLow + gSstoreSentry + 1, exec: 2*gVeryLow + gSstoreNoop, ok: true}
	case "destruct":
		if m.destructAlive {
			// beneficiary exists and is non-empty: no account-creation surcharge
			c := uint64(gVeryLow + gSelfdestruct)
			return plan{need: c, exec: c, ok: true, refund: rSelfdestruct}
		}
		return plan{ok: true}
	case "identity":
		c := uint64(gIdentityBase + gIdentityWord*((len(data)+31)/32))
		return plan{need: c, exec: c, ok: true}
	default: // eoa, fresh, self, accept (STOP)
		return plan{ok: true}
	}
}

// outcome of running a plan with `avail` gas
type outcome struct {
	ok      bool
	exec    uint64 // consumed by the body
	refund  uint64 // refund counter
	applied uint64 // refund actually granted: min(counter, (intrinsic+exec)/2)
}

func (p plan) run(avail uint64) outcome {
	if avail < p.need {
		return outcome{ok: false, exec: avail}
	}
	if p.ok {
		return outcome{ok: true, exec: p.exec, refund: p.refund}
	}
	if p.burn {
		return outcome{ok: false, exec: avail}
	}
	return outcome{ok: false, exec: p.exec}
}

// ---------------------------------------------------------------------------------
// model of the observable state

type acct struct {
	bal   *big.Int
	nonce uint64
}

type model struct {
	ver           int
	accts         map[string]*acct // keyed by address bytes
	order         [][]byte         // tracked addresses in a fixed order
	clearSet      bool             // storage slot 0 of the "clear" contract is non-zero
	destructAlive bool
	codeLen       map[string]int // expected code length of tracked contracts
	pool          uint64
	usedGas       uint64
	rewards       *big.Int

	// staking (only what decides success of the generated messages)
	pendingCreate map[int]bool     // spare main key index -> a create is pending
	pendingDeleg  map[int]*big.Int // sender -> pending delegated tokens at valOwn
}

func (m *model) track(addr []byte, bal *big.Int, nonce uint64) *acct {
	k := string(addr)
	if a, ok := m.accts[k]; ok {
		return a
	}
	a := &acct{bal: new(big.Int).Set(bal), nonce: nonce}
	m.accts[k] = a
	m.order = append(m.order, append([]byte(nil), addr...))
	return a
}

func (m *model) get(addr []byte) *acct { return m.accts[string(addr)] }
