package c17

import (
	"testing"

	"verif/kit"
)

func TestMain(m *testing.M)   { kit.Main(m, "C17") }
func TestProps(t *testing.T)  { kit.RunAll(t) }
func TestReplay(t *testing.T) { kit.ReplayAll(t) }
