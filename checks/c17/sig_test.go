package c17

import (
	"bytes"
	"fmt"
	"math/big"
	"sort"

	"github.com/youchainhq/go-youchain/common"
	"github.com/youchainhq/go-youchain/core/types"
	"github.com/youchainhq/go-youchain/crypto"
	"github.com/youchainhq/go-youchain/rlp"
	"pgregory.net/rapid"
	"verif/kit"
)

// ---------------------------------------------------------------------------------
// Signatures: Sender(signed) is the key's address; every single-field mutation gives a
// different sender or an error - directly, through the exported constructors, and after
// an RLP re-decode.

// secp256k1 group order (a constant of the curve, not read from /repo/crypto)
var curveN, _ = new(big.Int).SetString("fffffffffffffffffffffffffffffffebaaedce6af48a03bbfd25e8cd0364141", 16)
var curveHalfN = new(big.Int).Rsh(curveN, 1)

// rawTx is the wire form of a transaction: the nine RLP fields.
type rawTx struct {
	Nonce   uint64
	Price   *big.Int
	Limit   uint64
	To      []byte // empty = contract creation
	Value   *big.Int
	Payload []byte
	V, R, S *big.Int
}

func (r rawTx) clone() rawTx {
	c := r
	c.Price = new(big.Int).Set(r.Price)
	c.Value = new(big.Int).Set(r.Value)
	c.V, c.R, c.S = new(big.Int).Set(r.V), new(big.Int).Set(r.R), new(big.Int).Set(r.S)
	c.To = append([]byte(nil), r.To...)
	c.Payload = append([]byte(nil), r.Payload...)
	return c
}

// Mut is one single-field mutation of a signed transaction.
type Mut struct {
	Kind string `json:"kind"`
	N    uint64 `json:"n,omitempty"`   // numeric parameter (delta, byte index, bit)
	Big  string `json:"big,omitempty"` // decimal replacement value
}

// SigCase is a transaction, the key that signs it and a list of mutations.
type SigCase struct {
	Key     int    `json:"key"`
	Nonce   uint64 `json:"nonce"`
	Price   string `json:"price"`
	Limit   uint64 `json:"limit"`
	To      []byte `json:"to"` // nil = creation
	Value   string `json:"value"`
	Payload []byte `json:"payload"`
	Muts    []Mut  `json:"muts"`
}

var mutKinds = []string{
	"nonce+", "nonce=", "price+", "price=", "limit+", "limit-", "limit=", "to-bit", "to-nil-swap", "to-short",
	"value+", "value=", "payload-bit", "payload-append0", "payload-append", "payload-trunc", "payload-empty-swap",
	"v-netid", "v-foreign-import", "v-unprotected", "v-parity", "v-plus2", "v-huge", "v-zero",
	"s-high-twin", "s-high-twin", "s-high-same-parity", "s-zero", "s-plus-n", "s+", "r+", "r-zero", "r-plus-n", "rs-swap",
}

func genBigStr(t *rapid.T, label string) string {
	switch rapid.IntRange(0, 6).Draw(t, label+"-k") {
	case 0:
		return "0"
	case 1:
		return "1"
	case 2:
		return new(big.Int).SetUint64(rapid.Uint64().Draw(t, label+"-u")).String()
	case 3:
		return new(big.Int).Lsh(big.NewInt(1), uint(rapid.IntRange(64, 255).Draw(t, label+"-sh"))).String()
	case 4:
		return new(big.Int).Sub(new(big.Int).Lsh(big.NewInt(1), 256), big.NewInt(1)).String()
	default:
		return new(big.Int).SetUint64(uint64(rapid.IntRange(0, 1000000).Draw(t, label+"-s"))).String()
	}
}

func genUint64(t *rapid.T, label string) uint64 {
	switch rapid.IntRange(0, 4).Draw(t, label+"-k") {
	case 0:
		return 0
	case 1:
		return ^uint64(0)
	case 2:
		return rapid.Uint64().Draw(t, label+"-u")
	default:
		return uint64(rapid.IntRange(0, 100000).Draw(t, label+"-s"))
	}
}

func genPayload(t *rapid.T) []byte {
	switch rapid.IntRange(0, 5).Draw(t, "pl-k") {
	case 0:
		return nil
	case 1:
		return make([]byte, rapid.IntRange(1, 40).Draw(t, "pl-z"))
	case 2:
		return []byte{byte(rapid.IntRange(0, 255).Draw(t, "pl-1"))}
	default:
		return rapid.SliceOfN(rapid.Byte(), 1, 70).Draw(t, "pl")
	}
}

func genSigCase(t *rapid.T) SigCase {
	c := SigCase{
		Key:     rapid.IntRange(0, len(keys)-1).Draw(t, "key"),
		Nonce:   genUint64(t, "nonce"),
		Price:   genBigStr(t, "price"),
		Limit:   genUint64(t, "limit"),
		Value:   genBigStr(t, "value"),
		Payload: genPayload(t),
	}
	switch rapid.IntRange(0, 5).Draw(t, "to-k") {
	case 0:
		c.To = nil
	case 1:
		c.To = make([]byte, 20) // the zero address (distinct from creation)
	case 2:
		c.To = stakingAddr.Bytes()
	default:
		c.To = rapid.SliceOfN(rapid.Byte(), 20, 20).Draw(t, "to")
	}
	n := rapid.IntRange(1, 6).Draw(t, "nmuts")
	for i := 0; i < n; i++ {
		m := Mut{Kind: rapid.SampledFrom(mutKinds).Draw(t, "mkind")}
		switch m.Kind {
		case "nonce=", "limit=":
			m.N = genUint64(t, "mn")
		case "price=", "value=":
			m.Big = genBigStr(t, "mb")
		case "to-bit", "payload-bit":
			m.N = uint64(rapid.IntRange(0, 1<<16).Draw(t, "mbit"))
		case "payload-append":
			m.N = uint64(rapid.IntRange(1, 255).Draw(t, "mbyte"))
		case "nonce+", "price+", "limit+", "limit-", "value+", "s+", "r+":
			m.N = uint64(rapid.IntRange(1, 3).Draw(t, "mdelta"))
		}
		c.Muts = append(c.Muts, m)
	}
	return c
}

func mustBig(s string) *big.Int {
	b, ok := new(big.Int).SetString(s, 10)
	if !ok || b.Sign() < 0 {
		return new(big.Int)
	}
	return b
}

// apply returns the mutated wire transaction, or ok=false when the mutation does not
// apply to this transaction (counted as a no-op).
// which: "own" = judge with this network's signer; "foreign" = additionally judge with
// the foreign network's signer.
func (m Mut) apply(base rawTx, foreignSigned func() rawTx) (out rawTx, which string, ok bool) {
	r := base.clone()
	which = "own"
	recid := new(big.Int).Sub(base.V, new(big.Int).SetUint64(35+2*netID)).Uint64() // 0 or 1
	vFor := func(id uint64, rec uint64) *big.Int {
		v := new(big.Int).SetUint64(id)
		v.Lsh(v, 1)
		return v.Add(v, new(big.Int).SetUint64(35+rec))
	}
	switch m.Kind {
	case "nonce+":
		r.Nonce += m.N
	case "nonce=":
		r.Nonce = m.N
	case "price+":
		r.Price.Add(r.Price, new(big.Int).SetUint64(m.N))
	case "price=":
		r.Price = mustBig(m.Big)
	case "limit+":
		r.Limit += m.N
	case "limit-":
		r.Limit -= m.N
	case "limit=":
		r.Limit = m.N
	case "to-bit":
		if len(r.To) == 0 {
			return r, which, false
		}
		r.To[int(m.N/8)%len(r.To)] ^= 1 << (m.N % 8)
	case "to-nil-swap":
		if len(r.To) == 0 {
			r.To = make([]byte, 20)
		} else {
			r.To = nil
		}
	case "to-short":
		if len(r.To) == 0 {
			return r, which, false
		}
		r.To = r.To[1:]
	case "value+":
		r.Value.Add(r.Value, new(big.Int).SetUint64(m.N))
	case "value=":
		r.Value = mustBig(m.Big)
	case "payload-bit":
		if len(r.Payload) == 0 {
			return r, which, false
		}
		r.Payload[int(m.N/8)%len(r.Payload)] ^= 1 << (m.N % 8)
	case "payload-append0":
		r.Payload = append(r.Payload, 0)
	case "payload-append":
		r.Payload = append(r.Payload, byte(m.N))
	case "payload-trunc":
		if len(r.Payload) == 0 {
			return r, which, false
		}
		r.Payload = r.Payload[:len(r.Payload)-1]
	case "payload-empty-swap":
		if len(r.Payload) == 0 {
			r.Payload = []byte{0}
		} else {
			r.Payload = nil
		}
	case "v-netid":
		// same signature, V relabelled for another network
		r.V = vFor(otherNetID, recid)
		which = "foreign"
	case "v-foreign-import":
		// the same fields signed by the same key for another network, V relabelled for ours
		f := foreignSigned()
		frec := new(big.Int).Sub(f.V, new(big.Int).SetUint64(35+2*otherNetID)).Uint64()
		r.R, r.S = f.R, f.S
		r.V = vFor(netID, frec)
	case "v-unprotected":
		r.V = new(big.Int).SetUint64(27 + recid)
	case "v-parity":
		r.V = vFor(netID, 1-recid)
	case "v-plus2":
		r.V.Add(r.V, big.NewInt(2))
	case "v-huge":
		r.V.Add(r.V, new(big.Int).Lsh(big.NewInt(1), 70))
	case "v-zero":
		r.V = new(big.Int)
	case "s-high-twin":
		// (r, N-s) with the parity flipped is the malleated twin: valid ECDSA for the same key
		r.S = new(big.Int).Sub(curveN, base.S)
		r.V = vFor(netID, 1-recid)
	case "s-high-same-parity":
		r.S = new(big.Int).Sub(curveN, base.S)
	case "s-zero":
		r.S = new(big.Int)
	case "s-plus-n":
		r.S = new(big.Int).Add(base.S, curveN)
	case "s+":
		r.S.Add(r.S, new(big.Int).SetUint64(m.N))
	case "r+":
		r.R.Add(r.R, new(big.Int).SetUint64(m.N))
	case "r-zero":
		r.R = new(big.Int)
	case "r-plus-n":
		r.R = new(big.Int).Add(base.R, curveN)
	case "rs-swap":
		r.R, r.S = r.S, r.R
	default:
		return r, which, false
	}
	return r, which, true
}

// signedField reports whether the mutation touches one of the six signed fields (so
// that it can also be rebuilt through the exported constructors + WithSignature).
func (m Mut) signedField() bool {
	switch m.Kind {
	case "nonce+", "nonce=", "price+", "price=", "limit+", "limit-", "limit=", "to-bit", "to-nil-swap",
		"value+", "value=", "payload-bit", "payload-append0", "payload-append", "payload-trunc", "payload-empty-swap":
		return true
	}
	return false
}

func buildTx(r rawTx) *types.Transaction {
	if len(r.To) == 0 {
		return types.NewContractCreation(r.Nonce, r.Value, r.Limit, r.Price, r.Payload)
	}
	return types.NewTransaction(r.Nonce, common.BytesToAddress(r.To), r.Value, r.Limit, r.Price, r.Payload)
}

func rawOf(tx *types.Transaction) (rawTx, error) {
	enc, err := rlp.EncodeToBytes(tx)
	if err != nil {
		return rawTx{}, err
	}
	var r rawTx
	if err := rlp.DecodeBytes(enc, &r); err != nil {
		return rawTx{}, err
	}
	return r, nil
}

func runSigCase(c SigCase) kit.Result {
	key := keys[c.Key%len(keys)]
	want := crypto.PubkeyToAddress(key.PublicKey)
	own := types.NewYouSigner(netID)
	foreign := types.NewYouSigner(otherNetID)

	fields := rawTx{Nonce: c.Nonce, Price: mustBig(c.Price), Limit: c.Limit, To: c.To, Value: mustBig(c.Value), Payload: c.Payload}
	if len(fields.To) != 0 && len(fields.To) != 20 {
		return kit.Discarded("bad recipient length")
	}
	signed, err := types.SignTx(buildTx(fields), own, key)
	if err != nil {
		return kit.Fail("sign-error", "SignTx failed: %v", err)
	}
	got, err := types.Sender(own, signed)
	if err != nil || got != want {
		return kit.Fail("sender-mismatch", "Sender(signed) = %x, %v; the signing key's address is %x", got, err, want)
	}
	if !signed.Protected() || signed.NetworkId().Uint64() != netID {
		return kit.Fail("not-bound-to-network", "signed tx: Protected=%v NetworkId=%v, want network %d", signed.Protected(), signed.NetworkId(), netID)
	}
	// a signer of another network must not derive this sender from the same object
	// (types.Sender caches the sender per signer)
	if a, err := types.Sender(foreign, signed); err == nil && a == want {
		return kit.Fail("foreign-signer-accepts", "the signer of network %d derives the same sender from a transaction signed for network %d", otherNetID, netID)
	}
	if a, err := types.Sender(own, signed); err != nil || a != want {
		return kit.Fail("sender-mismatch", "second Sender(signed) = %x, %v; want %x", a, err, want)
	}

	enc, err := rlp.EncodeToBytes(signed)
	if err != nil {
		return kit.Fail("encode-error", "%v", err)
	}
	var base rawTx
	if err := rlp.DecodeBytes(enc, &base); err != nil {
		return kit.Fail("encode-error", "signed transaction does not decode as nine fields: %v", err)
	}
	if base.Nonce != fields.Nonce || base.Price.Cmp(fields.Price) != 0 || base.Limit != fields.Limit || !bytes.Equal(base.To, fields.To) ||
		base.Value.Cmp(fields.Value) != 0 || !bytes.Equal(base.Payload, fields.Payload) {
		return kit.Fail("encode-mismatch", "wire fields %+v differ from the signed fields %+v", base, fields)
	}
	if base.S.Cmp(curveHalfN) > 0 {
		return kit.Fail("signer-high-s", "SignTx produced a high-s signature")
	}
	var dec types.Transaction
	if err := rlp.DecodeBytes(enc, &dec); err != nil {
		return kit.Fail("decode-error", "own encoding does not decode: %v", err)
	}
	if a, err := types.Sender(own, &dec); err != nil || a != want {
		return kit.Fail("sender-after-decode", "Sender after RLP round trip = %x, %v; want %x", a, err, want)
	}
	if dec.Hash() != signed.Hash() {
		return kit.Fail("hash-after-decode", "hash changed over an RLP round trip")
	}

	var foreignRaw *rawTx
	foreignSigned := func() rawTx {
		if foreignRaw == nil {
			ftx, err := types.SignTx(buildTx(fields), foreign, key)
			if err != nil {
				panic(err)
			}
			r, err := rawOf(ftx)
			if err != nil {
				panic(err)
			}
			foreignRaw = &r
		}
		return *foreignRaw
	}

	labels := map[string]bool{}
	recovered := false
	sig65 := make([]byte, 65)
	copy(sig65[32-len(base.R.Bytes()):32], base.R.Bytes())
	copy(sig65[64-len(base.S.Bytes()):64], base.S.Bytes())
	sig65[64] = byte(new(big.Int).Sub(base.V, new(big.Int).SetUint64(35+2*netID)).Uint64())

	// judge: the mutated transaction must give an error or another sender
	judge := func(what string, m Mut, signer types.Signer, tx *types.Transaction) *kit.Result {
		a, err := types.Sender(signer, tx)
		if err == nil && a == want {
			r := kit.Fail("mutation-keeps-sender:"+mutClass(m.Kind), "%s: mutation %+v still yields the original sender %x", what, m, want)
			return &r
		}
		// the cached answer must agree
		a2, err2 := types.Sender(signer, tx)
		if (err == nil) != (err2 == nil) || a != a2 {
			r := kit.Fail("sender-cache", "%s: mutation %+v: Sender gave (%x,%v) then (%x,%v)", what, m, a, err, a2, err2)
			return &r
		}
		if err == nil {
			recovered = true
			labels["recovers-other:"+mutClass(m.Kind)] = true
		} else {
			labels["rejected:"+mutClass(m.Kind)] = true
		}
		return nil
	}

	for _, m := range c.Muts {
		mr, which, ok := m.apply(base, foreignSigned)
		if !ok {
			labels["mut-not-applicable"] = true
			continue
		}
		menc, err := rlp.EncodeToBytes(&mr)
		if err != nil {
			return kit.Fail("harness", "cannot encode mutated tx: %v", err)
		}
		if bytes.Equal(menc, enc) {
			labels["mut-noop"] = true
			continue
		}
		// path 1: the mutated bytes arrive from the wire
		var mtx types.Transaction
		if err := rlp.DecodeBytes(menc, &mtx); err != nil {
			labels["rejected-at-decode:"+mutClass(m.Kind)] = true
			continue
		}
		if r := judge("wire", m, own, &mtx); r != nil {
			return *r
		}
		if which == "foreign" {
			if r := judge("wire/foreign-signer", m, foreign, &mtx); r != nil {
				return *r
			}
		}
		// path 2: re-encode what was decoded and decode again
		renc, err := rlp.EncodeToBytes(&mtx)
		if err != nil {
			return kit.Fail("encode-error", "re-encoding a decoded mutated tx: %v", err)
		}
		var mtx2 types.Transaction
		if err := rlp.DecodeBytes(renc, &mtx2); err != nil {
			return kit.Fail("decode-error", "re-decoding the implementation's own encoding of a mutated tx: %v", err)
		}
		if r := judge("re-decoded", m, own, &mtx2); r != nil {
			return *r
		}
		if which == "foreign" {
			if r := judge("re-decoded/foreign-signer", m, foreign, &mtx2); r != nil {
				return *r
			}
		}
		// path 3: rebuilt through the exported constructors with the original signature attached
		if m.signedField() && (len(mr.To) == 0 || len(mr.To) == 20) {
			if wtx, err := buildTx(mr).WithSignature(own, sig65); err == nil {
				if r := judge("WithSignature", m, own, wtx); r != nil {
					return *r
				}
			}
		}
	}
	var ls []string
	for l := range labels {
		ls = append(ls, l)
	}
	sort.Strings(ls)
	return kit.OK(recovered, ls...)
}

// mutClass groups mutation kinds for violation classes and labels.
func mutClass(kind string) string {
	switch kind {
	case "nonce+", "nonce=":
		return "nonce"
	case "price+", "price=":
		return "price"
	case "limit+", "limit-", "limit=":
		return "limit"
	case "to-bit", "to-nil-swap", "to-short":
		return "recipient"
	case "value+", "value=":
		return "value"
	case "payload-bit", "payload-append0", "payload-append", "payload-trunc", "payload-empty-swap":
		return "payload"
	case "v-netid", "v-foreign-import":
		return "network-id"
	case "v-unprotected":
		return "unprotected"
	case "s-high-twin", "s-high-same-parity":
		return "high-s"
	case "v-parity", "v-plus2", "v-huge", "v-zero":
		return "v"
	default:
		return "r-s"
	}
}

var _ = kit.Register(kit.Prop[SigCase]{
	Name: "Signature",
	Rule: "a transaction with boundary-heavy fields (nonce/limit in {0, small, random, max uint64}, price/value in {0, 1, small, random 64-bit, 2^k, 2^256-1}, recipient in {creation, zero address, staking module, random}, payload empty/zeros/random) is signed by one of 8 keys for network 99; Sender must be the key's address directly, from the cache, and after an RLP round trip, and the network-98 signer must not derive it; then 1-6 single-field mutations (each signed field, V relabelled for network 98, the same fields signed for network 98 relabelled for 99, unprotected 27/28, flipped parity, V+2, huge V, zero V, high-s twin N-s with flipped parity, N-s with same parity, S/R zero, +N, +delta, R/S swapped) are judged on the decoded wire bytes, on a re-decode of the implementation's re-encoding and (signed fields) on a transaction rebuilt with WithSignature: error or a different sender; non-trivial = some mutation still decodes and recovers a (different) sender; " + fmt.Sprintf("%d mutation kinds", len(mutKinds)),
	Gen:  genSigCase, Run: runSigCase,
	Quick: 8000, Thorough: 100000, Chunk: 1000, MinNonTrivialPct: 45,
})
