package c17

import (
	"bytes"
	"fmt"
	"math/big"
	"sort"

	"github.com/youchainhq/go-youchain/common"
	"github.com/youchainhq/go-youchain/core"
	"github.com/youchainhq/go-youchain/core/state"
	"github.com/youchainhq/go-youchain/core/types"
	"github.com/youchainhq/go-youchain/crypto"
	"github.com/youchainhq/go-youchain/local"
	"github.com/youchainhq/go-youchain/params"
	"github.com/youchainhq/go-youchain/rlp"
	"github.com/youchainhq/go-youchain/staking"
	"pgregory.net/rapid"
	"verif/kit"
)

// ---------------------------------------------------------------------------------
// Application: sequences of 1-8 StateProcessor.ApplyTransaction calls sharing one block
// gas pool and one pair of header accumulators, the way miner.worker.commitTransaction
// (snapshot before, revert on error, explicit author) and StateProcessor.Process
// (no snapshot, author from the header, first error aborts the block) call it.

// classRefund is the recorded finding: the refund is returned to the sender and to the
// gas pool, but not deducted from the gas the transaction reports (receipt, header.GasUsed,
// header.GasRewards).
const classRefund = "refund-unreported"

// StkSpec describes the payload of a transaction addressed to the staking module.
type StkSpec struct {
	Kind    string `json:"kind"`
	Amount  string `json:"amount,omitempty"` // tokens (lu), decimal
	Key     int    `json:"key,omitempty"`    // spare main key of a new validator
	Garbage []byte `json:"garbage,omitempty"`
}

// TxSpec is one application. Fields that depend on the state at the time of the
// application (nonce, limits at a boundary, "all I have") are resolved by runCase
// against the model, so a case is plain data and replays without rapid.
type TxSpec struct {
	From       int     `json:"from"`
	ReplayOf   int     `json:"replay_of"` // >= 0: resubmit, unchanged, the signed transaction of step (ReplayOf mod i); -1: a new one
	NonceDelta int     `json:"nonce_delta"`
	Price      string  `json:"price"`
	To         string  `json:"to"` // eoa fresh self accept revert invalid clear destruct identity create staking
	ToIdx      int     `json:"to_idx,omitempty"`
	Init       string  `json:"init,omitempty"`
	Stk        StkSpec `json:"stk"`
	Data       []byte  `json:"data,omitempty"`
	Value      string  `json:"value"`
	ValueMode  string  `json:"value_mode"` // abs | max (= balance - limit*price) | max+1
	LimitMode  string  `json:"limit_mode"` // need (intrinsic + what the body needs + delta) | pool (what is left in the block + delta) | abs
	LimitDelta int64   `json:"limit_delta"`
	Limit      uint64  `json:"limit,omitempty"`
	Fund       string  `json:"fund,omitempty"` // account state set just before: exact | short | gasshort
	// Tamper: the signed transaction is altered on the wire before it is applied, in a way
	// that no key holder authorised and that must not recover any sender:
	// high-s (malleated twin) | netid (V relabelled for network 98) | unprotected (V = 27/28)
	Tamper string `json:"tamper,omitempty"`
}

// ApplyCase is one block under construction / import.
type ApplyCase struct {
	Ver      int      `json:"ver"`       // protocol version 4 or 5
	Miner    bool     `json:"miner"`     // call like the miner (true) or like the block importer (false)
	BlockGas uint64   `json:"block_gas"` // size of the block gas pool
	Txs      []TxSpec `json:"txs"`
	// Strict is set only in the committed replay of the recorded finding: the recorded
	// deviation is then reported instead of being modelled (generated cases never set it).
	Strict bool `json:"strict,omitempty"`
}

var (
	toKinds  = []string{"eoa", "eoa", "fresh", "self", "accept", "revert", "invalid", "clear", "clear", "destruct", "destruct", "identity", "create", "create", "staking", "staking", "staking", "staking", "staking", "staking"}
	stkKinds = []string{"garbage", "truncated", "unknown-action", "deposit", "deposit", "deposit-other", "deposit-unknown", "create", "create",
		"create-wrong-operator", "create-existing", "create-chancellor", "delegate-add", "delegate-add", "delegate-add", "delegate-add-closed", "delegate-sub", "delegate-sub",
		"withdraw", "settle", "change-status", "update"}
)

func pick[T any](t *rapid.T, label string, weighted ...interface{}) T {
	// weighted = value, weight, value, weight, ...
	total := 0
	for i := 1; i < len(weighted); i += 2 {
		total += weighted[i].(int)
	}
	x := rapid.IntRange(0, total-1).Draw(t, label)
	for i := 0; i < len(weighted); i += 2 {
		w := weighted[i+1].(int)
		if x < w {
			return weighted[i].(T)
		}
		x -= w
	}
	panic("unreachable")
}

func genAmount(t *rapid.T, label string) string {
	switch pick[int](t, label+"-k", 0, 1, 1, 1, 2, 3, 3, 3, 4, 2, 5, 1) {
	case 0:
		return "0"
	case 1:
		return "1"
	case 2:
		return youAmount(int64(rapid.IntRange(10, 1000).Draw(t, label+"-you"))).String()
	case 3:
		return youAmount(int64(rapid.IntRange(1, 9).Draw(t, label+"-low"))).String()
	case 4:
		return youAmount(int64(rapid.IntRange(500, 900).Draw(t, label+"-mid"))).String()
	default:
		return youAmount(2000000).String() // more than any sender owns
	}
}

func genTxSpec(t *rapid.T, i int) TxSpec {
	s := TxSpec{ReplayOf: -1}
	if i > 0 && rapid.IntRange(0, 9).Draw(t, "replay") == 0 {
		s.ReplayOf = rapid.IntRange(0, i-1).Draw(t, "replay-of")
		return s
	}
	s.From = pick[int](t, "from", 0, 5, 1, 3, 2, 1, 3, 1)
	s.NonceDelta = pick[int](t, "nonce-delta", 0, 46, -1, 1, 1, 1, -2, 1, 5, 1)
	s.Price = pick[string](t, "price", "0", 3, "1", 5, "1000", 4, "1000000000", 5, "18446744073709551616", 2,
		"1606938044258990275541962092341162602522202993782792835301376", 1)
	s.Tamper = pick[string](t, "tamper", "", 77, "high-s", 1, "netid", 1, "unprotected", 1)
	s.To = rapid.SampledFrom(toKinds).Draw(t, "to")
	switch s.To {
	case "eoa":
		s.ToIdx = rapid.IntRange(1, nSenders-1).Draw(t, "to-idx")
	case "create":
		s.Init = rapid.SampledFrom(initNames).Draw(t, "init")
	case "staking":
		s.Stk.Kind = rapid.SampledFrom(stkKinds).Draw(t, "stk")
		switch s.Stk.Kind {
		case "garbage":
			s.Stk.Garbage = rapid.SliceOfN(rapid.Byte(), 0, 24).Draw(t, "garbage")
		case "create", "create-wrong-operator", "create-chancellor":
			s.Stk.Key = rapid.IntRange(0, 1).Draw(t, "stk-key")
		}
		s.Stk.Amount = genAmount(t, "stk-amount")
		if s.Stk.Kind == "delegate-sub" && rapid.Bool().Draw(t, "sub-pending") {
			s.Stk.Amount = "pending" // resolved to what this sender has pending at the validator (all of it)
		}
	}
	if s.To != "create" && s.To != "staking" {
		switch pick[int](t, "data-k", 0, 4, 1, 2, 2, 2, 3, 2) {
		case 1:
			s.Data = make([]byte, rapid.IntRange(1, 70).Draw(t, "data-z"))
		case 2:
			s.Data = rapid.SliceOfN(rapid.Byte(), 1, 70).Draw(t, "data")
		case 3:
			s.Data = bytes.Repeat([]byte{0xff}, rapid.IntRange(1, 33).Draw(t, "data-nz"))
		}
	}
	s.ValueMode = pick[string](t, "value-mode", "abs", 26, "max", 2, "max+1", 2)
	s.Value = pick[string](t, "value", "0", 6, "1", 3, "12345", 3, "1000000000000000000", 4)
	s.LimitMode = pick[string](t, "limit-mode", "need", 26, "pool", 2, "abs", 2)
	switch s.LimitMode {
	case "need":
		s.LimitDelta = pick[int64](t, "limit-delta", int64(-1), 1, int64(0), 5, int64(1), 2, int64(1000), 3, int64(50000), 4, int64(1000000), 5)
	case "pool":
		s.LimitDelta = pick[int64](t, "pool-delta", int64(-1), 1, int64(0), 2, int64(1), 2)
	default:
		s.Limit = pick[uint64](t, "limit", uint64(0), 1, uint64(20999), 1, uint64(21000), 3, uint64(53000), 2, uint64(100000), 3, uint64(1000000), 5,
			uint64(1)<<63, 1, ^uint64(0), 1)
	}
	s.Fund = pick[string](t, "fund", "", 34, "exact", 3, "short", 2, "gasshort", 1)
	return s
}

func genApplyCase(t *rapid.T) ApplyCase {
	c := ApplyCase{
		Ver:      pick[int](t, "ver", 4, 1, 5, 1),
		Miner:    pick[bool](t, "miner", true, 2, false, 1),
		BlockGas: pick[uint64](t, "block-gas", uint64(50000), 1, uint64(150000), 2, uint64(1200000), 4, uint64(8000000), 8, uint64(30000000), 5),
	}
	n := rapid.IntRange(1, 8).Draw(t, "ntx")
	for i := 0; len(c.Txs) < n; i++ {
		s := genTxSpec(t, len(c.Txs))
		if s.To == "staking" && s.Stk.Kind == "delegate-sub" && len(c.Txs)+1 < n && rapid.Bool().Draw(t, "add-first") {
			// make the subtraction meaningful: the same sender delegates first
			add := TxSpec{From: s.From, ReplayOf: -1, Price: "1", To: "staking", Stk: StkSpec{Kind: "delegate-add", Amount: youAmount(50).String()},
				Value: "0", ValueMode: "abs", LimitMode: "need", LimitDelta: 50000}
			c.Txs = append(c.Txs, add)
		}
		c.Txs = append(c.Txs, s)
	}
	return c
}

// ---------------------------------------------------------------------------------
// resolved transaction

type resolved struct {
	tx        *types.Transaction
	enc       []byte
	from      int
	sender    common.Address
	nonce     uint64
	price     *big.Int
	limit     uint64
	value     *big.Int
	data      []byte
	kind      string // "call", "create", "staking"
	to        string
	toAddr    *common.Address
	init      string
	stk       StkSpec
	stkAmount *big.Int
	tampered  string
}

func stakingPayload(spec StkSpec, from int, nonce uint64, amount *big.Int) []byte {
	enc := func(action staking.ActionType, payload interface{}) []byte {
		pb, err := rlp.EncodeToBytes(payload)
		if err != nil {
			panic(err)
		}
		b, err := rlp.EncodeToBytes(&staking.Message{Action: action, Payload: pb})
		if err != nil {
			panic(err)
		}
		return b
	}
	sender := addrs[from]
	newVal := func(role params.ValidatorRole, operator common.Address, keyIdx int) *staking.TxCreateValidator {
		return &staking.TxCreateValidator{
			Name: "v", OperatorAddress: operator, Coinbase: sender,
			MainPubKey: crypto.CompressPubkey(&keys[keyIdx].PublicKey), BlsPubKey: blsDummy,
			Value: amount, Nonce: nonce, CommissionRate: 100, RiskObligation: 0, AcceptDelegation: 1, Role: role,
		}
	}
	switch spec.Kind {
	case "garbage":
		return spec.Garbage
	case "truncated":
		b := enc(staking.ValidatorDeposit, &staking.TxValidatorDeposit{MainAddress: valOwnMain, Value: amount, Nonce: nonce})
		return b[:len(b)-1]
	case "unknown-action":
		return enc(staking.ActionType(0x7f), &staking.TxValidatorDeposit{MainAddress: valOwnMain, Value: amount, Nonce: nonce})
	case "deposit":
		return enc(staking.ValidatorDeposit, &staking.TxValidatorDeposit{MainAddress: valOwnMain, Value: amount, Nonce: nonce})
	case "deposit-other":
		return enc(staking.ValidatorDeposit, &staking.TxValidatorDeposit{MainAddress: valOtherMain, Value: amount, Nonce: nonce})
	case "deposit-unknown":
		return enc(staking.ValidatorDeposit, &staking.TxValidatorDeposit{MainAddress: addrs[nSenders+3], Value: amount, Nonce: nonce})
	case "create":
		return enc(staking.ValidatorCreate, newVal(params.RoleHouse, sender, nSenders+2+spec.Key%2))
	case "create-wrong-operator":
		return enc(staking.ValidatorCreate, newVal(params.RoleHouse, addrs[(from+1)%nSenders], nSenders+2+spec.Key%2))
	case "create-existing":
		return enc(staking.ValidatorCreate, newVal(params.RoleHouse, sender, nSenders))
	case "create-chancellor":
		return enc(staking.ValidatorCreate, newVal(params.RoleChancellor, sender, nSenders+2+spec.Key%2))
	case "delegate-add":
		return enc(staking.DelegationAdd, &staking.TxDelegation{Validator: valOwnMain, Value: amount})
	case "delegate-add-closed":
		return enc(staking.DelegationAdd, &staking.TxDelegation{Validator: valOtherMain, Value: amount})
	case "delegate-sub":
		return enc(staking.DelegationSub, &staking.TxDelegation{Validator: valOwnMain, Value: amount})
	case "withdraw":
		return enc(staking.ValidatorWithDraw, &staking.TxValidatorWithdraw{MainAddress: valOwnMain, Recipient: sender, Value: amount, Nonce: nonce})
	case "settle":
		return enc(staking.ValidatorSettle, &staking.TxValidatorSettle{MainAddress: valOwnMain})
	case "change-status":
		return enc(staking.ValidatorChangeStatus, &staking.TxValidatorChangeStatus{MainAddress: valOwnMain, Status: params.ValidatorOffline, Nonce: nonce})
	case "update":
		return enc(staking.ValidatorUpdate, &staking.TxUpdateValidator{Nonce: nonce, Name: "renamed", MainAddress: valOwnMain,
			CommissionRate: 0xffff, RiskObligation: 0xffff, AcceptDelegation: 0xffff})
	}
	return nil
}

// stakingVerdict: what the staking module must do with the message in the model state.
//
//	decodes   the payload is a well-formed staking message (else: failed, all gas)
//	surcharge the message is a ValidatorCreate (YouV5: 900000 gas before the handler runs)
//	expect    "ok" / "fail" / "any" (the harness does not model this handler's precondition)
//	moves     tokens that leave the sender when the handler succeeds
func (m *model) stakingVerdict(r *resolved, balAfterGas *big.Int) (decodes, surcharge bool, expect string, moves *big.Int) {
	a := r.stkAmount
	zero := new(big.Int)
	// an amount above every role's stake ceiling fails whether or not the sender owns it; all
	// other generated amounts (<= 1000 YOU, <= 8 per case) stay far below the ceilings
	funds := balAfterGas.Cmp(a) >= 0 && a.Cmp(youAmount(100000)) <= 0
	okIf := func(b bool) string {
		if b {
			return "ok"
		}
		return "fail"
	}
	tenYou := youAmount(10)
	switch r.stk.Kind {
	case "garbage":
		// random bytes could by accident be a valid message: accept what the receipt says, nothing may move
		var msg staking.Message
		if rlp.DecodeBytes(r.data, &msg) != nil {
			return false, false, "fail", zero
		}
		return true, msg.Action == staking.ValidatorCreate, "fail", zero
	case "truncated":
		return false, false, "fail", zero
	case "unknown-action", "deposit-unknown", "delegate-add-closed":
		return true, false, "fail", zero
	case "deposit":
		return true, false, okIf(r.from == 0 && a.Sign() > 0 && funds), a
	case "deposit-other":
		return true, false, okIf(r.from == 1 && a.Sign() > 0 && funds), a
	case "create":
		return true, true, okIf(a.Sign() > 0 && funds && !m.pendingCreate[r.stk.Key%2]), a
	case "create-wrong-operator", "create-existing":
		return true, true, "fail", zero
	case "create-chancellor":
		if m.ver < 5 {
			return true, true, "fail", zero // needs the master signature before YouV5
		}
		min := youAmount(500)
		return true, true, okIf(a.Cmp(min) >= 0 && funds && !m.pendingCreate[r.stk.Key%2]), a
	case "delegate-add":
		return true, false, okIf(a.Cmp(tenYou) >= 0 && funds), a
	case "delegate-sub":
		p := m.pendingDeleg[r.from]
		return true, false, okIf(p != nil && p.Sign() > 0 && a.Sign() > 0 && a.Cmp(p) <= 0), zero
	default: // withdraw settle change-status update: nothing moves at application time either way
		return true, false, "any", zero
	}
}

func (r *resolved) target() string {
	switch r.kind {
	case "create":
		return "init code '" + r.init + "'"
	case "staking":
		return "the staking module (" + r.stk.Kind + ")"
	}
	return "'" + r.to + "'"
}

// ---------------------------------------------------------------------------------

func errKind(err error) string {
	switch {
	case err == nil:
		return "nil"
	case err == core.ErrNonceTooHigh || err == core.ErrNonceTooLow:
		return "nonce"
	case err == core.ErrGasLimitReached:
		return "pool"
	case err.Error() == "insufficient balance to pay for gas":
		return "funds"
	case err.Error() == "out of gas":
		return "intrinsic"
	case err.Error() == "insufficient balance for transfer":
		return "value"
	case err == types.ErrInvalidSig || err == types.ErrInvalidNetworkId || err == types.ErrNotProtected:
		return "signature"
	}
	return "other"
}

func rootsOf(st *state.StateDB) [3]common.Hash {
	a, b, c := st.Copy().IntermediateRoot(true)
	return [3]common.Hash{a, b, c}
}

func runApplyCase(c ApplyCase) kit.Result {
	ver := params.YouV5
	if c.Ver == 4 {
		ver = params.YouV4
	}
	w := getWorld(ver)
	st := w.newState()
	if c.BlockGas == 0 {
		return kit.Discarded("no block gas")
	}
	h := w.newHeader(c.BlockGas)
	gp := new(core.GasPool).AddGas(h.GasLimit)
	cfg := w.vmConfig()
	var author *common.Address
	if c.Miner {
		a := h.Coinbase
		author = &a
	}

	m := &model{ver: int(ver), accts: map[string]*acct{}, clearSet: true, destructAlive: true, codeLen: map[string]int{},
		pool: c.BlockGas, rewards: new(big.Int), pendingCreate: map[int]bool{}, pendingDeleg: map[int]*big.Int{}}
	for _, a := range []common.Address{addrs[0], addrs[1], addrs[2], addrs[3], freshAddr, beneficiaryAddr, coinbaseAddr, identityAddr,
		acceptAddr, revertAddr, invalidAddr, clearAddr, destructAddr, stakingAddr, w.yp.RewardsPoolAddress, w.yp.PenaltyTo, valOwnMain, valOtherMain} {
		m.track(a.Bytes(), st.GetBalance(a), st.GetNonce(a))
	}
	m.codeLen[string(destructAddr.Bytes())] = len(codeDestruct)

	labels := map[string]bool{}
	boundary := false
	known := kit.IsKnown(classRefund) && !c.Strict
	var done []*resolved

	compare := func(when string) *kit.Result {
		for _, ab := range m.order {
			a := common.BytesToAddress(ab)
			ma := m.get(ab)
			if b := st.GetBalance(a); b.Cmp(ma.bal) != 0 {
				r := kit.Fail("balance-mismatch", "%s: balance of %x is %v, the transaction rules give %v (difference %v)", when, a, b, ma.bal, new(big.Int).Sub(b, ma.bal))
				return &r
			}
			if n := st.GetNonce(a); n != ma.nonce {
				r := kit.Fail("nonce-mismatch", "%s: nonce of %x is %d, the transaction rules give %d", when, a, n, ma.nonce)
				return &r
			}
		}
		if set := st.GetState(clearAddr, common.Hash{}) != (common.Hash{}); set != m.clearSet {
			r := kit.Fail("storage-mismatch", "%s: slot 0 of the clearing contract set=%v, expected %v", when, set, m.clearSet)
			return &r
		}
		for k, n := range m.codeLen {
			if got := st.GetCodeSize(common.BytesToAddress([]byte(k))); got != n {
				r := kit.Fail("code-mismatch", "%s: code size of %x is %d, expected %d", when, []byte(k), got, n)
				return &r
			}
		}
		if gp.Gas() != m.pool {
			r := kit.Fail("pool-mismatch", "%s: block gas pool holds %d, expected %d", when, gp.Gas(), m.pool)
			return &r
		}
		if h.GasUsed != m.usedGas || h.GasRewards.Cmp(m.rewards) != 0 {
			r := kit.Fail("accumulator-mismatch", "%s: header accumulators GasUsed=%d GasRewards=%v, expected %d and %v", when, h.GasUsed, h.GasRewards, m.usedGas, m.rewards)
			return &r
		}
		return nil
	}
	resync := func() {
		for _, ab := range m.order {
			a := common.BytesToAddress(ab)
			ma := m.get(ab)
			ma.bal = new(big.Int).Set(st.GetBalance(a))
			ma.nonce = st.GetNonce(a)
		}
		m.pool = gp.Gas()
		m.usedGas = h.GasUsed
		m.rewards = new(big.Int).Set(h.GasRewards)
	}

	applied := 0
steps:
	for i, spec := range c.Txs {
		when := fmt.Sprintf("step %d", i)
		var r *resolved
		if spec.ReplayOf >= 0 && len(done) > 0 {
			// the identical signed bytes arrive again (from the wire: a fresh object)
			src := done[spec.ReplayOf%len(done)]
			cp := *src
			cp.tx = new(types.Transaction)
			if err := rlp.DecodeBytes(src.enc, cp.tx); err != nil {
				return kit.Fail("decode-error", "%s: own encoding of a signed tx does not decode: %v", when, err)
			}
			r = &cp
			labels["replay"] = true
			boundary = true
		} else {
			r = &resolved{from: spec.From % nSenders, to: spec.To, init: spec.Init, stk: spec.Stk}
			r.sender = addrs[r.from]
			sa := m.get(r.sender.Bytes())
			// nonce
			r.nonce = sa.nonce
			if spec.NonceDelta > 0 {
				r.nonce += uint64(spec.NonceDelta)
			} else if spec.NonceDelta < 0 {
				if d := uint64(-spec.NonceDelta); d <= r.nonce {
					r.nonce -= d
				} else {
					r.nonce += d
				}
			}
			if spec.NonceDelta == 1 || spec.NonceDelta == -1 {
				boundary = true
			}
			r.price = mustBig(spec.Price)
			// recipient, payload, what the body needs
			var p plan
			r.kind = "call"
			switch spec.To {
			case "create":
				r.kind = "create"
				tpl, ok := initTemplates[spec.Init]
				if !ok {
					return kit.Discarded("unknown init template")
				}
				r.data, p = tpl.code, tpl.p
			case "staking":
				r.kind = "staking"
				r.toAddr = &stakingAddr
				r.stkAmount = mustBig(spec.Stk.Amount)
				if spec.Stk.Amount == "pending" {
					r.stkAmount = youAmount(1)
					if p := m.pendingDeleg[r.from]; p != nil && p.Sign() > 0 {
						r.stkAmount = new(big.Int).Set(p)
					}
				}
				r.data = stakingPayload(spec.Stk, r.from, r.nonce, r.stkAmount)
				if m.ver >= 5 && len(spec.Stk.Kind) >= 6 && spec.Stk.Kind[:6] == "create" {
					p.need = gValCreation
				}
			default:
				r.data = spec.Data
				var a common.Address
				switch spec.To {
				case "eoa":
					a = addrs[(r.from+1+spec.ToIdx%(nSenders-1))%nSenders]
					if a == r.sender {
						a = addrs[(r.from+1)%nSenders]
					}
				case "fresh":
					a = freshAddr
				case "self":
					a = r.sender
				case "accept":
					a = acceptAddr
				case "revert":
					a = revertAddr
				case "invalid":
					a = invalidAddr
				case "clear":
					a = clearAddr
				case "destruct":
					a = destructAddr
				case "identity":
					a = identityAddr
				default:
					return kit.Discarded("unknown recipient kind")
				}
				r.toAddr = &a
				p = m.bodyPlan(spec.To, r.data)
			}
			intrinsic := intrinsicGas(r.kind, r.data)
			// limit
			switch spec.LimitMode {
			case "pool":
				r.limit = m.pool
				if spec.LimitDelta < 0 && r.limit >= uint64(-spec.LimitDelta) {
					r.limit -= uint64(-spec.LimitDelta)
				} else if spec.LimitDelta > 0 {
					r.limit += uint64(spec.LimitDelta)
				}
				boundary = true
			case "abs":
				r.limit = spec.Limit
			default:
				r.limit = intrinsic + p.need
				if spec.LimitDelta < 0 {
					r.limit -= uint64(-spec.LimitDelta)
				} else {
					r.limit += uint64(spec.LimitDelta)
				}
				if spec.LimitDelta >= -1 && spec.LimitDelta <= 1 {
					boundary = true
				}
			}
			cost := new(big.Int).Mul(new(big.Int).SetUint64(r.limit), r.price)
			// value
			r.value = mustBig(spec.Value)
			if spec.ValueMode == "max" || spec.ValueMode == "max+1" {
				r.value = new(big.Int).Sub(sa.bal, cost)
				if r.value.Sign() < 0 {
					r.value = new(big.Int)
				}
				if spec.ValueMode == "max+1" {
					r.value.Add(r.value, big.NewInt(1))
				}
				boundary = true
			}
			// account state just before the application
			moving := r.value
			if r.kind == "staking" {
				moving = r.stkAmount
			}
			var setTo *big.Int
			switch spec.Fund {
			case "exact":
				setTo = new(big.Int).Add(cost, moving)
			case "short":
				if x := new(big.Int).Add(cost, moving); x.Sign() > 0 {
					setTo = x.Sub(x, big.NewInt(1))
				}
			case "gasshort":
				if cost.Sign() > 0 {
					setTo = new(big.Int).Sub(cost, big.NewInt(1))
				}
			}
			if setTo != nil {
				st.SetBalance(r.sender, setTo)
				sa.bal = new(big.Int).Set(setTo)
				boundary = true
				labels["fund:"+spec.Fund] = true
			}
			// build and sign
			var tx *types.Transaction
			if r.kind == "create" {
				tx = types.NewContractCreation(r.nonce, r.value, r.limit, r.price, r.data)
			} else {
				tx = types.NewTransaction(r.nonce, *r.toAddr, r.value, r.limit, r.price, r.data)
			}
			stx, err := types.SignTx(tx, w.signer, keys[r.from])
			if err != nil {
				return kit.Fail("sign-error", "%s: %v", when, err)
			}
			r.tx = stx
			if r.enc, err = rlp.EncodeToBytes(stx); err != nil {
				return kit.Fail("encode-error", "%s: %v", when, err)
			}
			if spec.Tamper != "" {
				var raw rawTx
				if err := rlp.DecodeBytes(r.enc, &raw); err != nil {
					return kit.Fail("encode-error", "%s: %v", when, err)
				}
				kind := map[string]string{"high-s": "s-high-twin", "netid": "v-netid", "unprotected": "v-unprotected"}[spec.Tamper]
				mr, _, ok := Mut{Kind: kind}.apply(raw, nil)
				if !ok {
					return kit.Discarded("unknown tamper kind")
				}
				if r.enc, err = rlp.EncodeToBytes(&mr); err != nil {
					return kit.Fail("harness", "%s: %v", when, err)
				}
				r.tx = new(types.Transaction)
				if err := rlp.DecodeBytes(r.enc, r.tx); err != nil {
					return kit.Fail("decode-error", "%s: tampered tx does not decode: %v", when, err)
				}
				r.tampered = spec.Tamper
				boundary = true
			}
		}
		done = append(done, r)

		// ---- what the rules say about this application in the model state ----
		sa := m.get(r.sender.Bytes())
		intrinsic := intrinsicGas(r.kind, r.data)
		cost := new(big.Int).Mul(new(big.Int).SetUint64(r.limit), r.price)
		var reasons []string
		if r.tampered != "" {
			reasons = append(reasons, "signature")
		}
		if r.nonce != sa.nonce {
			reasons = append(reasons, "nonce")
		}
		if sa.bal.Cmp(cost) < 0 {
			reasons = append(reasons, "funds")
		}
		if m.pool < r.limit {
			reasons = append(reasons, "pool")
		}
		balAfterGas := new(big.Int).Sub(sa.bal, cost)

		// ---- apply, the way the chosen caller does ----
		st.Prepare(r.tx.Hash(), common.Hash{}, applied)
		var before [3]common.Hash
		if len(reasons) > 0 {
			before = rootsOf(st)
		}
		logsBefore := len(st.Logs())
		snap := 0
		if c.Miner {
			snap = st.Snapshot()
		}
		receipt, gas, err := w.proc.ApplyTransaction(r.tx, w.signer, st, w.bc, h, author, &h.GasUsed, h.GasRewards, gp, cfg, local.FakeRecorder())
		ek := errKind(err)

		// ---- refused up front: nothing may have changed ----
		if len(reasons) > 0 {
			if err == nil {
				return kit.Fail("applied-despite-"+reasons[0], "%s: transaction applied (gas %d) although it must be refused: %v (tx nonce %d, account nonce %d, balance %v, limit*price %v, pool %d, limit %d)",
					when, gas, reasons, r.nonce, sa.nonce, sa.bal, cost, m.pool, r.limit)
			}
			if receipt != nil || gas != 0 {
				return kit.Fail("refused-with-receipt", "%s: refused (%v) but returned a receipt or gas %d", when, err, gas)
			}
			if res := compare(when + " (refused: " + err.Error() + ")"); res != nil {
				res.Violation.Class = "refused-but-changed"
				return *res
			}
			if after := rootsOf(st); after != before {
				return kit.Fail("refused-but-changed", "%s: refused (%v) but the state roots changed", when, err)
			}
			if len(st.Logs()) != logsBefore {
				return kit.Fail("refused-but-changed", "%s: refused (%v) but logs were added", when, err)
			}
			matched := false
			for _, rs := range reasons {
				if rs == ek {
					matched = true
				}
			}
			if !matched {
				labels["refusal-error-unexpected:"+ek] = true
			}
			labels["refused:"+reasons[0]] = true
			if spec.ReplayOf >= 0 {
				labels["replay-refused"] = true
			}
			if !c.Miner {
				labels["importer-abort"] = true
				break steps
			}
			st.RevertToSnapshot(snap)
			continue
		}

		// ---- not refusable for a named reason ----
		other := ""
		if r.limit < intrinsic {
			other = "intrinsic"
		} else if r.kind != "staking" && balAfterGas.Cmp(r.value) < 0 {
			other = "value"
		}
		if err != nil {
			if other == "" {
				return kit.Fail("valid-tx-refused", "%s: a transaction with the next nonce (%d), funds (%v >= %v + %v), block gas (%d >= %d) and limit >= intrinsic (%d) was refused: %v",
					when, r.nonce, sa.bal, cost, r.value, m.pool, r.limit, intrinsic, err)
			}
			// errors the statement does not list: measured only (DESIGN.md C17). The callers
			// revert (miner) or drop the block (importer); the model is re-read from the state.
			labels["other-err:"+other] = true
			if ek != other {
				labels["other-err-unexpected:"+ek] = true
			}
			if !c.Miner {
				labels["importer-abort"] = true
				break steps
			}
			st.RevertToSnapshot(snap)
			if compare(when) == nil {
				labels["other-err:fully-undone"] = true
			} else {
				if gp.Gas() != m.pool {
					labels["other-err:gas-pool-not-restored"] = true
				}
				resync()
			}
			continue
		}
		if other == "intrinsic" {
			return kit.Fail("applied-below-intrinsic", "%s: applied with gas limit %d below the intrinsic cost %d (gas used %d)", when, r.limit, intrinsic, gas)
		}
		if other == "value" {
			return kit.Fail("applied-without-funds", "%s: applied although balance %v < limit*price %v + value %v", when, sa.bal, cost, r.value)
		}

		// ---- applied: exact accounting ----
		applied++
		avail := r.limit - intrinsic
		var out outcome
		moved := new(big.Int)
		var created common.Address
		switch r.kind {
		case "create":
			tpl := initTemplates[r.init]
			out = tpl.p.run(avail)
			created = crypto.CreateAddress(r.sender, r.nonce)
			if out.ok {
				moved = r.value
			}
		case "staking":
			decodes, surcharge, expect, moves := m.stakingVerdict(r, balAfterGas)
			handlerOK := expect == "ok"
			if expect == "any" {
				handlerOK = receipt.Status == types.ReceiptStatusSuccessful
				labels["stk-status-from-receipt"] = true
			}
			switch {
			case !decodes:
				out = outcome{ok: false, exec: avail}
			case surcharge && m.ver >= 5 && avail < gValCreation:
				out = outcome{ok: false, exec: 0}
			default:
				base := uint64(0)
				if surcharge && m.ver >= 5 {
					base = gValCreation
				}
				if handlerOK {
					out = outcome{ok: true, exec: base}
					moved = moves
				} else {
					out = outcome{ok: false, exec: avail}
				}
			}
		default:
			out = m.bodyPlan(r.to, r.data).run(avail)
			if out.ok {
				moved = r.value
			}
		}
		gPre := intrinsic + out.exec
		refund := out.refund
		if refund > gPre/2 {
			refund = gPre / 2
		}
		gNet := gPre - refund

		// statement-level assertions first
		if gas > r.limit {
			return kit.Fail("gas-above-limit", "%s: gas used %d exceeds the limit %d", when, gas, r.limit)
		}
		if gas+refund < intrinsic {
			return kit.Fail("gas-below-intrinsic", "%s: gas used %d is below the intrinsic cost %d", when, gas, intrinsic)
		}
		if receipt == nil {
			return kit.Fail("no-receipt", "%s: applied without a receipt", when)
		}
		wantStatus := types.ReceiptStatusFailed
		if out.ok {
			wantStatus = types.ReceiptStatusSuccessful
		}
		if receipt.Status != wantStatus {
			return kit.Fail("status-mismatch", "%s: receipt status %d, expected %d (%s to %s, avail gas %d)", when, receipt.Status, wantStatus, r.kind, r.target(), avail)
		}
		if receipt.GasUsed != gas || receipt.CumulativeGasUsed != h.GasUsed || receipt.TxHash != r.tx.Hash() {
			return kit.Fail("receipt-mismatch", "%s: receipt GasUsed=%d Cumulative=%d, returned gas %d, header.GasUsed %d", when, receipt.GasUsed, receipt.CumulativeGasUsed, gas, h.GasUsed)
		}
		if r.kind == "create" && receipt.ContractAddress != created {
			return kit.Fail("receipt-mismatch", "%s: receipt.ContractAddress %x, expected %x", when, receipt.ContractAddress, created)
		}

		// which gas figure did the implementation report, and what did it charge?
		charged := gas // what the sender pays for and the pool loses
		reported := gas
		if gas != gNet {
			if refund > 0 && gas == gPre {
				// candidate for the recorded finding: the refund is granted (balance, pool)
				// but the reported figure is the pre-refund one
				poolLoss := m.pool - gp.Gas()
				paid := new(big.Int).Sub(sa.bal, st.GetBalance(r.sender))
				wantPaid := new(big.Int).Mul(new(big.Int).SetUint64(gNet), r.price)
				if r.to != "self" {
					wantPaid.Add(wantPaid, moved)
				}
				if poolLoss == gNet && paid.Cmp(wantPaid) == 0 {
					if !known {
						return kit.Fail(classRefund, "%s: the transaction reports gas used %d (receipt, header.GasUsed, header.GasRewards += %d*price) but the sender paid for and the block gas pool lost only %d: the refund of %d gas is granted but not deducted from the reported gas",
							when, gas, gas, gNet, refund)
					}
					labels["known:"+classRefund+"-modelled"] = true
					charged, reported = gNet, gPre
				} else {
					return kit.Fail("refund-amount", "%s: gas reported %d (pre-refund %d, refund counter %d, cap %d): sender paid %v (expected %v), pool lost %d (expected %d)",
						when, gas, gPre, out.refund, gPre/2, paid, wantPaid, poolLoss, gNet)
				}
			} else {
				return kit.Fail("gas-used-mismatch", "%s: gas used %d; the rules give intrinsic %d + body %d - refund %d = %d (%s to %s, limit %d)",
					when, gas, intrinsic, out.exec, refund, gNet, r.kind, r.target(), r.limit)
			}
		}

		// model update
		fee := new(big.Int).Mul(new(big.Int).SetUint64(charged), r.price)
		sa.bal.Sub(sa.bal, fee)
		sa.nonce++
		switch {
		case r.kind == "create":
			if out.ok {
				sa.bal.Sub(sa.bal, moved)
				m.track(created.Bytes(), new(big.Int), 0)
				ca := m.get(created.Bytes())
				ca.bal.Add(ca.bal, moved)
				ca.nonce = 1
				m.codeLen[string(created.Bytes())] = len(initTemplates[r.init].runtime)
			}
		case r.kind == "staking":
			sa.bal.Sub(sa.bal, moved) // staked tokens leave the account; the transaction's own value field moves nothing
			if out.ok {
				switch r.stk.Kind {
				case "create", "create-chancellor":
					m.pendingCreate[r.stk.Key%2] = true
				case "delegate-add":
					if m.pendingDeleg[r.from] == nil {
						m.pendingDeleg[r.from] = new(big.Int)
					}
					m.pendingDeleg[r.from].Add(m.pendingDeleg[r.from], r.stkAmount)
				case "delegate-sub":
					m.pendingDeleg[r.from].Sub(m.pendingDeleg[r.from], r.stkAmount)
				}
			}
		default:
			if out.ok {
				sa.bal.Sub(sa.bal, moved)
				ra := m.get(r.toAddr.Bytes())
				ra.bal.Add(ra.bal, moved)
				if r.to == "clear" {
					m.clearSet = false
				}
				if r.to == "destruct" && m.destructAlive {
					ba := m.get(beneficiaryAddr.Bytes())
					ba.bal.Add(ba.bal, ra.bal)
					ra.bal = new(big.Int)
					m.destructAlive = false
					m.codeLen[string(destructAddr.Bytes())] = 0
				}
			}
		}
		m.pool -= charged
		m.usedGas += reported
		m.rewards.Add(m.rewards, new(big.Int).Mul(new(big.Int).SetUint64(reported), r.price))

		if res := compare(when + fmt.Sprintf(" (applied: %s to %s, gas %d, status %d)", r.kind, r.target(), gas, receipt.Status)); res != nil {
			return *res
		}
		if out.ok {
			labels["applied-ok:"+r.kind] = true
		} else {
			labels["applied-failed:"+r.kind] = true
		}
		if r.kind == "staking" {
			labels["stk:"+r.stk.Kind+fmt.Sprintf(":ok=%v", out.ok)] = true
			if r.value.Sign() > 0 {
				labels["stk-with-tx-value"] = true
			}
		}
		if refund > 0 {
			labels["refund-granted"] = true
			if out.refund > gPre/2 {
				labels["refund-capped"] = true
			}
		}
		if gas == r.limit {
			labels["gas=limit"] = true
		}
		if gas == intrinsic {
			labels["gas=intrinsic"] = true
		}
	}
	if applied >= 2 {
		labels["applied>=2"] = true
	}
	var ls []string
	for l := range labels {
		ls = append(ls, l)
	}
	sort.Strings(ls)
	return kit.OK(boundary && (applied > 0 || len(labels) > 0), ls...)
}

var _ = kit.Register(kit.Prop[ApplyCase]{
	Name: "Apply",
	Rule: "1-8 applications through the chain's real StateProcessor (staking converter registered) on a fresh StateDB over a fixed parent state (4 funded senders, 5 contracts: STOP / REVERT / INVALID / slot-clearing SSTORE / SELFDESTRUCT, the identity precompile, 2 house validators), protocol version YouV4 or YouV5, called like the miner (snapshot, revert on error) or like the importer (first error aborts); per application: sender, nonce = next + {0,+-1,-2,+5}, price in {0,1,1e3,1e9,2^64,2^200}, recipient in {EOA, fresh, self, contracts, precompile, creation with 5 init templates, staking module with 20 valid/invalid message kinds}, value absolute or balance-relative (all / all+1), limit = intrinsic + body need + {-1,0,1,1e3,5e4,1e6} or remaining block gas + {-1,0,1} or absolute {0..2^64-1}, optional account state set just before (exact funds / one short / one short of limit*price), 10% resubmissions of an earlier signed tx; pool sizes 5e4..3e7. Oracle: independent intrinsic-gas and per-template execution model; refused (nonce / limit*price / pool) => state, roots, logs, pool, accumulators unchanged; applied => exact nonce, balances of all actors, gas used, status, pool and accumulator deltas; other errors measured only. Non-trivial = some application sits on a nonce/funds/gas boundary or is a resubmission",
	Gen:  genApplyCase, Run: runApplyCase,
	Quick: 12000, Thorough: 200000, Chunk: 1000, MinNonTrivialPct: 40,
})
