package c08

import (
	"fmt"
	"math/big"
	"runtime/debug"
	"sort"
	"strings"
	"testing"

	"github.com/youchainhq/go-youchain/common"
	"github.com/youchainhq/go-youchain/core/state"
	"github.com/youchainhq/go-youchain/params"
	"pgregory.net/rapid"
	"verif/kit"
	sk "verif/lib/statekit"
)

func TestMain(m *testing.M) {
	debug.SetGCPercent(400) // many short-lived tries per case; the heap stays small
	kit.Main(m, "C08")
}
func TestProps(t *testing.T)  { kit.RunAll(t) }
func TestReplay(t *testing.T) { kit.ReplayAll(t) }

// Case is a history on the StateDB validator API (API-level part of C08).
type Case struct {
	Ops  []sk.Op  `json:"ops"`
	Excl []string `json:"excl,omitempty"`
}

func genCase(t *rapid.T) Case {
	c := Case{Excl: sk.CurrentExclusions()}
	c.Ops = sk.GenOps(t, sk.GenCfg{Snapshots: true, Copy: true, Commit: true, MaxOps: 60})
	return c
}

// broken is one violated invariant.
type broken struct {
	inv string // stat | stake-by-kind | token-sum | stake-sum | stake-unit | dlg-order | dlg-nil | index | links | dlg-balance | panic
	v   int    // validator concerned (-1: none)
	msg string
}

type sums struct {
	onStake, onToken, offStake, offToken *big.Int
	on, off                              uint64
}

func newSums() *sums {
	return &sums{new(big.Int), new(big.Int), new(big.Int), new(big.Int), 0, 0}
}

func (s *sums) add(v *state.Validator) {
	if v.Status == params.ValidatorOnline {
		s.onStake.Add(s.onStake, v.Stake)
		s.onToken.Add(s.onToken, v.Token)
		s.on++
	} else {
		s.offStake.Add(s.offStake, v.Stake)
		s.offToken.Add(s.offToken, v.Token)
		s.off++
	}
}

func (s *sums) String() string {
	return fmt.Sprintf("online stake=%v token=%v count=%d, offline stake=%v token=%v count=%d", s.onStake, s.onToken, s.on, s.offStake, s.offToken, s.off)
}

func statString(k *state.ValKindStat) string {
	return fmt.Sprintf("online stake=%v token=%v count=%d, offline stake=%v token=%v count=%d", k.GetOnlineStake(), k.GetOnlineToken(), k.GetCount(), k.GetOfflineStake(), k.GetOfflineToken(), k.GetOfflineCount())
}

// checkInvariants recomputes everything the statement of C08 lists from the validator
// records (enumerated independently of the address index: the universe of possible
// validator addresses is known) and compares. useIndex = also compare the index
// enumeration GetValidatorsForUpdate.
func checkInvariants(st *state.StateDB, useIndex bool) (res *broken) {
	cur := -1
	defer func() {
		if r := recover(); r != nil {
			res = &broken{"panic", cur, fmt.Sprintf("reading the validator set panicked: %v", r)}
		}
	}()
	var existing []*state.Validator
	exIdx := map[common.Address]int{}
	for i := 0; i < sk.NVal; i++ {
		cur = i
		if v := st.GetValidatorByMainAddr(sk.ValAddr[i]); v != nil {
			existing = append(existing, v)
			exIdx[sk.ValAddr[i]] = i
		}
	}
	cur = -1
	// --- statistics = sums over the records -------------------------------------------
	roles := map[params.ValidatorRole]*sums{params.RoleChancellor: newSums(), params.RoleSenator: newSums(), params.RoleHouse: newSums()}
	kinds := map[params.ValidatorKind]*sums{params.KindValidator: newSums(), params.KindChamber: newSums(), params.KindHouse: newSums()}
	for _, v := range existing {
		roles[v.Role].add(v)
		kinds[params.KindValidator].add(v)
		if v.Role == params.RoleHouse {
			kinds[params.KindHouse].add(v)
		} else {
			kinds[params.KindChamber].add(v)
		}
	}
	stat, err := st.GetValidatorsStat()
	if err != nil {
		return &broken{"stat", -1, "GetValidatorsStat: " + err.Error()}
	}
	for _, r := range []params.ValidatorRole{params.RoleChancellor, params.RoleSenator, params.RoleHouse} {
		if got, want := statString(stat.GetByRole(r)), roles[r].String(); got != want {
			return &broken{"stat", -1, fmt.Sprintf("statistics of role %d: %s; summing the %d validator records gives %s", r, got, len(existing), want)}
		}
	}
	for _, k := range []params.ValidatorKind{params.KindValidator, params.KindChamber, params.KindHouse} {
		if got, want := statString(stat.GetByKind(k)), kinds[k].String(); got != want {
			return &broken{"stat", -1, fmt.Sprintf("statistics of kind %d: %s; summing the %d validator records gives %s", k, got, len(existing), want)}
		}
		if got := stat.GetStakeByKind(k); got.Cmp(kinds[k].onStake) != 0 {
			return &broken{"stake-by-kind", -1, fmt.Sprintf("GetStakeByKind(%d) = %v, online stake of the records = %v", k, got, kinds[k].onStake)}
		}
		if got := stat.GetCountOfKind(k); got != kinds[k].on {
			return &broken{"stake-by-kind", -1, fmt.Sprintf("GetCountOfKind(%d) = %d, online validators = %d", k, got, kinds[k].on)}
		}
	}
	// --- per validator -----------------------------------------------------------------
	delegatedTo := map[common.Address]map[common.Address]*state.DelegationFrom{} // delegator -> validator -> entry
	for _, v := range existing {
		i := exIdx[v.MainAddress()]
		cur = i
		tok, stk := new(big.Int).Set(v.SelfToken), new(big.Int).Set(v.SelfStake)
		if want := params.YOUToStake(v.SelfToken); v.SelfStake.Cmp(want) != 0 {
			return &broken{"stake-unit", i, fmt.Sprintf("validator %d: self stake %v != self token %v / stake unit = %v", i, v.SelfStake, v.SelfToken, want)}
		}
		var prev *big.Int
		for j, d := range v.Delegations {
			if d == nil {
				return &broken{"dlg-nil", i, fmt.Sprintf("validator %d: delegation entry %d of %d is nil", i, j, len(v.Delegations))}
			}
			if want := params.YOUToStake(d.Token); d.Stake.Cmp(want) != 0 {
				return &broken{"stake-unit", i, fmt.Sprintf("validator %d: delegation of %x has stake %v != token %v / stake unit = %v", i, d.Delegator, d.Stake, d.Token, want)}
			}
			if b := d.Delegator.Big(); prev != nil && prev.Cmp(b) >= 0 {
				return &broken{"dlg-order", i, fmt.Sprintf("validator %d: delegation list is not strictly ascending at entry %d (%x)", i, j, d.Delegator)}
			} else {
				prev = b
			}
			tok.Add(tok, d.Token)
			stk.Add(stk, d.Stake)
			if delegatedTo[d.Delegator] == nil {
				delegatedTo[d.Delegator] = map[common.Address]*state.DelegationFrom{}
			}
			delegatedTo[d.Delegator][v.MainAddress()] = d
		}
		if v.Token.Cmp(tok) != 0 {
			return &broken{"token-sum", i, fmt.Sprintf("validator %d: token %v != self token %v + delegated tokens = %v (delegations %v)", i, v.Token, v.SelfToken, tok, renderDlgs(v))}
		}
		if v.Stake.Cmp(stk) != 0 {
			return &broken{"stake-sum", i, fmt.Sprintf("validator %d: stake %v != self stake %v + delegated stakes = %v (delegations %v)", i, v.Stake, v.SelfStake, stk, renderDlgs(v))}
		}
	}
	cur = -1
	// --- the address index lists exactly the existing validators -----------------------------
	if useIndex {
		var idx, want []string
		for _, v := range st.GetValidatorsForUpdate() {
			idx = append(idx, fmt.Sprintf("%x", v.MainAddress().Bytes()[:3]))
		}
		for _, v := range existing {
			want = append(want, fmt.Sprintf("%x", v.MainAddress().Bytes()[:3]))
		}
		sort.Strings(idx)
		sort.Strings(want)
		if strings.Join(idx, " ") != strings.Join(want, " ") {
			return &broken{"index", -1, fmt.Sprintf("the address index (GetValidatorsForUpdate) lists [%s]; the validators that exist (GetValidatorByMainAddr) are [%s]", strings.Join(idx, " "), strings.Join(want, " "))}
		}
	}
	// --- delegators and validators agree, both ways ------------------------------------
	for a := 0; a < sk.NAll; a++ {
		d := sk.Addrs[a]
		if !st.Exist(d) {
			if len(delegatedTo[d]) > 0 {
				return &broken{"links", -1, fmt.Sprintf("account %x does not exist but %d validators list a delegation from it", d, len(delegatedTo[d]))}
			}
			continue
		}
		dtos, err := st.GetDelegationsFrom(d)
		if err != nil {
			return &broken{"links", -1, fmt.Sprintf("GetDelegationsFrom(%x): %v", d, err)}
		}
		total := new(big.Int)
		seen := map[common.Address]bool{}
		for _, dt := range dtos {
			e := delegatedTo[d][dt.Validator]
			if e == nil || seen[dt.Validator] {
				return &broken{"links", exIdx[dt.Validator], fmt.Sprintf("account %x lists validator %x, which has no (single) delegation from it", d, dt.Validator)}
			}
			seen[dt.Validator] = true
			total.Add(total, e.Token)
		}
		if len(seen) != len(delegatedTo[d]) || st.GetCountOfDelegateTo(d) != len(seen) {
			return &broken{"links", -1, fmt.Sprintf("account %x lists %d validators (count getter %d); %d validators list a delegation from it", d, len(seen), st.GetCountOfDelegateTo(d), len(delegatedTo[d]))}
		}
		if bal := st.GetOrNewStateObject(d).DelegationBalance(); bal.Cmp(total) != 0 {
			return &broken{"dlg-balance", -1, fmt.Sprintf("account %x: delegation balance %v != sum of its delegations' tokens %v", d, bal, total)}
		}
	}
	return nil
}

func renderDlgs(v *state.Validator) string {
	var p []string
	for _, d := range v.Delegations {
		if d == nil {
			p = append(p, "<nil>")
		} else {
			p = append(p, fmt.Sprintf("%x:%v", d.Delegator[17:], d.Token))
		}
	}
	return "[" + strings.Join(p, " ") + "]"
}

func runCase(c Case) kit.Result {
	m := sk.NewMachine(c.Excl)
	labels := map[string]bool{}
	// root-cause notes: which recorded defect shapes the history has gone through
	aliasTaint := map[int]bool{} // validator whose aliasing delegation update was reverted
	inplaceTaint := false        // a revert crossed teDelegationSub's in-place status switch
	unsafeCopy := false          // subject descends from a copy taken with an unwritten delegation list
	checked, stressed := false, false

	classify := func(b *broken) string {
		switch {
		case b.inv == "index" && m.UnflushedCreate:
			return sk.ClsIndexReload
		case inplaceTaint && (b.inv == "stat" || b.inv == "stake-by-kind"):
			return sk.ClsInplaceStatus
		case len(aliasTaint) > 0 && (aliasTaint[b.v] || b.inv == "links") &&
			(b.inv == "token-sum" || b.inv == "stake-sum" || b.inv == "dlg-nil" || b.inv == "links" || b.inv == "dlg-order" || b.inv == "panic"):
			return sk.ClsDlgAlias
		case unsafeCopy && (b.inv == "links" || b.inv == "panic") && strings.Contains(b.msg, "load delegations error"):
			return sk.ClsCopyDlgs
		}
		return b.inv
	}
	check := func(when string) *kit.Result {
		useIndex := !(m.Excl[sk.ClsIndexReload] && m.UnflushedCreate)
		if !useIndex {
			labels["excl:"+sk.ClsIndexReload] = true
		}
		if b := checkInvariants(m.St, useIndex); b != nil {
			r := kit.Fail(classify(b), "%s: %s", when, b.msg)
			return &r
		}
		checked = true
		return nil
	}

	for i, op := range c.Ops {
		when := fmt.Sprintf("after op %d (%s)", i, op.K)
		switch op.K {
		case "snap":
			if len(m.Live) < 8 {
				m.Snapshot(nil)
			}
			continue
		case "revert":
			pos, ok := m.PickRevert(op.N)
			if !ok {
				continue
			}
			pv, crossed, _ := m.Revert(pos)
			if pv != nil {
				return kit.Discarded("RevertToSnapshot panicked (subject of C09)")
			}
			for _, e := range crossed {
				switch e.Kind {
				case "alias":
					aliasTaint[e.V] = true
				case "inplace":
					inplaceTaint = true
				case "vj":
					labels["revert-validator-journal"] = true
					stressed = true
				}
			}
		case "fin":
			m.Finalise()
		case "iroot":
			m.IRoot()
		case "commit":
			if err := m.Commit(); err != nil {
				return kit.Fail("commit-error", "%s: Commit failed: %v", when, err)
			}
			// the validator-only reader consensus uses for look-back blocks
			if r := checkReader(m, when); r != nil {
				return *r
			}
			stressed = true
			if op.M > 0 {
				st, db, disk, err := m.Open(op.M)
				if err != nil {
					return kit.Fail("reopen-error", "%s: reopening the committed roots failed: %v", when, err)
				}
				m.Adopt(st, db, disk)
				if op.M == 2 {
					unsafeCopy = false
				}
				labels["commit-reopen"] = true
			}
		case "copy":
			// production copies between transactions; Copy itself also copes with un-finalised
			// changes when no frame is open and no account awaits deletion (see C10)
			if op.M&2 == 2 && len(m.Live) == 0 && m.OpsInTx > 0 && m.NoGhostAccounts() {
				labels["copy-before-finalise"] = true
			} else if m.OpsInTx > 0 || len(m.Live) > 0 {
				m.Finalise()
			}
			if m.AcctDirtySinceRoot && m.Excl[sk.ClsCopyDirtyMark] {
				m.IRoot()
			}
			safe := m.CopySafe()
			if !safe && m.Excl[sk.ClsCopyDlgs] {
				labels["excl:"+sk.ClsCopyDlgs] = true
				continue
			}
			cp := m.St.Copy()
			m.Adopt(cp, m.DB, m.Disk)
			unsafeCopy = unsafeCopy || !safe
			labels["copy"] = true
			stressed = true
		default:
			if !m.Exec(i, op) {
				continue
			}
		}
		if r := check(when); r != nil {
			return *r
		}
	}
	for _, l := range m.SortedLabels() {
		labels[l] = true
	}
	var ls []string
	for l := range labels {
		ls = append(ls, l)
	}
	changed := labels["status-change"] || labels["stake-boundary"] || labels["delegation"]
	return kit.OK(checked && changed && stressed, ls...)
}

// checkReader opens the committed validator root with NewVldReader (integrity check on)
// and recomputes the statistics from what it lists.
func checkReader(m *sk.Machine, when string) (res *kit.Result) {
	defer func() {
		if r := recover(); r != nil {
			x := kit.Fail("reader-panic", "%s: NewVldReader on the committed validator root panicked: %v", when, r)
			res = &x
		}
	}()
	rd, err := state.NewVldReader(m.Roots[1], m.DB, true)
	if err != nil {
		x := kit.Fail("reader-error", "%s: NewVldReader(valRoot, checkIntegrity=true) failed: %v", when, err)
		return &x
	}
	var got, want []string
	total := newSums()
	for _, v := range rd.GetValidators().List() {
		got = append(got, fmt.Sprintf("%x", v.MainAddress().Bytes()[:3]))
		total.add(v)
	}
	for i := 0; i < sk.NVal; i++ {
		if v := m.St.GetValidatorByMainAddr(sk.ValAddr[i]); v != nil {
			want = append(want, fmt.Sprintf("%x", v.MainAddress().Bytes()[:3]))
			if rv := rd.GetValidatorByMainAddr(sk.ValAddr[i]); rv == nil || rv.Token.Cmp(v.Token) != 0 || rv.Stake.Cmp(v.Stake) != 0 || rv.Status != v.Status || rv.Role != v.Role {
				x := kit.Fail("reader-mismatch", "%s: validator %d read through NewVldReader (%v) differs from the committed object (token %v stake %v status %d)", when, i, rv, v.Token, v.Stake, v.Status)
				return &x
			}
		}
	}
	sort.Strings(got)
	sort.Strings(want)
	if strings.Join(got, " ") != strings.Join(want, " ") {
		x := kit.Fail("reader-index", "%s: NewVldReader lists validators [%s], the committed state has [%s]", when, strings.Join(got, " "), strings.Join(want, " "))
		return &x
	}
	stat, err := rd.GetValidatorsStat()
	if err != nil {
		x := kit.Fail("reader-error", "%s: reader GetValidatorsStat: %v", when, err)
		return &x
	}
	if g, w := statString(stat.GetByKind(params.KindValidator)), total.String(); g != w {
		x := kit.Fail("reader-stat", "%s: statistics read through NewVldReader: %s; summing the validators it lists: %s", when, g, w)
		return &x
	}
	return nil
}

var _ = kit.Register(kit.Prop[Case]{
	Name: "ValidatorSetInvariants",
	Rule: "histories of up to ~75 operations on one StateDB: the validator operations replay the staking callers (create, update, deposit, withdraw, status change, delegation add/sub incl. forced offline, rewards, settlement, expel with self penalty, recover, withdraw queue), mixed with account operations, Snapshot/RevertToSnapshot of any live id, Finalise, IntermediateRoot, Copy (continue on the copy), Commit with reopen on the same database or on a disk copy; after EVERY executed operation the statistics (per role and kind: online/offline stake, token, count), GetStakeByKind/GetCountOfKind, token and stake sums, stake = token/StakeUnit for self and each delegation, sorted duplicate-free delegation lists, address index = existing validators, delegator<->validator links both ways and delegation balances are recomputed from the records; after every Commit also through NewVldReader with integrity check; non-trivial = a status, a stake across a StakeUnit boundary or a delegation changed AND the history reverts a validator-journal entry, copies or commits; distinct = FNV-64 of the case JSON",
	Gen:  genCase, Run: runCase,
	Quick: 8000, Thorough: 60000, Chunk: 500, MinNonTrivialPct: 30,
})
