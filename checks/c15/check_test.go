package c15

import (
	"bytes"
	"encoding/hex"
	"fmt"
	"math/big"
	"sort"
	"strconv"
	"strings"
	"testing"

	"github.com/youchainhq/go-youchain/common"
	"github.com/youchainhq/go-youchain/core/state"
	"github.com/youchainhq/go-youchain/core/vm"
	"github.com/youchainhq/go-youchain/core/vm/runtime"
	"github.com/youchainhq/go-youchain/params"
	"github.com/youchainhq/go-youchain/youdb"
	"pgregory.net/rapid"
	"verif/kit"
)

func TestMain(m *testing.M) {
	// process-wide protocol table: set once, before any case, never changed (as runtime's own tests do)
	params.InitNetworkId(params.NetworkIdForTestCase)
	kit.Main(m, "C15")
}
func TestProps(t *testing.T)  { kit.RunAll(t) }
func TestReplay(t *testing.T) { kit.ReplayAll(t) }

// ---------------------------------------------------------------------------------
// case representation

// Ins is one instruction: a Yellow Paper mnemonic; PUSH carries its immediate as hex
// (1-32 bytes, the width selects PUSH1..PUSH32).
type Ins struct {
	Op  string `json:"op"`
	Arg string `json:"arg,omitempty"`
}

// Slot is one entry of the storage pre-state (hex words).
type Slot struct {
	K string `json:"k"`
	V string `json:"v"`
}

// Case is a straight-line program plus its environment. The executed bytecode is
//
//	warm-up (Warm x PUSH32 garbage, Warm x POP: leaves Warm recycled integers in the pool)
//	Code
//	epilogue: one "MSIZE MSTORE" per remaining stack item (top first), then MSIZE PUSH1 0 RETURN
//
// so the return data is the whole memory followed by the whole stack.
type Case struct {
	Kind  string `json:"kind"` // single | prog | memstore
	Warm  int    `json:"warm"`
	Pre   []Slot `json:"pre,omitempty"`
	Code  []Ins  `json:"code"`
	// Gas limit. GasMode "" : Gas as given. "tight": (gas the reference needs when given ample gas) - Delta,
	// i.e. exactly enough (Delta 0) or just too little. "sentry": (gas the reference has used when it reaches
	// the (Idx mod n)-th SSTORE) + 2300 + Delta, i.e. exactly at (Delta 0) / just above (Delta 1) the EIP-2200
	// "gas left <= 2300" limit; falls back to "tight" when the program executes no SSTORE.
	Gas     uint64 `json:"gas"`
	GasMode string `json:"gas_mode,omitempty"`
	Delta   int    `json:"delta,omitempty"`
	Idx     int    `json:"idx,omitempty"`
}

const ampleGas = 5000000

var mnemonic = map[string]byte{
	"STOP": opSTOP, "ADD": opADD, "MUL": opMUL, "SUB": opSUB, "DIV": opDIV, "SDIV": opSDIV, "MOD": opMOD,
	"SMOD": opSMOD, "ADDMOD": opADDMOD, "MULMOD": opMULMOD, "EXP": opEXP, "SIGNEXTEND": opSIGNEXTEND,
	"LT": opLT, "GT": opGT, "SLT": opSLT, "SGT": opSGT, "EQ": opEQ, "ISZERO": opISZERO, "AND": opAND,
	"OR": opOR, "XOR": opXOR, "NOT": opNOT, "BYTE": opBYTE, "SHL": opSHL, "SHR": opSHR, "SAR": opSAR,
	"POP": opPOP, "MLOAD": opMLOAD, "MSTORE": opMSTORE, "MSTORE8": opMSTORE8, "SLOAD": opSLOAD,
	"SSTORE": opSSTORE, "MSIZE": opMSIZE, "GAS": opGAS,
}

// encode returns the bytes of one instruction ("" error = ok).
func encode(in Ins) ([]byte, string) {
	switch {
	case in.Op == "PUSH":
		b, err := hex.DecodeString(in.Arg)
		if err != nil || len(b) < 1 || len(b) > 32 {
			return nil, "bad PUSH immediate"
		}
		return append([]byte{opPUSH1 + byte(len(b)-1)}, b...), ""
	case strings.HasPrefix(in.Op, "DUP"):
		n, err := strconv.Atoi(in.Op[3:])
		if err != nil || n < 1 || n > 16 {
			return nil, "bad DUP"
		}
		return []byte{opDUP1 + byte(n-1)}, ""
	case strings.HasPrefix(in.Op, "SWAP"):
		n, err := strconv.Atoi(in.Op[4:])
		if err != nil || n < 1 || n > 16 {
			return nil, "bad SWAP"
		}
		return []byte{opSWAP1 + byte(n-1)}, ""
	}
	if b, ok := mnemonic[in.Op]; ok && in.Op != "STOP" {
		return []byte{b}, ""
	}
	return nil, "unknown mnemonic " + in.Op
}

func family(op string) string {
	switch {
	case strings.HasPrefix(op, "DUP"):
		return "DUP"
	case strings.HasPrefix(op, "SWAP"):
		return "SWAP"
	}
	return op
}

// assemble builds warm-up + body + epilogue; the body must be stack-valid (statically).
func assemble(warm int, body []Ins) (code []byte, problem string) {
	for i := 0; i < warm; i++ {
		code = append(code, opPUSH32)
		for j := 0; j < 32; j++ {
			code = append(code, byte(0x5a+7*i+13*j)|1)
		}
	}
	for i := 0; i < warm; i++ {
		code = append(code, opPOP)
	}
	h := 0
	for _, in := range body {
		b, bad := encode(in)
		if bad != "" {
			return nil, bad
		}
		_, pops, pushes, _ := staticInfo(b[0])
		if h < pops {
			return nil, "stack underflow in generated program"
		}
		h += pushes - pops
		if h > 1000 {
			return nil, "stack too deep in generated program"
		}
		code = append(code, b...)
	}
	for i := 0; i < h; i++ {
		code = append(code, opMSIZE, opMSTORE)
	}
	code = append(code, opMSIZE, opPUSH1, 0, opRETURN)
	return code, ""
}

func hexWord(x *big.Int) string {
	b := x.Bytes()
	if len(b) == 0 {
		b = []byte{0}
	}
	return hex.EncodeToString(b)
}

func parseWord(s string) (word32, bool) {
	var w word32
	if len(s)%2 == 1 {
		s = "0" + s
	}
	b, err := hex.DecodeString(s)
	if err != nil || len(b) > 32 {
		return w, false
	}
	copy(w[32-len(b):], b)
	return w, true
}

// ---------------------------------------------------------------------------------
// running the code under test

var contractAddr = common.BytesToAddress([]byte("c15-contract"))
var originAddr = common.BytesToAddress([]byte("c15-origin"))

type implOutcome struct {
	Err     error
	Ret     []byte
	GasUsed uint64
	Refund  uint64
	st      *state.StateDB
}

// runImpl executes code through runtime.Call with runtime's default EVM configuration
// (params.Versions[YouCurrentVersion] -> Istanbul jump table). The storage pre-state is
// written and finalised first, exactly as a previous transaction of the same block
// leaves it, so that it is the "original" value of EIP-2200.
func runImpl(code []byte, pre map[word32]word32, preOrder []word32, gas uint64) implOutcome {
	vm.VerifResetIntPools()
	st, err := state.New(common.Hash{}, common.Hash{}, common.Hash{}, state.NewDatabase(youdb.NewMemDatabase()))
	if err != nil {
		panic(err)
	}
	st.CreateAccount(contractAddr)
	st.SetCode(contractAddr, code)
	for _, k := range preOrder {
		st.SetState(contractAddr, common.Hash(k), common.Hash(pre[k]))
	}
	st.Finalise(false)
	cfg := &runtime.Config{State: st, GasLimit: gas, Origin: originAddr, Time: big.NewInt(1), BlockNumber: big.NewInt(1)}
	ret, left, err := runtime.Call(contractAddr, nil, cfg)
	out := implOutcome{Err: err, Ret: ret, Refund: st.GetRefund(), st: st}
	if left > gas {
		out.GasUsed = ^uint64(0) // more gas left than given: reported as a mismatch by the caller
	} else {
		out.GasUsed = gas - left
	}
	return out
}

type diff struct {
	what string
	msg  string
}

// execBoth runs body on the reference and on the implementation and compares every
// observable: outcome, return data (memory and stack, bit for bit), gas used, refund
// counter and storage.
func execBoth(c Case, body []Ins, pre map[word32]word32, preOrder []word32, gas uint64) (ref *refOutcome, d *diff, discard string) {
	code, bad := assemble(c.Warm, body)
	if bad != "" {
		return nil, nil, bad
	}
	ref = refRun(code, pre, gas)
	if ref.Unsupported != "" {
		return nil, nil, "reference: " + ref.Unsupported
	}
	impl := runImpl(code, pre, preOrder, gas)
	switch {
	case ref.OK && impl.Err != nil:
		return ref, &diff{"unexpected-failure", fmt.Sprintf("the specification gives a normal halt using %d of %d gas, the EVM failed with %q", ref.GasUsed, gas, impl.Err)}, ""
	case !ref.OK && impl.Err == nil:
		return ref, &diff{"unexpected-success", fmt.Sprintf("the specification gives an exceptional halt (%s) with gas limit %d, the EVM halted normally using %d gas", ref.Halt, gas, impl.GasUsed)}, ""
	}
	if !bytes.Equal(ref.Ret, impl.Ret) {
		return ref, &diff{"result-mismatch", describeRet(ref.Ret, impl.Ret)}, ""
	}
	if ref.GasUsed != impl.GasUsed {
		return ref, &diff{"gas-mismatch", fmt.Sprintf("gas used: specification %d, EVM %d (gas limit %d)", ref.GasUsed, impl.GasUsed, gas)}, ""
	}
	if ref.Refund != impl.Refund {
		return ref, &diff{"refund-mismatch", fmt.Sprintf("refund counter: specification (EIP-2200) %d, EVM %d", ref.Refund, impl.Refund)}, ""
	}
	// storage read-back: every slot of the pre-state or written by the program
	keys := map[word32]bool{}
	for k := range pre {
		keys[k] = true
	}
	for k := range ref.Storage {
		keys[k] = true
	}
	for _, k := range ref.Touched {
		keys[k] = true
	}
	var ks []string
	for k := range keys {
		ks = append(ks, string(k[:]))
	}
	sort.Strings(ks)
	for _, s := range ks {
		var k word32
		copy(k[:], s)
		got := word32(impl.st.GetState(contractAddr, common.Hash(k)))
		if want := ref.Storage[k]; got != want {
			return ref, &diff{"storage-mismatch", fmt.Sprintf("slot %x: specification %x, EVM %x", k, want, got)}, ""
		}
	}
	return ref, nil, ""
}

func describeRet(want, got []byte) string {
	if len(want) != len(got) {
		return fmt.Sprintf("return data (memory ++ stack, top first) has %d bytes, the specification gives %d\n got: %x\nwant: %x", len(got), len(want), clip(got), clip(want))
	}
	for i := 0; i+32 <= len(want); i += 32 {
		if !bytes.Equal(want[i:i+32], got[i:i+32]) {
			return fmt.Sprintf("word %d of %d of the return data (memory ++ stack, top first) differs:\n got: %x\nwant: %x", i/32, len(want)/32, got[i:i+32], want[i:i+32])
		}
	}
	return "return data differs"
}

func clip(b []byte) []byte {
	if len(b) > 256 {
		return b[:256]
	}
	return b
}

func disasm(body []Ins) string {
	var sb strings.Builder
	for i, in := range body {
		if i > 0 {
			sb.WriteByte(' ')
		}
		sb.WriteString(in.Op)
		if in.Arg != "" {
			sb.WriteString(" 0x" + in.Arg)
		}
	}
	return sb.String()
}

// ---------------------------------------------------------------------------------
// runCase

func runCase(c Case) kit.Result {
	if c.Warm < 0 || c.Warm > 64 || len(c.Code) == 0 || len(c.Code) > 400 {
		return kit.Discarded("malformed case")
	}
	pre := map[word32]word32{}
	var preOrder []word32
	for _, s := range c.Pre {
		k, ok1 := parseWord(s.K)
		v, ok2 := parseWord(s.V)
		if !ok1 || !ok2 {
			return kit.Discarded("malformed pre-state")
		}
		if _, dup := pre[k]; dup || v == (word32{}) {
			continue
		}
		pre[k] = v
		preOrder = append(preOrder, k)
	}
	gas := c.Gas
	gasLabel := "gas:ample"
	if c.GasMode != "" {
		if c.Delta < 0 || c.Delta > 1000000 || c.Idx < 0 {
			return kit.Discarded("malformed gas mode")
		}
		code, bad := assemble(c.Warm, c.Code)
		if bad != "" {
			return kit.Discarded(bad)
		}
		probe := refRun(code, pre, ampleGas)
		if c.GasMode == "sentry" && len(probe.SstoreAt) > 0 {
			gas = probe.SstoreAt[c.Idx%len(probe.SstoreAt)] + gSstoreSentry + uint64(c.Delta)
			gasLabel = "gas:sentry+" + strconv.Itoa(min(c.Delta, 2))
		} else {
			gas = 1
			if probe.GasUsed > uint64(c.Delta)+1 {
				gas = probe.GasUsed - uint64(c.Delta)
			}
			gasLabel = "gas:exact"
			if c.Delta > 0 {
				gasLabel = "gas:short"
			}
		}
	} else if c.Gas != ampleGas {
		gasLabel = "gas:drawn"
	}
	if gas == 0 || gas > 50000000 {
		return kit.Discarded("gas limit outside the modelled range")
	}
	ref, d, discard := execBoth(c, c.Code, pre, preOrder, gas)
	if discard != "" {
		return kit.Discarded(discard)
	}
	if d != nil {
		// locate the first instruction after which the two machines disagree
		culprit, at := "", -1
		for k := 1; k < len(c.Code); k++ {
			if _, dk, dis := execBoth(c, c.Code[:k], pre, preOrder, gas); dis == "" && dk != nil {
				culprit, at = family(c.Code[k-1].Op), k-1
				break
			}
		}
		if culprit == "" {
			culprit, at = family(c.Code[len(c.Code)-1].Op), len(c.Code)-1
		}
		return kit.Fail(d.what+":"+culprit, "%s\nfirst divergence after instruction %d (%s) of: %s\ngas limit %d, warm-up %d, pre-state %v",
			d.msg, at, c.Code[at].Op, disasm(c.Code), gas, c.Warm, c.Pre)
	}

	// labels and non-triviality
	labels := []string{"kind:" + c.Kind, gasLabel}
	if !ref.OK {
		labels = append(labels, "halt:exceptional")
	}
	nontrivial := false
	switch c.Kind {
	case "single":
		last := c.Code[len(c.Code)-1]
		labels = append(labels, "op:"+last.Op)
		if b, ok := mnemonic[last.Op]; ok && ref.OK && len(ref.Ret) >= 32 {
			_, pops, _, _ := staticInfo(b)
			res := new(big.Int).SetBytes(ref.Ret[:32]) // no memory use: the return data starts with the top of the stack
			nontrivial = res.Sign() != 0
			for i := 0; i < pops && len(c.Code)-2-i >= 0; i++ {
				if w, ok := parseWord(c.Code[len(c.Code)-2-i].Arg); ok && new(big.Int).SetBytes(w[:]).Cmp(res) == 0 {
					nontrivial = false
				}
			}
		}
	case "prog":
		reuse := 0
		for _, in := range c.Code {
			if f := family(in.Op); f == "DUP" || f == "SWAP" {
				reuse++
			}
		}
		nontrivial = len(c.Code) >= 10 && reuse >= 2
		if reuse >= 2 {
			labels = append(labels, "reuse>=2")
		}
		if len(c.Code) >= 25 {
			labels = append(labels, "len>=25")
		}
	default:
		nontrivial = ref.MemReadBack || ref.StoReadBack || ref.DirtyRewrite
	}
	if ref.MemReadBack {
		labels = append(labels, "mem-readback")
	}
	if ref.StoReadBack {
		labels = append(labels, "storage-readback")
	}
	if ref.DirtyRewrite {
		labels = append(labels, "storage-dirty-rewrite")
	}
	if ref.RefundMoved {
		labels = append(labels, "refund-moved")
	}
	var kinds []string
	for k := range ref.SstoreKinds {
		kinds = append(kinds, "sstore:"+k)
	}
	sort.Strings(kinds)
	labels = append(labels, kinds...)
	if ref.OK && ref.Refund > 0 {
		labels = append(labels, "refund>0")
	}
	if ref.Expanded > 4200 {
		labels = append(labels, "mem>4k")
	}
	return kit.OK(nontrivial, labels...)
}

// ---------------------------------------------------------------------------------
// generators

func pow2(n uint) *big.Int { return new(big.Int).Lsh(bOne, n) }
func sub(a *big.Int, n int64) *big.Int {
	return new(big.Int).Sub(a, big.NewInt(n))
}

var boundary = func() []*big.Int {
	var l []*big.Int
	for _, v := range []int64{0, 1, 2, 3, 7, 8, 15, 16, 30, 31, 32, 33, 127, 128, 255, 256, 257, 65535, 65536} {
		l = append(l, big.NewInt(v))
	}
	for _, n := range []uint{31, 32, 63, 64, 127, 128, 248, 254, 255} {
		l = append(l, pow2(n), sub(pow2(n), 1), new(big.Int).Add(pow2(n), bOne))
	}
	l = append(l, sub(two256, 1), sub(two256, 2), sub(two256, 3), sub(two256, 255), sub(two256, 256), sub(two256, 257),
		new(big.Int).Add(two255, pow2(254)), new(big.Int).Lsh(big.NewInt(0xff), 248), new(big.Int).Lsh(big.NewInt(0x7f), 248))
	return l
}()

func genWord(t *rapid.T, label string) *big.Int {
	switch rapid.IntRange(0, 11).Draw(t, label+"-kind") {
	case 0, 1, 2:
		return boundary[rapid.IntRange(0, len(boundary)-1).Draw(t, label+"-b")]
	case 3:
		return big.NewInt(int64(rapid.IntRange(0, 300).Draw(t, label+"-small")))
	case 4, 5:
		return new(big.Int).SetBytes(rapid.SliceOfN(rapid.Byte(), 32, 32).Draw(t, label+"-rand"))
	case 6: // few set bits
		x := new(big.Int)
		for i, n := 0, rapid.IntRange(1, 3).Draw(t, label+"-nbits"); i < n; i++ {
			x.SetBit(x, rapid.IntRange(0, 255).Draw(t, label+"-bit"), 1)
		}
		return x
	case 7: // few cleared bits
		x := new(big.Int).Set(allOnes)
		for i, n := 0, rapid.IntRange(1, 3).Draw(t, label+"-nbits"); i < n; i++ {
			x.SetBit(x, rapid.IntRange(0, 255).Draw(t, label+"-bit"), 0)
		}
		return x
	case 8: // small negative
		return sub(two256, int64(rapid.IntRange(1, 300).Draw(t, label+"-neg")))
	case 9: // random of random width
		n := rapid.IntRange(1, 31).Draw(t, label+"-w")
		return new(big.Int).SetBytes(rapid.SliceOfN(rapid.Byte(), n, n).Draw(t, label+"-rand"))
	case 10: // around a power of two
		x := pow2(uint(rapid.IntRange(0, 255).Draw(t, label+"-p")))
		return wrap(x.Add(x, big.NewInt(int64(rapid.IntRange(-1, 1).Draw(t, label+"-d")))))
	default: // negative of a random width
		n := rapid.IntRange(1, 31).Draw(t, label+"-w")
		return wrap(new(big.Int).Neg(new(big.Int).SetBytes(rapid.SliceOfN(rapid.Byte(), n, n).Draw(t, label+"-rand"))))
	}
}

// related derives a second operand from the first.
func related(t *rapid.T, a *big.Int, label string) *big.Int {
	switch rapid.IntRange(0, 6).Draw(t, label+"-rel") {
	case 0:
		return new(big.Int).Set(a)
	case 1:
		return wrap(new(big.Int).Add(a, bOne))
	case 2:
		return wrap(new(big.Int).Sub(a, bOne))
	case 3:
		return wrap(new(big.Int).Neg(a))
	case 4:
		return new(big.Int).Sub(allOnes, a)
	case 5:
		return new(big.Int).Rsh(a, uint(rapid.IntRange(1, 200).Draw(t, label+"-sh")))
	default:
		return wrap(new(big.Int).Lsh(a, 1))
	}
}

var shiftAmounts = []int64{0, 1, 2, 7, 8, 9, 31, 32, 63, 64, 65, 127, 128, 129, 248, 254, 255, 256, 257, 511, 512}

func genSmallIndex(t *rapid.T, label string, list []int64, hi int) *big.Int {
	switch rapid.IntRange(0, 9).Draw(t, label+"-ik") {
	case 0, 1, 2, 3:
		return big.NewInt(list[rapid.IntRange(0, len(list)-1).Draw(t, label+"-i")])
	case 4, 5, 6:
		return big.NewInt(int64(rapid.IntRange(0, hi).Draw(t, label+"-i")))
	case 7: // huge values with a small low part: a truncating implementation would misread them
		x := pow2(uint(rapid.IntRange(64, 255).Draw(t, label+"-hb")))
		return x.Add(x, big.NewInt(int64(rapid.IntRange(0, hi).Draw(t, label+"-i"))))
	default:
		return genWord(t, label)
	}
}

func pushIns(x *big.Int, width int) Ins {
	b := x.Bytes()
	if len(b) == 0 {
		b = []byte{0}
	}
	if width > 32 {
		width = 32
	}
	if width > len(b) {
		b = append(make([]byte, width-len(b)), b...)
	}
	return Ins{Op: "PUSH", Arg: hex.EncodeToString(b)}
}

func genPush(t *rapid.T, x *big.Int) Ins {
	switch rapid.IntRange(0, 3).Draw(t, "pushw") {
	case 0:
		return pushIns(x, 32)
	case 1:
		return pushIns(x, rapid.IntRange(1, 32).Draw(t, "pushwidth"))
	default:
		return pushIns(x, 0)
	}
}

var (
	unaryOps   = []string{"NOT", "ISZERO"}
	binaryOps  = []string{"SDIV", "SMOD", "SAR", "SIGNEXTEND", "EXP", "SUB", "DIV", "MOD", "MUL", "SHL", "SHR", "BYTE", "SLT", "SGT", "ADD", "LT", "GT", "EQ", "AND", "OR", "XOR"}
	ternaryOps = []string{"ADDMOD", "MULMOD"}
	indexedOps = []string{"SAR", "SIGNEXTEND", "SHL", "SHR", "BYTE"}
	singleOps  = append(append(append([]string{}, ternaryOps...), binaryOps...), unaryOps...)
)

func genGas(t *rapid.T, c *Case) {
	c.Gas = ampleGas
	// (rapid favours small draws: the common mode comes first)
	switch k := rapid.IntRange(0, 19).Draw(t, "gasmode"); {
	case k <= 11: // ample
	case k <= 14:
		c.GasMode = "tight" // exactly enough
	case k == 15:
		c.GasMode, c.Delta = "tight", rapid.SampledFrom([]int{1, 1, 1, 2, 3, 5, 8, 50}).Draw(t, "short")
	case k == 16:
		c.Gas = uint64(rapid.IntRange(1, 60000).Draw(t, "gas"))
	case c.Kind == "memstore":
		c.GasMode, c.Delta, c.Idx = "sentry", rapid.SampledFrom([]int{0, 1, 1, 2, 40}).Draw(t, "sentrydelta"), rapid.IntRange(0, 7).Draw(t, "sentryidx")
	}
}

// genSingle: sentinels, operands, one computational opcode.
func genSingle(t *rapid.T) Case {
	c := Case{Kind: "single"}
	c.Warm = rapid.SampledFrom([]int{0, 3, 8}).Draw(t, "warm")
	op := rapid.SampledFrom(singleOps).Draw(t, "op")
	nsent := rapid.IntRange(1, 3).Draw(t, "nsent")
	for i := 0; i < nsent; i++ {
		c.Code = append(c.Code, pushIns(new(big.Int).SetBytes(rapid.SliceOfN(rapid.Byte(), 32, 32).Draw(t, "sentinel")), 32))
	}
	var args []*big.Int // args[0] = top of stack
	a := genWord(t, "a")
	switch op {
	case "SHL", "SHR", "SAR":
		a = genSmallIndex(t, "shift", shiftAmounts, 300)
	case "BYTE":
		a = genSmallIndex(t, "byteidx", []int64{0, 1, 15, 16, 30, 31, 32, 33}, 40)
	case "SIGNEXTEND":
		a = genSmallIndex(t, "sext", []int64{0, 1, 15, 16, 29, 30, 31, 32, 33}, 40)
	}
	args = append(args, a)
	if op != "ISZERO" && op != "NOT" {
		var b *big.Int
		switch k := rapid.IntRange(0, 9).Draw(t, "bkind"); {
		case k <= 1 && a.Sign() != 0 || k == 2:
			b = related(t, a, "b")
		case k == 3 && (op == "DIV" || op == "SDIV" || op == "MOD" || op == "SMOD" || op == "EXP"):
			b = big.NewInt(int64(rapid.IntRange(0, 300).Draw(t, "bsmall")))
		case k == 4 && (op == "SDIV" || op == "SMOD"):
			a, b = new(big.Int).Set(two255), new(big.Int).Set(allOnes) // -2^255 / -1
			args[0] = a
		default:
			b = genWord(t, "b")
		}
		args = append(args, b)
	}
	if op == "ADDMOD" || op == "MULMOD" {
		var n *big.Int
		switch rapid.IntRange(0, 9).Draw(t, "nkind") {
		case 0:
			n = new(big.Int)
		case 1:
			n = big.NewInt(int64(rapid.IntRange(1, 3).Draw(t, "nsmall")))
		case 2:
			n = related(t, args[rapid.IntRange(0, 1).Draw(t, "nrelto")], "n")
		default:
			n = genWord(t, "n")
		}
		args = append(args, n)
	}
	for i := len(args) - 1; i >= 0; i-- {
		c.Code = append(c.Code, pushIns(args[i], 32))
	}
	c.Code = append(c.Code, Ins{Op: op})
	genGas(t, &c)
	return c
}

// progBuilder emits stack-valid instruction sequences.
type progBuilder struct {
	code  []Ins
	depth int
}

func (p *progBuilder) emit(op string) {
	b, bad := encode(Ins{Op: op})
	if bad != "" {
		panic(bad)
	}
	_, pops, pushes, _ := staticInfo(b[0])
	if p.depth < pops {
		panic("generator emitted " + op + " on a too shallow stack")
	}
	p.depth += pushes - pops
	p.code = append(p.code, Ins{Op: op})
}
func (p *progBuilder) push(in Ins) { p.code = append(p.code, in); p.depth++ }

func (p *progBuilder) arith(t *rapid.T) {
	// one computational step choosing among what the current depth allows
	for {
		switch k := rapid.IntRange(0, 21).Draw(t, "step"); {
		case k <= 2 && p.depth < 24:
			p.push(genPush(t, genWord(t, "w")))
		case k <= 6 && p.depth >= 1 && p.depth < 24:
			n := rapid.IntRange(1, min(16, p.depth)).Draw(t, "dup")
			p.emit("DUP" + strconv.Itoa(n))
		case k <= 9 && p.depth >= 2:
			n := rapid.IntRange(1, min(16, p.depth-1)).Draw(t, "swap")
			p.emit("SWAP" + strconv.Itoa(n))
		case k == 10 && p.depth >= 1:
			p.emit("POP")
		case k == 11 && p.depth >= 1:
			p.emit(rapid.SampledFrom(unaryOps).Draw(t, "unary"))
		case k <= 16 && p.depth >= 2:
			p.emit(rapid.SampledFrom(binaryOps).Draw(t, "binary"))
		case k == 17 && p.depth >= 3:
			p.emit(rapid.SampledFrom(ternaryOps).Draw(t, "ternary"))
		case k == 18 && p.depth >= 1:
			// small first operand so that shifts and byte selection stay inside the word
			op := rapid.SampledFrom(indexedOps).Draw(t, "indexed")
			hi := 260
			if op == "BYTE" || op == "SIGNEXTEND" {
				hi = 33
			}
			p.push(pushIns(big.NewInt(int64(rapid.IntRange(0, hi).Draw(t, "idx"))), 0))
			p.emit(op)
		case k == 19 && p.depth >= 1:
			// an operation applied to a value and its own copy
			p.emit("DUP1")
			p.emit(rapid.SampledFrom(binaryOps).Draw(t, "selfop"))
		case k == 20 && p.depth >= 2 && p.depth < 24:
			// keep both operands: DUP2 DUP2 OP
			p.emit("DUP2")
			p.emit("DUP2")
			p.emit(rapid.SampledFrom(binaryOps).Draw(t, "keepop"))
		case k == 21 && p.depth < 24 && rapid.IntRange(0, 3).Draw(t, "gasop") == 0:
			p.emit("GAS")
		default:
			continue
		}
		return
	}
}

// genProgram: straight-line programs that reuse results through DUP/SWAP/POP.
func genProgram(t *rapid.T) Case {
	c := Case{Kind: "prog"}
	c.Warm = rapid.SampledFrom([]int{0, 0, 4, 12}).Draw(t, "warm")
	p := &progBuilder{}
	for i, n := 0, rapid.IntRange(2, 6).Draw(t, "ninit"); i < n; i++ {
		p.push(genPush(t, genWord(t, "init")))
	}
	steps := rapid.IntRange(3, 36).Draw(t, "steps")
	for i := 0; i < steps; i++ {
		p.arith(t)
	}
	c.Code = p.code
	genGas(t, &c)
	return c
}

var hugeOffsets = func() []*big.Int {
	return []*big.Int{pow2(32), sub(pow2(40), 32), sub(pow2(40), 31), pow2(63), sub(pow2(64), 33), sub(pow2(64), 32), sub(pow2(64), 1),
		pow2(64), new(big.Int).Add(pow2(64), big.NewInt(64)), pow2(255), sub(two256, 32), sub(two256, 1)}
}()

// genMemStore: memory and storage programs.
func genMemStore(t *rapid.T) Case {
	c := Case{Kind: "memstore"}
	c.Warm = rapid.SampledFrom([]int{0, 0, 4}).Draw(t, "warm")
	mode := rapid.SampledFrom([]string{"mem", "mem", "store", "store", "mixed", "mixed", "mixed"}).Draw(t, "mode")
	p := &progBuilder{}

	// hot offsets: overlapping and unaligned by construction
	hot := []int{0, 1, 31, 32, 33, 64}
	for i, n := 0, rapid.IntRange(1, 3).Draw(t, "nhot"); i < n; i++ {
		base := rapid.IntRange(0, 4096).Draw(t, "hotbase")
		hot = append(hot, base, base+rapid.IntRange(1, 31).Draw(t, "hotdelta"))
	}
	allowHuge := rapid.IntRange(0, 3).Draw(t, "allowhuge") == 0 // offsets that must run out of gas: in a quarter of the programs only
	genOffset := func() *big.Int {
		switch k := rapid.IntRange(0, 99).Draw(t, "offkind"); {
		case k < 75:
			return big.NewInt(int64(hot[rapid.IntRange(0, len(hot)-1).Draw(t, "hot")]))
		case k < 94:
			return big.NewInt(int64(rapid.IntRange(0, 4096).Draw(t, "off")))
		case k < 99 || !allowHuge:
			return big.NewInt(int64(rapid.IntRange(4097, 120000).Draw(t, "bigoff")))
		default:
			return hugeOffsets[rapid.IntRange(0, len(hugeOffsets)-1).Draw(t, "hugeoff")]
		}
	}

	// storage: a few slots, a few values, so that overwrite / zero / re-set / reset-to-original happen
	slots := []*big.Int{big.NewInt(int64(rapid.IntRange(0, 2).Draw(t, "slot0")))}
	for i, n := 0, rapid.IntRange(0, 3).Draw(t, "nslots"); i < n; i++ {
		slots = append(slots, genWord(t, "slot"))
	}
	vals := []*big.Int{new(big.Int), big.NewInt(1)}
	for i, n := 0, rapid.IntRange(1, 3).Draw(t, "nvals"); i < n; i++ {
		vals = append(vals, genWord(t, "val"))
	}
	orig := map[string]*big.Int{}
	if mode != "mem" {
		for _, s := range slots {
			if _, seen := orig[hexWord(s)]; !seen && rapid.Bool().Draw(t, "haspre") {
				v := vals[rapid.IntRange(1, len(vals)-1).Draw(t, "preval")]
				if v.Sign() != 0 {
					orig[hexWord(s)] = v
					c.Pre = append(c.Pre, Slot{K: hexWord(s), V: hexWord(v)})
				}
			}
		}
	}
	genValue := func(slot *big.Int) *big.Int {
		switch k := rapid.IntRange(0, 9).Draw(t, "valkind"); {
		case k <= 1:
			return new(big.Int)
		case k <= 3 && slot != nil && orig[hexWord(slot)] != nil:
			return orig[hexWord(slot)]
		case k <= 7:
			return vals[rapid.IntRange(0, len(vals)-1).Draw(t, "val")]
		default:
			return genWord(t, "v")
		}
	}
	// a value for a store: an immediate or a copy of something computed earlier
	value := func(slot *big.Int) {
		if p.depth >= 1 && rapid.IntRange(0, 3).Draw(t, "valsrc") == 0 {
			p.emit("DUP" + strconv.Itoa(rapid.IntRange(1, min(16, p.depth)).Draw(t, "valdup")))
		} else {
			p.push(genPush(t, genValue(slot)))
		}
	}

	steps := rapid.IntRange(3, 24).Draw(t, "steps")
	for i := 0; i < steps; i++ {
		for p.depth > 10 {
			p.emit("POP")
		}
		k := rapid.IntRange(0, 19).Draw(t, "macro")
		memOK, stoOK := mode != "store", mode != "mem"
		switch {
		case k <= 3 && memOK:
			value(nil)
			p.push(pushIns(genOffset(), 0))
			p.emit("MSTORE")
		case k <= 5 && memOK:
			value(nil)
			p.push(pushIns(genOffset(), 0))
			p.emit("MSTORE8")
		case k <= 8 && memOK:
			p.push(pushIns(genOffset(), 0))
			p.emit("MLOAD")
		case k == 9 && memOK:
			if rapid.Bool().Draw(t, "msizeuse") {
				p.emit("MSIZE")
			} else { // append at the end of memory
				value(nil)
				p.emit("MSIZE")
				p.emit(rapid.SampledFrom([]string{"MSTORE", "MSTORE8", "MSTORE"}).Draw(t, "appendop"))
			}
		case k >= 10 && k <= 13 && stoOK:
			s := slots[rapid.IntRange(0, len(slots)-1).Draw(t, "slot")]
			value(s)
			p.push(genPush(t, s))
			p.emit("SSTORE")
		case k >= 14 && k <= 16 && stoOK:
			p.push(genPush(t, slots[rapid.IntRange(0, len(slots)-1).Draw(t, "slot")]))
			p.emit("SLOAD")
		case k == 17 && p.depth >= 1:
			p.emit("POP")
		case k == 18 && p.depth >= 2:
			p.emit(rapid.SampledFrom(binaryOps).Draw(t, "binary"))
		case k == 19 && rapid.IntRange(0, 2).Draw(t, "gasop") == 0:
			p.emit("GAS")
		default:
			i--
		}
	}
	c.Code = p.code
	if len(c.Code) == 0 {
		p.emit("MSIZE")
		c.Code = p.code
	}
	genGas(t, &c)
	return c
}

var _ = kit.Register(kit.Prop[Case]{
	Name: "SingleOp",
	Rule: "1-3 random 256-bit sentinels, then the operands, then ONE of ADD MUL SUB DIV SDIV MOD SMOD ADDMOD MULMOD EXP SIGNEXTEND LT GT SLT SGT EQ ISZERO AND OR XOR NOT BYTE SHL SHR SAR; operands from boundary values (0,1,2,2^k-1,2^k,2^k+1 for k=31..255, 2^256-1..-257), small, random 256-bit, sparse/dense bit patterns, negatives, operands derived from each other (equal, +-1, negated, complemented), shift counts/byte indices around 0/31/32/255/256/257 and huge with a small low part, zero divisors/moduli, -2^255/-1; the whole stack and memory are returned and compared bit for bit with the math/big reference, gas used for the whole program compared exactly (measured: ~10% of cases with a gas limit exactly equal to the need, ~3.5% just below it, ~3% drawn from 1..60000); non-trivial = result is non-zero and differs from every operand; distinct = FNV-64 of the case JSON",
	Gen:  genSingle, Run: runCase,
	Quick: 40000, Thorough: 600000, Chunk: 2000, MinNonTrivialPct: 20,
})

var _ = kit.Register(kit.Prop[Case]{
	Name: "Program",
	Rule: "straight-line programs: 2-6 initial pushes (PUSH1..PUSH32, minimal/padded widths) then 3-36 stack-depth-aware steps over the same opcodes plus PUSH, DUP1-16, SWAP1-16, POP, GAS, with result reuse (DUP1+op on a value and its copy, DUP2 DUP2 op, SWAP chains, small-index shifts), run after a warm-up that leaves 0/4/12 recycled garbage integers in the interpreter's integer pool; whole stack returned and compared bit for bit, exact gas; non-trivial = at least 10 instructions and at least 2 DUP/SWAP; distinct = FNV-64 of the case JSON",
	Gen:  genProgram, Run: runCase,
	Quick: 16000, Thorough: 250000, Chunk: 1000, MinNonTrivialPct: 35,
})

var _ = kit.Register(kit.Prop[Case]{
	Name: "MemStore",
	Rule: "memory/storage programs of 3-24 macro steps: MSTORE/MSTORE8/MLOAD at hot offsets (0,1,31,32,33,64 and 1-3 random bases in 0..4096 with an unaligned partner, so stores overlap), random offsets up to 4096, 5% up to 120000, rarely huge (2^32..2^256-1: must run out of gas), MSIZE, append-at-MSIZE; SSTORE/SLOAD over 1-4 slots and a small value pool with a finalised pre-state, so that no-op, create, overwrite, zero, re-set and reset-to-original all occur within one execution (EIP-2200 gas, refund counter; measured ~6% of cases with the gas limit placed so that an SSTORE sees exactly 2300 / 2301 / 2302 gas left, ~12% exact need, ~8% just short); stored values are immediates or copies of computed/loaded values; whole memory ++ stack returned and compared bit for bit, exact gas, refund counter, every touched slot read back from the StateDB; non-trivial = an MLOAD covers a byte written earlier, or an SLOAD reads a slot written earlier, or an SSTORE rewrites a slot already written in this execution; distinct = FNV-64 of the case JSON",
	Gen:  genMemStore, Run: runCase,
	Quick: 16000, Thorough: 250000, Chunk: 1000, MinNonTrivialPct: 30,
})
