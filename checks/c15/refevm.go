package c15

// Reference evaluator for the computational subset of the EVM, written from the
// Yellow Paper (Appendix H: instruction set, fee schedule G; section 9.4 exceptional
// halting) and the EIPs that define the fork /repo's runtime selects by default
// (params.Versions[YouCurrentVersion].EVMVersion == "Istanbul": EIP-145 shifts,
// EIP-160 EXP byte cost 50, EIP-1884 SLOAD 800, EIP-2200 SSTORE net metering).
//
// It shares no code with /repo/core/vm, /repo/common/math or /repo/params: opcode
// numbers, gas constants and arithmetic are written here. Every stack item is an
// immutable *big.Int in [0, 2^256): operations always allocate their result, so the
// evaluator cannot have aliasing effects of its own.

import (
	"fmt"
	"math/big"
)

// opcode numbers (Yellow Paper, appendix H.2)
const (
	opSTOP       = 0x00
	opADD        = 0x01
	opMUL        = 0x02
	opSUB        = 0x03
	opDIV        = 0x04
	opSDIV       = 0x05
	opMOD        = 0x06
	opSMOD       = 0x07
	opADDMOD     = 0x08
	opMULMOD     = 0x09
	opEXP        = 0x0a
	opSIGNEXTEND = 0x0b
	opLT         = 0x10
	opGT         = 0x11
	opSLT        = 0x12
	opSGT        = 0x13
	opEQ         = 0x14
	opISZERO     = 0x15
	opAND        = 0x16
	opOR         = 0x17
	opXOR        = 0x18
	opNOT        = 0x19
	opBYTE       = 0x1a
	opSHL        = 0x1b
	opSHR        = 0x1c
	opSAR        = 0x1d
	opPOP        = 0x50
	opMLOAD      = 0x51
	opMSTORE     = 0x52
	opMSTORE8    = 0x53
	opSLOAD      = 0x54
	opSSTORE     = 0x55
	opMSIZE      = 0x59
	opGAS        = 0x5a
	opPUSH1      = 0x60
	opPUSH32     = 0x7f
	opDUP1       = 0x80
	opDUP16      = 0x8f
	opSWAP1      = 0x90
	opSWAP16     = 0x9f
	opRETURN     = 0xf3
)

// fee schedule (Yellow Paper appendix G, with the Istanbul values)
const (
	gZero     = 0
	gBase     = 2
	gVeryLow  = 3
	gLow      = 5
	gMid      = 8
	gExp      = 10
	gExpByte  = 50 // EIP-160
	gMemory   = 3
	gQuadDiv  = 512
	gSload    = 800 // EIP-1884
	stackMax  = 1024
	gSstoreSentry      = 2300 // EIP-2200
	gSstoreNoop        = 800  // SLOAD_GAS
	gSstoreDirty       = 800  // SLOAD_GAS
	gSstoreInit        = 20000
	gSstoreClean       = 5000
	gSstoreClearRefund = 15000
	gSstoreInitRefund  = 19200 // SSTORE_SET_GAS - SLOAD_GAS
	gSstoreCleanRefund = 4200  // SSTORE_RESET_GAS - SLOAD_GAS
)

var (
	bOne    = big.NewInt(1)
	two255  = new(big.Int).Lsh(bOne, 255)
	two256  = new(big.Int).Lsh(bOne, 256)
	allOnes = new(big.Int).Sub(two256, bOne)
)

// wrap reduces any integer to its representative in [0, 2^256).
func wrap(x *big.Int) *big.Int { return new(big.Int).Mod(x, two256) } // Mod is Euclidean: result >= 0

// toSigned interprets a word as a two's complement number.
func toSigned(x *big.Int) *big.Int {
	if x.Cmp(two255) >= 0 {
		return new(big.Int).Sub(x, two256)
	}
	return new(big.Int).Set(x)
}

func boolWord(b bool) *big.Int {
	if b {
		return big.NewInt(1)
	}
	return new(big.Int)
}

// unary / binary / ternary functions, arguments in pop order (a = top of stack).
func refUnary(op byte, a *big.Int) *big.Int {
	switch op {
	case opISZERO:
		return boolWord(a.Sign() == 0)
	case opNOT:
		return new(big.Int).Sub(allOnes, a) // 2^256-1-a flips every bit
	}
	return nil
}

func refBinary(op byte, a, b *big.Int) *big.Int {
	switch op {
	case opADD:
		return wrap(new(big.Int).Add(a, b))
	case opMUL:
		return wrap(new(big.Int).Mul(a, b))
	case opSUB:
		return wrap(new(big.Int).Sub(a, b))
	case opDIV:
		if b.Sign() == 0 {
			return new(big.Int)
		}
		return new(big.Int).Quo(a, b)
	case opSDIV:
		if b.Sign() == 0 {
			return new(big.Int)
		}
		// truncated signed division; -2^255 / -1 = 2^255 wraps to -2^255 as the Yellow Paper requires
		return wrap(new(big.Int).Quo(toSigned(a), toSigned(b)))
	case opMOD:
		if b.Sign() == 0 {
			return new(big.Int)
		}
		return new(big.Int).Rem(a, b)
	case opSMOD:
		if b.Sign() == 0 {
			return new(big.Int)
		}
		// sgn(a) * (|a| mod |b|)
		sa, sb := toSigned(a), toSigned(b)
		r := new(big.Int).Rem(new(big.Int).Abs(sa), new(big.Int).Abs(sb))
		if sa.Sign() < 0 {
			r.Neg(r)
		}
		return wrap(r)
	case opEXP:
		return new(big.Int).Exp(a, b, two256)
	case opSIGNEXTEND:
		// a = index of the byte holding the sign bit (0 = least significant), b = value
		if a.Cmp(big.NewInt(31)) >= 0 {
			return new(big.Int).Set(b)
		}
		bits := uint(a.Uint64())*8 + 8 // width of the narrow number
		mod := new(big.Int).Lsh(bOne, bits)
		v := new(big.Int).Mod(b, mod) // low `bits` bits
		if v.Bit(int(bits)-1) == 1 {
			v.Sub(v, mod) // negative narrow number
		}
		return wrap(v)
	case opLT:
		return boolWord(a.Cmp(b) < 0)
	case opGT:
		return boolWord(a.Cmp(b) > 0)
	case opSLT:
		return boolWord(toSigned(a).Cmp(toSigned(b)) < 0)
	case opSGT:
		return boolWord(toSigned(a).Cmp(toSigned(b)) > 0)
	case opEQ:
		return boolWord(a.Cmp(b) == 0)
	case opAND, opOR, opXOR:
		// bit by bit on the 32-byte images
		x, y := wordBytes(a), wordBytes(b)
		var z [32]byte
		for i := range z {
			switch op {
			case opAND:
				z[i] = x[i] & y[i]
			case opOR:
				z[i] = x[i] | y[i]
			default:
				z[i] = x[i] ^ y[i]
			}
		}
		return new(big.Int).SetBytes(z[:])
	case opBYTE:
		// a = index counted from the most significant byte, b = value
		if a.Cmp(big.NewInt(32)) >= 0 {
			return new(big.Int)
		}
		x := wordBytes(b)
		return big.NewInt(int64(x[a.Uint64()]))
	case opSHL:
		// a = shift, b = value (EIP-145)
		if a.Cmp(big.NewInt(256)) >= 0 {
			return new(big.Int)
		}
		return wrap(new(big.Int).Mul(b, new(big.Int).Lsh(bOne, uint(a.Uint64()))))
	case opSHR:
		if a.Cmp(big.NewInt(256)) >= 0 {
			return new(big.Int)
		}
		return new(big.Int).Quo(b, new(big.Int).Lsh(bOne, uint(a.Uint64())))
	case opSAR:
		// floor(signed(b) / 2^a); for a >= 256 that is 0 or -1
		neg := b.Cmp(two255) >= 0
		if a.Cmp(big.NewInt(256)) >= 0 {
			if neg {
				return new(big.Int).Set(allOnes)
			}
			return new(big.Int)
		}
		n := uint(a.Uint64())
		r := new(big.Int).Quo(b, new(big.Int).Lsh(bOne, n)) // logical shift of the 256-bit image
		if neg {
			// the n vacated top bits are filled with the sign bit
			fill := new(big.Int).Sub(two256, new(big.Int).Lsh(bOne, 256-n))
			r.Add(r, fill) // disjoint bit ranges: addition == or
		}
		return r
	}
	return nil
}

func refTernary(op byte, a, b, n *big.Int) *big.Int {
	if n.Sign() == 0 {
		return new(big.Int)
	}
	switch op {
	case opADDMOD:
		return new(big.Int).Mod(new(big.Int).Add(a, b), n) // intermediate not reduced modulo 2^256
	case opMULMOD:
		return new(big.Int).Mod(new(big.Int).Mul(a, b), n)
	}
	return nil
}

// wordBytes is the 32-byte big-endian image of a word.
func wordBytes(x *big.Int) [32]byte {
	var out [32]byte
	b := x.Bytes()
	copy(out[32-len(b):], b)
	return out
}

type word32 [32]byte

// refOutcome is what the reference says the execution of a program must produce.
type refOutcome struct {
	Unsupported string // non-empty: the program left the modelled subset (harness error, not a verdict)
	OK          bool   // normal halt (STOP / RETURN / end of code)
	Halt        string // reason of an exceptional halt
	Ret         []byte
	GasUsed     uint64
	Refund      uint64
	Storage     map[word32]word32 // final storage (== pre-state after an exceptional halt); zero values omitted
	Touched     []word32          // every slot an SSTORE was executed on (also when the run later failed)
	SstoreAt    []uint64          // gas used so far each time an SSTORE is reached
	SstoreKinds map[string]bool   // which EIP-2200 clauses the executed SSTOREs fell under (labels)
	// facts about the run, used for labels / non-triviality
	Steps        int
	MemReadBack  bool // an MLOAD touched a byte written earlier by MSTORE/MSTORE8
	StoReadBack  bool // an SLOAD read a slot written earlier in this execution
	DirtyRewrite bool // an SSTORE wrote a slot already modified in this execution
	RefundMoved  bool
	Expanded     int // memory size in bytes at the end
}

type refMachine struct {
	gas      uint64
	stack    []*big.Int
	mem      []byte
	written  []bool // per memory byte: written by a store
	memCost  *big.Int
	storage  map[word32]word32
	original map[word32]word32
	dirty    map[word32]bool
	refund   int64
	out      *refOutcome
}

func memCostOfWords(w *big.Int) *big.Int {
	lin := new(big.Int).Mul(w, big.NewInt(gMemory))
	quad := new(big.Int).Mul(w, w)
	quad.Quo(quad, big.NewInt(gQuadDiv))
	return lin.Add(lin, quad)
}

// useGas deducts a cost; false = out of gas.
func (m *refMachine) useGas(c uint64) bool {
	if c > m.gas {
		return false
	}
	m.gas -= c
	return true
}

// touch makes [off, off+n) addressable, charging the expansion fee. false = out of gas.
func (m *refMachine) touch(off, n *big.Int) bool {
	if n.Sign() == 0 {
		return true
	}
	end := new(big.Int).Add(off, n)
	words := new(big.Int).Add(end, big.NewInt(31))
	words.Quo(words, big.NewInt(32))
	cur := big.NewInt(int64(len(m.mem) / 32))
	if words.Cmp(cur) <= 0 {
		return true
	}
	newCost := memCostOfWords(words)
	delta := new(big.Int).Sub(newCost, m.memCost)
	if !delta.IsUint64() || !m.useGas(delta.Uint64()) {
		return false
	}
	m.memCost = newCost
	grow := int(words.Int64())*32 - len(m.mem)
	m.mem = append(m.mem, make([]byte, grow)...)
	m.written = append(m.written, make([]bool, grow)...)
	return true
}

func (m *refMachine) pop() *big.Int {
	v := m.stack[len(m.stack)-1]
	m.stack = m.stack[:len(m.stack)-1]
	return v
}
func (m *refMachine) push(v *big.Int) { m.stack = append(m.stack, v) }

// staticGas returns the constant part of the fee and the stack effect; ok=false: not modelled.
func staticInfo(op byte) (gas uint64, pops, pushes int, ok bool) {
	switch {
	case op >= opPUSH1 && op <= opPUSH32:
		return gVeryLow, 0, 1, true
	case op >= opDUP1 && op <= opDUP16:
		n := int(op-opDUP1) + 1
		return gVeryLow, n, n + 1, true
	case op >= opSWAP1 && op <= opSWAP16:
		n := int(op-opSWAP1) + 2
		return gVeryLow, n, n, true
	}
	switch op {
	case opSTOP:
		return gZero, 0, 0, true
	case opRETURN:
		return gZero, 2, 0, true
	case opPOP:
		return gBase, 1, 0, true
	case opMSIZE, opGAS:
		return gBase, 0, 1, true
	case opADD, opSUB, opLT, opGT, opSLT, opSGT, opEQ, opAND, opOR, opXOR, opBYTE, opSHL, opSHR, opSAR:
		return gVeryLow, 2, 1, true
	case opISZERO, opNOT:
		return gVeryLow, 1, 1, true
	case opMLOAD:
		return gVeryLow, 1, 1, true
	case opMSTORE, opMSTORE8:
		return gVeryLow, 2, 0, true
	case opMUL, opDIV, opSDIV, opMOD, opSMOD, opSIGNEXTEND:
		return gLow, 2, 1, true
	case opADDMOD, opMULMOD:
		return gMid, 3, 1, true
	case opEXP:
		return gExp, 2, 1, true
	case opSLOAD:
		return gSload, 1, 1, true
	case opSSTORE:
		return 0, 2, 0, true
	}
	return 0, 0, 0, false
}

// refRun executes code on a fresh machine with the given storage pre-state.
func refRun(code []byte, pre map[word32]word32, gasLimit uint64) *refOutcome {
	out := &refOutcome{SstoreKinds: map[string]bool{}}
	m := &refMachine{gas: gasLimit, memCost: new(big.Int), storage: map[word32]word32{}, original: pre,
		dirty: map[word32]bool{}, out: out}
	for k, v := range pre {
		m.storage[k] = v
	}
	fail := func(why string) *refOutcome {
		// exceptional halt: all gas is consumed, the state (storage, refund counter) is reverted, no output
		out.OK, out.Halt = false, why
		out.Ret, out.GasUsed, out.Refund = nil, gasLimit, 0
		out.Storage = nonZero(pre)
		out.Expanded = len(m.mem)
		for k := range m.dirty {
			out.Touched = append(out.Touched, k)
		}
		return out
	}
	finish := func(ret []byte) *refOutcome {
		out.OK = true
		out.Ret = ret
		out.GasUsed = gasLimit - m.gas
		if m.refund < 0 {
			out.Unsupported = "reference refund counter negative"
			return out
		}
		out.Refund = uint64(m.refund)
		out.Storage = nonZero(m.storage)
		out.Expanded = len(m.mem)
		for k := range m.dirty {
			out.Touched = append(out.Touched, k)
		}
		return out
	}
	pc := 0
	for {
		if pc >= len(code) {
			return finish(nil) // running off the end of the code is STOP
		}
		op := code[pc]
		sgas, pops, pushes, ok := staticInfo(op)
		if !ok {
			out.Unsupported = fmt.Sprintf("opcode 0x%02x at pc %d is outside the modelled subset", op, pc)
			return out
		}
		out.Steps++
		if len(m.stack) < pops {
			return fail(fmt.Sprintf("stack underflow at pc %d", pc))
		}
		if len(m.stack)-pops+pushes > stackMax {
			return fail(fmt.Sprintf("stack overflow at pc %d", pc))
		}
		if !m.useGas(sgas) {
			return fail(fmt.Sprintf("out of gas (static) at pc %d", pc))
		}
		switch {
		case op >= opPUSH1 && op <= opPUSH32:
			n := int(op-opPUSH1) + 1
			buf := make([]byte, n) // bytes beyond the end of the code read as zero
			if pc+1 < len(code) {
				copy(buf, code[pc+1:])
			}
			m.push(new(big.Int).SetBytes(buf))
			pc += 1 + n
			continue
		case op >= opDUP1 && op <= opDUP16:
			n := int(op-opDUP1) + 1
			m.push(m.stack[len(m.stack)-n])
			pc++
			continue
		case op >= opSWAP1 && op <= opSWAP16:
			n := int(op-opSWAP1) + 1
			top := len(m.stack) - 1
			m.stack[top], m.stack[top-n] = m.stack[top-n], m.stack[top]
			pc++
			continue
		}
		switch op {
		case opSTOP:
			return finish(nil)
		case opPOP:
			m.pop()
		case opISZERO, opNOT:
			m.push(refUnary(op, m.pop()))
		case opADD, opMUL, opSUB, opDIV, opSDIV, opMOD, opSMOD, opSIGNEXTEND, opLT, opGT, opSLT, opSGT, opEQ,
			opAND, opOR, opXOR, opBYTE, opSHL, opSHR, opSAR:
			a, b := m.pop(), m.pop()
			m.push(refBinary(op, a, b))
		case opEXP:
			a, b := m.pop(), m.pop()
			nbytes := uint64((b.BitLen() + 7) / 8) // 1 + floor(log256(exponent)), 0 for exponent 0
			if !m.useGas(gExpByte * nbytes) {
				return fail(fmt.Sprintf("out of gas (EXP) at pc %d", pc))
			}
			m.push(refBinary(op, a, b))
		case opADDMOD, opMULMOD:
			a, b, n := m.pop(), m.pop(), m.pop()
			m.push(refTernary(op, a, b, n))
		case opMLOAD:
			off := m.pop()
			if !m.touch(off, big.NewInt(32)) {
				return fail(fmt.Sprintf("out of gas (memory expansion) at pc %d", pc))
			}
			o := int(off.Int64())
			for i := o; i < o+32; i++ {
				if m.written[i] {
					out.MemReadBack = true
				}
			}
			m.push(new(big.Int).SetBytes(m.mem[o : o+32]))
		case opMSTORE:
			off, val := m.pop(), m.pop()
			if !m.touch(off, big.NewInt(32)) {
				return fail(fmt.Sprintf("out of gas (memory expansion) at pc %d", pc))
			}
			o := int(off.Int64())
			img := wordBytes(val)
			copy(m.mem[o:o+32], img[:])
			for i := o; i < o+32; i++ {
				m.written[i] = true
			}
		case opMSTORE8:
			off, val := m.pop(), m.pop()
			if !m.touch(off, big.NewInt(1)) {
				return fail(fmt.Sprintf("out of gas (memory expansion) at pc %d", pc))
			}
			o := int(off.Int64())
			img := wordBytes(val)
			m.mem[o] = img[31] // value mod 256
			m.written[o] = true
		case opMSIZE:
			m.push(big.NewInt(int64(len(m.mem))))
		case opGAS:
			m.push(new(big.Int).SetUint64(m.gas))
		case opSLOAD:
			key := word32(wordBytes(m.pop()))
			if m.dirty[key] {
				out.StoReadBack = true
			}
			v := m.storage[key]
			m.push(new(big.Int).SetBytes(v[:]))
		case opSSTORE:
			// EIP-2200
			out.SstoreAt = append(out.SstoreAt, gasLimit-m.gas)
			if m.gas <= gSstoreSentry {
				return fail(fmt.Sprintf("out of gas (SSTORE with gas left <= 2300) at pc %d", pc))
			}
			key := word32(wordBytes(m.pop()))
			val := word32(wordBytes(m.pop()))
			var zero word32
			cur, orig := m.storage[key], m.original[key]
			var cost uint64
			before := m.refund
			kind := ""
			switch {
			case cur == val:
				cost, kind = gSstoreNoop, "noop"
			case orig == cur:
				if orig == zero {
					cost, kind = gSstoreInit, "create"
				} else {
					cost, kind = gSstoreClean, "clean-overwrite"
					if val == zero {
						m.refund += gSstoreClearRefund
						kind = "clean-delete"
					}
				}
			default:
				cost, kind = gSstoreDirty, "dirty"
				if orig != zero {
					if cur == zero {
						m.refund -= gSstoreClearRefund
						kind = "dirty-recreate"
					} else if val == zero {
						m.refund += gSstoreClearRefund
						kind = "dirty-delete"
					}
				}
				if orig == val {
					if orig == zero {
						m.refund += gSstoreInitRefund
						kind += "+reset-to-zero-original"
					} else {
						m.refund += gSstoreCleanRefund
						kind += "+reset-to-original"
					}
				}
			}
			out.SstoreKinds[kind] = true
			if m.refund != before {
				out.RefundMoved = true
			}
			if !m.useGas(cost) {
				return fail(fmt.Sprintf("out of gas (SSTORE) at pc %d", pc))
			}
			if m.dirty[key] {
				out.DirtyRewrite = true
			}
			m.dirty[key] = true
			m.storage[key] = val
		case opRETURN:
			off, n := m.pop(), m.pop()
			if !m.touch(off, n) {
				return fail(fmt.Sprintf("out of gas (memory expansion in RETURN) at pc %d", pc))
			}
			if n.Sign() == 0 {
				return finish(nil)
			}
			o := int(off.Int64())
			return finish(append([]byte(nil), m.mem[o:o+int(n.Int64())]...))
		}
		pc++
	}
}

func nonZero(s map[word32]word32) map[word32]word32 {
	out := map[word32]word32{}
	var zero word32
	for k, v := range s {
		if v != zero {
			out[k] = v
		}
	}
	return out
}
