package c01

import (
	"bytes"
	"fmt"
	"math/big"
	"sort"
	"testing"

	"github.com/youchainhq/go-youchain/bls"
	"github.com/youchainhq/go-youchain/common"
	"github.com/youchainhq/go-youchain/consensus/ucon"
	"github.com/youchainhq/go-youchain/core/types"
	"github.com/youchainhq/go-youchain/params"
	"github.com/youchainhq/go-youchain/rlp"
	"github.com/youchainhq/go-youchain/youdb"
	"golang.org/x/crypto/sha3"
	"pgregory.net/rapid"
	"verif/kit"
	uk "verif/lib/uconkit"
)

// Protocol parameter triples (proposer, validator, certificate committee sizes). The
// first is what every shipped version uses; the others are scaled so that small sets
// reach and straddle the quorum. Each is installed as a private protocol version so that
// the certificate branch (which looks the version up in params.Versions) sees it.
var triples = [][3]uint64{{26, 2000, 4000}, {5, 200, 400}, {3, 50, 100}}

const (
	stepProposal  = 1 // UConStepProposal
	stepPrecommit = 3 // uint32(ucon.Precommit): the step the verifier uses for commit votes
	stepCert      = 5 // uint32(ucon.Certificate)
	certRound     = 32768
)

func version(i int) params.YouVersion { return params.YouVersion(101 + i) }

// oldVersion(i): the protocol version in force BEFORE version(i) on chains with a version switch:
// committees of half the size
func oldVersion(i int) params.YouVersion { return params.YouVersion(111 + i) }

func oldTriple(i int) [3]uint64 {
	t := triples[i]
	return [3]uint64{(t[0] + 1) / 2, t[1] / 2, t[2] / 2}
}

func TestMain(m *testing.M) {
	params.InitNetworkId(params.NetworkIdForTestCase)
	base := params.Versions[params.YouV5]
	for i, t := range triples {
		yp := base // copy
		yp.Version = version(i)
		yp.ProposerThreshold, yp.ValidatorThreshold, yp.CertValThreshold = t[0], t[1], t[2]
		yp.EnableBls = true
		params.Versions[version(i)] = yp
		old := base
		ot := oldTriple(i)
		old.Version = oldVersion(i)
		old.ProposerThreshold, old.ValidatorThreshold, old.CertValThreshold = ot[0], ot[1], ot[2]
		old.EnableBls = true
		params.Versions[oldVersion(i)] = old
	}
	kit.Main(m, "C01")
}
func TestProps(t *testing.T)  { kit.RunAll(t) }
func TestReplay(t *testing.T) { kit.ReplayAll(t) }

// ---------------------------------------------------------------------------------

// Edit is one adversarial modification of the honestly built header.
type Edit struct {
	Kind string `json:"kind"`
	A    int    `json:"a"`
	B    int    `json:"b"`
	C    int    `json:"c"`
}

// Case is a validator set, a protocol triple, and edits applied to the honest header.
type Case struct {
	Params    int          `json:"params"`
	Vals      []uk.ValSpec `json:"vals"`
	Seed      uint8        `json:"seed"`
	Cert      bool         `json:"cert"`  // header number 32768 (certificate round)
	Round     uint64       `json:"round"` // header number otherwise
	CheckBase bool         `json:"check_base"`
	ViaChain  bool         `json:"via_chain"` // also verify through Server.VerifyHeader on a ChainReader (look-backs resolved by the engine)
	// (with ViaChain) every synthetic header except the stake look-backs carries the root of a DECOY validator
	// set (same validators, stakes rotated, everybody an online senator): only the look-back blocks count
	Decoy bool `json:"decoy"`
	// (with ViaChain) the chain already holds a header with this hash at this height (the votes are not hashed)
	Known bool `json:"known"`
	// (with ViaChain) the protocol version switched shortly before: the synthetic headers below number
	// N-8-Switch carry an older version with committees of half the size; the header is additionally verified
	// as the last one of a VerifyHeaders batch that starts before the switch header. 0 = no switch
	Switch int `json:"switch,omitempty"`
	Edits     []Edit       `json:"edits"`
}

var editKinds = []string{"drop", "drop", "dropsig", "dup", "reproof", "wrongblock", "wrongpayload", "addnonmember", "addnonmember",
	"outofrange", "votes", "flip", "stealidx", "agg", "containerri", "hdrth", "hdrth", "proposer", "proposer", "trim", "trim", "trim",
	"certhdrth", "swapstep", "atk-valth", "atk-propth", "atk-certth", "atk-outsiders", "atk-decoyset", "atk-number-wrap", "atk-oldversion"}

func genCase(t *rapid.T) Case {
	c := Case{Params: rapid.IntRange(0, 2).Draw(t, "params"), Seed: rapid.Uint8().Draw(t, "seed")}
	c.Cert = rapid.IntRange(0, 3).Draw(t, "cert") == 0
	c.Round = uint64(rapid.IntRange(10, 200).Draw(t, "round"))
	c.ViaChain = rapid.Bool().Draw(t, "viachain")
	c.Decoy = c.ViaChain && rapid.Bool().Draw(t, "decoy")
	c.Known = c.ViaChain && rapid.IntRange(0, 2).Draw(t, "known") == 0
	if c.ViaChain && rapid.IntRange(0, 2).Draw(t, "switch") == 0 {
		c.Switch = rapid.IntRange(1, 4).Draw(t, "switchat")
	}
	c.CheckBase = rapid.IntRange(0, 3).Draw(t, "checkbase") == 0
	T := triples[c.Params][1]
	if c.Cert {
		T = triples[c.Params][2] // the certificate committee is the larger one; keep p <= 1 for both
	}
	n := rapid.IntRange(3, 8).Draw(t, "nvals")
	var chamber uint64
	for i := 0; i < n; i++ {
		v := uk.ValSpec{Key: i, Online: true}
		switch rapid.IntRange(0, 9).Draw(t, "role") {
		case 0, 1:
			v.Role = uint8(params.RoleHouse)
		case 2:
			v.Role = uint8(params.RoleChancellor)
		default:
			v.Role = uint8(params.RoleSenator)
		}
		if i == 0 {
			v.Role = uint8(params.RoleSenator)
		} else if rapid.IntRange(0, 6).Draw(t, "offline") == 0 {
			v.Online = false
		}
		// stakes are drawn as a share of the committee size so that totals land in [T, ~8T]
		v.Stake = 1 + uint64(rapid.IntRange(0, int(2*T)).Draw(t, "stake"))
		if v.IsChamber() && v.Online {
			chamber += v.Stake
		}
		c.Vals = append(c.Vals, v)
	}
	if chamber < T { // top up validator 0 so that p = T/total <= 1 (the binomial's domain)
		c.Vals[0].Stake += T - chamber
	}
	ne := rapid.IntRange(0, 4).Draw(t, "nedits")
	for i := 0; i < ne; i++ {
		e := Edit{Kind: rapid.SampledFrom(editKinds).Draw(t, "ekind"),
			A: rapid.IntRange(0, 1<<12).Draw(t, "a"), B: rapid.IntRange(0, 1<<12).Draw(t, "b"), C: rapid.IntRange(0, 1<<12).Draw(t, "c")}
		c.Edits = append(c.Edits, e)
	}
	return c
}

// ---------------------------------------------------------------------------------
// ground-truth bookkeeping

type entry struct {
	signer    int // spec index the VoterIdx resolves to, -1 = out of range
	voterIdx  uint32
	proofBy   int
	proofRI   uint32
	proofStep uint32
	proofSeed common.Hash
	corrupted bool
	value     common.Hash
	proof     []byte
	votes     uint32
}

type sigItem struct {
	signer  int
	payload string // "ok" or a description of a wrong payload
	sig     bls.Signature
}

// voteList is one vote container (commit votes or certificate votes) with its ground truth.
type voteList struct {
	entries []entry
	sigs    []sigItem // multiset summed into the aggregate
	aggMode string    // "", "empty", "garbage"
	seed    common.Hash
	step    uint32
	T       uint64  // protocol committee size for this list
	frac    float64 // quorum fraction
	isPos   bool
}

func keccak(b ...[]byte) common.Hash {
	h := sha3.NewLegacyKeccak256()
	for _, x := range b {
		h.Write(x)
	}
	var out common.Hash
	h.Sum(out[:0])
	return out
}

// refPriority is the largest keccak(value || minimal-big-endian(i)) for i = 0..j.
func refPriority(value common.Hash, j uint32) common.Hash {
	var best common.Hash
	bi := new(big.Int)
	for i := uint32(0); i <= j; i++ {
		h := keccak(value[:], new(big.Int).SetUint64(uint64(i)).Bytes())
		if x := new(big.Int).SetBytes(h[:]); x.Cmp(bi) > 0 {
			bi, best = x, h
		}
	}
	return best
}

func quorum(T uint64, frac float64) uint64 { return uint64(uint32(float64(T) * frac)) }

type world struct {
	c        Case
	set      *uk.Set
	trip     [3]uint64
	number   uint64
	seed     common.Hash
	certSeed common.Hash
	consRI   uint32 // round index in the consensus data (proposer credential)
	contRI   uint32 // round index of the vote container
	proposer int    // spec index, -1: key outside the set
	propKey  int    // pool key that signs
	propCred uk.Credential
	subUsers uint32
	priority common.Hash
	propNote string
	wrapK    int       // > 0: the header's number is wrapK * 2^64 (its low 64 bits are those of the genesis block's number)
	hdrTh    [3]uint64 // thresholds written into the header's consensus data
	certHdrT uint64    // CertValThreshold written into the certificate look-back header
	commit   *voteList
	cert     *voteList
	members  []int // online chamber spec indices
	others   []int // house / offline spec indices
	decoy    *uk.Set
}

func (w *world) honestEntry(l *voteList, i int, ri uint32) (entry, uk.Credential) {
	sp := w.set.Specs[i]
	cr := uk.Sortition(sp.Key, l.seed, ri, l.step, l.T, sp.Stake, w.set.TotalChamber)
	return entry{signer: i, voterIdx: uint32(w.set.Index[i]), proofBy: i, proofRI: ri, proofStep: l.step, proofSeed: l.seed,
		value: cr.Value, proof: cr.Proof, votes: cr.J}, cr
}

func (w *world) okPayload(hash common.Hash) []byte { return uk.VotePayload(hash, w.number, w.contRI) }

// counted weight by the reference rules; upper = also counts indeterminate (corrupted-proof) entries
func (w *world) weight(l *voteList) (upper uint64, detail []string) {
	counted := map[int]bool{}
	for k, e := range l.entries {
		why := ""
		switch {
		case e.signer < 0:
			why = "voter index out of range"
		case !(w.set.Specs[e.signer].IsChamber() && w.set.Specs[e.signer].Online):
			why = "not an online chamber member"
		case counted[e.signer]:
			why = "duplicate"
		case e.proofBy != e.signer:
			why = "proof made with another validator's key"
		case e.proofSeed != l.seed:
			why = "proof for another seed"
		case e.proofRI != w.contRI:
			why = "proof for another round index"
		case e.proofStep != l.step:
			why = "proof for another step"
		case e.votes < 1:
			why = "zero seats"
		}
		if why == "" {
			sp := w.set.Specs[e.signer]
			lo, hi := uk.QuantileBand(sp.Stake, l.T, w.set.TotalChamber, e.value)
			if uint64(e.votes) < lo || uint64(e.votes) > hi {
				why = fmt.Sprintf("claims %d seats, the binomial quantile is %d..%d", e.votes, lo, hi)
			}
		}
		if why == "" {
			has := false
			for _, s := range l.sigs {
				if s.signer == e.signer && s.payload == "ok" {
					has = true
				}
			}
			if !has || l.aggMode != "" {
				why = "its signature over this block is not in the aggregate"
			}
		}
		if why == "" {
			counted[e.signer] = true
			upper += uint64(e.votes)
			why = "COUNTS"
			if e.corrupted {
				why = "COUNTS (upper bound: proof bytes were altered; counts only if the VRF still yields the same value)"
			}
		}
		detail = append(detail, fmt.Sprintf("#%d idx=%d signer=%d votes=%d: %s", k, e.voterIdx, e.signer, e.votes, why))
	}
	return
}

func pickTh(T uint64, a int) uint64 {
	opts := []uint64{0, 1, 2, T / 2, T - 1, T + 1, 2 * T, 1 << 63, T * 10}
	return opts[a%len(opts)]
}

// applyEdit mutates the world; returns a label.
func (w *world) applyEdit(e Edit, hashOf func() common.Hash) string {
	l := w.commit
	if w.c.Cert && e.C%3 == 0 {
		l = w.cert
	}
	n := len(l.entries)
	removeSig := func(signer int) {
		for i, s := range l.sigs {
			if s.signer == signer && s.payload == "ok" {
				l.sigs = append(l.sigs[:i], l.sigs[i+1:]...)
				return
			}
		}
	}
	switch e.Kind {
	case "drop":
		if n == 0 {
			return ""
		}
		k := e.A % n
		removeSig(l.entries[k].signer)
		l.entries = append(l.entries[:k], l.entries[k+1:]...)
	case "dropsig":
		if n == 0 {
			return ""
		}
		removeSig(l.entries[e.A%n].signer)
	case "dup":
		if n == 0 {
			return ""
		}
		en := l.entries[e.A%n]
		l.entries = append(l.entries, en)
		if e.B&1 == 1 && en.signer >= 0 {
			l.sigs = append(l.sigs, sigItem{signer: en.signer, payload: "ok"})
		}
	case "reproof", "swapstep":
		if n == 0 {
			return ""
		}
		k := e.A % n
		en := &l.entries[k]
		if en.signer < 0 {
			return ""
		}
		sp := w.set.Specs[en.proofBy]
		ri, step, seed := en.proofRI, en.proofStep, en.proofSeed
		mode := e.B % 4
		if e.Kind == "swapstep" {
			mode = 1
		}
		switch mode {
		case 0:
			ri = ri + 1 + uint32(e.C%2)
		case 1:
			step = []uint32{2, 4, 5, 1, 3}[e.C%5]
			if step == l.step {
				step = 2
			}
		case 2:
			seed = keccak(seed[:], []byte("other round"))
		case 3:
			if ri > 1 {
				ri--
			} else {
				ri += 2
			}
		}
		cr := uk.Sortition(sp.Key, seed, ri, step, l.T, sp.Stake, w.set.TotalChamber)
		en.proofRI, en.proofStep, en.proofSeed, en.value, en.proof = ri, step, seed, cr.Value, cr.Proof
		if e.B&4 == 0 {
			en.votes = cr.J // the weight that credential really carries in its own context
		}
	case "wrongblock", "wrongpayload":
		if n == 0 {
			return ""
		}
		en := l.entries[e.A%n]
		if en.signer < 0 {
			return ""
		}
		removeSig(en.signer)
		l.sigs = append(l.sigs, sigItem{signer: en.signer, payload: e.Kind + fmt.Sprint(e.B&1)})
	case "addnonmember":
		if len(w.others) == 0 {
			return ""
		}
		i := w.others[e.A%len(w.others)]
		en, cr := w.honestEntry(l, i, w.contRI)
		if cr.J == 0 && e.B&1 == 1 {
			en.votes = 1 + uint32(e.B%7)
		}
		l.entries = append(l.entries, en)
		l.sigs = append(l.sigs, sigItem{signer: i, payload: "ok"})
		if w.set.Specs[i].Online {
			return "edit:add-house-vote"
		}
		return "edit:add-offline-vote"
	case "outofrange":
		if n == 0 {
			return ""
		}
		en := l.entries[e.A%n]
		en.signer = -1
		en.voterIdx = uint32(len(w.set.Specs) + e.B%3)
		l.entries = append(l.entries, en)
	case "votes":
		if n == 0 {
			return ""
		}
		en := &l.entries[e.A%n]
		d := []int64{-2, -1, 1, 2, 100, int64(en.votes)}[e.B%6]
		v := int64(en.votes) + d
		if v < 0 {
			v = 0
		}
		en.votes = uint32(v)
	case "flip":
		if n == 0 {
			return ""
		}
		en := &l.entries[e.A%n]
		if len(en.proof) == 0 {
			return ""
		}
		p := append([]byte(nil), en.proof...)
		p[e.B%len(p)] ^= 1 << uint(e.C%8)
		en.proof, en.corrupted = p, true
	case "stealidx":
		if n == 0 {
			return ""
		}
		en := &l.entries[e.A%n]
		j := e.B % len(w.set.Specs)
		if j == en.signer {
			return ""
		}
		en.signer, en.voterIdx = j, uint32(w.set.Index[j])
		if e.C&1 == 1 {
			l.sigs = append(l.sigs, sigItem{signer: j, payload: "ok"})
		}
	case "agg":
		l.aggMode = []string{"empty", "garbage", "garbage"}[e.A%3]
	case "containerri":
		w.contRI = w.consRI + 1 + uint32(e.A%2)
		if e.B&1 == 1 { // everybody genuinely votes in the other round index
			for _, ll := range []*voteList{w.commit, w.cert} {
				if ll == nil {
					continue
				}
				ll.entries, ll.sigs = nil, nil
				for _, i := range w.members {
					en, cr := w.honestEntry(ll, i, w.contRI)
					if cr.J >= 1 {
						ll.entries = append(ll.entries, en)
						ll.sigs = append(ll.sigs, sigItem{signer: i, payload: "ok"})
					}
				}
			}
		}
	case "hdrth":
		k := e.B % 3
		w.hdrTh[k] = pickTh(w.trip[k], e.A)
		return "edit:header-threshold"
	case "certhdrth":
		if !w.c.Cert {
			return ""
		}
		w.certHdrT = pickTh(w.trip[2], e.A)
		return "edit:cert-header-threshold"
	case "trim":
		// land next to the quorum: keep a minimal prefix reaching it, optionally one vote less
		q := quorum(l.T, l.frac)
		var sum uint64
		cut := len(l.entries)
		for k, en := range l.entries {
			sum += uint64(en.votes)
			if sum >= q {
				cut = k + 1
				break
			}
		}
		if e.A&1 == 1 && cut > 0 {
			cut--
		}
		for _, en := range l.entries[cut:] {
			removeSig(en.signer)
		}
		l.entries = l.entries[:cut]
		if e.A&1 == 1 {
			return "edit:trim-below-quorum"
		}
		return "edit:trim-to-quorum"
	case "atk-valth", "atk-certth":
		// the block's author picks a small committee size and supplies only a few votes
		ll := w.commit
		if e.Kind == "atk-certth" {
			if w.cert == nil {
				return ""
			}
			ll = w.cert
			w.certHdrT = []uint64{0, 1, 2, w.trip[2] / 2}[e.A%4]
		} else {
			w.hdrTh[1] = []uint64{0, 1, 2, w.trip[1] / 2}[e.A%4]
		}
		keep := e.B % 3
		if keep > len(ll.entries) {
			keep = len(ll.entries)
		}
		for _, en := range ll.entries[keep:] {
			for i, sg := range ll.sigs {
				if sg.signer == en.signer && sg.payload == "ok" {
					ll.sigs = append(ll.sigs[:i], ll.sigs[i+1:]...)
					break
				}
			}
		}
		ll.entries = ll.entries[:keep]
		return "edit:" + e.Kind
	case "atk-propth":
		// the author picks the proposer committee = total stake, so every seat of its stake "wins"
		i := w.members[e.A%len(w.members)]
		sp := w.set.Specs[i]
		w.hdrTh[0] = w.set.TotalChamber
		cr := uk.Sortition(sp.Key, w.seed, w.consRI, stepProposal, w.trip[0], sp.Stake, w.set.TotalChamber)
		w.proposer, w.propKey, w.propCred = i, sp.Key, cr
		w.subUsers = uint32(sp.Stake)
		w.priority = refPriority(cr.Value, w.subUsers)
		w.propNote = "author-chosen proposer threshold"
		return "edit:atk-propth"
	case "atk-outsiders":
		// too few member votes, topped up with votes of every house / offline validator
		q := quorum(l.T, l.frac)
		var sum uint64
		cut := 0
		for k, en := range l.entries {
			if sum+uint64(en.votes) >= q {
				break
			}
			sum += uint64(en.votes)
			cut = k + 1
		}
		for _, en := range l.entries[cut:] {
			removeSig(en.signer)
		}
		l.entries = l.entries[:cut]
		for _, i := range w.others {
			en, cr := w.honestEntry(l, i, w.contRI)
			if cr.J >= 1 {
				l.entries = append(l.entries, en)
				l.sigs = append(l.sigs, sigItem{signer: i, payload: "ok"})
			}
		}
		return "edit:atk-outsiders"
	case "atk-oldversion":
		// proposer credential and precommits as the PREVIOUS protocol version would have them (committees of half
		// the size: other seat counts, a smaller quorum) although the new version is in force for this round
		ot := oldTriple(w.c.Params)
		found := false
		for ri := uint32(1); ri <= 60 && !found; ri++ {
			for _, i := range w.members {
				sp := w.set.Specs[i]
				cr := uk.Sortition(sp.Key, w.seed, ri, stepProposal, ot[0], sp.Stake, w.set.TotalChamber)
				if cr.J >= 1 {
					w.proposer, w.propKey, w.propCred, w.consRI = i, sp.Key, cr, ri
					w.subUsers, w.priority = cr.J, refPriority(cr.Value, cr.J)
					w.propNote = "credential computed under the previous version's proposer committee"
					found = true
					break
				}
			}
		}
		if !found {
			return ""
		}
		w.contRI = w.consRI
		w.hdrTh = ot
		ll := w.commit
		ll.entries, ll.sigs = nil, nil
		for _, i := range w.members {
			sp := w.set.Specs[i]
			cr := uk.Sortition(sp.Key, ll.seed, w.contRI, ll.step, ot[1], sp.Stake, w.set.TotalChamber)
			if cr.J < 1 {
				continue
			}
			ll.entries = append(ll.entries, entry{signer: i, voterIdx: uint32(w.set.Index[i]), proofBy: i, proofRI: w.contRI, proofStep: ll.step, proofSeed: ll.seed,
				value: cr.Value, proof: cr.Proof, votes: cr.J})
			ll.sigs = append(ll.sigs, sigItem{signer: i, payload: "ok"})
		}
		if w.cert != nil {
			w.cert.entries, w.cert.sigs = nil, nil
			for _, i := range w.members {
				en, cr := w.honestEntry(w.cert, i, w.contRI)
				if cr.J >= 1 {
					w.cert.entries = append(w.cert.entries, en)
					w.cert.sigs = append(w.cert.sigs, sigItem{signer: i, payload: "ok"})
				}
			}
		}
		return "edit:atk-oldversion"
	case "atk-number-wrap":
		// a block whose number is a multiple of 2^64, without any vote: no genesis block, whatever its low bits say
		w.wrapK = 1 + e.A%3
		for _, ll := range []*voteList{w.commit, w.cert} {
			if ll != nil {
				ll.entries, ll.sigs = nil, nil
			}
		}
		if e.B&1 == 1 {
			w.proposer, w.propKey = -1, 40+e.B%3
			w.propNote = "proposer key is not a validator"
		}
		return "edit:atk-number-wrap"
	case "atk-decoyset":
		// proposer credential and precommits of the validators as they stand at ANOTHER height (the decoy set
		// recorded in every header but the stake look-back): ranks, stakes and the total differ
		if w.decoy == nil {
			return ""
		}
		d := w.decoy
		found := false
		for ri := uint32(1); ri <= 60 && !found; ri++ {
			for i, sp := range d.Specs {
				cr := uk.Sortition(sp.Key, w.seed, ri, stepProposal, w.trip[0], sp.Stake, d.TotalChamber)
				if cr.J >= 1 {
					w.proposer, w.propKey, w.propCred, w.consRI = i, sp.Key, cr, ri
					w.subUsers, w.priority = cr.J, refPriority(cr.Value, cr.J)
					w.propNote = "credential computed against another height's validator set"
					found = true
					break
				}
			}
		}
		if !found {
			return ""
		}
		w.contRI = w.consRI
		l = w.commit
		l.entries, l.sigs = nil, nil
		for i, sp := range d.Specs {
			cr := uk.Sortition(sp.Key, l.seed, w.contRI, l.step, l.T, sp.Stake, d.TotalChamber)
			if cr.J < 1 {
				continue
			}
			idx := uint32(d.Index[i])
			signer := -1
			for j := range w.set.Specs {
				if uint32(w.set.Index[j]) == idx {
					signer = j
				}
			}
			l.entries = append(l.entries, entry{signer: signer, voterIdx: idx, proofBy: i, proofRI: w.contRI, proofStep: l.step, proofSeed: l.seed,
				value: cr.Value, proof: cr.Proof, votes: cr.J})
			l.sigs = append(l.sigs, sigItem{signer: i, payload: "ok"})
		}
		if w.cert != nil {
			// (the certificate look-back of round 32768 is header 0 for stake and seed alike: the honest certificate votes stay)
			w.cert.entries, w.cert.sigs = nil, nil
			for _, i := range w.members {
				en, cr := w.honestEntry(w.cert, i, w.contRI)
				if cr.J >= 1 {
					w.cert.entries = append(w.cert.entries, en)
					w.cert.sigs = append(w.cert.sigs, sigItem{signer: i, payload: "ok"})
				}
			}
		}
		return "edit:atk-decoyset"
	case "proposer":
		switch e.A % 7 {
		case 0: // a key that is not a validator at all
			w.proposer, w.propKey = -1, 40+e.B%3
			w.propCred = uk.Sortition(w.propKey, w.seed, w.consRI, stepProposal, w.trip[0], 1000, w.set.TotalChamber)
			w.subUsers, w.priority = max32(w.propCred.J, 1), refPriority(w.propCred.Value, max32(w.propCred.J, 1))
			w.propNote = "proposer key is not a validator"
		case 1: // a house or offline validator proposes
			if len(w.others) == 0 {
				return ""
			}
			i := w.others[e.B%len(w.others)]
			sp := w.set.Specs[i]
			w.proposer, w.propKey = i, sp.Key
			w.propCred = uk.Sortition(sp.Key, w.seed, w.consRI, stepProposal, w.trip[0], sp.Stake, w.set.TotalChamber)
			w.subUsers, w.priority = w.propCred.J, refPriority(w.propCred.Value, w.propCred.J)
			w.propNote = "house/offline proposer"
		case 2: // a member that won no seat in this index claims the proposal with SubUsers = 0
			for _, i := range w.members {
				sp := w.set.Specs[i]
				cr := uk.Sortition(sp.Key, w.seed, w.consRI, stepProposal, w.trip[0], sp.Stake, w.set.TotalChamber)
				if cr.J == 0 {
					w.proposer, w.propKey, w.propCred = i, sp.Key, cr
					w.subUsers, w.priority = 0, refPriority(cr.Value, 0)
					w.propNote = "zero-seat proposer"
					return "edit:zero-seat-proposer"
				}
			}
			return ""
		case 3: // priority is the hash of a non-maximal seat
			if w.subUsers < 1 {
				return ""
			}
			for i := uint32(0); i <= w.subUsers; i++ {
				h := keccak(w.propCred.Value[:], new(big.Int).SetUint64(uint64(i)).Bytes())
				if h != w.priority {
					w.priority = h
					break
				}
			}
			w.propNote = "non-maximal priority"
		case 4: // stale credential: proof for another round index
			sp := w.set.Specs[max0(w.proposer)]
			cr := uk.Sortition(sp.Key, w.seed, w.consRI+1, stepProposal, w.trip[0], sp.Stake, w.set.TotalChamber)
			w.propCred.Proof = cr.Proof
			w.propNote = "proposer proof of another round index"
		case 5:
			w.subUsers += 1 + uint32(e.B%3)
			w.priority = refPriority(w.propCred.Value, w.subUsers)
			w.propNote = "inflated proposer seats"
		case 6: // forged maximal priority
			w.priority = common.HexToHash("0xffffffffffffffffffffffffffffffffffffffffffffffffffffffffffffffff")
			w.propNote = "forged priority"
		}
		return "edit:proposer"
	}
	return "edit:" + e.Kind
}

func max32(a, b uint32) uint32 {
	if a > b {
		return a
	}
	return b
}
func max0(a int) int {
	if a < 0 {
		return 0
	}
	return a
}

// proposerValid decides the proposer credential by the reference rules under the PROTOCOL threshold.
// indeterminate = the statement does not decide it (house/offline proposer whose credential verifies).
func (w *world) proposerValid() (valid bool, indeterminate bool, why string) {
	if w.proposer < 0 {
		return false, false, "proposer is not in the look-back validator set"
	}
	sp := w.set.Specs[w.proposer]
	if w.propNote == "proposer proof of another round index" {
		return false, false, "proposer proof was issued for another round index"
	}
	lo, hi := uk.QuantileBand(sp.Stake, w.trip[0], w.set.TotalChamber, w.propCred.Value)
	if uint64(w.subUsers) < lo || uint64(w.subUsers) > hi {
		return false, false, fmt.Sprintf("proposer claims %d seats, the quantile under the protocol's proposer threshold is %d..%d", w.subUsers, lo, hi)
	}
	if w.subUsers < 1 {
		return false, false, "proposer won no seat (SubUsers = 0): not a winner"
	}
	if w.priority != refPriority(w.propCred.Value, w.subUsers) {
		return false, false, "priority is not the largest hash over the proposer's seats"
	}
	if !(sp.IsChamber() && sp.Online) {
		return true, true, "house/offline proposer with a verifying credential (not decided by the statement)"
	}
	return true, false, ""
}

func runCase(c Case) kit.Result {
	set, err := uk.BuildSet(c.Vals)
	if err != nil {
		return kit.Discarded("set: " + err.Error())
	}
	w := &world{c: c, set: set, trip: triples[c.Params], number: c.Round}
	if c.Cert {
		w.number = certRound
	}
	// the look-back headers live in a synthetic header table behind consensus.ChainReader, so the
	// same header can be verified with explicit look-backs (VerifySideChainHeader, as the side-chain
	// import does) and through VerifyHeader, where the engine resolves seed / stake / certificate
	// look-backs itself
	ypc := params.Versions[version(c.Params)]
	chain := uk.NewFakeChain(set, &ypc, w.number-1, c.Seed)
	chain.HeaderVersion = version(c.Params)
	var switchAt uint64 // first header that records the new version
	if c.Switch > 0 && w.number > uint64(8+c.Switch) {
		switchAt = w.number - 8 - uint64(c.Switch) + 1
		chain.VersionOf = func(n uint64) params.YouVersion {
			if n < switchAt {
				return oldVersion(c.Params)
			}
			return version(c.Params)
		}
	}
	if c.Decoy {
		ds := append([]uk.ValSpec(nil), c.Vals...)
		for i := range ds {
			ds[i].Stake = c.Vals[(i+1)%len(c.Vals)].Stake
			ds[i].Online = true
			if !ds[i].IsChamber() {
				ds[i].Role = uint8(params.RoleSenator)
			}
		}
		w.decoy, err = uk.BuildSetOn(set.DB, ds)
		if err != nil {
			return kit.Discarded("decoy set: " + err.Error())
		}
		chain.DefaultRoot = &w.decoy.ValRoot
		stakeLB := uint64(0)
		if w.number > ypc.StakeLookBack {
			stakeLB = w.number - ypc.StakeLookBack
		}
		// the only headers whose validator root header verification may use: the stake look-back, and
		// header 0 (stake look-back of the certificate votes of round 32768)
		chain.RootOf = map[uint64]common.Hash{stakeLB: set.ValRoot, 0: set.ValRoot}
	}
	w.seed = chain.SeedOf(w.number - ypc.SeedLookBack)
	w.certSeed = chain.SeedOf(0)
	w.hdrTh = w.trip
	w.certHdrT = w.trip[2]
	for i, sp := range c.Vals {
		if sp.IsChamber() && sp.Online {
			w.members = append(w.members, i)
		} else {
			w.others = append(w.others, i)
		}
	}
	// honest proposer: first round index at which some member wins a proposer seat
	w.proposer = -1
	for ri := uint32(1); ri <= 60 && w.proposer < 0; ri++ {
		for _, i := range w.members {
			sp := c.Vals[i]
			cr := uk.Sortition(sp.Key, w.seed, ri, stepProposal, w.trip[0], sp.Stake, set.TotalChamber)
			if cr.J >= 1 {
				w.proposer, w.propKey, w.propCred, w.consRI = i, sp.Key, cr, ri
				break
			}
		}
	}
	if w.proposer < 0 {
		return kit.Discarded("no proposer within 60 round indices")
	}
	w.contRI = w.consRI
	w.subUsers = w.propCred.J
	w.priority = refPriority(w.propCred.Value, w.propCred.J)
	w.commit = &voteList{seed: w.seed, step: stepPrecommit, T: w.trip[1], frac: 0.685, isPos: true}
	lists := []*voteList{w.commit}
	if c.Cert {
		w.cert = &voteList{seed: w.certSeed, step: stepCert, T: w.trip[2], frac: 0.585}
		lists = append(lists, w.cert)
	}
	for _, l := range lists {
		for _, i := range w.members {
			en, cr := w.honestEntry(l, i, w.contRI)
			if cr.J >= 1 {
				l.entries = append(l.entries, en)
				l.sigs = append(l.sigs, sigItem{signer: i, payload: "ok"})
			}
		}
	}

	panicked, viaChainOnly, viaChainAccepts, sideOnly := false, false, 0, ""
	batchRuns, batchOnly := 0, false
	srv, err := ucon.NewVRFServer(youdb.NewMemDatabase())
	if err != nil {
		return kit.Discarded("server: " + err.Error())
	}
	cp := params.Versions[version(c.Params)].CaravelParams
	parent := chain.CurrentHeader()
	parentBlock := types.NewBlockWithHeader(parent)

	assemble := func() (*types.Block, *types.Header, *types.Header) {
		h := uk.NewHeader(parent, w.number)
		seedCon, _ := uk.PoolKey(w.propKey).Vrf.Evaluate(append(w.seed[:], byte(w.consRI)))
		cd := &ucon.BlockConsensusData{Round: new(big.Int).SetUint64(w.number), RoundIndex: w.consRI, Seed: seedCon,
			SortitionProof: w.propCred.Proof, Priority: w.priority, SubUsers: w.subUsers,
			ProposerThreshold: w.hdrTh[0], ValidatorThreshold: w.hdrTh[1], CertValThreshold: w.hdrTh[2]}
		if w.wrapK > 0 {
			h.Number = new(big.Int).Lsh(big.NewInt(int64(w.wrapK)), 64)
			cd.Round = new(big.Int).Set(h.Number)
		}
		if err := uk.SetConsensus(h, cd, w.propKey); err != nil {
			panic(err)
		}
		hash := h.Hash()
		build := func(l *voteList) ([]ucon.SingleVote, []byte) {
			votes := make([]ucon.SingleVote, 0, len(l.entries))
			for _, e := range l.entries {
				votes = append(votes, ucon.SingleVote{VoterIdx: e.voterIdx, Votes: e.votes, Proof: e.proof})
			}
			var sigs []bls.Signature
			for _, s := range l.sigs {
				key := c.Vals[s.signer].Key
				var payload []byte
				switch s.payload {
				case "ok":
					payload = w.okPayload(hash)
				case "wrongblock0", "wrongblock1":
					payload = uk.VotePayload(keccak([]byte("another block")), w.number, w.contRI)
				case "wrongpayload0":
					payload = uk.VotePayload(hash, w.number, w.contRI+1)
				default:
					payload = uk.VotePayload(hash, w.number+1, w.contRI)
				}
				sigs = append(sigs, uk.BlsSign(key, payload))
			}
			agg := uk.Aggregate(sigs)
			switch l.aggMode {
			case "empty":
				agg = []byte{}
			case "garbage":
				agg = uk.Aggregate([]bls.Signature{uk.BlsSign(0, []byte("garbage"))})
			}
			return votes, agg
		}
		uv := &ucon.UconValidators{RoundIndex: w.contRI}
		uv.ChamberCommitters, uv.SCAggrSig = build(w.commit)
		vb, err := rlp.EncodeToBytes(uv)
		if err != nil {
			panic(err)
		}
		h.Validator = vb
		if w.cert != nil {
			cv := &ucon.UconValidators{RoundIndex: w.contRI}
			cv.ChamberCerts, cv.CCAggrSig = build(w.cert)
			cb, err := rlp.EncodeToBytes(cv)
			if err != nil {
				panic(err)
			}
			h.Certificate = cb
		}
		uk.SealHeader(h, w.propKey)
		seedHeader := chain.GetHeaderByNumber(w.number - ypc.SeedLookBack)
		var certHeader *types.Header
		if c.Cert {
			certHeader = uk.SeedHeader(0, w.certSeed, set.ValRoot, w.certHdrT, version(c.Params))
		}
		return types.NewBlockWithHeader(h), seedHeader, certHeader
	}
	verify := func() (err error) {
		// a panic inside the verifier (e.g. gonum's incomplete beta for p > 1 when the header
		// carries a threshold above the total stake) is not an acceptance: count it as a rejection
		defer func() {
			if r := recover(); r != nil {
				if _, crit := kit.IsCrit(r); crit {
					panic(r)
				}
				panicked = true
				err = fmt.Errorf("verifier panicked: %v", r)
			}
		}()
		blk, seedHeader, certHeader := assemble()
		if c.Cert {
			err = srv.VerifySideChainHeader(&cp, seedHeader, set.Reader, certHeader, set.Reader, blk, []*types.Block{parentBlock})
		} else {
			err = srv.VerifySideChainHeader(&cp, seedHeader, set.Reader, nil, nil, blk, []*types.Block{parentBlock})
		}
		if c.ViaChain || w.wrapK > 0 {
			// second entry: the header-chain path. Acceptance by EITHER path is an acceptance.
			if c.Known {
				// the node already holds a block with this hash at this height (votes and seal are not hashed)
				chain.Pin(w.number, types.CopyHeader(blk.Header()))
			}
			err2 := srv.VerifyHeader(chain, blk.Header(), true)
			if err2 != nil && switchAt > 1 {
				// third entry: the last header of a VerifyHeaders batch that starts before the switch header
				// (the synthetic ones carry no seal: only the verdict on the last one is looked at)
				var batch []*types.Header
				for n := switchAt - 1; n < w.number; n++ {
					batch = append(batch, chain.GetHeaderByNumber(n))
				}
				batch = append(batch, blk.Header())
				seals := make([]bool, len(batch))
				seals[len(seals)-1] = true
				abort, results := srv.VerifyHeaders(chain, batch, seals)
				var last error
				for range batch {
					last = <-results
				}
				close(abort)
				batchRuns++
				if last == nil {
					err2 = nil
					batchOnly = true
				}
			}
			chain.Pin(w.number, nil)
			if err2 == nil {
				viaChainAccepts++
				if err != nil {
					viaChainOnly = true
				}
				return nil
			}
			if err == nil {
				sideOnly = fmt.Sprint(err2)
			}
		}
		return err
	}

	labels := []string{fmt.Sprintf("params:%d", c.Params)}
	defer func() { _ = panicked }()
	if c.Cert {
		labels = append(labels, "cert-round")
	}
	if c.CheckBase || len(c.Edits) == 0 {
		// generator health only: is the un-edited header acceptable at all?
		up, _ := w.weight(w.commit)
		okBase := up >= quorum(w.commit.T, w.commit.frac)
		if c.Cert {
			uc, _ := w.weight(w.cert)
			okBase = okBase && uc >= quorum(w.cert.T, w.cert.frac)
		}
		berr := verify()
		switch {
		case okBase && berr == nil:
			labels = append(labels, "base-accepted")
		case okBase && berr != nil:
			labels = append(labels, "base-REJECTED")
		default:
			labels = append(labels, "base-below-quorum")
			if berr == nil {
				return kit.Fail("accepted-without-quorum", "honest votes of this set weigh %d < quorum %d, yet the header is accepted", up, quorum(w.commit.T, w.commit.frac))
			}
		}
	}
	if len(c.Edits) == 0 {
		return kit.OK(false, labels...)
	}
	for _, e := range c.Edits {
		if l := w.applyEdit(e, nil); l != "" {
			labels = append(labels, l)
		}
	}
	verr := verify()

	// ---- oracle -----------------------------------------------------------------------
	var reasons []string
	up, detail := w.weight(w.commit)
	q := quorum(w.commit.T, w.commit.frac)
	if up < q {
		reasons = append(reasons, fmt.Sprintf("commit votes: counted weight %d < quorum %d (= floor(0.685 * %d))", up, q, w.commit.T))
	}
	near := up+q/4 >= q && up <= q+q/4
	var cdetail []string
	if c.Cert {
		uc, cd := w.weight(w.cert)
		cdetail = cd
		qc := quorum(w.cert.T, w.cert.frac)
		if uc < qc {
			reasons = append(reasons, fmt.Sprintf("certificate votes: counted weight %d < quorum %d (= floor(0.585 * %d))", uc, qc, w.cert.T))
		}
	}
	pv, pind, pwhy := w.proposerValid()
	if !pv {
		reasons = append(reasons, "proposer: "+pwhy)
	}
	if pind {
		labels = append(labels, "house-offline-proposer")
	}
	mustReject := len(reasons) > 0
	if verr == nil {
		labels = append(labels, "accepted")
	} else if panicked {
		labels = append(labels, "verifier-panicked")
	} else {
		labels = append(labels, "rejected")
	}
	if mustReject {
		labels = append(labels, "must-reject")
	}
	if c.ViaChain {
		labels = append(labels, "via-chain")
	}
	if c.Decoy {
		labels = append(labels, "decoy-set-elsewhere")
	}
	if c.Known {
		labels = append(labels, "hash-known-canonical")
	}
	if switchAt > 0 {
		labels = append(labels, "version-switch-before")
	}
	if batchRuns > 0 {
		labels = append(labels, "verified-in-batch-over-switch")
	}
	if batchOnly {
		labels = append(labels, "accepted-by-batch-only")
	}
	if viaChainOnly {
		labels = append(labels, "accepted-by-VerifyHeader-only")
	}
	if viaChainAccepts > 0 {
		labels = append(labels, "accepted-by-VerifyHeader")
	}
	if sideOnly != "" {
		labels = append(labels, "accepted-by-side-path-only:"+sideOnly)
	}
	if near {
		labels = append(labels, "near-quorum")
	}
	sort.Strings(labels)
	if verr == nil && mustReject {
		class := w.classify(reasons)
		var sb bytes.Buffer
		fmt.Fprintf(&sb, "header #%d (params %v, header thresholds %v) was ACCEPTED although:\n", w.number, w.trip, w.hdrTh)
		for _, r := range reasons {
			fmt.Fprintf(&sb, "  - %s\n", r)
		}
		fmt.Fprintf(&sb, "validators: %+v (online chamber stake %d)\ncommit votes:\n", c.Vals, set.TotalChamber)
		for _, d := range detail {
			fmt.Fprintf(&sb, "  %s\n", d)
		}
		for _, d := range cdetail {
			fmt.Fprintf(&sb, "  cert %s\n", d)
		}
		return kit.Result{Violation: &kit.Violation{Class: class, Msg: sb.String()}, NonTrivial: true, Labels: labels}
	}
	return kit.OK(up > 0 || near, labels...)
}

// classify attributes an accepted must-reject header to a root cause.
func (w *world) classify(reasons []string) string {
	if w.wrapK > 0 {
		return "number-wraps-to-genesis"
	}
	// only thresholds the verifier reads for THIS header matter (its own CertValThreshold is for later look-backs)
	if w.hdrTh[0] != w.trip[0] || w.hdrTh[1] != w.trip[1] || (w.c.Cert && w.certHdrT != w.trip[2]) {
		return "author-threshold"
	}
	if w.subUsers == 0 {
		return "zero-seat-proposer"
	}
	for _, l := range []*voteList{w.commit, w.cert} {
		if l == nil {
			continue
		}
		for _, e := range l.entries {
			if e.signer >= 0 && !(w.set.Specs[e.signer].IsChamber() && w.set.Specs[e.signer].Online) && e.votes > 0 {
				if w.set.Specs[e.signer].Online {
					return "nonmember-voter"
				}
				return "offline-voter"
			}
		}
	}
	return "accepted-without-quorum"
}

var _ = kit.Register(kit.Prop[Case]{
	Name: "HeaderQuorum",
	Rule: "3-8 validators (chancellor/senator/house, online/offline, stakes up to 2T, online chamber stake >= T), protocol triple in {(26,2000,4000),(5,200,400),(3,50,100)}, ordinary round or certificate round 32768; an honestly proposed and voted header (real VRF/BLS) gets 0-4 adversarial edits (drop/duplicate/replay votes of another index/step/seed, other block or payload signatures, house/offline/out-of-range voters, inflated weights, corrupted proofs, stolen indices, empty/garbage aggregates, container round index, header-chosen thresholds, proposer forgeries, trimming to just below / exactly the quorum; compound attacks: author-chosen committee sizes with a few votes, outsiders topping up, credentials computed against ANOTHER height's validator set or under the PREVIOUS protocol version's half-size committees, a block numbered k*2^64 without votes); every second case is also verified through Server.VerifyHeader on a synthetic ChainReader (the engine resolves seed / stake / certificate look-backs; optionally every non-look-back header carries a decoy validator set, the verified hash is already canonical, the protocol version switched 9-12 blocks earlier and the header is the last one of a VerifyHeaders batch over the switch) - acceptance by any path counts; oracle = reference recount from ground truth (exact binomial quantile, who signed what) under the PROTOCOL thresholds: accepted while counted weight < quorum or proposer credential invalid = violation; non-trivial = edited case whose counted weight is non-zero or within 25% of the quorum",
	Gen:  genCase, Run: runCase,
	Quick: 260, Thorough: 4000, Chunk: 65, MinNonTrivialPct: 35,
})
