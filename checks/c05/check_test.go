package c05

import (
	"errors"
	"fmt"
	"math/big"
	"strings"
	"sync"
	"testing"

	"github.com/youchainhq/go-youchain/common"
	"github.com/youchainhq/go-youchain/core/state"
	"github.com/youchainhq/go-youchain/rlp"
	"github.com/youchainhq/go-youchain/staking"
	"pgregory.net/rapid"
	"verif/kit"
	sc "verif/lib/stakechain"
)

func TestMain(m *testing.M)   { kit.Main(m, "C05") }
func TestProps(t *testing.T)  { kit.RunAll(t) }
func TestReplay(t *testing.T) { kit.ReplayAll(t) }

const (
	classDup         = "dup-pair-evidence"
	classCrossKind   = "cross-kind-evidence"
	classNextIndex   = "next-index-evidence"
	classZeroPenalty = "zero-penalty-divergence"
	classZeroStake   = "zero-stake-division"
)

// Case: a (possibly empty) staking prelude followed by probe blocks that carry evidences.
type Case struct {
	Cfg     int            `json:"cfg"`
	Gen     []sc.GenVal    `json:"gen"`
	Excl    sc.Excl        `json:"excl"`
	GenExcl []string       `json:"gen_excl,omitempty"` // classes kept out by construction when the case was drawn
	Setup   []sc.BlockSpec `json:"setup,omitempty"`
	// Rank != 0: the setup makes the validator ranking (stake order = signer index) change at a
	// period-end block P and the first probe block carries a real equivocation of round
	// P + StakeLookBack - 1 + (Rank - 2), i.e. Rank 2 is aligned with the ranking change.
	Rank int `json:"rank,omitempty"`
	Probe   []sc.BlockSpec `json:"probe"`
}

func processCfg() int {
	shard, _ := kit.Shard()
	return sc.ProcessConfig(kit.Seed(), shard)
}

func genCase(t *rapid.T) Case {
	c := Case{Cfg: processCfg()}
	cfg := &sc.Configs[c.Cfg]
	// NoNegRec: the staking prelude never combines a self-withdrawal and an unbind of one validator in one period (C06/C07 finding negative-pending-record)
	c.Excl = sc.Excl{ZeroStake: kit.IsKnown(classZeroStake), ZeroToken: kit.IsKnown(classZeroPenalty), NoNegRec: true}
	known := sc.KnownEv{DupPair: kit.IsKnown(classDup), CrossKind: kit.IsKnown(classCrossKind), NextIndex: kit.IsKnown(classNextIndex)}
	c.Gen = sc.GenGenesis(t, cfg)
	switch rapid.IntRange(0, 9).Draw(t, "setup") {
	case 0, 1, 2, 3:
		c.Setup = sc.GenStakingSetup(t, c.Gen, cfg)
	case 4:
		// a house validator created with a dust stake (MinSelfStakes[house] = 0), then enough
		// blocks for it to enter the stake look-back set the evidence index refers to
		m := rapid.SampledFrom([]int{1, 2}).Draw(t, "dust") // 1: half a unit (stake 0, token > 0); 2: 1 LU
		c.Setup = append(c.Setup, sc.BlockSpec{CB: 0, Pool: true, Ops: []sc.Op{{K: "vcreate", V: sc.NVal - 1, M: m, X: 4}}})
		for i := 1; i < int(cfg.Freq)+17; i++ {
			c.Setup = append(c.Setup, sc.BlockSpec{CB: i % 2})
		}
	case 5, 6, 7:
		genRankingChange(t, &c, cfg)
	}
	np := rapid.IntRange(1, 4).Draw(t, "nprobe")
	if c.Rank != 0 {
		np = rapid.IntRange(0, 2).Draw(t, "nprobe-after")
	}
	height := len(c.Setup) + len(c.Probe)
	for i := 0; i < np; i++ {
		bs := sc.BlockSpec{CB: rapid.IntRange(0, 2).Draw(t, "cb")}
		// evidences only in blocks that do not end a period: nothing else touches validators there
		if uint64(height+i+2)%cfg.Freq != 0 {
			ne := rapid.IntRange(1, 3).Draw(t, "nev")
			adv := sc.Rare(t, "adversarial", 40)
			for j := 0; j < ne; j++ {
				var es sc.EvSpec
				if j > 0 && sc.Rare(t, "dup-in-block", 25) {
					es = bs.Ev[j-1] // the same evidence twice in one block
				} else if len(c.Probe) > 0 && len(c.Probe[len(c.Probe)-1].Ev) > 0 && sc.Rare(t, "repeat-later", 25) {
					es = c.Probe[len(c.Probe)-1].Ev[0] // the same evidence again in the next block
					es.Round--
				} else {
					es = sc.GenEvidence(t, known, &c.GenExcl)
				}
				es.Adv = adv
				bs.Ev = append(bs.Ev, es)
			}
		}
		c.Probe = append(c.Probe, bs)
	}
	return c
}

// stakeLookBack is CaravelParams.StakeLookBack of the installed parameter set (left unscaled).
const stakeLookBack = 16

// genRankingChange: a stake change takes effect at the first period end P = freq-1 and changes the
// validator ranking (descending stake = the signer index votes and evidences carry): either a house
// validator's deposit overtakes its neighbour, or a new house validator enters above the smallest
// one. Filler blocks follow (every chamber validator keeps proposing), and the first probe block
// - block R+1 - carries a detector-shaped evidence of a real equivocation of round
// R = P + StakeLookBack - 1 + off by one of the validators whose index moved: the look-back set of
// round R is the ranking BEFORE the change exactly when off <= 0, and that of round R+1 the one
// after it when off >= 0. (StakeLookBack is a multiple of the period, so for off = 0 block R+1 is a
// period end: the period-end oracle judges it.)
func genRankingChange(t *rapid.T, c *Case, cfg *sc.Config) {
	var houses []int
	for i, g := range c.Gen {
		if g.Role == 3 {
			houses = append(houses, i)
		}
	}
	for len(houses) < 2 {
		c.Gen = append(c.Gen, sc.GenVal{ID: len(c.Gen), Role: 3, YOU: 100})
		houses = append(houses, len(c.Gen)-1)
	}
	base := int64(cfg.MinStakes[2]) + rapid.Int64Range(0, 20).Draw(t, "rank-base")
	delta := rapid.Int64Range(1, 20).Draw(t, "rank-delta")
	lo, hi := houses[0], houses[1]
	c.Gen[lo].YOU, c.Gen[lo].Sub, c.Gen[lo].Offline = base, 0, false
	c.Gen[hi].YOU, c.Gen[hi].Sub, c.Gen[hi].Offline = base+delta, 0, false
	for _, h := range houses[2:] {
		c.Gen[h].YOU += 60 // keep the others clear of the pair
	}
	off := rapid.SampledFrom([]int{0, 0, 0, -1, 1}).Draw(t, "rank-off")
	c.Rank = 2 + off
	first := sc.BlockSpec{CB: 0, Pool: true}
	accused := c.Gen[lo].ID
	if rapid.Bool().Draw(t, "rank-by-create") {
		// a new house validator with MinStakes+59 units ranks above `lo` (and `hi` if small enough)
		first.Ops = []sc.Op{{K: "vcreate", V: sc.NVal - 1, N: 59, X: 4}}
	} else {
		first.Ops = []sc.Op{{K: "vdeposit", V: -1 - c.Gen[lo].ID, N: int(delta) + 9}} // delta+10 units: lo overtakes hi
		if rapid.Bool().Draw(t, "rank-accuse-hi") {
			accused = c.Gen[hi].ID
		}
	}
	p := int(cfg.Freq) - 1
	r := p + stakeLookBack - 1 + off
	c.Setup = append(c.Setup, first)
	for i := 1; i < r; i++ {
		c.Setup = append(c.Setup, sc.BlockSpec{CB: i % 4})
	}
	kind := rapid.SampledFrom([]uint8{sc.KPrevote, sc.KPrecommit}).Draw(t, "rank-kind")
	c.Probe = append(c.Probe, sc.BlockSpec{CB: r % 4, Ev: []sc.EvSpec{{Signer: 100 + accused, Index: uint32(rapid.IntRange(1, 3).Draw(t, "rank-index")), VoteType: kind,
		Adv: rapid.Bool().Draw(t, "rank-adv"), Pairs: []sc.PairSpec{{Kind: kind, Hash: 0}, {Kind: kind, Hash: 1}}}}})
}

// ---------------------------------------------------------------------------------
// oracle

type vote struct {
	round uint64
	index uint32
	kind  uint8
}

// corpus is every vote each identity has signed so far in the case (the votes are the
// pairs of all evidences, whoever they accuse).
type corpus map[int]map[vote]map[int]bool

func (c corpus) add(id int, v vote, hash int) {
	if c[id] == nil {
		c[id] = map[vote]map[int]bool{}
	}
	if c[id][v] == nil {
		c[id][v] = map[int]bool{}
	}
	c[id][v][hash] = true
}

// honest: at most one hash per (round, index, kind), two for next-index votes.
func (c corpus) honest(id int) bool {
	for v, hs := range c[id] {
		limit := 1
		if v.kind == sc.KNext {
			limit = 2
		}
		if len(hs) > limit {
			return false
		}
	}
	return true
}

// holdings is what a penalty can take from: the validator's tokens and its unfinished withdraw records.
func holdings(o *sc.Obs, main common.Address) (*big.Int, *big.Int) {
	tok, wd := new(big.Int), new(big.Int)
	if v := o.ValByMain[main]; v != nil {
		tok.Set(v.Token)
	}
	for _, r := range o.Withdraws {
		if r.Validator == main && r.Finished == 0 {
			wd.Add(wd, r.FinalBalance)
		}
	}
	return tok, wd
}

func sameRecord(a, b *state.Validator) string {
	var d []string
	chk := func(name string, same bool) {
		if !same {
			d = append(d, name)
		}
	}
	chk("Token", a.Token.Cmp(b.Token) == 0)
	chk("Stake", a.Stake.Cmp(b.Stake) == 0)
	chk("SelfToken", a.SelfToken.Cmp(b.SelfToken) == 0)
	chk("Status", a.Status == b.Status)
	chk("Expelled", a.Expelled == b.Expelled)
	chk("ExpelExpired", a.ExpelExpired == b.ExpelExpired)
	if len(a.Delegations) != len(b.Delegations) {
		d = append(d, "Delegations")
	} else {
		for i := range a.Delegations {
			if a.Delegations[i].Delegator != b.Delegations[i].Delegator || a.Delegations[i].Token.Cmp(b.Delegations[i].Token) != 0 {
				d = append(d, "Delegations")
				break
			}
		}
	}
	return strings.Join(d, ",")
}

func runCase(c Case) kit.Result {
	net, err := sc.NewNet(c.Cfg, c.Gen)
	if err != nil {
		if errors.Is(err, sc.ErrInfra) {
			return kit.Discarded("infra: " + err.Error())
		}
		return kit.Fail("setup", "cannot create the network: %v", err)
	}
	defer net.Close()
	w := sc.NewWorld(net)
	yp := sc.Params()
	for i, bs := range c.Setup {
		bs.Ev = nil
		step, err := w.Step(bs, c.Excl)
		if err != nil {
			if errors.Is(err, sc.ErrInfra) {
				return kit.Discarded("infra: " + err.Error())
			}
			return kit.Fail("build", "setup block %d: %v", i, err)
		}
		if step.Halted {
			return kit.OK(false, "halted-in-setup")
		}
		if err := net.B.Import(step.Built.Block); err != nil {
			return kit.Discarded("setup block rejected by the importer (C06 matter): " + err.Error())
		}
	}
	pre, err := sc.Observe(net.A, net.A.Head().Header())
	if err != nil {
		return kit.Fail("observe", "%v", err)
	}
	corp := corpus{}
	var future []*sc.EvInfo // evidences posted on the mux for a round that was still in the future
	var (
		gatePassing, accepted, honestGate, genuineOK, advBlocks, repeats int
		withDelegations, withWithdraws, withRisk                        bool
		labels                                                          = []string{"cfg:" + net.Cfg.Name}
	)
	for bi, bs := range c.Probe {
		bs.Ops = nil
		var step *sc.StepResult
		var stepErr error
		panicked := func() (r interface{}) {
			defer func() { r = recover() }()
			step, stepErr = w.Step(bs, c.Excl)
			return nil
		}()
		if panicked != nil {
			if _, isCrit := kit.IsCrit(panicked); isCrit {
				panic(panicked)
			}
			// a crash of the builder (or of every validating node, for adversarial slash data)
			cls := "panic"
			if strings.Contains(fmt.Sprint(panicked), "division by zero") {
				st, _ := net.A.State()
				vals := sc.SortedVals(st)
				for _, es := range bs.Ev {
					info := w.BuildEvidence(es, vals)
					if v := st.GetValidatorByMainAddr(info.Accused); info.PassesGate && info.RightHeight && v != nil && v.Stake.Sign() == 0 && sc.PenaltyAmount(v.Token).Sign() > 0 {
						cls = classZeroStake
					}
				}
			}
			return kit.Fail(cls, "probe block %d: processing the evidences panics: %v", bi, panicked)
		}
		if stepErr != nil {
			if errors.Is(stepErr, sc.ErrInfra) {
				return kit.Discarded("infra: " + stepErr.Error())
			}
			return kit.Fail("build", "probe block %d: %v", bi, stepErr)
		}
		for _, sk := range step.Skipped {
			if strings.HasPrefix(sk, "excluded:") || strings.HasPrefix(sk, "skipped:") {
				labels = append(labels, sk)
			}
		}
		if step.Halted {
			labels = append(labels, "halted")
			break
		}
		blk := step.Built.Block
		hdr := blk.Header()
		num := hdr.Number.Uint64()
		if step.AdvSlash {
			advBlocks++
		}
		post, err := sc.Observe(net.A, hdr)
		if err != nil {
			return kit.Fail("observe", "block %d: %v", num, err)
		}
		// evidences the builder's pool kept as pending (future round) and that mature in this block
		// (processing order: the pool holds the earlier-posted ones first)
		var effective []*sc.EvInfo
		if !step.AdvSlash {
			for _, f := range future {
				if f.Round == step.Parent.NumberU64() {
					cp := *f
					cp.RightHeight = true
					effective = append(effective, &cp)
				}
			}
		}
		effective = append(effective, step.Evidences...)
		for _, ev := range step.Evidences {
			if !ev.Spec.Adv && ev.Round > step.Parent.NumberU64() {
				future = append(future, ev)
			}
		}
		// the votes of this block's evidences join the corpus
		accusedNow := map[common.Address][]*sc.EvInfo{}
		for _, ev := range step.Evidences {
			for _, p := range ev.Pairs {
				id := ev.AccusedID
				if p.By > 0 {
					id = (p.By - 1) % sc.NVal
				}
				if id < 0 {
					continue
				}
				r := int64(ev.Round) + int64(p.SRound)
				i := int64(ev.Spec.Index) + int64(p.SIndex)
				if r < 0 {
					r = 0
				}
				if i < 0 {
					i = 0
				}
				corp.add(id, vote{uint64(r), uint32(i), p.Kind}, p.Hash)
			}
			if ev.PassesGate {
				gatePassing++
				if ev.CorpusHonest() {
					honestGate++
				}
			}
		}
		for _, ev := range effective {
			if ev.Accused != (common.Address{}) && ev.RightHeight {
				accusedNow[ev.Accused] = append(accusedNow[ev.Accused], ev)
			}
		}
		// --- slashing logs of the block (all, and those of type double sign)
		logged, dsLogged := map[common.Address]*big.Int{}, map[common.Address]*big.Int{}
		for _, l := range step.Built.Receipts[len(step.Built.Receipts)-1].Logs {
			if len(l.Topics) > 0 && l.Topics[0] == common.StringToHash(staking.LogTopicSlashing) {
				var sd staking.SlashDataV5
				if err := rlp.DecodeBytes(l.Data, &sd); err != nil {
					return kit.Fail("slash-log", "block %d: undecodable slashing log: %v", num, err)
				}
				if logged[sd.MainAddress] == nil {
					logged[sd.MainAddress] = new(big.Int)
				}
				if sd.Total != nil {
					logged[sd.MainAddress].Add(logged[sd.MainAddress], sd.Total)
				}
				if sd.Type == staking.EventTypeDoubleSign {
					if dsLogged[sd.MainAddress] == nil {
						dsLogged[sd.MainAddress] = new(big.Int)
					}
					if sd.Total != nil {
						dsLogged[sd.MainAddress].Add(dsLogged[sd.MainAddress], sd.Total)
					}
				}
			}
		}
		if step.PeriodEnd {
			// A period end changes validators for many legitimate reasons (rewards, settlements,
			// inactivity, pending transactions - C07's matter), so the record comparison is not
			// used here. Evidence is still judged, through what only double-sign processing
			// produces: a slashing log of type double sign for the validator and the expelled flag
			// (recoverFromExpiredExpelling cannot clear it in the same block).
			if err := net.B.Import(blk); err != nil {
				return kit.Discarded("period-end block rejected by the importer (C06 matter): " + err.Error())
			}
			for main, total := range dsLogged {
				id := sc.ValIndexByMain(main)
				var gate []*sc.EvInfo
				for _, ev := range accusedNow[main] {
					if ev.PassesGate {
						gate = append(gate, ev)
					}
				}
				if len(gate) == 0 {
					return kit.Fail("slashed-without-evidence", "period-end block %d: validator %d has a double-sign slashing log (%s) but no evidence at this height passes the signature gate against it", num, id, sc.LU(total))
				}
				if id >= 0 && corp.honest(id) {
					cls, culprit := attribute(c.Cfg, gate)
					return kit.Fail(cls, "period-end block %d: validator %d never signed two different votes of one kind in one round/index, yet an evidence assembled from its votes (via %s; pairs %s) was accepted: %s taken",
						num, id, via(culprit), describePairs(culprit), sc.LU(total))
				}
				if v := pre.ValByMain[main]; v != nil && total.Cmp(sc.PenaltyAmount(v.Token)) > 0 {
					return kit.Fail("penalty-exceeds-fraction", "period-end block %d: %s taken from validator %d, the configured fraction of its %s allows %s", num, sc.LU(total), id, sc.LU(v.Token), sc.LU(sc.PenaltyAmount(v.Token)))
				}
				accepted++
			}
			for main, evs := range accusedNow {
				v := pre.ValByMain[main]
				if v == nil || sc.PenaltyAmount(v.Token).Sign() == 0 {
					continue
				}
				for _, ev := range evs {
					if !ev.PassesGate || !ev.DetectorShaped() {
						continue
					}
					p := post.ValByMain[main]
					if dsLogged[main] == nil || dsLogged[main].Sign() == 0 || p == nil || !p.Expelled || p.IsOnline() {
						return kit.Fail("equivocation-not-penalised", "period-end block %d: evidence of two different %d-votes of validator %d in round %d index %d (signer index %d of that round's look-back set, via %s) was not acted on: double-sign log %v, expelled %v",
							num, ev.Spec.VoteType, sc.ValIndexByMain(main), ev.Round, ev.Spec.Index, ev.SignerIdx, via(ev), dsLogged[main], p != nil && p.Expelled)
					}
					genuineOK++
					break
				}
			}
			pre = post
			continue
		}
		// --- builder and validator alike: the importer accepts the block
		importErr := net.B.Import(blk)
		if importErr != nil {
			for _, ev := range effective {
				if v := pre.ValByMain[ev.Accused]; v != nil && ev.PassesGate && ev.RightHeight && !ev.Spec.Adv && sc.PenaltyAmount(v.Token).Sign() == 0 {
					return kit.Fail(classZeroPenalty, "block %d: validator %d (Token %s LU, penalty amount 0) is expelled by the builder but the evidence is not written to SlashData: the importer rejects the block: %v",
						num, ev.AccusedID, v.Token, importErr)
				}
			}
			return kit.Fail("builder-validator-disagree", "block %d (slash data %d bytes, adversarial %v): the importer rejects the block: %v", num, len(hdr.SlashData), step.AdvSlash, importErr)
		}
		totalTaken := new(big.Int)
		// --- per validator
		for _, v := range pre.Vals {
			main := v.MainAddress()
			id := sc.ValIndexByMain(main)
			p := post.ValByMain[main]
			if p == nil {
				return kit.Fail("validator-vanished", "block %d: validator %d disappeared in an evidence-only block", num, id)
			}
			tok0, wd0 := holdings(pre, main)
			tok1, wd1 := holdings(post, main)
			taken := new(big.Int).Sub(new(big.Int).Add(tok0, wd0), new(big.Int).Add(tok1, wd1))
			changed := sameRecord(v, p)
			if taken.Sign() != 0 && changed == "" {
				changed = "withdraw records"
			}
			if len(v.Delegations) > 0 {
				withDelegations = true
			}
			if wd0.Sign() > 0 {
				withWithdraws = true
			}
			if v.RiskObligation > 0 {
				withRisk = true
			}
			// the proposer's LastActive / rewards change; status, tokens and expelling do not
			evs := accusedNow[main]
			var gate []*sc.EvInfo
			for _, ev := range evs {
				if ev.PassesGate {
					gate = append(gate, ev)
				}
			}
			if changed == "" {
				// (b) a detector-shaped evidence of a real equivocation, at the right height, must be accepted
				for _, ev := range gate {
					if ev.DetectorShaped() && sc.PenaltyAmount(v.Token).Sign() > 0 {
						return kit.Fail("equivocation-not-penalised", "block %d: evidence of two different %d-votes of validator %d in round %d index %d (signer index %d of that round's look-back set, via %s) changed nothing",
							num, ev.Spec.VoteType, id, ev.Round, ev.Spec.Index, ev.SignerIdx, via(ev))
					}
				}
				continue
			}
			accepted++
			// something was taken from / done to v
			if len(gate) == 0 {
				if len(evs) > 0 {
					return kit.Fail("invalid-evidence-accepted", "block %d: validator %d changed (%s, %s taken) although no evidence against it passes the signature gate (%d evidence(s) name it)",
						num, id, changed, sc.LU(taken), len(evs))
				}
				return kit.Fail("slashed-without-evidence", "block %d: validator %d changed (%s, %s taken) without any evidence naming it at this height", num, id, changed, sc.LU(taken))
			}
			// (a) nothing assembled from the votes of a validator that has followed the protocol may be accepted
			if id >= 0 && corp.honest(id) {
				// Attribution. The evidences of a block are processed in order and the first one
				// the implementation accepts against a validator shadows the later ones
				// (once-map). Which root-cause classes the tree under test accepts at all is
				// probed empirically (treeAccepts), so a rejected evidence that merely sits in the
				// same block (e.g. a true duplicate pair after its repair) is never blamed.
				cls, culprit := attribute(c.Cfg, gate)
				return kit.Fail(cls, "block %d: validator %d never signed two different votes of one kind in one round/index, yet an evidence assembled from its votes (via %s; pairs %s) was accepted: %s, %s taken, status %d->%d expelled %v->%v",
					num, id, via(culprit), describePairs(culprit), changed, sc.LU(taken), v.Status, p.Status, v.Expelled, p.Expelled)
			}
			// accepted against a validator that did equivocate: once, bounded, expelled
			bound := sc.PenaltyAmount(v.Token)
			if taken.Sign() < 0 || taken.Cmp(bound) > 0 {
				return kit.Fail("penalty-exceeds-fraction", "block %d: %s taken from validator %d (tokens %s, unfinished withdrawals %s) but the configured fraction allows %s (%d evidence(s) in the block)",
					num, sc.LU(taken), id, sc.LU(tok0), sc.LU(wd0), sc.LU(bound), len(gate))
			}
			if bound.Sign() > 0 && taken.Sign() == 0 {
				return kit.Fail("penalty-nothing-taken", "block %d: validator %d was expelled for double signing but nothing was taken (allowed %s)", num, id, sc.LU(bound))
			}
			if p.Status != 0 || !p.Expelled || p.ExpelExpired < num+yp.ExpelledRoundForDoubleSign {
				return kit.Fail("penalised-not-expelled", "block %d: validator %d was penalised but is status=%d expelled=%v expelExpired=%d (want offline, expelled until >= %d)",
					num, id, p.Status, p.Expelled, p.ExpelExpired, num+yp.ExpelledRoundForDoubleSign)
			}
			if lg := logged[main]; (lg == nil && taken.Sign() > 0) || (lg != nil && lg.Cmp(taken) != 0) {
				return kit.Fail("penalty-log-mismatch", "block %d: %s taken from validator %d but the slashing logs say %v", num, sc.LU(taken), id, lg)
			}
			totalTaken.Add(totalTaken, taken)
			for _, ev := range gate {
				if ev.DetectorShaped() {
					genuineOK++
				}
			}
		}
		// --- (c) what was taken arrives in the penalty account, and the conservation sum holds
		inc := new(big.Int).Sub(post.Balance(yp.PenaltyTo), pre.Balance(yp.PenaltyTo))
		if inc.Cmp(totalTaken) != 0 {
			return kit.Fail("penalty-account", "block %d: %s were taken from validators but the penalty account received %s", num, sc.LU(totalTaken), sc.LU(inc))
		}
		if post.Total.Cmp(pre.Total) != 0 {
			return kit.Fail("conservation", "block %d: the conservation sum changed by %s LU\nbefore: %s\nafter:  %s", num, new(big.Int).Sub(post.Total, pre.Total), pre.Breakdown(), post.Breakdown())
		}
		for _, es := range bs.Ev {
			if es.Round < 0 {
				repeats++
			}
		}
		pre = post
	}
	flag := func(cond bool, l string) {
		if cond {
			labels = append(labels, l)
		}
	}
	flag(gatePassing > 0, "passes-gate")
	flag(honestGate > 0, "honest-corpus-passes-gate")
	flag(accepted > 0, "evidence-accepted")
	flag(genuineOK > 0, "equivocation-penalised")
	flag(advBlocks > 0, "adversarial-slashdata")
	flag(repeats > 0, "stale-round-evidence")
	flag(withDelegations, "state:delegations")
	flag(withWithdraws, "state:unfinished-withdraws")
	flag(withRisk, "state:risk-obligation")
	flag(len(c.Setup) > 0, "with-setup")
	flag(c.Rank == 2, "evidence-at-ranking-change-boundary")
	flag(c.Rank == 1 || c.Rank == 3, "evidence-next-to-ranking-change-boundary")
	labels = append(labels, c.GenExcl...)
	for l := range w.Excluded {
		labels = append(labels, l)
	}
	return kit.OK(gatePassing > 0, dedup(labels)...)
}

var (
	acceptMu    sync.Mutex
	acceptCache = map[string]bool{}
)

// treeAccepts probes once per process whether the tree under test accepts the canonical
// honest-corpus evidence of a root-cause class (one vote listed twice / prevote A +
// precommit B / two next-index votes) on a scratch two-node network. It is only used to
// attribute an already established violation to the right class.
func treeAccepts(cfg int, class string) bool {
	acceptMu.Lock()
	defer acceptMu.Unlock()
	if v, ok := acceptCache[class]; ok {
		return v
	}
	var pairs []sc.PairSpec
	switch class {
	case classDup:
		pairs = []sc.PairSpec{{Kind: sc.KPrevote, Hash: 0}, {Kind: sc.KPrevote, Hash: 0}}
	case classCrossKind:
		pairs = []sc.PairSpec{{Kind: sc.KPrevote, Hash: 0}, {Kind: sc.KPrecommit, Hash: 1}}
	case classNextIndex:
		pairs = []sc.PairSpec{{Kind: sc.KNext, Hash: 0}, {Kind: sc.KNext, Hash: 1}}
	default:
		return true
	}
	accepted := true // if the probe cannot run, do not rule the class out
	func() {
		defer func() { recover() }()
		gen := []sc.GenVal{{ID: 0, Role: 1, YOU: 1500}, {ID: 1, Role: 2, YOU: 800}, {ID: 2, Role: 3, YOU: 200}, {ID: 3, Role: 3, YOU: 200}}
		net, err := sc.NewNet(cfg, gen)
		if err != nil {
			return
		}
		defer net.Close()
		w := sc.NewWorld(net)
		pre, err := sc.Observe(net.A, net.A.Head().Header())
		if err != nil {
			return
		}
		step, err := w.Step(sc.BlockSpec{CB: 0, Ev: []sc.EvSpec{{Signer: 102, Index: 1, VoteType: pairs[0].Kind, Pairs: pairs, Adv: true}}}, sc.Excl{})
		if err != nil || step.Halted || len(step.Evidences) != 1 || !step.Evidences[0].PassesGate {
			return
		}
		post, err := sc.Observe(net.A, step.Built.Block.Header())
		if err != nil {
			return
		}
		main := step.Evidences[0].Accused
		a, b := pre.ValByMain[main], post.ValByMain[main]
		if a != nil && b != nil {
			accepted = sameRecord(a, b) != ""
		}
	}()
	acceptCache[class] = accepted
	return accepted
}

// attribute names the root-cause class of an accepted evidence against an honest validator:
// the first candidate, in processing order, whose class the tree under test accepts at all.
func attribute(cfg int, gate []*sc.EvInfo) (string, *sc.EvInfo) {
	for _, ev := range gate {
		if hc := ev.HonestClass(); hc != "" && treeAccepts(cfg, hc) {
			return hc, ev
		}
	}
	return "honest-validator-slashed", gate[0]
}

func describePairs(ev *sc.EvInfo) string {
	var parts []string
	for _, p := range ev.Pairs {
		parts = append(parts, fmt.Sprintf("kind%d:hash%d", p.Kind, p.Hash))
	}
	return strings.Join(parts, "+")
}

func via(ev *sc.EvInfo) string {
	if ev.Spec.Adv {
		return "proposer-chosen SlashData"
	}
	return "the builder's evidence pool"
}

func dedup(in []string) []string {
	seen := map[string]bool{}
	var out []string
	for _, s := range in {
		if !seen[s] {
			seen[s] = true
			out = append(out, s)
		}
	}
	return out
}

var _ = kit.Register(kit.Prop[Case]{
	Name: "Slashing",
	Rule: "a genesis with validators of all three roles, in 40% of the cases three staking periods of delegations, unbinds and withdrawals (or a dust-stake house " +
		"validator) first; then 1-4 evidence-only blocks with 1-3 evidence blobs each, assembled from an explicit vote corpus: honest emission patterns " +
		"(one prevote, precommit, certificate vote and up to two next-index votes per index, arbitrary hashes) in every combination incl. repeated pairs, " +
		"other indexes / rounds, other validators' signatures, damaged signatures, mislabelled hashes; real equivocations (well-formed and malformed); " +
		"undecodable / unknown / deprecated types; wrong rounds; the same evidence twice in a block and again in the next block; through the builder's " +
		"evidence pool (event mux) or placed into SlashData by an adversarial proposer. Non-trivial: at least one evidence decodes, names an existing " +
		"signer and all its signatures verify.",
	Gen: genCase, Run: runCase,
	Quick: 150, Thorough: 1200, Chunk: 25, MinNonTrivialPct: 25,
	QuickBudgetS: 60, ThoroughBudgetS: 540,
})
