package c13

import (
	"bytes"
	"fmt"
	"sort"
	"testing"

	"github.com/youchainhq/go-youchain/common"
	"github.com/youchainhq/go-youchain/core/types"
	"github.com/youchainhq/go-youchain/trie"
	"github.com/youchainhq/go-youchain/youdb"
	"pgregory.net/rapid"
	"verif/kit"
)

func TestMain(m *testing.M)   { kit.Main(m, "C13") }
func TestProps(t *testing.T)  { kit.RunAll(t) }
func TestReplay(t *testing.T) { kit.ReplayAll(t) }

// ---------------------------------------------------------------------------------
// generators

var alphabet = []byte{0x00, 0x01, 0x10, 0x11, 0xff}

func genKey(t *rapid.T, secure bool) []byte {
	if secure {
		// a small pool of preimages; the secure trie hashes them to 32-byte keys
		return []byte{'k', byte(rapid.IntRange(0, 23).Draw(t, "sk"))}
	}
	n := rapid.IntRange(1, 4).Draw(t, "klen")
	k := make([]byte, n)
	for i := range k {
		k[i] = alphabet[rapid.IntRange(0, len(alphabet)-1).Draw(t, "kb")]
	}
	return k
}

func genVal(t *rapid.T) []byte {
	var n int
	switch rapid.IntRange(0, 9).Draw(t, "vkind") {
	case 0:
		n = 0 // = delete
	case 1, 2:
		n = 1
	case 3:
		n = 31
	case 4:
		n = 32
	case 5:
		n = 33
	case 6:
		n = rapid.IntRange(100, 140).Draw(t, "vlen")
	default:
		n = rapid.IntRange(2, 40).Draw(t, "vlen")
	}
	v := make([]byte, n)
	fill := rapid.Byte().Draw(t, "vfill")
	for i := range v {
		v[i] = fill + byte(i)
	}
	if n == 1 && rapid.Bool().Draw(t, "small") {
		v[0] &= 0x7f // single byte < 0x80: the RLP self-encoding case
	}
	return v
}

// Op is one step of a trie history.
type Op struct {
	Kind string `json:"kind"`
	Key  []byte `json:"key,omitempty"`
	Val  []byte `json:"val,omitempty"`
	N    int    `json:"n,omitempty"`
}

// Case is a trie history.
type Case struct {
	Secure     bool `json:"secure"`
	CacheLimit int  `json:"cache_limit"`
	Ops        []Op `json:"ops"`
}

var opKinds = []string{"update", "update", "update", "update", "delete", "delete", "delete", "get", "get", "getall", "hash", "commit", "commit", "reopen",
	"renew", "other", "deref", "deref", "cap", "iterate", "seek", "prove", "prove_absent"}

func genCase(t *rapid.T) Case {
	c := Case{Secure: rapid.IntRange(0, 4).Draw(t, "secure") == 0}
	c.CacheLimit = rapid.SampledFrom([]int{0, 0, 1, 120}).Draw(t, "cachelimit")
	n := rapid.IntRange(1, 100).Draw(t, "nops")
	for i := 0; i < n; i++ {
		op := Op{Kind: rapid.SampledFrom(opKinds).Draw(t, "kind")}
		switch op.Kind {
		case "update":
			op.Key, op.Val = genKey(t, c.Secure), genVal(t)
		case "delete":
			op.Key = genKey(t, c.Secure)
			op.N = rapid.IntRange(0, 1<<16).Draw(t, "n") // N%3 != 0: delete a key touched before instead
		case "seek", "prove_absent":
			op.Key = genKey(t, c.Secure)
		case "other", "deref", "cap", "prove", "commit", "get":
			op.N = rapid.IntRange(0, 1<<16).Draw(t, "n")
			if op.Kind == "other" {
				op.Key, op.Val = genKey(t, c.Secure), genVal(t)
			}
		}
		c.Ops = append(c.Ops, op)
	}
	return c
}

// ---------------------------------------------------------------------------------
// subject wrapper (plain and secure tries share the oracle)

type subject struct {
	secure bool
	limit  uint16
	tr     *trie.Trie
	st     *trie.SecureTrie
	tdb    *trie.Database
	disk   *youdb.MemDatabase
}

func (s *subject) open(root common.Hash) error {
	var err error
	if s.secure {
		s.st, err = trie.NewSecure(root, s.tdb, s.limit)
	} else {
		s.tr, err = trie.New(root, s.tdb)
		if err == nil {
			s.tr.SetCacheLimit(s.limit)
		}
	}
	return err
}
func (s *subject) update(k, v []byte) error {
	if s.secure {
		return s.st.TryUpdate(k, v)
	}
	return s.tr.TryUpdate(k, v)
}
func (s *subject) del(k []byte) error {
	if s.secure {
		return s.st.TryDelete(k)
	}
	return s.tr.TryDelete(k)
}
func (s *subject) get(k []byte) ([]byte, error) {
	if s.secure {
		return s.st.TryGet(k)
	}
	return s.tr.TryGet(k)
}
func (s *subject) hash() common.Hash {
	if s.secure {
		return s.st.Hash()
	}
	return s.tr.Hash()
}
func (s *subject) commit() (common.Hash, error) {
	if s.secure {
		return s.st.Commit(nil)
	}
	return s.tr.Commit(nil)
}
func (s *subject) nodeIterator(start []byte) trie.NodeIterator {
	if s.secure {
		return s.st.NodeIterator(start)
	}
	return s.tr.NodeIterator(start)
}
func (s *subject) prove(k []byte, db youdb.Putter) error {
	if s.secure {
		return s.st.Prove(k, 0, db)
	}
	return s.tr.Prove(k, 0, db)
}

// trieKey maps a user key to the key actually stored in the trie.
func (s *subject) trieKey(k []byte) []byte {
	if s.secure {
		return keccak(k)
	}
	return k
}

func prefixFree(keys []string) bool {
	// keys sorted ascending
	for i := 0; i+1 < len(keys); i++ {
		if len(keys[i]) < len(keys[i+1]) && keys[i+1][:len(keys[i])] == keys[i] {
			return false
		}
	}
	return true
}

// proofList collects proof nodes in the order Prove emits them.
type proofList [][]byte

func (p *proofList) Put(key, value []byte) error {
	*p = append(*p, append([]byte(nil), value...))
	return nil
}
func (p *proofList) Delete(key []byte) error { return nil }

func dbOf(nodes [][]byte) *youdb.MemDatabase {
	db := youdb.NewMemDatabase()
	for _, n := range nodes {
		db.Put(keccak(n), n)
	}
	return db
}

// ---------------------------------------------------------------------------------
// runCase

func runCase(c Case) kit.Result {
	s := &subject{secure: c.Secure, limit: uint16(c.CacheLimit), disk: youdb.NewMemDatabase()}
	s.tdb = trie.NewDatabase(s.disk)
	if err := s.open(common.Hash{}); err != nil {
		return kit.Fail("open-empty", "opening the empty trie failed: %v", err)
	}
	model := map[string][]byte{} // trie key -> value
	touched := map[string][]byte{}
	var (
		curRoot      common.Hash // last committed root of the main trie
		haveRoot     bool
		refd         = map[common.Hash]int{} // reference count the harness holds per root in the node cache
		collapse     bool
		reopened     bool
		absentProof  bool
		gcAfterShare bool
		labels       = map[string]bool{}
	)
	// Reads go through the subject and load the nodes they resolve into the live trie, so they
	// are generated events (ops "get"/"getall") and a final sweep, never an after-every-step probe:
	// a history can therefore delete or update next to nodes that are only referenced by hash.
	checkKeys := func(when string, keys []string) *kit.Result {
		for _, uk := range keys {
			k := []byte(uk)
			got, err := s.get(k)
			if err != nil {
				r := kit.Fail("get-error", "%s: Get(%x) failed: %v", when, k, err)
				return &r
			}
			want := model[string(s.trieKey(k))]
			if !bytes.Equal(got, want) {
				r := kit.Fail("get-mismatch", "%s: Get(%x) = %x, model has %x", when, k, got, want)
				return &r
			}
		}
		return nil
	}
	checkRoot := func(when string) *kit.Result {
		got := s.hash()
		want := RefRoot(model)
		if !bytes.Equal(got[:], want) {
			r := kit.Fail("root-mismatch", "%s: Hash() = %x, independent MPT root of the %d surviving pairs = %x", when, got, len(model), want)
			return &r
		}
		return nil
	}
	iterate := func(when string, start []byte) *kit.Result {
		it := trie.NewIterator(s.nodeIterator(start))
		var keys []string
		seen := map[string]bool{}
		for it.Next() {
			k := string(it.Key)
			if seen[k] {
				r := kit.Fail("iter-duplicate", "%s: iterator returned key %x twice", when, it.Key)
				return &r
			}
			seen[k] = true
			want, ok := model[k]
			if !ok {
				r := kit.Fail("iter-invented", "%s: iterator returned key %x which is not in the model", when, it.Key)
				return &r
			}
			if !bytes.Equal(want, it.Value) {
				r := kit.Fail("iter-value", "%s: iterator value for %x = %x, model %x", when, it.Key, it.Value, want)
				return &r
			}
			keys = append(keys, k)
		}
		if it.Err != nil {
			r := kit.Fail("iter-error", "%s: iterator failed: %v", when, it.Err)
			return &r
		}
		var mk []string
		for k := range model {
			mk = append(mk, k)
		}
		sort.Strings(mk)
		if start == nil {
			if len(keys) != len(mk) {
				r := kit.Fail("iter-missing", "%s: iterator returned %d pairs, model has %d", when, len(keys), len(mk))
				return &r
			}
			if prefixFree(mk) {
				for i := range mk {
					if keys[i] != mk[i] {
						r := kit.Fail("iter-order", "%s: prefix-free key set not iterated in ascending order: position %d is %x, want %x", when, i, keys[i], mk[i])
						return &r
					}
				}
			}
		} else if withStart := append(append([]string{}, mk...), string(start)); func() bool { sort.Strings(withStart); return prefixFree(withStart) }() {
			// (only when neither a key nor the start is a prefix of another: the stated precondition)
			// every key strictly after start must be returned; nothing before start may be
			for _, k := range mk {
				if bytes.Compare([]byte(k), start) > 0 && !seen[k] {
					r := kit.Fail("seek-missing", "%s: iterating from %x skipped key %x", when, start, k)
					return &r
				}
			}
			for _, k := range keys {
				if bytes.Compare([]byte(k), start) < 0 {
					r := kit.Fail("seek-before", "%s: iterating from %x returned earlier key %x", when, start, k)
					return &r
				}
			}
		}
		return nil
	}
	refAgain := false
	doCommit := func() *kit.Result {
		root, err := s.commit()
		if err != nil {
			r := kit.Fail("commit-error", "Commit failed: %v", err)
			return &r
		}
		if want := RefRoot(model); !bytes.Equal(root[:], want) {
			r := kit.Fail("root-mismatch", "Commit() root = %x, independent MPT root = %x", root, want)
			return &r
		}
		if len(model) > 0 && (refd[root] == 0 || refAgain) {
			// core/blockchain.go references the state root of every block, also when
			// consecutive blocks share it
			s.tdb.Reference(root, common.Hash{})
			refd[root]++
			if refd[root] > 1 {
				labels["root-referenced-twice"] = true
			}
		}
		curRoot, haveRoot = root, len(model) > 0
		return nil
	}

	for i, op := range c.Ops {
		when := fmt.Sprintf("op %d (%s)", i, op.Kind)
		switch op.Kind {
		case "update":
			tk := string(s.trieKey(op.Key))
			if err := s.update(op.Key, op.Val); err != nil {
				return kit.Fail("update-error", "%s: %v", when, err)
			}
			touched[string(op.Key)] = nil
			if len(op.Val) == 0 {
				if _, ok := model[tk]; ok && len(model) >= 2 {
					collapse = true
				}
				delete(model, tk)
			} else {
				model[tk] = op.Val
			}
		case "delete":
			if op.N%3 != 0 && len(touched) > 0 {
				var tl []string
				for k := range touched {
					tl = append(tl, k)
				}
				sort.Strings(tl)
				op.Key = []byte(tl[(op.N/3)%len(tl)])
			}
			tk := string(s.trieKey(op.Key))
			if err := s.del(op.Key); err != nil {
				return kit.Fail("delete-error", "%s: %v", when, err)
			}
			touched[string(op.Key)] = nil
			if _, ok := model[tk]; ok && len(model) >= 2 {
				collapse = true
			}
			delete(model, tk)
		case "hash":
			if r := checkRoot(when); r != nil {
				return *r
			}
		case "commit":
			refAgain = op.N%2 == 1
			r := doCommit()
			refAgain = false
			if r != nil {
				return *r
			}
		case "get":
			var tl []string
			for k := range touched {
				tl = append(tl, k)
			}
			if len(tl) == 0 {
				continue
			}
			sort.Strings(tl)
			if r := checkKeys(when, []string{tl[op.N%len(tl)]}); r != nil {
				return *r
			}
		case "getall":
			var tl []string
			for k := range touched {
				tl = append(tl, k)
			}
			sort.Strings(tl)
			if r := checkKeys(when, tl); r != nil {
				return *r
			}
		case "reopen":
			if r := doCommit(); r != nil {
				return *r
			}
			root := common.Hash{}
			if haveRoot {
				root = curRoot
				if err := s.tdb.Commit(root, false); err != nil {
					return kit.Fail("dbcommit-error", "%s: Database.Commit: %v", when, err)
				}
			}
			// a brand new node cache over the same disk: nothing may live only in memory
			s.tdb = trie.NewDatabase(s.disk)
			refd = map[common.Hash]int{}
			if err := s.open(root); err != nil {
				return kit.Fail("reopen-error", "%s: reopening committed root %x failed: %v", when, root, err)
			}
			if haveRoot {
				reopened = true
				labels["reopen"] = true
			}
			if r := iterate(when, nil); r != nil {
				return *r
			}
		case "other":
			// an unrelated trie in the same node database that shares most content with
			// the main one (so reference counting of shared nodes matters)
			ot, err := trie.New(common.Hash{}, s.tdb)
			if err != nil {
				return kit.Fail("open-empty", "%s: %v", when, err)
			}
			for k, v := range model {
				ot.Update([]byte(k), v)
			}
			ok := op.Key
			if c.Secure {
				ok = keccak(op.Key)
			}
			ot.Update(ok, append([]byte{0xee}, op.Val...))
			root, err := ot.Commit(nil)
			if err != nil {
				return kit.Fail("commit-error", "%s: %v", when, err)
			}
			if refd[root] == 0 || op.N%3 == 0 {
				s.tdb.Reference(root, common.Hash{})
				refd[root]++
			}
		case "deref":
			// garbage-collect a referenced root other than the current one
			var cand []string
			for r, n := range refd {
				// the current root must keep one reference; any surplus may go
				if n > 1 || (n == 1 && !(haveRoot && r == curRoot)) {
					cand = append(cand, string(r[:]))
				}
			}
			if len(cand) > 0 {
				sort.Strings(cand)
				r := common.BytesToHash([]byte(cand[op.N%len(cand)]))
				s.tdb.Dereference(r)
				if refd[r]--; refd[r] == 0 {
					delete(refd, r)
				}
				if haveRoot {
					gcAfterShare = true
					labels["gc-other-root"] = true
				}
			}
		case "renew":
			// a new trie object on the same node cache, without flushing to disk
			if r := doCommit(); r != nil {
				return *r
			}
			root := common.Hash{}
			if haveRoot {
				root = curRoot
			}
			if err := s.open(root); err != nil {
				return kit.Fail("reopen-error", "%s: opening committed root %x from the node cache failed: %v", when, root, err)
			}
			if haveRoot {
				reopened = true
				labels["renew"] = true
			}
		case "cap":
			// Cap flushes the oldest dirty nodes to disk until the cache is below the limit
			if err := s.tdb.Cap(common.StorageSize(op.N % 4096)); err != nil {
				return kit.Fail("cap-error", "%s: %v", when, err)
			}
			labels["cap"] = true
		case "iterate":
			if r := iterate(when, nil); r != nil {
				return *r
			}
		case "seek":
			if r := iterate(when, s.trieKey(op.Key)); r != nil {
				return *r
			}
		case "prove", "prove_absent":
			if len(model) == 0 {
				continue
			}
			var uk []byte
			if op.Kind == "prove" {
				var tl []string
				for k := range touched {
					tl = append(tl, k)
				}
				sort.Strings(tl)
				uk = []byte(tl[op.N%len(tl)])
			} else {
				uk = op.Key
			}
			// SecureTrie.Prove takes the already hashed key (as its callers pass it)
			tk := s.trieKey(uk)
			var pl proofList
			if err := s.prove(tk, &pl); err != nil {
				return kit.Fail("prove-error", "%s: Prove(%x): %v", when, uk, err)
			}
			root := s.hash()
			val, _, err := trie.VerifyProof(root, tk, dbOf(pl))
			if err != nil {
				return kit.Fail("proof-rejected", "%s: honest proof for %x does not verify: %v", when, uk, err)
			}
			want := model[string(tk)]
			if !bytes.Equal(val, want) {
				return kit.Fail("proof-wrong-value", "%s: proof for %x verifies to %x, model has %x", when, uk, val, want)
			}
			if want == nil {
				absentProof = true
				labels["absence-proof"] = true
			}
		}
	}
	// final: full comparison, root, history independence
	if r := checkRoot("final"); r != nil {
		return *r
	}
	if r := iterate("final", nil); r != nil {
		return *r
	}
	{
		var tl []string
		for k := range touched {
			tl = append(tl, k)
		}
		sort.Strings(tl)
		if r := checkKeys("final", tl); r != nil {
			return *r
		}
	}
	// a fresh trie built from the model in descending order has the same root
	fresh, _ := trie.New(common.Hash{}, trie.NewDatabase(youdb.NewMemDatabase()))
	var mk []string
	for k := range model {
		mk = append(mk, k)
	}
	sort.Sort(sort.Reverse(sort.StringSlice(mk)))
	for _, k := range mk {
		fresh.Update([]byte(k), model[k])
	}
	if fresh.Hash() != s.hash() {
		return kit.Fail("history-dependence", "root after history %x != root of a fresh trie with the same content %x", s.hash(), fresh.Hash())
	}
	var ls []string
	for l := range labels {
		ls = append(ls, l)
	}
	if collapse {
		ls = append(ls, "delete-present")
	}
	if c.Secure {
		ls = append(ls, "secure")
	}
	sort.Strings(ls)
	return kit.OK(collapse || reopened || absentProof || gcAfterShare, ls...)
}

var _ = kit.Register(kit.Prop[Case]{
	Name: "TrieModel",
	Rule: "random histories (1-100 ops) of update/delete/hash/commit/reopen/reference+dereference of content-sharing tries/cap/iterate/seek/prove over prefix-heavy 1-4 byte keys from {00,01,10,11,ff} (or 24 hashed keys for SecureTrie) and values of 0/1/31/32/33/100+ bytes, checked after every op against a Go map and an independent MPT root calculator; non-trivial = deletes a present key from a >=2 key trie, or reopens a committed root on a fresh node cache, or garbage-collects a content-sharing root, or proves absence; distinct = FNV-64 of the case JSON",
	Gen:  genCase, Run: runCase,
	Quick: 6000, Thorough: 100000, Chunk: 500, MinNonTrivialPct: 40,
})

// ---------------------------------------------------------------------------------
// proofs and tampering

// ProofCase is a trie content plus a queried key and a tampering of the proof.
type ProofCase struct {
	Keys   [][]byte `json:"keys"`
	Vals   [][]byte `json:"vals"`
	Query  []byte   `json:"query"`
	Other  []byte   `json:"other"`  // a second key, verified against the first key's proof
	Tamper string   `json:"tamper"` // none, flip, drop, swap, foreign, truncate
	Node   int      `json:"node"`
	Byte   int      `json:"byte"`
	Bit    int      `json:"bit"`
}

func genProofCase(t *rapid.T) ProofCase {
	var c ProofCase
	n := rapid.IntRange(1, 24).Draw(t, "n")
	for i := 0; i < n; i++ {
		c.Keys = append(c.Keys, genKey(t, false))
		v := genVal(t)
		if len(v) == 0 {
			v = []byte{1}
		}
		c.Vals = append(c.Vals, v)
	}
	if rapid.Bool().Draw(t, "present") {
		c.Query = c.Keys[rapid.IntRange(0, n-1).Draw(t, "qi")]
	} else {
		c.Query = genKey(t, false)
	}
	if rapid.Bool().Draw(t, "otherPresent") {
		c.Other = c.Keys[rapid.IntRange(0, n-1).Draw(t, "oi")]
	} else {
		c.Other = genKey(t, false)
	}
	c.Tamper = rapid.SampledFrom([]string{"none", "flip", "flip", "flip", "drop", "swap", "foreign", "truncate"}).Draw(t, "tamper")
	c.Node = rapid.IntRange(0, 15).Draw(t, "node")
	c.Byte = rapid.IntRange(0, 600).Draw(t, "byte")
	c.Bit = rapid.IntRange(0, 7).Draw(t, "bit")
	return c
}

func runProofCase(c ProofCase) kit.Result {
	tr, _ := trie.New(common.Hash{}, trie.NewDatabase(youdb.NewMemDatabase()))
	model := map[string][]byte{}
	for i, k := range c.Keys {
		tr.Update(k, c.Vals[i])
		model[string(k)] = c.Vals[i]
	}
	root := tr.Hash()
	if want := RefRoot(model); !bytes.Equal(root[:], want) {
		return kit.Fail("root-mismatch", "Hash() = %x, reference root = %x", root, want)
	}
	var pl proofList
	if err := tr.Prove(c.Query, 0, &pl); err != nil {
		return kit.Fail("prove-error", "Prove(%x): %v", c.Query, err)
	}
	want := model[string(c.Query)]
	val, _, err := trie.VerifyProof(root, c.Query, dbOf(pl))
	if err != nil {
		return kit.Fail("proof-rejected", "honest proof for %x does not verify: %v", c.Query, err)
	}
	if !bytes.Equal(val, want) {
		return kit.Fail("proof-wrong-value", "honest proof for %x verifies to %x, content has %x", c.Query, val, want)
	}
	labels := []string{"tamper:" + c.Tamper}
	if want == nil {
		labels = append(labels, "absent")
	}
	// the same node set, asked about another key: error or the true answer
	if v2, _, err2 := trie.VerifyProof(root, c.Other, dbOf(pl)); err2 == nil {
		if w2 := model[string(c.Other)]; !bytes.Equal(v2, w2) {
			return kit.Fail("proof-other-key", "proof nodes of %x verify key %x to %x, content has %x", c.Query, c.Other, v2, w2)
		}
		labels = append(labels, "other-key-decided")
	}
	nodes := make([][]byte, len(pl))
	for i := range pl {
		nodes[i] = append([]byte(nil), pl[i]...)
	}
	switch c.Tamper {
	case "none":
	case "flip":
		n := nodes[c.Node%len(nodes)]
		n[c.Byte%len(n)] ^= 1 << uint(c.Bit)
	case "truncate":
		j := c.Node % len(nodes)
		nodes[j] = nodes[j][:c.Byte%len(nodes[j])]
	case "drop":
		j := c.Node % len(nodes)
		nodes = append(nodes[:j], nodes[j+1:]...)
	case "swap":
		// replace a node by a node of the proof of the other key
		var pl2 proofList
		tr.Prove(c.Other, 0, &pl2)
		nodes[c.Node%len(nodes)] = pl2[c.Byte%len(pl2)]
	case "foreign":
		// replace a node by the corresponding node of a trie where the queried key has another value
		tr2, _ := trie.New(common.Hash{}, trie.NewDatabase(youdb.NewMemDatabase()))
		for i, k := range c.Keys {
			tr2.Update(k, c.Vals[i])
		}
		tr2.Update(c.Query, []byte{0xde, 0xad, byte(c.Bit)})
		var pl2 proofList
		tr2.Prove(c.Query, 0, &pl2)
		nodes[c.Node%len(nodes)] = pl2[c.Node%len(nodes)%len(pl2)]
	}
	tv, _, terr := trie.VerifyProof(root, c.Query, dbOf(nodes))
	if terr == nil && !bytes.Equal(tv, want) {
		return kit.Fail("tampered-proof-accepted", "tampered (%s) proof for %x verifies to %x, the trie holds %x", c.Tamper, c.Query, tv, want)
	}
	if terr != nil {
		labels = append(labels, "tamper-rejected")
	}
	return kit.OK(c.Tamper != "none" || want == nil, labels...)
}

var _ = kit.Register(kit.Prop[ProofCase]{
	Name: "TrieProof",
	Rule: "1-24 prefix-heavy keys; Prove a present or absent key, verify against the root (must give exactly the stored value / absence); verify the same node set for a second key (error or true answer); then tamper (bit flip, truncation, dropped node, node of another proof, node of a trie holding another value) with nodes re-keyed by their own hash - must be rejected or give the true answer; non-trivial = tampered or absence proof",
	Gen:  genProofCase, Run: runProofCase,
	Quick: 8000, Thorough: 200000, Chunk: 1000, MinNonTrivialPct: 50,
})

// ---------------------------------------------------------------------------------
// DeriveSha agrees with the reference root for index-keyed lists

type ListCase struct {
	Items [][]byte `json:"items"`
}

func (l ListCase) Len() int            { return len(l.Items) }
func (l ListCase) GetRlp(i int) []byte { return l.Items[i] }

func genListCase(t *rapid.T) ListCase {
	n := rapid.IntRange(0, 300).Draw(t, "n")
	if rapid.IntRange(0, 3).Draw(t, "small") > 0 {
		n %= 20
	}
	var c ListCase
	for i := 0; i < n; i++ {
		v := genVal(t)
		if len(v) == 0 {
			v = []byte{0x80}
		}
		c.Items = append(c.Items, v)
	}
	return c
}

// refUintRLP is the RLP encoding of an unsigned integer (independent of /repo/rlp).
func refUintRLP(i int) []byte {
	if i == 0 {
		return []byte{0x80}
	}
	var be []byte
	for x := i; x > 0; x >>= 8 {
		be = append([]byte{byte(x)}, be...)
	}
	return rlpString(be)
}

func runListCase(c ListCase) kit.Result {
	got := types.DeriveSha(c)
	m := map[string][]byte{}
	for i, it := range c.Items {
		m[string(refUintRLP(i))] = it
	}
	if want := RefRoot(m); !bytes.Equal(got[:], want) {
		return kit.Fail("derivesha-mismatch", "DeriveSha of %d items = %x, reference root = %x", len(c.Items), got, want)
	}
	return kit.OK(len(c.Items) >= 2, fmt.Sprintf("len>=128:%v", len(c.Items) >= 128))
}

var _ = kit.Register(kit.Prop[ListCase]{
	Name: "DeriveSha",
	Rule: "lists of 0-300 byte strings keyed by rlp(index); DeriveSha must equal the independent MPT root; non-trivial = at least 2 items",
	Gen:  genListCase, Run: runListCase,
	Quick: 500, Thorough: 10000, Chunk: 250, MinNonTrivialPct: 30,
})

// ---------------------------------------------------------------------------------
// leaf-to-subtrie references, as the state uses the node database: an account trie
// whose leaves name storage tries; Commit's leaf callback references each sub-trie
// root from the leaf's parent node, so garbage collection and flushing follow the link.

type KV struct {
	K []byte `json:"k"`
	V []byte `json:"v"`
}

type MainEntry struct {
	K    []byte `json:"k"`
	Link int    `json:"link"` // >= 0: value is the root of sub-trie Link%len(subs); -1: plain value V
	V    []byte `json:"v,omitempty"`
}

type LinkCase struct {
	Subs  [][]KV        `json:"subs"`
	Mains [][]MainEntry `json:"mains"` // successive versions of the main trie (each committed and referenced)
	Sched []Op          `json:"sched"` // deref (N: which version), flush (N), cap
}

func genLinkCase(t *rapid.T) LinkCase {
	var c LinkCase
	ns := rapid.IntRange(1, 4).Draw(t, "nsubs")
	for i := 0; i < ns; i++ {
		var sub []KV
		n := rapid.IntRange(1, 6).Draw(t, "nsub")
		for j := 0; j < n; j++ {
			v := genVal(t)
			if len(v) == 0 {
				v = []byte{7}
			}
			sub = append(sub, KV{K: genKey(t, false), V: v})
		}
		c.Subs = append(c.Subs, sub)
	}
	nm := rapid.IntRange(1, 3).Draw(t, "nmains")
	for i := 0; i < nm; i++ {
		var m []MainEntry
		n := rapid.IntRange(1, 7).Draw(t, "nmain")
		for j := 0; j < n; j++ {
			// fixed-length keys: the leaf callback is only issued for leaves below short nodes and
			// in branch slots 0-15, i.e. it assumes (like the state's hashed account keys) that no
			// key is a prefix of another
			k := genKey(t, false)
			e := MainEntry{K: append(append([]byte{}, k...), 0, 0, 0)[:3], Link: -1}
			if rapid.IntRange(0, 2).Draw(t, "islink") > 0 {
				e.Link = rapid.IntRange(0, ns-1).Draw(t, "link")
			} else {
				e.V = genVal(t)
				if len(e.V) == 0 {
					e.V = []byte{9}
				}
			}
			m = append(m, e)
		}
		c.Mains = append(c.Mains, m)
	}
	no := rapid.IntRange(0, 6).Draw(t, "nsched")
	for i := 0; i < no; i++ {
		c.Sched = append(c.Sched, Op{Kind: rapid.SampledFrom([]string{"deref", "deref", "flush", "cap", "reload"}).Draw(t, "skind"),
			N: rapid.IntRange(0, 1<<12).Draw(t, "n")})
	}
	return c
}

func runLinkCase(c LinkCase) kit.Result {
	disk := youdb.NewMemDatabase()
	tdb := trie.NewDatabase(disk)
	// sub tries: committed, not referenced from the meta root (like storage tries)
	subRoot := make([]common.Hash, len(c.Subs))
	subModel := make([]map[string][]byte, len(c.Subs))
	for i, sub := range c.Subs {
		tr, _ := trie.New(common.Hash{}, tdb)
		subModel[i] = map[string][]byte{}
		for _, kv := range sub {
			tr.Update(kv.K, kv.V)
			subModel[i][string(kv.K)] = kv.V
		}
		r, err := tr.Commit(nil)
		if err != nil {
			return kit.Fail("commit-error", "sub trie %d: %v", i, err)
		}
		if want := RefRoot(subModel[i]); !bytes.Equal(r[:], want) {
			return kit.Fail("root-mismatch", "sub trie %d root %x, reference %x", i, r, want)
		}
		subRoot[i] = r
	}
	isSub := map[common.Hash]int{}
	for i, r := range subRoot {
		isSub[r] = i
	}
	// main versions, built on top of each other
	type version struct {
		root  common.Hash
		model map[string][]byte
		links map[int]bool
		alive bool
	}
	var vers []*version
	main, _ := trie.New(common.Hash{}, tdb)
	cur := map[string][]byte{}
	for vi, entries := range c.Mains {
		for _, e := range entries {
			v := e.V
			if e.Link >= 0 {
				v = subRoot[e.Link%len(subRoot)].Bytes()
			}
			main.Update(e.K, v)
			cur[string(e.K)] = v
		}
		root, err := main.Commit(func(leaf []byte, parent common.Hash) error {
			if len(leaf) == 32 {
				if _, ok := isSub[common.BytesToHash(leaf)]; ok {
					tdb.Reference(common.BytesToHash(leaf), parent)
				}
			}
			return nil
		})
		if err != nil {
			return kit.Fail("commit-error", "main version %d: %v", vi, err)
		}
		if want := RefRoot(cur); !bytes.Equal(root[:], want) {
			return kit.Fail("root-mismatch", "main version %d root %x, reference %x", vi, root, want)
		}
		tdb.Reference(root, common.Hash{})
		ver := &version{root: root, model: map[string][]byte{}, links: map[int]bool{}, alive: true}
		for k, v := range cur {
			ver.model[k] = v
			if len(v) == 32 {
				if i, ok := isSub[common.BytesToHash(v)]; ok {
					ver.links[i] = true
				}
			}
		}
		vers = append(vers, ver)
	}
	refs := map[common.Hash]int{}
	for _, v := range vers {
		refs[v.root]++
	}
	flushed := map[common.Hash]bool{}
	readAll := func(when string, root common.Hash, model map[string][]byte, what string) *kit.Result {
		tr, err := trie.New(root, tdb)
		if err != nil {
			r := kit.Fail("link-lost", "%s: %s (root %x) cannot be opened: %v", when, what, root, err)
			return &r
		}
		it := trie.NewIterator(tr.NodeIterator(nil))
		n := 0
		for it.Next() {
			if want, ok := model[string(it.Key)]; !ok || !bytes.Equal(want, it.Value) {
				r := kit.Fail("link-content", "%s: %s holds %x=%x, model %x", when, what, it.Key, it.Value, want)
				return &r
			}
			n++
		}
		if it.Err != nil {
			r := kit.Fail("link-lost", "%s: reading %s (root %x) failed: %v", when, what, root, it.Err)
			return &r
		}
		if n != len(model) {
			r := kit.Fail("link-content", "%s: %s holds %d pairs, model %d", when, what, n, len(model))
			return &r
		}
		return nil
	}
	checkAlive := func(when string) *kit.Result {
		for vi, v := range vers {
			if !v.alive {
				continue
			}
			if r := readAll(when, v.root, v.model, fmt.Sprintf("main version %d", vi)); r != nil {
				return r
			}
			for i := range v.links {
				if r := readAll(when, subRoot[i], subModel[i], fmt.Sprintf("sub trie %d linked from main version %d", i, vi)); r != nil {
					return r
				}
			}
		}
		return nil
	}
	if r := checkAlive("after commits"); r != nil {
		return *r
	}
	derefs, flushes := 0, 0
	for i, op := range c.Sched {
		when := fmt.Sprintf("sched %d (%s)", i, op.Kind)
		v := vers[op.N%len(vers)]
		switch op.Kind {
		case "deref":
			if !v.alive || flushed[v.root] {
				continue
			}
			tdb.Dereference(v.root)
			refs[v.root]--
			derefs++
			if refs[v.root] == 0 {
				for _, w := range vers {
					if w.root == v.root {
						w.alive = false
					}
				}
			}
		case "flush":
			if !v.alive {
				continue
			}
			if err := tdb.Commit(v.root, false); err != nil {
				return kit.Fail("dbcommit-error", "%s: %v", when, err)
			}
			flushed[v.root] = true
			flushes++
		case "cap":
			if err := tdb.Cap(common.StorageSize(op.N % 2048)); err != nil {
				return kit.Fail("cap-error", "%s: %v", when, err)
			}
		case "reload":
			// a fresh node cache over the disk: only flushed versions survive
			tdb = trie.NewDatabase(disk)
			for _, w := range vers {
				if !flushed[w.root] {
					w.alive = false
				}
			}
			refs = map[common.Hash]int{}
			for _, w := range vers {
				if w.alive {
					refs[w.root] = 0 // on disk: nothing to dereference any more
				}
			}
		}
		if r := checkAlive(when); r != nil {
			return *r
		}
	}
	nl := 0
	for _, v := range vers {
		nl += len(v.links)
	}
	return kit.OK(nl > 0 && (derefs > 0 || flushes > 0), fmt.Sprintf("versions:%d", len(vers)))
}

var _ = kit.Register(kit.Prop[LinkCase]{
	Name: "TrieLinks",
	Rule: "1-4 committed sub-tries and 1-3 successive versions of a main trie whose leaves are plain values or roots of sub-tries; every version is committed with a leaf callback that references the linked sub-trie root from the leaf's parent node (as StateDB.Commit does for storage tries) and referenced from the meta root; then a generated schedule of dereference / flush-to-disk / cap / fresh node cache. After every step every version that is still referenced (or flushed), and every sub-trie it links, must be completely readable and equal to its model. Non-trivial = at least one link and one dereference or flush",
	Gen:  genLinkCase, Run: runLinkCase,
	Quick: 2500, Thorough: 60000, Chunk: 500, MinNonTrivialPct: 30,
})
