package c12

import (
	"fmt"
	"sort"
	"strings"
	"sync"
	"testing"

	"pgregory.net/rapid"
	"verif/kit"
)

func TestMain(m *testing.M) {
	installTable() // process-wide params.Versions: set once, before any case, never changed
	kit.Main(m, "C12")
}
func TestProps(t *testing.T)  { kit.RunAll(t) }
func TestReplay(t *testing.T) { kit.ReplayAll(t) }

// ---------------------------------------------------------------------------------
// bounded exhaustive enumeration

// ExhCase names the parameter sets (by version id) whose upgrade state machine is
// enumerated completely: every chain of Depth headers in which each header is ANY
// element of the full cross product of the per-field value sets (valueSets) that the
// real verifier accepts. Exclude lists the recorded defect classes that are cut out by
// construction (decided by the generator from known_findings.json).
type ExhCase struct {
	Versions []uint64 `json:"versions"`
	Depth    int      `json:"depth"`
	Start    uint64   `json:"start"`
	Exclude  []string `json:"exclude,omitempty"`
}

// smallSets: the smallest parameter sets of the table: voteRounds <= 3, waits <= 1,
// own wait 0 or 2, approved upgrade none or known.
func smallSets() []uint64 {
	var out []uint64
	for _, r := range table[1:] {
		if r.VoteRounds <= 3 && r.MaxWait <= 1 && (r.UpgradeWait == 0 || r.UpgradeWait == 2) && (r.Approved == 0 || known(r.Approved)) {
			// one row per (approved none / approved known): the table lists none first and three known targets
			idx := (r.ID - 1) % 5
			if idx == 0 || idx == 2 {
				out = append(out, r.ID)
			}
		}
	}
	return out
}

func genExh(t *rapid.T) ExhCase {
	late, zero := exclusions()
	all := smallSets()
	shard, shards := kit.Shard()
	c := ExhCase{Depth: 6, Start: 10}
	stride := 5 // quick: every 5th small set (coprime with the table period of 12), rotated by the seed
	if kit.Thorough() {
		c.Depth, stride = 10, 1
	}
	off := int(kit.Seed()) % stride
	for i, v := range all {
		if i%stride == off && (i/stride)%shards == shard {
			c.Versions = append(c.Versions, v)
		}
	}
	if late {
		c.Exclude = append(c.Exclude, classLate)
	}
	if zero {
		c.Exclude = append(c.Exclude, classZeroWait)
	}
	rapid.Just(0).Draw(t, "fixed")
	return c
}

type exhState struct {
	H Hdr
	L Live
}

type exhNode struct {
	parent *exhNode
	st     exhState
	paths  float64
}

func chainOf(n *exhNode) []Hdr {
	var rev []Hdr
	for ; n != nil && n.parent != nil; n = n.parent {
		rev = append(rev, n.st.H)
	}
	out := make([]Hdr, len(rev))
	for i := range rev {
		out[i] = rev[len(rev)-1-i]
	}
	return out
}

var exhReported sync.Map

func runExh(c ExhCase) kit.Result {
	exLate, exZero := false, false
	for _, e := range c.Exclude {
		exLate = exLate || e == classLate
		exZero = exZero || e == classZeroWait
	}
	var (
		totalStates, totalCands, totalAccepted, exclCount int
		totalChains                                        float64
		labels                                             = map[string]bool{}
		reachedSwitch, reachedFail                         int
	)
	for _, ver := range c.Versions {
		if !known(ver) {
			return kit.Discarded("unknown version in exhaustive set")
		}
		root := &exhNode{st: exhState{H: Hdr{Cur: ver}}, paths: 1}
		layer := []*exhNode{root}
		for d := 0; d <= c.Depth; d++ {
			num := c.Start + uint64(d)
			r := num + 1
			next := map[exhState]*exhNode{}
			var order []*exhNode
			for _, node := range layer {
				totalStates++
				prev, l := node.st.H, node.st.L
				row, ok := rowOf(prev.Cur)
				if !ok {
					continue // switched to a locally unknown version: the documented Crit ends the chain
				}
				failAt := func(v *viol, extra *Hdr) kit.Result {
					ch := chainOf(node)
					if extra != nil {
						ch = append(ch, *extra)
					}
					var sb strings.Builder
					for i, h := range ch {
						fmt.Fprintf(&sb, "\n  round %d: %v", c.Start+1+uint64(i), h)
					}
					return kit.Fail(v.class, "%s\nparameter set: first version %d; parameters of version %d: %+v\nchain from a proposal-free header number %d:%s\nas UpgradeChains case: {\"start\":%d,\"version\":%d,\"steps\":%s}",
						v.msg, ver, prev.Cur, row, c.Start, sb.String(), c.Start, ver, stepsJSON(ch))
				}
				if bv := builderCheck(l, prev, num, row, labels); bv != nil {
					return failAt(bv, nil)
				}
				if bv := builderStatementCheck(l, prev, num, row); bv != nil {
					return failAt(bv, nil)
				}
				if d == c.Depth {
					continue
				}
				curS, nextS, apprS, vbS, swS := valueSets(prev, r, row)
				for _, cu := range curS {
					for _, nx := range nextS {
						for _, ap := range apprS {
							for _, vb := range vbS {
								for _, sw := range swS {
									cand := Hdr{Cur: cu, Next: nx, Appr: ap, VB: vb, SW: sw}
									totalCands++
									if (exLate && excludedLate(l, prev, cand, r)) || (exZero && excludedZero(cand, r, row.Threshold)) {
										exclCount++
										continue
									}
									v, msg := verify(prev, num, cand)
									if v == vRejected {
										continue
									}
									if v == vCrit && !(cand.Cur != prev.Cur && !known(cand.Cur)) {
										return failAt(&viol{"unexpected-crit", fmt.Sprintf("verifying %v at round %d after %v terminated the process: %s", cand, r, prev, msg)}, &cand)
									}
									totalAccepted++
									nl, sv, notes := l.step(prev, cand, r, row)
									if sv != nil {
										return failAt(sv, &cand)
									}
									if notes.switched {
										reachedSwitch++
									}
									if notes.deadline && notes.dropped {
										reachedFail++
									}
									if notes.rewritten {
										labels["vote-deadline-rewritten(accepted)"] = true
									}
									st := exhState{H: cand, L: nl}
									if e := next[st]; e != nil {
										e.paths += node.paths
									} else {
										nn := &exhNode{parent: node, st: st, paths: node.paths}
										next[st] = nn
										order = append(order, nn)
									}
								}
							}
						}
					}
				}
			}
			if d == c.Depth {
				for _, node := range layer {
					totalChains += node.paths
				}
				break
			}
			layer = order
		}
	}
	key := fmt.Sprint(c)
	if _, dup := exhReported.LoadOrStore(key, true); !dup {
		shard, _ := kit.Shard()
		kit.Extra(map[string]interface{}{
			"exhaustive": true, "prop": "UpgradeExhaustive", "shard": shard,
			"what":                       "every chain of `depth` headers over the full cross product of the per-field value sets, filtered by the real verifier, from a proposal-free header; reference oracle and builder/verifier agreement at every state",
			"parameter_sets":             len(c.Versions),
			"parameter_set_version_ids":  c.Versions,
			"depth":                      c.Depth,
			"distinct_states_visited":    totalStates,
			"candidate_headers_verified": totalCands,
			"accepted_transitions":       totalAccepted,
			"accepted_chains_of_depth":   totalChains,
			"switch_transitions":         reachedSwitch,
			"failed_proposal_clears":     reachedFail,
			"excluded_known_transitions": exclCount,
			"excluded_classes":           c.Exclude,
		})
	}
	var ls []string
	for k := range labels {
		ls = append(ls, k)
	}
	if exclCount > 0 {
		ls = append(ls, "excluded-known-transitions")
	}
	sort.Strings(ls)
	return kit.OK(reachedSwitch > 0 && reachedFail > 0, ls...)
}

func stepsJSON(ch []Hdr) string {
	var parts []string
	for _, h := range ch {
		parts = append(parts, fmt.Sprintf(`{"cur":%d,"next":%d,"appr":%d,"vb":%d,"sw":%d}`, h.Cur, h.Next, h.Appr, h.VB, h.SW))
	}
	return "[" + strings.Join(parts, ",") + "]"
}

var _ = kit.Register(kit.Prop[ExhCase]{
	Name: "UpgradeExhaustive",
	Rule: "bounded exhaustive enumeration (no sampling): for each of the smallest parameter sets (voteRounds<=3, waits<=1; all 108 in the thorough tier split over the shards, every 5th in quick) ALL chains of depth 10 (quick: 6) whose headers are drawn from the full cross product of the per-field boundary value sets and accepted by the real verifier, deduplicated by (header, reference state); same oracle as UpgradeChains at every state; non-trivial = the enumeration contains both a version switch and a failed proposal",
	Gen:  genExh, Run: runExh,
	Quick: 1, Thorough: 1, Chunk: 1, MinNonTrivialPct: 0,
})
