package c12

// Chain-level prop: the protocol version a node applies follows the CURRENT canonical
// chain. The pure props of this package drive VerifyYouVersionState /
// ProcessYouVersionState on header pairs; here real (empty) blocks whose headers carry
// different upgrade histories are imported into the real core.BlockChain with the solo
// engine (block factory copied from checks/c11), the canonical chain is replaced by
// reorganisations and SetHead rollbacks, and after every step
//
//   - bc.VersionForRound(r) and bc.VersionForRoundWithParents(r, nil), for every round r
//     up to head+1, must be the parameters of CurrVersion of the canonical header at
//     max(r-8, 0), recomputed by the harness from bc.GetHeaderByNumber;
//   - the canonical headers 0..head must be a chain the real verifier accepts pair by
//     pair and the reference state machine of oracle.go finds no unapproved version
//     change in.

import (
	"fmt"
	"github.com/youchainhq/go-youchain/common"
	"runtime"
	"sort"
	"strings"
	"time"

	"github.com/youchainhq/go-youchain/consensus/solo"
	"github.com/youchainhq/go-youchain/core"
	"github.com/youchainhq/go-youchain/core/types"
	"github.com/youchainhq/go-youchain/event"
	"github.com/youchainhq/go-youchain/local"
	"github.com/youchainhq/go-youchain/miner"
	"github.com/youchainhq/go-youchain/params"
	"github.com/youchainhq/go-youchain/youdb"
	"pgregory.net/rapid"
	"verif/kit"
)

// classWrongParent: BlockChain.VerifyYouVersionState checks the first block of a batch
// against the canonical header at number-1 instead of the block's parent.
const classWrongParent = "version-verified-against-wrong-parent"

const roundBack = 8 // core.protocolRoundBack: the version of round r is announced by header r-8

// BranchSpec describes one branch of the block tree (13-22 blocks). Branch 0 starts at genesis; branch
// i > 0 forks off branch Parent (an earlier branch, modulo) after its block number At
// (0 = at the branch's own fork point, modulo). Acts[i] says what the producer of the
// i-th block does with the upgrade: 0 = does not vote / does not propose, 1 = proposes
// when there is no proposal and approves when there is one, 2 = proposes but never
// approves. Forced transitions (clearing a failed proposal at its deadline, switching at
// the announced round) are taken whenever the verifier demands them. Wait selects the
// announced wait inside [max(1,MinWait), MaxWait].
type BranchSpec struct {
	Parent int   `json:"parent"`
	At     int   `json:"at"`
	Acts   []int `json:"acts"`
	Wait   int   `json:"wait"`
}

// ChainOp is one step of the schedule.
//
//	insert : InsertChain(blocks From..To (1-based positions on the branch, modulo) of Branch)
//	sethead: bc.SetHead(N modulo (head+1))
//	graft  : InsertChain([graft N (modulo)])
type ChainOp struct {
	Kind   string `json:"kind"`
	Branch int    `json:"branch,omitempty"`
	From   int    `json:"from,omitempty"`
	To     int    `json:"to,omitempty"`
	N      int    `json:"n,omitempty"`
	// graft: the graft is offered behind its last Prefix ancestors (one InsertChain batch: blocks the
	// node may already know, then the graft)
	Prefix int `json:"prefix,omitempty"`
	// mine: the node's own block builder (the real miner worker) builds the next block on the current head,
	// after the HEADERS of up to Ahead following blocks of the head's branch were imported (header chain
	// ahead of the block chain, as after an interrupted fast sync). Only generated as the last op.
	Ahead int `json:"ahead,omitempty"`
}

// GraftSpec is an adversarial block: a child of block Pos (1-based, modulo) of branch
// Branch whose version fields are copied verbatim from the block with the same number on
// (the path of) branch From - fields that are valid after THAT block's parent, and
// usually not after the graft's own parent. Offered alone with the op "graft".
type GraftSpec struct {
	Branch int `json:"branch"`
	Pos    int `json:"pos"`
	From   int `json:"from"`
}

// ChainCase is one scenario. Versions is the cycle of protocol versions (table ids with
// small upgrade parameters): genesis runs Versions[0]; a proposal made under Versions[i]
// announces Versions[i+1] (cyclically).
type ChainCase struct {
	Versions []uint64     `json:"versions"`
	Branches []BranchSpec `json:"branches"`
	Grafts   []GraftSpec  `json:"grafts,omitempty"`
	Ops      []ChainOp    `json:"ops"`
	// generator bookkeeping: grafts were left out because their defect class is recorded
	ExclGrafts bool `json:"excluded_grafts,omitempty"`
}

// parameter sets with short voting windows (so that an upgrade completes and becomes
// visible through the 8-round look-back inside a chain of 12-22 blocks), every one with
// MaxWait >= 1: a zero wait is the recorded defect unapproved-zero-wait-switch and is
// never generated here; approvals are only added inside the window (late-approval).
var chainParamSets = [][4]uint64{{1, 1, 0, 1}, {1, 1, 1, 2}, {2, 1, 0, 1}, {2, 2, 0, 2}, {3, 2, 1, 2}, {3, 3, 0, 1}, {2, 3, 0, 1}, {1, 2, 0, 1}}

var (
	chainRowIDs []uint64
)

func chainRows() []uint64 {
	if chainRowIDs == nil {
		for _, ps := range chainParamSets {
			chainRowIDs = append(chainRowIDs, findRow(ps[0], ps[1], ps[2], ps[3]).ID)
		}
	}
	return chainRowIDs
}

func genChainCase(t *rapid.T) ChainCase {
	ids := chainRows()
	var c ChainCase
	nv := rapid.IntRange(2, 3).Draw(t, "nversions")
	for i := 0; i < nv; i++ {
		// (the first six sets can complete an upgrade; the last two have unreachable quorums)
		hi := len(ids) - 1
		if i == 0 {
			hi = 5 // the chain starts under parameters that allow an upgrade to complete
		}
		c.Versions = append(c.Versions, ids[rapid.IntRange(0, hi).Draw(t, "vset")])
	}
	genActs := func(n int, style int) []int {
		acts := make([]int, n)
		for i := range acts {
			switch style {
			case 0: // everybody approves
				acts[i] = 1
			case 1: // nobody proposes
				acts[i] = 0
			case 2: // proposals are made but never approved
				acts[i] = 2
			default:
				acts[i] = rapid.IntRange(0, 2).Draw(t, "act")
			}
		}
		return acts
	}
	nb := rapid.IntRange(2, 3).Draw(t, "branches")
	lens := make([]int, nb)
	for b := 0; b < nb; b++ {
		bs := BranchSpec{Wait: rapid.IntRange(0, 2).Draw(t, "wait")}
		n := rapid.IntRange(13, 22).Draw(t, "len")
		// branch 0 mostly approves; the others mostly behave differently
		style := rapid.SampledFrom([]int{0, 0, 0, 3, 1, 2}).Draw(t, "style")
		if b > 0 {
			style = rapid.SampledFrom([]int{1, 2, 3, 0, 1, 3}).Draw(t, "style")
			bs.Parent = rapid.IntRange(0, b-1).Draw(t, "parent")
			bs.At = rapid.IntRange(0, 4).Draw(t, "at") // fork low, below the first switch
		}
		bs.Acts = genActs(n, style)
		lens[b] = n
		c.Branches = append(c.Branches, bs)
	}
	ngraft := 0
	if !kit.IsKnown(classWrongParent) {
		ngraft = rapid.IntRange(0, 2).Draw(t, "grafts")
	} else {
		c.ExclGrafts = true // excluded by construction while the class is a recorded finding
	}
	for i := 0; i < ngraft; i++ {
		b := rapid.IntRange(0, nb-1).Draw(t, "gbranch")
		c.Grafts = append(c.Grafts, GraftSpec{Branch: b, Pos: rapid.IntRange(1, lens[b]).Draw(t, "gpos"), From: (b + 1 + rapid.IntRange(0, nb-2).Draw(t, "gfrom")) % nb})
	}
	nops := rapid.IntRange(3, 9).Draw(t, "nops")
	c.Ops = append(c.Ops, ChainOp{Kind: "insert", Branch: 0, From: 1, To: lens[0]})
	for i := 0; i < nops; i++ {
		switch k := rapid.IntRange(0, 9).Draw(t, "op"); {
		case k <= 5: // a whole branch from its fork point
			b := rapid.IntRange(0, nb-1).Draw(t, "branch")
			c.Ops = append(c.Ops, ChainOp{Kind: "insert", Branch: b, From: 1, To: lens[b]})
		case k <= 7: // part of a branch
			b := rapid.IntRange(0, nb-1).Draw(t, "branch")
			from := rapid.IntRange(1, lens[b]).Draw(t, "from")
			c.Ops = append(c.Ops, ChainOp{Kind: "insert", Branch: b, From: from, To: rapid.IntRange(from, lens[b]).Draw(t, "to")})
		case k == 8 && ngraft > 0:
			c.Ops = append(c.Ops, ChainOp{Kind: "graft", N: rapid.IntRange(0, ngraft-1).Draw(t, "graft"),
				Prefix: rapid.SampledFrom([]int{0, 0, 1, 2, 3, 6}).Draw(t, "gprefix")})
		default:
			c.Ops = append(c.Ops, ChainOp{Kind: "sethead", N: rapid.IntRange(0, 20).Draw(t, "sethead")})
		}
	}
	if rapid.IntRange(0, 2).Draw(t, "mine") == 0 {
		// a node that holds only the lower part of a branch (the rest was never imported: its headers can
		// run ahead), and whose own worker then builds on its head
		b := rapid.IntRange(0, nb-1).Draw(t, "mbranch")
		k := rapid.IntRange(1, lens[b]).Draw(t, "mupto")
		c.Ops = []ChainOp{{Kind: "insert", Branch: b, From: 1, To: k}}
		if b != 0 {
			c.Ops = append([]ChainOp{{Kind: "insert", Branch: 0, From: 1, To: lens[0]}}, c.Ops...)
		}
		c.Ops = append(c.Ops, ChainOp{Kind: "mine", Ahead: rapid.SampledFrom([]int{0, 1, 2, 3, 5, 9}).Draw(t, "ahead")})
	}
	return c
}

// ---------------------------------------------------------------------------------
// block factory (solo engine, empty blocks, version state chosen per block)

type chainTree struct {
	gendb    *youdb.MemDatabase
	genesis  *types.Block
	branches [][]*types.Block // blocks of each branch, from its fork point upwards
	grafts   []*types.Block   // nil where the spec cannot be built
	graftBad []bool           // the graft's version state is rejected by the real verifier after its real parent
}

func chainGenesis(db youdb.Database, version uint64) *types.Block {
	g := &core.Genesis{
		NetworkId:   params.NetworkIdForTestCase,
		GasLimit:    params.GenesisGasLimit,
		Alloc:       core.GenesisAlloc{},
		CurrVersion: params.YouVersion(version),
	}
	return g.MustCommit(db)
}

// nextVersionState derives the version fields of the block after parent (number n) for
// a producer with behaviour act, and checks them with the real verifier against the
// block's REAL parent. ok=false: no candidate was accepted (the case is discarded).
func nextVersionState(prev Hdr, n uint64, act int, wait int, versions []uint64) (Hdr, bool) {
	r := n + 1
	row, known := rowOf(prev.Cur)
	if !known {
		return Hdr{}, false
	}
	target := versions[0]
	for i, v := range versions {
		if v == prev.Cur {
			target = versions[(i+1)%len(versions)]
		}
	}
	carry := prev
	cleared := Hdr{Cur: prev.Cur}
	var cands []Hdr
	switch {
	case prev.Next != 0 && r == prev.SW:
		cands = append(cands, Hdr{Cur: prev.Next})
	case prev.Next != 0 && r == prev.VB && prev.Appr < row.Threshold:
		cands = append(cands, cleared)
	case prev.Next == 0 && act != 0 && target != prev.Cur:
		lo := row.MinWait
		if lo < 1 {
			lo = 1
		}
		w := lo
		if row.MaxWait > lo {
			w = lo + uint64(wait)%(row.MaxWait-lo+1)
		}
		vb := r + row.VoteRounds
		cands = append(cands, Hdr{Cur: prev.Cur, Next: target, Appr: 1, VB: vb, SW: vb + w})
	case prev.Next != 0 && act == 1 && r < prev.VB:
		a := prev
		a.Appr++
		cands = append(cands, a)
	}
	cands = append(cands, carry, cleared)
	for _, c := range cands {
		if v, _ := verify(prev, n, c); v == vAccepted {
			return c, true
		}
	}
	return Hdr{}, false
}

func buildChainTree(c ChainCase) (*chainTree, string) {
	if len(c.Versions) == 0 || len(c.Branches) == 0 {
		return nil, "empty"
	}
	for _, v := range c.Versions {
		if !known(v) {
			return nil, "unknown version"
		}
	}
	tr := &chainTree{gendb: youdb.NewMemDatabase()}
	tr.genesis = chainGenesis(tr.gendb, c.Versions[0])
	engine := solo.NewSolo()
	proc := core.NewStateProcessor(nil, engine)
	for bi, bs := range c.Branches {
		parent := tr.genesis
		if bi > 0 {
			pb := tr.branches[mod(bs.Parent, bi)]
			// path of the parent branch: we only need the block itself; At = 0 means genesis
			// for branch-0 parents and the parent's first block otherwise - keep it simple:
			// At indexes the parent branch's blocks with 0 = the block the parent forked from
			if at := mod(bs.At, len(pb)+1); at > 0 {
				parent = pb[at-1]
			} else if pp := pb[0]; pp.NumberU64() > 1 {
				parent = tr.blockByHash(pp.ParentHash())
			}
		}
		var blocks []*types.Block
		for i, act := range bs.Acts {
			ph := hdrOf(parent.Header())
			vs, ok := nextVersionState(ph, parent.NumberU64(), act, bs.Wait, c.Versions)
			if !ok {
				return nil, "no acceptable version state"
			}
			out, _ := core.GenerateChain(parent, engine, tr.gendb, 1, proc, func(_ int, g *core.BlockGen) {
				g.SetExtra([]byte{byte(bi), byte(i)})
				h := g.Header()
				h.CurrVersion = params.YouVersion(vs.Cur)
				h.NextVersion = params.YouVersion(vs.Next)
				h.NextApprovals = vs.Appr
				h.NextVoteBefore = vs.VB
				h.NextSwitchOn = vs.SW
			})
			blocks = append(blocks, out[0])
			parent = out[0]
		}
		tr.branches = append(tr.branches, blocks)
	}
	for gi, gs := range c.Grafts {
		bs := tr.branches[mod(gs.Branch, len(tr.branches))]
		parent := bs[mod(gs.Pos-1, len(bs))]
		fb := tr.branches[mod(gs.From, len(tr.branches))]
		donor := tr.pathBlockAt(fb[len(fb)-1], parent.NumberU64()+1)
		if donor == nil || donor.ParentHash() == parent.Hash() {
			tr.grafts, tr.graftBad = append(tr.grafts, nil), append(tr.graftBad, false)
			continue
		}
		vs := hdrOf(donor.Header())
		out, _ := core.GenerateChain(parent, engine, tr.gendb, 1, proc, func(_ int, g *core.BlockGen) {
			g.SetExtra([]byte{0xee, byte(gi)})
			h := g.Header()
			h.CurrVersion = params.YouVersion(vs.Cur)
			h.NextVersion = params.YouVersion(vs.Next)
			h.NextApprovals = vs.Appr
			h.NextVoteBefore = vs.VB
			h.NextSwitchOn = vs.SW
		})
		v, _ := verify(hdrOf(parent.Header()), parent.NumberU64(), vs)
		tr.grafts, tr.graftBad = append(tr.grafts, out[0]), append(tr.graftBad, v != vAccepted)
	}
	return tr, ""
}

// pathBlockAt walks from tip towards genesis and returns the block with the given number.
func (tr *chainTree) pathBlockAt(tip *types.Block, number uint64) *types.Block {
	for b := tip; b != nil && b.NumberU64() >= number; b = tr.blockByHash(b.ParentHash()) {
		if b.NumberU64() == number {
			return b
		}
		if b.NumberU64() == 0 {
			break
		}
	}
	return nil
}

func (tr *chainTree) blockByHash(h [32]byte) *types.Block {
	if tr.genesis.Hash() == h {
		return tr.genesis
	}
	for _, bs := range tr.branches {
		for _, b := range bs {
			if b.Hash() == h {
				return b
			}
		}
	}
	return tr.genesis
}

func mod(i, n int) int {
	if n <= 0 {
		return 0
	}
	return ((i % n) + n) % n
}

// ---------------------------------------------------------------------------------
// the oracle

func versionLine(vs []uint64) string {
	var sb strings.Builder
	for i, v := range vs {
		if i > 0 && vs[i-1] != v {
			fmt.Fprintf(&sb, " | #%d:", i)
		} else if i == 0 {
			sb.WriteString("#0:")
		}
		fmt.Fprintf(&sb, " %d", v)
	}
	return sb.String()
}

// checkActiveVersion: VersionForRound follows the current canonical chain.
func checkActiveVersion(bc *core.BlockChain) (canon []Hdr, fail *kit.Result) {
	head := bc.CurrentBlock().NumberU64()
	for n := uint64(0); n <= head; n++ {
		h := bc.GetHeaderByNumber(n)
		if h == nil {
			out := kit.Discarded("canonical index has a hole (C11's subject)")
			return nil, &out
		}
		canon = append(canon, hdrOf(h))
	}
	for r := uint64(1); r <= head+1; r++ {
		pr := uint64(0)
		if r > roundBack {
			pr = r - roundBack
		}
		want := canon[pr].Cur
		wp, ok := params.Versions[params.YouVersion(want)]
		if !ok {
			out := kit.Discarded("canonical version not in the table")
			return nil, &out
		}
		for _, q := range []struct {
			name string
			f    func() (*params.YouParams, error)
		}{
			{"VersionForRound", func() (*params.YouParams, error) { return bc.VersionForRound(r) }},
			{"VersionForRoundWithParents", func() (*params.YouParams, error) { return bc.VersionForRoundWithParents(r, nil) }},
		} {
			name := q.name
			yp, err := q.f()
			if err != nil {
				out := kit.Fail("active-version-unavailable", "%s(%d) fails although canonical header %d exists (head #%d): %v", name, r, pr, head, err)
				return nil, &out
			}
			if uint64(yp.Version) != want || yp.UpgradeThreshold != wp.UpgradeThreshold || yp.UpgradeVoteRounds != wp.UpgradeVoteRounds ||
				yp.MinUpgradeWaitRounds != wp.MinUpgradeWaitRounds || yp.MaxUpgradeWaitRounds != wp.MaxUpgradeWaitRounds {
				var vs []uint64
				for _, h := range canon {
					vs = append(vs, h.Cur)
				}
				out := kit.Fail("active-version-not-canonical",
					"%s(%d) answers with the parameters of version %d, but the canonical header #%d (= round %d - %d) carries version %d %v: the node applies a protocol version the current canonical chain did not switch to\ncanonical CurrVersion by number: %s",
					name, r, yp.Version, pr, r, roundBack, want, canon[pr], versionLine(vs))
				return nil, &out
			}
		}
	}
	return canon, nil
}

// checkCanonicalHistory: the canonical headers form a chain the real verifier accepts
// and in which, by the reference state machine, the version only changes through an
// approved upgrade.
func checkCanonicalHistory(canon []Hdr) *kit.Result {
	var l Live
	for i := 1; i < len(canon); i++ {
		prev, curr := canon[i-1], canon[i]
		n := uint64(i - 1)
		row, ok := rowOf(prev.Cur)
		if !ok {
			out := kit.Discarded("canonical version not in the table")
			return &out
		}
		if v, msg := verify(prev, n, curr); v != vAccepted {
			out := kit.Fail("canonical-header-not-accepted", "canonical header #%d %v is not accepted by the version-state verifier after its canonical parent %v: %s", i, curr, prev, msg)
			return &out
		}
		nl, sv, _ := l.step(prev, curr, uint64(i), row)
		if sv != nil {
			out := kit.Fail("canonical-"+sv.class, "canonical chain, header #%d: %s", i, sv.msg)
			return &out
		}
		l = nl
	}
	return nil
}

func runChainCase(c ChainCase) (res kit.Result) {
	g0 := runtime.NumGoroutine()
	defer func() {
		for i := 0; i < 300 && runtime.NumGoroutine() > g0; i++ {
			if i < 50 {
				runtime.Gosched()
			} else {
				time.Sleep(50 * time.Microsecond)
			}
		}
	}()
	tr, why := buildChainTree(c)
	if tr == nil {
		return kit.Discarded(why)
	}
	db := youdb.NewMemDatabase()
	chainGenesis(db, c.Versions[0])
	engine, mux := solo.NewSolo(), new(event.TypeMux)
	engine.Update(true, 0, 1) // allowed to seal (the worker's Prepare asks)
	bc, err := core.NewBlockChain(db, engine, mux, params.ArchiveNode, local.FakeDetailDB())
	if err != nil {
		return kit.Fail("start-fails", "NewBlockChain: %v", err)
	}
	for i := 0; !bc.VerifIndexersActive(); i++ { // ChainIndexer.Close only stops a loop that already runs
		if i < 200 {
			runtime.Gosched()
		} else {
			time.Sleep(20 * time.Microsecond)
		}
	}
	defer func() {
		// a panic inside InsertChain unwinds with the chain's wait group still held: Stop would wait for ever
		if r := recover(); r != nil {
			go bc.Stop()
			panic(r)
		}
		bc.Stop()
	}()

	labels := map[string]bool{}
	nontrivial := false
	versionsOf := func(hs []Hdr) []uint64 {
		out := make([]uint64, len(hs))
		for i, h := range hs {
			out[i] = h.Cur
		}
		return out
	}
	prev, bad := checkActiveVersion(bc)
	if bad != nil {
		return *bad
	}
	// asked[n]: the version canonical header n carried when the harness last asked for a
	// round that looks back at it (n + 8 <= head + 1)
	asked := map[int]uint64{}
	graftCanonical := 0 // 1 + index of an invalid graft that has just become the head
	lastKind := ""
	for oi, op := range c.Ops {
		var what string
		switch op.Kind {
		case "insert":
			bs := tr.branches[mod(op.Branch, len(tr.branches))]
			from := 1 + mod(op.From-1, len(bs))
			to := 1 + mod(op.To-1, len(bs))
			if to < from {
				from, to = to, from
			}
			err := bc.InsertChain(bs[from-1 : to])
			what = fmt.Sprintf("op %d: InsertChain(branch %d, blocks #%d..#%d) err=%v", oi, mod(op.Branch, len(tr.branches)), bs[from-1].NumberU64(), bs[to-1].NumberU64(), err)
			if err != nil {
				labels["insert-rejected"] = true
			}
		case "graft":
			if len(tr.grafts) == 0 {
				continue
			}
			gi := mod(op.N, len(tr.grafts))
			g := tr.grafts[gi]
			if g == nil {
				continue
			}
			canonParent := bc.GetHeaderByNumber(g.NumberU64() - 1)
			batch := types.Blocks{g}
			if op.Prefix > 0 {
				byHash := map[common.Hash]*types.Block{}
				for _, bs := range tr.branches {
					for _, b := range bs {
						byHash[b.Hash()] = b
					}
				}
				for k := 0; k < op.Prefix; k++ {
					p, ok := byHash[batch[0].ParentHash()]
					if !ok {
						break
					}
					batch = append(types.Blocks{p}, batch...)
				}
				if len(batch) > 1 {
					labels["graft-behind-prefix"] = true
					if bc.HasBlock(batch[len(batch)-2].Hash(), batch[len(batch)-2].NumberU64()) {
						labels["graft-behind-known-prefix"] = true
					}
				}
			}
			err := bc.InsertChain(batch)
			what = fmt.Sprintf("op %d: InsertChain(%d of its ancestors, then graft %d = #%d, child of %x, version fields %v copied from the other branch; rejected by the verifier after its own parent: %v; canonical #%d at that moment was its parent: %v) err=%v",
				oi, len(batch)-1, gi, g.NumberU64(), g.ParentHash().Bytes()[:4], hdrOf(g.Header()), tr.graftBad[gi], g.NumberU64()-1, canonParent != nil && canonParent.Hash() == g.ParentHash(), err)
			if tr.graftBad[gi] {
				labels["invalid-graft-offered"] = true
				if err == nil && bc.CurrentBlock().Hash() == g.Hash() {
					graftCanonical = gi + 1
				}
			} else {
				labels["valid-graft-offered"] = true
			}
		case "mine":
			head := bc.CurrentBlock()
			// successors of the head on some branch (the blocks a sync would have delivered next)
			var ahead []*types.Header
			cur := head.Hash()
			for len(ahead) < op.Ahead {
				var next *types.Block
				for _, bs := range tr.branches {
					for _, b := range bs {
						if b.ParentHash() == cur && next == nil {
							next = b
						}
					}
				}
				if next == nil {
					break
				}
				ahead = append(ahead, next.Header())
				cur = next.Hash()
			}
			if len(ahead) > 0 {
				if _, err := bc.InsertGuaranteedHeaderChain(ahead); err != nil {
					what = fmt.Sprintf("op %d: InsertGuaranteedHeaderChain(%d headers after the head) err=%v", oi, len(ahead), err)
					ahead = nil
				} else {
					labels["header-chain-ahead"] = true
				}
			}
			pool := core.NewTxPool(core.TxPoolConfig{NoLocals: true, Rejournal: time.Hour, PriceLimit: 1, PriceBump: 10, AccountSlots: 16, GlobalSlots: 64, AccountQueue: 16, GlobalQueue: 64, Lifetime: time.Hour}, bc)
			w := miner.NewVerifWorker(engine, bc, mux)
			w.SetTxPool(pool)
			task := w.Build()
			pool.Stop()
			if task == nil {
				return kit.Fail("worker-built-nothing", "op %d: the worker produced no block on head #%d (header chain %d ahead)", oi, head.NumberU64(), len(ahead))
			}
			built := task.Block().Header()
			labels["worker-built"] = true
			if built.ParentHash != head.Hash() {
				return kit.Fail("worker-wrong-parent", "op %d: the worker built on %x, the head is %x", oi, built.ParentHash[:4], head.Hash().Bytes()[:4])
			}
			if err := core.VerifyYouVersionState(head.Header(), built); err != nil {
				return kit.Fail("worker-header-rejected", "op %d: head #%d %v, header chain %d ahead (current header #%d %v): the block the node's own worker built on the head carries %v, which the verifier REJECTS after its parent: %v",
					oi, head.NumberU64(), hdrOf(head.Header()), len(ahead), bc.CurrentHeader().Number.Uint64(), hdrOf(bc.CurrentHeader()), hdrOf(built), err)
			}
			if bc.CurrentHeader().Number.Uint64() > head.NumberU64() {
				labels["current-header-above-current-block"] = true
			}
			if len(ahead) > 0 && hdrOf(bc.CurrentHeader()) != hdrOf(head.Header()) {
				nontrivial = true
				labels["worker-built-while-headers-ahead-differ"] = true
			}
			continue // (last op: the chain-level invariants below are about imported blocks)
		case "sethead":
			n := uint64(mod(op.N, int(bc.CurrentBlock().NumberU64())+1))
			err := bc.SetHead(n)
			what = fmt.Sprintf("op %d: SetHead(%d) err=%v", oi, n, err)
			labels["sethead"] = true
		default:
			continue
		}
		canon, bad := checkActiveVersion(bc)
		if bad != nil {
			if bad.Violation != nil {
				bad.Violation.Msg = what + ", head now #" + fmt.Sprint(bc.CurrentBlock().NumberU64()) + "\n" + bad.Violation.Msg +
					"\nbefore the step:                 " + versionLine(versionsOf(prev))
			}
			return *bad
		}
		if bad := checkCanonicalHistory(canon); bad != nil {
			if bad.Violation != nil {
				bad.Violation.Msg = what + "\n" + bad.Violation.Msg
				// root cause class: the head is a block whose version state the verifier rejects
				// after its parent; InsertChain checked it against the canonical header of the
				// previous number, which belonged to another branch
				if graftCanonical > 0 && bc.GetHeaderByNumber(tr.grafts[graftCanonical-1].NumberU64()).Hash() == tr.grafts[graftCanonical-1].Hash() {
					bad.Violation.Class = classWrongParent
				}
			}
			return *bad
		}
		// shape: did the step replace canonical headers by ones with another version?
		for n := 0; n < len(prev) && n < len(canon); n++ {
			if prev[n].Cur != canon[n].Cur {
				labels["replaced-segment-with-other-version"] = true
				break
			}
		}
		// observable: a round whose look-back header now carries another version than
		// when the node was last asked about it
		for n := 0; n+roundBack <= len(canon); n++ {
			if was, ok := asked[n]; ok && was != canon[n].Cur {
				nontrivial = true
				if lastKind == "sethead" {
					labels["observable-after-sethead"] = true
				} else {
					labels["observable-after-reorg"] = true
				}
			}
			asked[n] = canon[n].Cur
		}
		lastKind = op.Kind
		if len(canon) < len(prev) {
			labels["head-lowered"] = true
		}
		prev = canon
	}
	if c.ExclGrafts {
		labels["excluded:"+classWrongParent] = true
	}
	sw := 0
	for i := 1; i < len(prev); i++ {
		if prev[i].Cur != prev[i-1].Cur {
			sw++
		}
	}
	if sw > 0 {
		labels["final-chain-switched"] = true
	}
	var ls []string
	for k := range labels {
		ls = append(ls, k)
	}
	sort.Strings(ls)
	return kit.OK(nontrivial, ls...)
}

var _ = kit.Register(kit.Prop[ChainCase]{
	Name: "ActiveVersionFollowsChain",
	Rule: "a tree of 2-3 branches of 10-20 real empty blocks (solo engine) whose producers behave differently towards the upgrade (all approve / nobody proposes / propose but never approve / mixed; 8 short parameter sets, cycle of 2-3 versions), every header accepted by the real verifier against its real parent; schedule of 4-10 InsertChain calls (whole branches and parts: reorganisations between the branches; invalid grafts alone or behind 1-6 of their ancestors) and SetHead rollbacks; in a third of the cases instead: the node imports only the lower part of a branch, the headers of the next 1-9 blocks run ahead (InsertGuaranteedHeaderChain) and the node's own REAL miner worker builds on the head - the verifier must accept the built header after its parent; after every step VersionForRound(r) and VersionForRoundWithParents(r,nil) for every r <= head+1 must be the parameters of CurrVersion of the canonical header at max(r-8,0), and the canonical headers must be accepted pair by pair and pass the reference state machine. Non-trivial: a step replaced a canonical header by one with a different version at a number the 8-round look-back had already reached and reaches again",
	Gen:  genChainCase, Run: runChainCase,
	Quick: 400, Thorough: 5000, Chunk: 100, MinNonTrivialPct: 15,
})
