package c12

import (
	"fmt"
	"math/big"
	"sort"
	"strings"

	"github.com/youchainhq/go-youchain/core"
	"github.com/youchainhq/go-youchain/core/types"
	"github.com/youchainhq/go-youchain/params"
	"verif/kit"
)

// Hdr is the version state carried by one header.
type Hdr struct {
	Cur  uint64 `json:"cur"`  // CurrVersion
	Next uint64 `json:"next"` // NextVersion
	Appr uint64 `json:"appr"` // NextApprovals
	VB   uint64 `json:"vb"`   // NextVoteBefore
	SW   uint64 `json:"sw"`   // NextSwitchOn
}

func (h Hdr) String() string {
	return fmt.Sprintf("{cur:%d next:%d appr:%d voteBefore:%d switchOn:%d}", h.Cur, h.Next, h.Appr, h.VB, h.SW)
}

func header(h Hdr, number uint64) *types.Header {
	return &types.Header{
		Number:         new(big.Int).SetUint64(number),
		CurrVersion:    params.YouVersion(h.Cur),
		NextVersion:    params.YouVersion(h.Next),
		NextApprovals:  h.Appr,
		NextVoteBefore: h.VB,
		NextSwitchOn:   h.SW,
	}
}

// scratch headers for the verifier (it only reads them; cases run sequentially)
var (
	scratchPrev = &types.Header{Number: new(big.Int)}
	scratchCurr = &types.Header{Number: new(big.Int)}
)

func fill(dst *types.Header, h Hdr, number uint64) *types.Header {
	dst.Number.SetUint64(number)
	dst.CurrVersion = params.YouVersion(h.Cur)
	dst.NextVersion = params.YouVersion(h.Next)
	dst.NextApprovals = h.Appr
	dst.NextVoteBefore = h.VB
	dst.NextSwitchOn = h.SW
	return dst
}

func hdrOf(h *types.Header) Hdr {
	return Hdr{Cur: uint64(h.CurrVersion), Next: uint64(h.NextVersion), Appr: h.NextApprovals, VB: h.NextVoteBefore, SW: h.NextSwitchOn}
}

type verdict int

const (
	vAccepted verdict = iota
	vRejected
	vCrit // logging.Crit fired: the process would have terminated ("client must upgrade")
)

// verify runs the real verifier on (prev at number n, curr at number n+1).
func verify(prev Hdr, n uint64, curr Hdr) (v verdict, msg string) {
	defer func() {
		if r := recover(); r != nil {
			if s, ok := kit.IsCrit(r); ok {
				v, msg = vCrit, s
				return
			}
			panic(r)
		}
	}()
	if err := core.VerifyYouVersionState(fill(scratchPrev, prev, n), fill(scratchCurr, curr, n+1)); err != nil {
		return vRejected, err.Error()
	}
	return vAccepted, ""
}

// build runs the real honest builder on prev at number n.
func build(prev Hdr, n uint64) (Hdr, error) {
	fresh := &types.Header{Number: new(big.Int).SetUint64(n + 1)}
	if err := core.ProcessYouVersionState(header(prev, n), fresh); err != nil {
		return Hdr{}, err
	}
	return hdrOf(fresh), nil
}

// ---------------------------------------------------------------------------------
// reference state machine (the statement, not the implementation)

// Live is what the reference remembers about the upgrade proposal that is being voted
// on: the announcement exactly as made by the header that opened it, the parameters in
// force at that moment, and the approvals counted by round.
type Live struct {
	Active     bool
	Version    uint64 // announced target version
	Start      uint64 // round of the announcing header (first round of the voting window)
	VB         uint64 // announced NextVoteBefore: the window is [Start, VB)
	SW         uint64 // announced NextSwitchOn
	Thr        uint64 // approval threshold of the version active when the proposal was made
	MinWait    uint64
	VoteRounds uint64
	InWindow   uint64 // approvals added by headers with Start <= round < VB
	GapLate    uint64 // approvals added at round >= VB by a header whose own count is >= Thr
	OtherLate  uint64 // approvals added at round >= VB by a header whose own count is < Thr
	Rewritten  bool   // some header changed NextVoteBefore of the live proposal
}

// known violation classes (genuine defects of the unchanged tree, see known_findings.json)
const (
	classLate     = "late-approval"
	classZeroWait = "unapproved-zero-wait-switch"
)

type viol struct{ class, msg string }

type stepNotes struct {
	switched, announced, dropped, deadline, lateHarmless, rewritten, decreased bool
}

func announce(curr Hdr, r uint64, row Row) (Live, *viol) {
	l := Live{Active: true, Version: curr.Next, Start: r, VB: curr.VB, SW: curr.SW,
		Thr: row.Threshold, MinWait: row.MinWait, VoteRounds: row.VoteRounds}
	if curr.Appr > 1 {
		return l, &viol{"approval-step", fmt.Sprintf("the header at round %d opens a proposal with %d approvals: one block added more than one approval", r, curr.Appr)}
	}
	if r < l.VB {
		l.InWindow = curr.Appr
	} else if curr.Appr > 0 {
		l.OtherLate = curr.Appr
	}
	return l, nil
}

// step advances the reference over one ACCEPTED header curr at round r whose parent is
// prev; row holds the parameters of prev.Cur. It returns the new reference state and
// the violation of the statement this header constitutes, if any.
func (l Live) step(prev, curr Hdr, r uint64, row Row) (Live, *viol, stepNotes) {
	var n stepNotes
	if l.Active && r == l.VB {
		n.deadline = true
	}
	if curr.Cur != prev.Cur {
		n.switched = true
		what := fmt.Sprintf("header at round %d changes the active version %d -> %d", r, prev.Cur, curr.Cur)
		switch {
		case !l.Active:
			return l, &viol{"switch-without-proposal", what + " although no upgrade proposal is being voted on"}, n
		case r != l.SW:
			return l, &viol{"switch-at-unannounced-round", fmt.Sprintf("%s, but the proposal opened at round %d announced the switch for round %d", what, l.Start, l.SW)}, n
		case curr.Cur != l.Version:
			return l, &viol{"switch-to-unannounced-version", fmt.Sprintf("%s, but the proposal opened at round %d announced version %d", what, l.Start, l.Version)}, n
		case l.VB != l.Start+l.VoteRounds:
			return l, &viol{"window-length", fmt.Sprintf("%s for a proposal whose voting window [%d,%d) is not UpgradeVoteRounds=%d long", what, l.Start, l.VB, l.VoteRounds)}, n
		case l.SW < l.VB+l.MinWait:
			return l, &viol{"switch-before-min-wait", fmt.Sprintf("%s, earlier than the minimum wait: window closes at %d, MinUpgradeWaitRounds=%d", what, l.VB, l.MinWait)}, n
		case l.InWindow < l.Thr:
			detail := fmt.Sprintf("%s, but the proposal (window [%d,%d), switch %d) collected only %d approvals inside its window; threshold %d (late approvals accepted: %d by headers already at the threshold, %d others)",
				what, l.Start, l.VB, l.SW, l.InWindow, l.Thr, l.GapLate, l.OtherLate)
			switch {
			case prev.SW == r && prev.VB == r && prev.Appr < l.Thr:
				return l, &viol{classZeroWait, detail + "; the window closes and the switch is due in the same round, and the verifier's upgrade branch does not look at the approvals"}, n
			case l.InWindow+l.GapLate >= l.Thr:
				return l, &viol{classLate, detail + "; the verifier accepted an approval carried by a header at round >= NextVoteBefore because that header's own count reached the threshold"}, n
			default:
				return l, &viol{"switch-without-quorum", detail}, n
			}
		}
		l = Live{}
		if curr.Next != 0 {
			nrow := row
			if nr, ok := rowOf(curr.Cur); ok {
				nrow = nr
			}
			var v *viol
			l, v = announce(curr, r, nrow)
			n.announced = true
			return l, v, n
		}
		return l, nil, n
	}
	switch {
	case !l.Active && curr.Next != 0:
		nl, v := announce(curr, r, row)
		n.announced = true
		return nl, v, n
	case l.Active && curr.Next == 0:
		n.dropped = true
		return Live{}, nil, n
	case l.Active:
		if curr.Appr > prev.Appr+1 {
			return l, &viol{"approval-step", fmt.Sprintf("header at round %d raises the approvals %d -> %d: one block added more than one approval", r, prev.Appr, curr.Appr)}, n
		}
		if curr.Appr < prev.Appr {
			n.decreased = true
		}
		if curr.VB != prev.VB {
			l.Rewritten = true
			n.rewritten = true
		}
		if curr.Appr == prev.Appr+1 {
			switch {
			case r < l.VB:
				l.InWindow++
			case curr.Appr >= l.Thr:
				if l.InWindow >= l.Thr {
					n.lateHarmless = true
				}
				l.GapLate++
			default:
				l.OtherLate++
			}
		}
	}
	return l, nil, n
}

// ---------------------------------------------------------------------------------
// the case

// Case is a chain of headers: header 0 has number Start and carries only a version
// (no proposal); Steps[i] is the version state of the header with number Start+1+i.
type Case struct {
	Start   uint64 `json:"start"`
	Version uint64 `json:"version"`
	Steps   []Hdr  `json:"steps"`
	// Rows echoes the table rows of the versions the chain runs under (readability of
	// replays; a case whose echo disagrees with the installed table is discarded).
	Rows []Row `json:"rows,omitempty"`
	// generator bookkeeping (not interpreted by the oracle; reported as labels)
	Tried    int `json:"tried,omitempty"`
	Rejected int `json:"rejected,omitempty"`
	ExclLate int `json:"excluded_late_approval,omitempty"`
	ExclZero int `json:"excluded_zero_wait,omitempty"`
}

// builderCheck is the second clause of the statement: from the header state prev (number
// n) the honest builder derives a header and the verifier accepts it. Documented builder
// errors (approved version not known locally, proposed wait outside the permitted range)
// and the documented "client must upgrade" Crit are not violations.
func builderCheck(l Live, prev Hdr, n uint64, row Row, labels map[string]bool) *viol {
	r := n + 1
	built, err := build(prev, n)
	if err != nil {
		docUnknown, docRange := false, false
		if prev.Next == 0 && row.Approved != 0 {
			tgt, ok := rowOf(row.Approved)
			if !ok {
				docUnknown = true
			} else if tgt.UpgradeWait > row.MinWait && tgt.UpgradeWait > row.MaxWait {
				docRange = true
			}
		}
		switch {
		case docUnknown:
			labels["builder-error:approved-version-unknown"] = true
		case docRange:
			labels["builder-error:wait-out-of-range"] = true
		default:
			return &viol{"builder-error", fmt.Sprintf("the honest builder cannot derive a header at round %d from the accepted parent %v (parameters %+v): %v", r, prev, row, err)}
		}
		return nil
	}
	v, msg := verify(prev, n, built)
	switch v {
	case vRejected:
		what := fmt.Sprintf("the header %v the honest builder derives at round %d from the accepted parent %v (parameters %+v) is rejected by the verifier: %s", built, r, prev, row, msg)
		if prev.Next != 0 && prev.SW == r && prev.VB == r && prev.Appr < row.Threshold {
			return &viol{classZeroWait, what + "; the window closes and the switch is due in the same round: the builder clears the failed proposal, the verifier's upgrade branch demands the switch without looking at the approvals"}
		}
		return &viol{"builder-rejected", what}
	case vCrit:
		if built.Cur != prev.Cur && !known(built.Cur) {
			labels["builder-switch-to-unknown:crit"] = true
		} else {
			return &viol{"unexpected-crit", fmt.Sprintf("verifying the honest builder's header %v at round %d after %v terminated the process: %s", built, r, prev, msg)}
		}
	}
	return nil
}

// builderStatementCheck: the builder's header is one more accepted header, so it must
// satisfy the first clause of the statement too (checked after the chain's own next
// header, so that a violation of the chain itself is reported as such).
func builderStatementCheck(l Live, prev Hdr, n uint64, row Row) *viol {
	built, err := build(prev, n)
	if err != nil {
		return nil
	}
	if v, _ := verify(prev, n, built); v == vRejected {
		return nil
	}
	if _, bv, _ := l.step(prev, built, n+1, row); bv != nil {
		return &viol{bv.class, "honest builder's header " + built.String() + ": " + bv.msg}
	}
	return nil
}

func runCase(c Case) kit.Result {
	if !known(c.Version) {
		return kit.Discarded("first header's version must be locally known")
	}
	for _, e := range c.Rows {
		if tr, ok := rowOf(e.ID); !ok || tr != e {
			return kit.Discarded("parameter table differs from the one the case was written for")
		}
	}
	labels := map[string]bool{}
	prev := Hdr{Cur: c.Version}
	var l Live
	var (
		deadline, passed, failed bool
		switches                 int
		proposals                int
		reached                  int
		stopped                  bool
	)
	trace := func(upto int) string {
		var sb strings.Builder
		fmt.Fprintf(&sb, "\nchain (first header number %d, version %d):", c.Start, c.Version)
		for i := 0; i <= upto && i < len(c.Steps); i++ {
			fmt.Fprintf(&sb, "\n  round %d: %v", c.Start+1+uint64(i), c.Steps[i])
		}
		return sb.String()
	}
	fail := func(v *viol, i int) kit.Result {
		row, _ := rowOf(prev.Cur)
		return kit.Fail(v.class, "%s\nparameters of version %d: voteRounds=%d threshold=%d minWait=%d maxWait=%d%s",
			v.msg, prev.Cur, row.VoteRounds, row.Threshold, row.MinWait, row.MaxWait, trace(i))
	}
	for i, curr := range c.Steps {
		n := c.Start + uint64(i) // number of prev
		r := n + 1
		row, ok := rowOf(prev.Cur)
		if !ok {
			labels["stopped:version-unknown"] = true
			break
		}
		if bv := builderCheck(l, prev, n, row, labels); bv != nil {
			return fail(bv, i-1)
		}
		v, msg := verify(prev, n, curr)
		if v == vRejected {
			// not a chain of accepted headers beyond this point
			labels["truncated:step-rejected"] = true
			stopped = true
			break
		}
		if v == vCrit {
			if !(curr.Cur != prev.Cur && !known(curr.Cur)) {
				return fail(&viol{"unexpected-crit", fmt.Sprintf("verifying %v at round %d after %v terminated the process: %s", curr, r, prev, msg)}, i)
			}
			labels["switch-to-unknown:crit"] = true
		}
		nl, sv, notes := l.step(prev, curr, r, row)
		if sv != nil {
			return fail(sv, i)
		}
		if notes.deadline {
			deadline = true
			if notes.dropped {
				failed = true
			} else {
				passed = true
			}
		}
		if notes.switched {
			switches++
		}
		if notes.announced {
			proposals++
			if curr.SW == curr.VB {
				labels["zero-wait-proposal"] = true
			}
			if !known(curr.Next) {
				labels["proposal-of-unknown-version"] = true
			}
		}
		if notes.rewritten {
			labels["vote-deadline-rewritten(accepted)"] = true
		}
		if notes.lateHarmless {
			labels["late-approval-above-threshold(accepted)"] = true
		}
		if curr != mustBuild(prev, n) {
			labels["non-honest-step"] = true
		}
		if bv := builderStatementCheck(l, prev, n, row); bv != nil {
			return fail(bv, i-1)
		}
		l, prev = nl, curr
		reached = i + 1
		if v == vCrit {
			stopped = true
			break
		}
	}
	// the last reached state
	if row, ok := rowOf(prev.Cur); ok && !stopped {
		if bv := builderCheck(l, prev, c.Start+uint64(reached), row, labels); bv != nil {
			return fail(bv, reached-1)
		}
		if bv := builderStatementCheck(l, prev, c.Start+uint64(reached), row); bv != nil {
			return fail(bv, reached-1)
		}
	}
	if passed {
		labels["deadline:passed"] = true
	}
	if failed {
		labels["deadline:failed"] = true
	}
	if switches > 0 {
		labels["switched"] = true
	}
	if switches > 1 {
		labels["switched>=2"] = true
	}
	if proposals > 1 {
		labels["proposals>=2"] = true
	}
	switch {
	case reached >= 40:
		labels["accepted-chain-length:40+"] = true
	case reached >= 20:
		labels["accepted-chain-length:20-39"] = true
	case reached >= 10:
		labels["accepted-chain-length:10-19"] = true
	default:
		labels["accepted-chain-length:<10"] = true
	}
	if c.ExclLate > 0 {
		labels["excluded:"+classLate] = true
	}
	if c.ExclZero > 0 {
		labels["excluded:"+classZeroWait] = true
	}
	if c.Tried > 0 {
		labels[fmt.Sprintf("candidate-accept-rate:>=%d%%", 100*(c.Tried-c.Rejected)/c.Tried/20*20)] = true
	}
	var ls []string
	for k := range labels {
		ls = append(ls, k)
	}
	sort.Strings(ls)
	return kit.OK(deadline, ls...)
}

// mustBuild returns the honest header, or a value no header equals when the builder errs.
func mustBuild(prev Hdr, n uint64) Hdr {
	h, err := build(prev, n)
	if err != nil {
		return Hdr{Cur: ^uint64(0)}
	}
	return h
}
