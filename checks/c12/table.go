package c12

import (
	"github.com/youchainhq/go-youchain/params"
)

// Row is the upgrade-related part of one protocol version's parameters.
type Row struct {
	ID          uint64 `json:"id"`
	VoteRounds  uint64 `json:"vote_rounds"`
	Threshold   uint64 `json:"threshold"`
	MinWait     uint64 `json:"min_wait"`
	MaxWait     uint64 `json:"max_wait"`
	Approved    uint64 `json:"approved"`     // ApprovedUpgradeVersion (0 = none; may be a locally unknown id)
	UpgradeWait uint64 `json:"upgrade_wait"` // UpgradeWaitRounds of this version (read when it is the upgrade target)
}

// The process-wide params.Versions table is installed exactly once (TestMain) and never
// changed. It is a pure function of nothing (no seed), so a replay file means the same
// thing in every process. It enumerates the whole bounded parameter domain:
//
//	UpgradeVoteRounds 1..6, UpgradeThreshold 1..voteRounds+1 (the last one is an
//	unreachable quorum), MinUpgradeWaitRounds 0..4, MaxUpgradeWaitRounds min..4,
//	own UpgradeWaitRounds 0..5 (read when the version is an upgrade target; may be
//	outside the proposer's [min,max]: the builder documents an error for that),
//	ApprovedUpgradeVersion: none / a locally unknown id / three pseudo-random known ids.
//
// 27 x 15 x 6 x 5 = 12150 locally known versions with ids 1..12150; ids above that are
// "not known locally". A case selects its parameter set by the version of its first header.
const (
	nKnown       = 12150
	firstUnknown = nKnown + 1
	nUnknown     = 64
)

var table = buildTable()

func mix(x uint64) uint64 {
	x += 0x9e3779b97f4a7c15
	x = (x ^ (x >> 30)) * 0xbf58476d1ce4e5b9
	x = (x ^ (x >> 27)) * 0x94d049bb133111eb
	return x ^ (x >> 31)
}

func buildTable() []Row {
	rows := make([]Row, 1, nKnown+1) // rows[0] unused
	id := uint64(1)
	for vr := uint64(1); vr <= 6; vr++ {
		for thr := uint64(1); thr <= vr+1; thr++ {
			for mn := uint64(0); mn <= 4; mn++ {
				for mx := mn; mx <= 4; mx++ {
					for uw := uint64(0); uw <= 5; uw++ {
						for ak := uint64(0); ak < 5; ak++ {
							r := Row{ID: id, VoteRounds: vr, Threshold: thr, MinWait: mn, MaxWait: mx, UpgradeWait: uw}
							switch ak {
							case 0:
							case 1:
								r.Approved = firstUnknown + mix(id)%nUnknown
							default:
								r.Approved = 1 + mix(id*8+ak)%nKnown
							}
							rows = append(rows, r)
							id++
						}
					}
				}
			}
		}
	}
	if len(rows) != nKnown+1 {
		panic("c12: table size")
	}
	return rows
}

func known(v uint64) bool { return v >= 1 && v <= nKnown }

func rowOf(v uint64) (Row, bool) {
	if !known(v) {
		return Row{}, false
	}
	return table[v], true
}

// findRow returns the first version with the given parameters (any approved / own wait).
func findRow(vr, thr, mn, mx uint64) Row {
	for _, r := range table[1:] {
		if r.VoteRounds == vr && r.Threshold == thr && r.MinWait == mn && r.MaxWait == mx {
			return r
		}
	}
	panic("c12: no such parameter set")
}

// installTable sets params.Versions from the table. Called once, before any case.
//
// Every entry is the repository's complete test-case parameter set of the current
// version (EVM version, staking trie frequency, ... - what block execution reads) with
// only the identity and the upgrade-related fields replaced, so that the chain-level
// prop (chain_test.go) can import real blocks under any version of the table. The
// version-state verifier and builder read the upgrade fields only. The network id is
// fixed first: InitNetworkId itself assigns params.Versions, so it must not run later.
func installTable() {
	params.InitNetworkId(params.NetworkIdForTestCase)
	base, ok := params.Versions[params.YouCurrentVersion]
	if !ok {
		panic("c12: no test-case parameters for the current version")
	}
	m := make(params.VersionsMap, nKnown)
	for _, r := range table[1:] {
		p := base // shallow copy: the maps inside are shared and never written
		p.Version = params.YouVersion(r.ID)
		p.ApprovedUpgradeVersion = params.YouVersion(r.Approved)
		p.UpgradeWaitRounds = r.UpgradeWait
		p.UpgradeVoteRounds = r.VoteRounds
		p.UpgradeThreshold = r.Threshold
		p.MinUpgradeWaitRounds = r.MinWait
		p.MaxUpgradeWaitRounds = r.MaxWait
		m[params.YouVersion(r.ID)] = p
	}
	params.Versions = m
}
