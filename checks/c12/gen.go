package c12

import (
	"sync"

	"pgregory.net/rapid"
	"verif/kit"
)

// ---------------------------------------------------------------------------------
// known findings: exclusion by construction

var (
	exclOnce           sync.Once
	exclLate, exclZero bool
)

// lateReplay / zeroReplay are the minimal chains of the two recorded defects; an
// exclusion is active only while the class is listed in known_findings.json AND the
// minimal chain still violates on the tree under test (so a repaired tree is searched
// without any exclusion).
func lateReplay() Case {
	row := findRow(4, 3, 1, 2)
	tgt := row.ID + 1
	return Case{Start: 0, Version: row.ID, Steps: []Hdr{
		{Cur: row.ID, Next: tgt, Appr: 1, VB: 5, SW: 6}, // round 1: proposal, window rounds 1..4
		{Cur: row.ID, Next: tgt, Appr: 2, VB: 5, SW: 6}, // round 2: approved
		{Cur: row.ID, Next: tgt, Appr: 2, VB: 5, SW: 6}, // round 3
		{Cur: row.ID, Next: tgt, Appr: 2, VB: 5, SW: 6}, // round 4: window closes with 2 < 3
		{Cur: row.ID, Next: tgt, Appr: 3, VB: 5, SW: 6}, // round 5 = NextVoteBefore: approval accepted
		{Cur: tgt}, // round 6: version switched
	}, Rows: []Row{row}}
}

func zeroReplay() Case {
	row := findRow(2, 2, 0, 0)
	tgt := row.ID + 1
	return Case{Start: 0, Version: row.ID, Steps: []Hdr{
		{Cur: row.ID, Next: tgt, Appr: 1, VB: 3, SW: 3}, // round 1: proposal, window rounds 1..2, wait 0
		{Cur: row.ID, Next: tgt, Appr: 1, VB: 3, SW: 3}, // round 2: not approved: 1 < 2
		{Cur: tgt}, // round 3: switch accepted (and the builder's cleared header is rejected)
	}, Rows: []Row{row}}
}

func stillViolates(c Case, class string) bool {
	res := runCase(c)
	return res.Violation != nil && res.Violation.Class == class
}

func exclusions() (late, zero bool) {
	exclOnce.Do(func() {
		exclLate = kit.IsKnown(classLate) && stillViolates(lateReplay(), classLate)
		exclZero = kit.IsKnown(classZeroWait) && stillViolates(zeroReplay(), classZeroWait)
	})
	return exclLate, exclZero
}

// excludedLate: the candidate adds an approval at or after the announced vote deadline
// while the proposal has not collected its threshold inside the window, and carries a
// count at or above the threshold (the exact hole of the verifier's on-going branch).
func excludedLate(l Live, prev, cand Hdr, r uint64) bool {
	return l.Active && cand.Cur == prev.Cur && cand.Next != 0 && cand.Appr == prev.Appr+1 &&
		r >= l.VB && l.InWindow < l.Thr && cand.Appr >= l.Thr
}

// excludedZero: the candidate leaves a proposal whose switch is due in the round its
// window closes and which can no longer reach the threshold inside the window (every
// continuation runs into the forced, unapproved switch).
func excludedZero(cand Hdr, r uint64, thr uint64) bool {
	if cand.Next == 0 || cand.SW != cand.VB || cand.VB <= r {
		return false
	}
	return cand.Appr+(cand.VB-1-r) < thr
}

// ---------------------------------------------------------------------------------
// candidate space

// someKnown / someUnknown are fixed version ids used as "another version".
const someUnknown = firstUnknown + 7

func otherKnown(avoid ...uint64) uint64 {
	for v := uint64(4242); ; v++ {
		ok := true
		for _, a := range avoid {
			if a == v {
				ok = false
			}
		}
		if ok {
			return v
		}
	}
}

func dedupe(xs []uint64) []uint64 {
	var out []uint64
	for _, x := range xs {
		dup := false
		for _, y := range out {
			if x == y {
				dup = true
			}
		}
		if !dup {
			out = append(out, x)
		}
	}
	return out
}

func sub1(x uint64) uint64 {
	if x == 0 {
		return 0
	}
	return x - 1
}

// valueSets returns, per field, the finite set of values a candidate header for round r
// after prev may carry: the parent's values, 0, +-1 of them, the round, the boundary
// values NextVoteBefore / NextSwitchOn, the threshold, the legal and just-illegal
// proposal rounds.
func valueSets(prev Hdr, r uint64, row Row) (cur, next, appr, vb, sw []uint64) {
	ok := otherKnown(prev.Cur, prev.Next, row.Approved)
	cur = dedupe([]uint64{prev.Cur, prev.Next, row.Approved, ok, someUnknown})
	// a version field of 0 for CurrVersion is not a version
	cur = filterNonZero(cur)
	next = dedupe([]uint64{0, prev.Next, row.Approved, ok, someUnknown})
	appr = dedupe([]uint64{0, 1, 2, sub1(prev.Appr), prev.Appr, prev.Appr + 1, prev.Appr + 2, sub1(row.Threshold), row.Threshold, row.Threshold + 1})
	nvb := r + row.VoteRounds
	vb = dedupe([]uint64{0, sub1(r), r, r + 1, sub1(nvb), nvb, nvb + 1, sub1(prev.VB), prev.VB, prev.VB + 1, prev.SW, prev.SW + 1})
	sw = []uint64{0, sub1(r), r, r + 1, sub1(prev.SW), prev.SW, prev.SW + 1, prev.VB, sub1(nvb + row.MinWait), nvb + row.MaxWait + 1}
	for w := row.MinWait; w <= row.MaxWait; w++ {
		sw = append(sw, nvb+w)
	}
	sw = dedupe(sw)
	return
}

func filterNonZero(xs []uint64) []uint64 {
	var out []uint64
	for _, x := range xs {
		if x != 0 {
			out = append(out, x)
		}
	}
	return out
}

// ---------------------------------------------------------------------------------
// random chains

// drawProposed picks the version a proposal announces: mostly a locally known one (any
// parameter set of the table), the version the current parameters approve, sometimes
// a locally unknown one (the chain then ends at the documented "client must upgrade").
func drawProposed(t *rapid.T, row Row) uint64 {
	// (rapid favours the ends of an integer range, so the rare kinds sit in the middle)
	switch k := rapid.IntRange(0, 39).Draw(t, "proposedKind"); {
	case k == 20:
		return someUnknown
	case k == 21 && row.Approved != 0:
		return row.Approved // known or not
	case k >= 28 && known(row.Approved):
		return row.Approved
	default:
		return uint64(rapid.IntRange(1, nKnown).Draw(t, "proposed"))
	}
}

var startRounds = []uint64{0, 0, 1, 7, 99, 1000, 1 << 40}

func genCase(t *rapid.T) Case {
	late, zero := exclusions()
	c := Case{
		Start:   rapid.SampledFrom(startRounds).Draw(t, "start"),
		Version: uint64(rapid.IntRange(1, nKnown).Draw(t, "version")),
	}
	n := rapid.SampledFrom([]int{30, 60, 20, 45, 14, 10}).Draw(t, "len") // (rapid favours the first entries)
	// style: how often the next header is the honest one / an approval / adversarial
	style := rapid.IntRange(0, 3).Draw(t, "style")
	pHonest := []int{60, 15, 10, 30}[style]
	pApprove := []int{20, 55, 20, 30}[style] // remaining: uniformly adversarial base
	pPerturb := []int{10, 25, 60, 35}[style]
	prev := Hdr{Cur: c.Version}
	var l Live
	rowsSeen := map[uint64]bool{}
	for i := 0; i < n; i++ {
		num := c.Start + uint64(i)
		r := num + 1
		row, ok := rowOf(prev.Cur)
		if !ok {
			break
		}
		if !rowsSeen[row.ID] {
			rowsSeen[row.ID] = true
			c.Rows = append(c.Rows, row)
		}
		honest, herr := build(prev, num)
		curS, nextS, apprS, vbS, swS := valueSets(prev, r, row)
		var chosen *Hdr
		var chosenV verdict
		try := func(cand Hdr, count bool) bool {
			if late && excludedLate(l, prev, cand, r) {
				c.ExclLate++
				return false
			}
			if zero && excludedZero(cand, r, row.Threshold) {
				c.ExclZero++
				return false
			}
			v, _ := verify(prev, num, cand)
			if count {
				c.Tried++
			}
			if v == vRejected || (v == vCrit && !(cand.Cur != prev.Cur && !known(cand.Cur))) {
				if count {
					c.Rejected++
				}
				return false
			}
			chosen, chosenV = &cand, v
			return true
		}
		for a := 0; a < 6 && chosen == nil; a++ {
			var base Hdr
			u := rapid.IntRange(0, 99).Draw(t, "kind")
			switch {
			case u < pHonest && herr == nil:
				base = honest
			case u < pHonest+pApprove:
				if prev.Next != 0 {
					base = prev
					base.Appr++
				} else {
					// a well-formed proposal of a chosen version with a chosen legal wait
					nv := drawProposed(t, row)
					w := uint64(rapid.IntRange(int(row.MinWait), int(row.MaxWait)).Draw(t, "wait"))
					base = Hdr{Cur: prev.Cur, Next: nv, Appr: 1, VB: r + row.VoteRounds, SW: r + row.VoteRounds + w}
				}
			default:
				switch rapid.IntRange(0, 4).Draw(t, "base") {
				case 0: // keep
					base = prev
				case 1: // clear
					base = Hdr{Cur: prev.Cur}
				case 2: // switch
					base = Hdr{Cur: rapid.SampledFrom(curS).Draw(t, "to")}
				case 3: // approve
					base = prev
					base.Appr++
				default: // proposal with a wait in and around the permitted range
					nv := drawProposed(t, row)
					base = Hdr{Cur: prev.Cur, Next: nv, Appr: 1, VB: r + row.VoteRounds, SW: rapid.SampledFrom(swS).Draw(t, "sw")}
				}
			}
			if rapid.IntRange(0, 99).Draw(t, "perturb") < pPerturb {
				k := 1
				if rapid.IntRange(0, 4).Draw(t, "two") == 0 {
					k = 2
				}
				for ; k > 0; k-- {
					switch rapid.IntRange(0, 4).Draw(t, "field") {
					case 0:
						base.Cur = rapid.SampledFrom(curS).Draw(t, "cur")
					case 1:
						base.Next = rapid.SampledFrom(nextS).Draw(t, "next")
					case 2:
						base.Appr = rapid.SampledFrom(apprS).Draw(t, "appr")
					case 3:
						base.VB = rapid.SampledFrom(vbS).Draw(t, "vb")
					default:
						base.SW = rapid.SampledFrom(swS).Draw(t, "sw")
					}
				}
			}
			try(base, true)
		}
		if chosen == nil {
			// fall back to whatever plain continuation is accepted
			var fb []Hdr
			if herr == nil {
				fb = append(fb, honest)
			}
			app := prev
			app.Appr++
			fb = append(fb, app, prev, Hdr{Cur: prev.Cur})
			if prev.Next != 0 {
				fb = append(fb, Hdr{Cur: prev.Next})
			}
			for _, cand := range fb {
				if try(cand, false) {
					break
				}
			}
		}
		if chosen == nil {
			break // no continuation outside the excluded classes
		}
		nl, _, _ := l.step(prev, *chosen, r, row)
		l = nl
		c.Steps = append(c.Steps, *chosen)
		prev = *chosen
		if chosenV == vCrit {
			break
		}
	}
	return c
}

var _ = kit.Register(kit.Prop[Case]{
	Name: "UpgradeChains",
	Rule: "a parameter set is selected from the complete table of the bounded domain (voteRounds 1-6, threshold 1..voteRounds+1, min/max wait 0-4, own wait 0-5, approved upgrade none/unknown/known: 12150 known versions) by the version of the first header; 10-60 headers follow, each chosen among candidates the real verifier accepts (honest derivation; approve / keep / clear / switch / proposal of a known, approved or unknown version with waits in and around the range; one or two fields replaced by 0, +-1, the round, NextVoteBefore, NextSwitchOn, the threshold, the legal proposal rounds); oracle = reference state machine of the statement over the accepted chain (version changes only at the announced round, to the announced version, with >= threshold approvals added inside the announced window of UpgradeVoteRounds rounds, at most +1 per header, switch >= window close + min wait) plus, from every reached state, the honest builder's header must be derived without error (documented errors excepted) and accepted; non-trivial = some proposal reaches its vote deadline (passes or fails); distinct = FNV-64 of the case JSON",
	Gen:  genCase, Run: runCase,
	Quick: 15000, Thorough: 300000, Chunk: 1500, MinNonTrivialPct: 45,
})
