package c19

// Independent reader for trie node blobs: own minimal RLP splitter (no code shared
// with /repo/rlp or /repo/trie). Used to compute which hashes a node refers to, so the
// harness can decide reachability and downward closure of the destination database.

import (
	"errors"
	"math/big"
)

var errRLP = errors.New("c19: malformed RLP")

// rlpSplit splits the first RLP item off b. isList tells its kind, content is the
// payload, raw the whole item including its header.
func rlpSplit(b []byte) (isList bool, content, raw, rest []byte, err error) {
	if len(b) == 0 {
		return false, nil, nil, nil, errRLP
	}
	p := b[0]
	var off, n int
	switch {
	case p < 0x80:
		return false, b[:1], b[:1], b[1:], nil
	case p < 0xb8:
		off, n = 1, int(p-0x80)
	case p < 0xc0:
		ll := int(p - 0xb7)
		if len(b) < 1+ll {
			return false, nil, nil, nil, errRLP
		}
		off = 1 + ll
		for _, x := range b[1 : 1+ll] {
			n = n<<8 | int(x)
		}
	case p < 0xf8:
		isList = true
		off, n = 1, int(p-0xc0)
	default:
		isList = true
		ll := int(p - 0xf7)
		if len(b) < 1+ll {
			return false, nil, nil, nil, errRLP
		}
		off = 1 + ll
		for _, x := range b[1 : 1+ll] {
			n = n<<8 | int(x)
		}
	}
	if n < 0 || len(b) < off+n {
		return false, nil, nil, nil, errRLP
	}
	return isList, b[off : off+n], b[:off+n], b[off+n:], nil
}

type rlpItem struct {
	isList  bool
	content []byte
}

func rlpListItems(b []byte) ([]rlpItem, error) {
	isList, content, _, rest, err := rlpSplit(b)
	if err != nil || !isList || len(rest) != 0 {
		return nil, errRLP
	}
	var out []rlpItem
	for len(content) > 0 {
		il, c, _, r, err := rlpSplit(content)
		if err != nil {
			return nil, err
		}
		out = append(out, rlpItem{il, c})
		content = r
	}
	return out, nil
}

// nodeRefs parses a trie node blob and returns the 32-byte hashes it refers to and
// the values of the leaves it holds directly (not those inside embedded child nodes,
// which are shorter than 32 bytes and therefore cannot hold a hash or an account).
func nodeRefs(blob []byte) (hashes [][]byte, leaves [][]byte, err error) {
	items, err := rlpListItems(blob)
	if err != nil {
		return nil, nil, err
	}
	switch len(items) {
	case 2:
		if items[0].isList || len(items[0].content) == 0 {
			return nil, nil, errRLP
		}
		leaf := items[0].content[0]&0x20 != 0
		switch {
		case leaf:
			if items[1].isList {
				return nil, nil, errRLP
			}
			leaves = append(leaves, items[1].content)
		case !items[1].isList && len(items[1].content) == 32:
			hashes = append(hashes, items[1].content)
		}
	case 17:
		for i := 0; i < 16; i++ {
			if !items[i].isList && len(items[i].content) == 32 {
				hashes = append(hashes, items[i].content)
			}
		}
		if !items[16].isList && len(items[16].content) > 0 {
			leaves = append(leaves, items[16].content)
		}
	default:
		return nil, nil, errRLP
	}
	return hashes, leaves, nil
}

// refAccount is the account record of a state trie leaf.
type refAccount struct {
	Nonce    uint64
	Balance  *big.Int
	Root     []byte
	CodeHash []byte
	DlgBal   *big.Int
	DlgHash  []byte
}

func decodeAccount(leaf []byte) (*refAccount, error) {
	items, err := rlpListItems(leaf)
	if err != nil || len(items) != 6 {
		return nil, errRLP
	}
	for _, it := range items {
		if it.isList {
			return nil, errRLP
		}
	}
	a := &refAccount{
		Balance: new(big.Int).SetBytes(items[1].content), Root: items[2].content, CodeHash: items[3].content,
		DlgBal: new(big.Int).SetBytes(items[4].content), DlgHash: items[5].content,
	}
	a.Nonce = new(big.Int).SetBytes(items[0].content).Uint64()
	return a, nil
}

// hasEmbedded reports whether a node blob carries a child node inline (shorter than 32 bytes).
func hasEmbedded(blob []byte) bool {
	items, err := rlpListItems(blob)
	if err != nil {
		return false
	}
	switch len(items) {
	case 2:
		return items[1].isList
	case 17:
		for i := 0; i < 16; i++ {
			if items[i].isList {
				return true
			}
		}
	}
	return false
}
