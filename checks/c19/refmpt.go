package c19

// Independent Merkle-Patricia root calculator: own hex-prefix encoding, own minimal
// RLP, keccak from x/crypto. Shares no code with /repo/trie or /repo/rlp.

import (
	"bytes"
	"sort"

	"golang.org/x/crypto/sha3"
)

func keccak(b []byte) []byte {
	h := sha3.NewLegacyKeccak256()
	h.Write(b)
	return h.Sum(nil)
}

func rlpLen(n int, offset byte) []byte {
	if n < 56 {
		return []byte{offset + byte(n)}
	}
	var be []byte
	for x := n; x > 0; x >>= 8 {
		be = append([]byte{byte(x)}, be...)
	}
	return append([]byte{offset + 55 + byte(len(be))}, be...)
}

func rlpString(b []byte) []byte {
	if len(b) == 1 && b[0] < 0x80 {
		return []byte{b[0]}
	}
	return append(rlpLen(len(b), 0x80), b...)
}

func rlpList(items ...[]byte) []byte {
	var body []byte
	for _, it := range items {
		body = append(body, it...)
	}
	return append(rlpLen(len(body), 0xc0), body...)
}

func nibbles(key []byte) []byte {
	out := make([]byte, 0, 2*len(key))
	for _, b := range key {
		out = append(out, b>>4, b&15)
	}
	return out
}

// hexPrefix is the Yellow Paper HP function.
func hexPrefix(nib []byte, leaf bool) []byte {
	flag := byte(0)
	if leaf {
		flag = 2
	}
	var out []byte
	if len(nib)%2 == 1 {
		out = append(out, (flag+1)<<4|nib[0])
		nib = nib[1:]
	} else {
		out = append(out, flag<<4)
	}
	for i := 0; i < len(nib); i += 2 {
		out = append(out, nib[i]<<4|nib[i+1])
	}
	return out
}

type kv struct {
	k []byte // nibbles
	v []byte
}

// refNode returns the RLP encoding of the node holding pairs (all sharing the first
// depth nibbles).
func refNode(pairs []kv, depth int) []byte {
	if len(pairs) == 0 {
		return rlpString(nil)
	}
	if len(pairs) == 1 {
		return rlpList(rlpString(hexPrefix(pairs[0].k[depth:], true)), rlpString(pairs[0].v))
	}
	// common prefix beyond depth
	cp := len(pairs[0].k) - depth
	for _, p := range pairs[1:] {
		n := 0
		for n < cp && depth+n < len(p.k) && p.k[depth+n] == pairs[0].k[depth+n] {
			n++
		}
		cp = n
	}
	if cp > 0 {
		child := refNode(pairs, depth+cp)
		return rlpList(rlpString(hexPrefix(pairs[0].k[depth:depth+cp], false)), refOf(child))
	}
	items := make([][]byte, 17)
	for i := 0; i < 16; i++ {
		var sub []kv
		for _, p := range pairs {
			if len(p.k) > depth && p.k[depth] == byte(i) {
				sub = append(sub, p)
			}
		}
		if len(sub) == 0 {
			items[i] = rlpString(nil)
		} else {
			items[i] = refOf(refNode(sub, depth+1))
		}
	}
	items[16] = rlpString(nil)
	for _, p := range pairs {
		if len(p.k) == depth {
			items[16] = rlpString(p.v)
		}
	}
	return rlpList(items...)
}

func refOf(enc []byte) []byte {
	if len(enc) < 32 {
		return enc
	}
	return rlpString(keccak(enc))
}

// RefRoot is the standard MPT root of a byte-keyed map.
func RefRoot(m map[string][]byte) []byte {
	pairs := make([]kv, 0, len(m))
	for k, v := range m {
		pairs = append(pairs, kv{nibbles([]byte(k)), v})
	}
	sort.Slice(pairs, func(i, j int) bool { return bytes.Compare(pairs[i].k, pairs[j].k) < 0 })
	return keccak(refNode(pairs, 0))
}
