package c19

// LoopWriteFaults - the downloader-level completion report under database write faults.
//
// The real trieSync.run() (loop + its deferred final flush) runs in its own goroutine;
// the harness stands in for runTrieSync: it takes each request the loop tracks, builds
// the response from the source (complete, partial, with duplicate / foreign / corrupted
// blobs) and hands it to the loop. The destination database fails batch writes at a
// generated point (the k-th Write of the run, once or from then on - for small tries the
// only Write is the final forced flush that carries the root), or the sync is cancelled
// at a generated round. Afterwards a fresh, fault-free loop resumes on the same database.
//
// Oracle: whatever Wait() reports, (a) nil => every node reachable from the root is on
// disk and the content reads back identically; (b) error => the database is downward
// closed and a present root is complete; (c) without an injected fault or cancel an
// honest-enough responder must end with nil. The verdict does not depend on how the loop
// batches its requests (peer capacity follows measured throughput), only on these
// end-state relations.

import (
	"bytes"
	"errors"
	"fmt"
	"sort"
	"time"

	"github.com/youchainhq/go-youchain/common"
	"github.com/youchainhq/go-youchain/core/state"
	"github.com/youchainhq/go-youchain/trie"
	"github.com/youchainhq/go-youchain/you/downloader"
	"github.com/youchainhq/go-youchain/youdb"
	"pgregory.net/rapid"
	"verif/kit"
)

// Fault is the fault plan of one sync run.
type Fault struct {
	FailWrite int  `json:"fail_write,omitempty"` // the k-th batch Write of the run fails (0 = none)
	Persist   bool `json:"persist,omitempty"`    // ... and every later one too (disk full)
	CancelAt  int  `json:"cancel_at,omitempty"`  // cancel the sync when it issues its k-th request (0 = never)
	FailPut   int  `json:"fail_put,omitempty"`   // the k-th Put into a write batch is refused (0 = never): that flush fails, the batch is dropped
	Probe     int  `json:"probe,omitempty"`      // before the run, look up this many source hashes through the long-lived state database
}

// LoopCase is a source, one fault plan per target and a response schedule.
type LoopCase struct {
	Src    Case    `json:"src"`    // source and targets (Steps: response shapes, used cyclically)
	Bulk   int     `json:"bulk"`   // extra 300-byte entries so that the sync crosses the 100 KiB intermediate flush threshold
	Faults []Fault `json:"faults"` // per target (cyclic)
}

var respKinds = []string{"answer", "answer", "answer", "late", "late", "dup", "foreign", "corrupt", "unrequested"}

func genLoopCase(t *rapid.T) LoopCase {
	var c LoopCase
	c.Src = genCase(t)
	c.Src.ViaLoop, c.Src.Finish = true, true
	c.Src.Steps = nil
	n := rapid.SampledFrom([]int{4, 8, 1, 0, 12}).Draw(t, "nresp")
	for i := 0; i < n; i++ {
		s := Step{Kind: rapid.SampledFrom(respKinds).Draw(t, "resp")}
		s.N = rapid.IntRange(0, 40).Draw(t, "n")
		s.M = rapid.IntRange(0, 40).Draw(t, "m")
		if s.Kind == "corrupt" {
			s.Mode = rapid.SampledFrom([]string{"flip", "truncate", "append"}).Draw(t, "cmode")
		}
		c.Src.Steps = append(c.Src.Steps, s)
	}
	if c.Src.Kind == "trie" && rapid.IntRange(0, 7).Draw(t, "bulk") == 0 {
		c.Bulk = rapid.SampledFrom([]int{400, 800}).Draw(t, "nbulk")
	}
	nf := rapid.IntRange(1, 3).Draw(t, "nfaults")
	for i := 0; i < nf; i++ {
		var f Fault
		switch rapid.SampledFrom([]string{"write", "write", "write", "none", "cancel", "both"}).Draw(t, "fault") {
		case "write":
			f.FailWrite = rapid.SampledFrom([]int{1, 1, 2, 3, 4}).Draw(t, "failwrite")
		case "cancel":
			f.CancelAt = rapid.SampledFrom([]int{2, 1, 3, 5, 9}).Draw(t, "cancelat")
		case "both":
			f.FailWrite = 1
			f.CancelAt = rapid.SampledFrom([]int{2, 3, 5}).Draw(t, "cancelat")
		}
		if f.FailWrite > 0 {
			f.Persist = rapid.Bool().Draw(t, "persist")
		} else if f.CancelAt == 0 && rapid.Bool().Draw(t, "putfault") {
			f.FailPut = rapid.SampledFrom([]int{2, 1, 5, 40, 150}).Draw(t, "failput")
		}
		if rapid.Bool().Draw(t, "probe") {
			f.Probe = rapid.SampledFrom([]int{3, 1, 1000}).Draw(t, "nprobe")
		}
		c.Faults = append(c.Faults, f)
	}
	return c
}

// ---- fault-injecting database -------------------------------------------------------

var errDisk = errors.New("simulated I/O error: no space left on device")

type faultDB struct {
	*youdb.MemDatabase
	failAt  int
	persist bool
	writes  int // batch writes attempted
	failed  int // batch writes that failed
	wrote   int // batch writes that succeeded with content

	putFailAt int // the k-th Put INTO a batch fails (the batch refuses the entry; 0 = never); one-shot
	puts      int // Puts into batches since the fault was armed
	putFailed int
}

// armPut makes the k-th Put into a batch from now on fail once.
func (f *faultDB) armPut(k int) { f.putFailAt, f.puts = k, 0 }

func (f *faultDB) NewBatch() youdb.Batch { return &faultBatch{Batch: f.MemDatabase.NewBatch(), db: f} }

type faultBatch struct {
	youdb.Batch
	db *faultDB
}

func (b *faultBatch) Put(k, v []byte) error {
	b.db.puts++
	if b.db.putFailAt > 0 && b.db.puts == b.db.putFailAt {
		b.db.putFailAt = 0
		b.db.putFailed++
		return errDisk
	}
	return b.Batch.Put(k, v)
}

func (b *faultBatch) Write() error {
	b.db.writes++
	if b.db.failAt > 0 && (b.db.writes == b.db.failAt || b.db.persist && b.db.writes > b.db.failAt) {
		b.db.failed++
		return errDisk
	}
	if b.ValueSize() > 0 {
		b.db.wrote++
	}
	return b.Batch.Write()
}

// ---- responses ----------------------------------------------------------------------

func (d *driver) loopResponse(items []common.Hash, s Step) [][]byte {
	sorted := append([]common.Hash(nil), items...)
	sort.Slice(sorted, func(i, j int) bool { return bytes.Compare(sorted[i][:], sorted[j][:]) < 0 })
	cnt := len(sorted)
	if s.Kind == "late" && cnt > 1 {
		cnt = 1 + s.N%(cnt-1)
		d.labels["partial-response"] = true
	}
	rot := s.M % len(sorted)
	var resp [][]byte
	for j := 0; j < cnt; j++ {
		resp = append(resp, d.src.blob(sorted[(rot+j)%len(sorted)]))
	}
	switch s.Kind {
	case "dup":
		if len(d.history) > 0 {
			resp = append(resp, d.history[s.M%len(d.history)])
		}
		resp = append(resp, resp[0])
		d.labels["duplicate"] = true
	case "foreign":
		if b := d.foreignBlob(s); !d.t.reach[common.BytesToHash(keccak(b))] {
			resp = append([][]byte{b}, resp...)
			d.labels["foreign-node"] = true
		}
	case "corrupt":
		j := s.N % len(resp)
		if b := corrupted(resp[j], s); len(b) > 0 && !d.t.reach[common.BytesToHash(keccak(b))] {
			resp = append(resp, b) // the correct blob is delivered as well, later in the packet
			resp[j], resp[len(resp)-1] = resp[len(resp)-1], resp[j]
			d.labels["corrupt-"+s.Mode] = true
		}
	case "unrequested":
		var cand []string
		for h := range d.t.reach {
			cand = append(cand, string(h[:]))
		}
		sort.Strings(cand)
		resp = append(resp, d.src.blob(common.BytesToHash([]byte(cand[s.M%len(cand)]))))
		d.labels["unrequested-node-of-target"] = true
	}
	d.history = append(d.history, resp[0])
	return resp
}

const loopTimeout = 45 * time.Second // safety net only; a healthy step takes microseconds (a wedge under a breaking change is re-run by shrinking and by the confirmation replays: keep it short)

// runLoop drives one real trieSync.run() to its end and returns what Wait() reports.
func (d *driver) runLoop(f Fault, stepBase int) (res error, fdb *faultDB, cancelled bool, v *violation) {
	fdb = &faultDB{MemDatabase: d.dst, failAt: f.FailWrite, persist: f.Persist}
	fdb.armPut(f.FailPut)
	if pv := d.probe(f.Probe, stepBase); pv != nil {
		return nil, fdb, false, pv
	}
	var sched *trie.Sync
	if d.t.kind == kindState {
		sched = state.NewStateSync(d.t.root, fdb)
	} else {
		sched = trie.NewSync(d.t.root, fdb, nil)
	}
	l := downloader.VerifStartLoop(d.t.tk, fdb, sched, "peer-0")
	bound := 4*len(d.t.reach) + 32
	for round := 1; ; round++ {
		items, st := l.Next(loopTimeout)
		switch st {
		case "done":
			return l.Err(), fdb, cancelled, nil
		case "panic":
			return nil, fdb, cancelled, vio("panic", "%s: panic inside trieSync.loop: %v", d.t.name, l.PanicValue())
		case "timeout":
			l.Cancel()
			return nil, fdb, cancelled, vio("loop-wedged", "%s: trieSync.loop neither issued a request nor ended within %v (round %d)", d.t.name, loopTimeout, round)
		}
		for _, h := range items {
			if !d.t.reach[h] {
				l.Cancel()
				return nil, fdb, cancelled, vio("requested-foreign-hash", "%s: the sync asks for %x which is not part of the source trie", d.t.name, h)
			}
		}
		if f.CancelAt > 0 && round == f.CancelAt || round > bound {
			l.Cancel()
			if round > bound {
				return nil, fdb, true, vio("liveness", "%s: the sync is still requesting after %d answered requests (%d nodes)", d.t.name, round, len(d.t.reach))
			}
			return l.Err(), fdb, true, nil
		}
		s := Step{Kind: "answer"}
		if len(d.c.Steps) > 0 {
			s = d.c.Steps[(stepBase+round)%len(d.c.Steps)]
		}
		if st := l.Respond(d.loopResponse(items, s), loopTimeout); st == "timeout" {
			l.Cancel()
			return nil, fdb, cancelled, vio("loop-wedged", "%s: trieSync.loop did not take the response of round %d within %v", d.t.name, round, loopTimeout)
		}
	}
}

func runLoopCase(c LoopCase) kit.Result {
	src := c.Src
	var (
		s *source
		v *violation
	)
	if src.Kind == "state" {
		if len(src.Vers) == 0 || len(src.Stores) == 0 {
			return kit.Discarded("empty state case")
		}
		s, v = buildStateSource(src)
	} else {
		if c.Bulk > 0 {
			var bulk []KV
			for i := 0; i < c.Bulk; i++ {
				val := make([]byte, 300)
				for j := range val {
					val[j] = byte(i + j)
				}
				val[0], val[1] = byte(i>>8), byte(i) // no two entries alike (identical leaves would be shared)
				bulk = append(bulk, KV{K: []byte{0xb0, byte(i >> 8), byte(i)}, V: val})
			}
			src.Base = append(bulk, src.Base...)
		}
		s, v = buildTrieSource(src)
	}
	if v != nil {
		return kit.Fail(v.class, "%s", v.msg)
	}
	if len(s.targets) == 0 || len(c.Faults) == 0 {
		return kit.Discarded("no targets")
	}
	d := &driver{c: src, src: s, dst: youdb.NewMemDatabase(), labels: s.labels, completed: map[common.Hash]bool{}}
	fail := func(v *violation) kit.Result {
		if s.alias && v.missing != nil && s.shadow[*v.missing] {
			v.class = "code-aliases-trie-node"
		}
		return kit.Fail(v.class, "%s", v.msg)
	}
	d.init()
	nontrivial := false
	for ti, t := range s.targets {
		d.t = t
		f := c.Faults[ti%len(c.Faults)]
		for attempt := 0; attempt < 2; attempt++ {
			if attempt == 1 {
				f = Fault{} // resume: a fresh sync on the same database, no faults
				d.labels["resume-after-fault"] = true
			}
			res, fdb, cancelled, v := d.runLoop(f, ti*7+attempt*3)
			if v != nil {
				return fail(v)
			}
			when := fmt.Sprintf("%s, run %d (fail write %d persist %v, fail put %d, cancel at %d; %d batch writes, %d failed, %d refused puts)", t.name, attempt, f.FailWrite, f.Persist, f.FailPut, f.CancelAt, fdb.writes, fdb.failed, fdb.putFailed)
			if fdb.putFailed > 0 {
				d.labels["batch-put-fault-hit"] = true
				if fdb.wrote > 0 {
					d.labels["batch-put-fault-then-retry-flush"] = true
				}
			}
			if fdb.failed+fdb.putFailed > 0 && len(t.reach) >= 2 {
				nontrivial = true
			}
			if fdb.failed > 0 {
				d.labels["write-fault-hit"] = true
				if fdb.wrote > 0 {
					d.labels["write-fault-after-successful-flush"] = true
				}
				if len(t.reach) >= 2 {
					nontrivial = true
				}
			}
			if cancelled {
				d.labels["cancelled"] = true
			}
			if fdb.wrote >= 2 {
				d.labels["intermediate-flush"] = true
			}
			if res == nil {
				// completion reported
				if cv := d.complete(when); cv != nil {
					if fdb.failed+fdb.putFailed > 0 && (cv.class == "incomplete-reported-complete") {
						cv.class = "write-error-swallowed"
						cv.msg = fmt.Sprintf("%s: the sync reported completion (Wait() == nil) although %d of its %d batch writes failed: %s", when, fdb.failed, fdb.writes, cv.msg)
					}
					return fail(cv)
				}
				if cancelled && len(t.reach) > 0 && t.root != emptyRoot {
					d.labels["cancel-after-completion"] = true
				}
				break
			}
			// an error was reported: nothing on disk may look complete unless it is
			if cv := d.rootCheck(when + ": reported " + res.Error()); cv != nil {
				return fail(cv)
			}
			if fdb.failed+fdb.putFailed == 0 && !cancelled {
				return fail(vio("spurious-sync-error", "%s: no fault was injected and every request was answered with its data, the sync failed: %v", when, res))
			}
			if attempt == 1 {
				return fail(vio("spurious-sync-error", "%s: the fault-free resume failed: %v", when, res))
			}
		}
	}
	var ls []string
	for l := range d.labels {
		ls = append(ls, l)
	}
	ls = append(ls, "kind:"+src.Kind)
	if c.Bulk > 0 {
		ls = append(ls, "bulk")
	}
	sort.Strings(ls)
	return kit.OK(nontrivial, ls...)
}

var _ = kit.Register(kit.Prop[LoopCase]{
	Name: "LoopWriteFaults",
	Rule: "sources as in SyncSchedule (plus, for 1 in 8 trie cases, 400-800 extra 300-byte entries so that the sync crosses the 100 KiB intermediate-flush threshold); each target is synchronised by the REAL trieSync.run() (loop + deferred final flush) in its own goroutine with the harness in the place of runTrieSync (one peer; responses complete / partial / with duplicate, foreign, corrupted or unrequested blobs); the destination database fails the k-th batch Write (k in 1..4; once or persistently; for small tries k=1 is the final forced flush carrying the root) and/or the sync is cancelled at its k-th request; then a fault-free sync resumes on the same database. Oracle: Wait()==nil => all reachable nodes on disk and content reads back; error => database downward closed and a present root complete; no fault => nil. non-trivial = a batch write fault actually hit a sync of a trie with >= 2 nodes; distinct = FNV-64 of the case JSON",
	Gen:  genLoopCase, Run: runLoopCase,
	Quick: 1500, Thorough: 12000, Chunk: 500, MinNonTrivialPct: 15,
})
