package c19

// C19 - state/trie sync reproduces the source exactly or reports incompleteness.
//
// Sources (plain tries in several versions sharing nodes, and whole states: accounts
// with storage tries, shared code, delegation blobs, validator trie, staking trie) are
// built with the real trie / StateDB into a source database. A generated responder
// schedule then drives the real scheduler (trie.Sync / state.NewStateSync) through the
// real you/downloader trieSync (processNodeData, commit, and optionally fillTasks /
// process) into one destination database, with batching, reordering, delay,
// duplicates, unrequested / foreign / corrupted blobs, commits at arbitrary points and
// interruptions (graceful, crash, torn write) followed by a fresh sync on the same
// destination.
//
// Oracle (harness-side, with an own RLP reader for node references):
//   - whenever Pending()==0 after a commit: every node reachable from the target root
//     in the source is in the destination with identical bytes; reading the content
//     through a fresh trie.Database / StateDB yields exactly the model;
//   - at every commit and interruption point the destination is downward closed (a
//     stored node has all nodes / code / delegation blobs it refers to), which is what
//     both "a present root is complete" and the resume logic of the scheduler rely on;
//   - nothing but blobs of the source ever appears in the destination; foreign and
//     corrupted blobs are answered with an error.

import (
	"bytes"
	"fmt"
	"math/big"
	"sort"
	"testing"

	"github.com/youchainhq/go-youchain/common"
	"github.com/youchainhq/go-youchain/core/state"
	"github.com/youchainhq/go-youchain/core/types"
	"github.com/youchainhq/go-youchain/crypto"
	"github.com/youchainhq/go-youchain/params"
	"github.com/youchainhq/go-youchain/trie"
	"github.com/youchainhq/go-youchain/you/downloader"
	"github.com/youchainhq/go-youchain/youdb"
	"pgregory.net/rapid"
	"verif/kit"
)

func TestMain(m *testing.M)   { kit.Main(m, "C19") }
func TestProps(t *testing.T)  { kit.RunAll(t) }
func TestReplay(t *testing.T) { kit.ReplayAll(t) }

var (
	emptyRoot = common.BytesToHash(keccak([]byte{0x80}))
	emptyCode = common.BytesToHash(keccak(nil))
)

// ---------------------------------------------------------------------------------
// case

// KV is one trie update (empty V = delete).
type KV struct {
	K []byte `json:"k"`
	V []byte `json:"v,omitempty"`
}

// Acct is one account write of a state version.
type Acct struct {
	Addr  int    `json:"a"`
	Bal   int64  `json:"bal"`
	Nonce uint64 `json:"nonce"`
	Code  int    `json:"code"`  // 0: unchanged/none, k>0: code pool entry k, -1-j: the root node blob of storage set j (hostile alias)
	Store int    `json:"store"` // 0: none, k>0: add the slots of storage set k-1
	Dlg   int    `json:"dlg"`   // bit i: delegate to validator i
}

// Slot is one storage slot of a storage set.
type Slot struct {
	K int `json:"k"`
	V int `json:"v"`
}

// Step is one step of the responder schedule.
type Step struct {
	Kind string `json:"k"`
	N    int    `json:"n,omitempty"`
	M    int    `json:"m,omitempty"`
	Peer int    `json:"p,omitempty"`
	Mode string `json:"mode,omitempty"`
}

// Case is a source, a list of sync targets and a responder schedule.
type Case struct {
	Kind string `json:"kind"` // "trie" | "state"
	// trie
	Base   []KV   `json:"base,omitempty"`
	Deltas [][]KV `json:"deltas,omitempty"`
	// state
	Vals   int      `json:"vals,omitempty"`
	Stores [][]Slot `json:"stores,omitempty"`
	Vers   [][]Acct `json:"vers,omitempty"`
	// sync
	Targets []int  `json:"targets"`  // trie: version index per sync; state: version*3 + {0 state, 1 validator, 2 staking}
	ViaLoop bool   `json:"via_loop"` // drive the downloader's fillTasks/process instead of Missing/processNodeData
	Peers   int    `json:"peers"`
	Steps   []Step `json:"steps"`
	Finish  bool   `json:"finish"` // after the schedule an honest responder answers everything
	// Excluded counts accounts whose hostile code alias was suppressed because the class is a recorded finding
	Excluded int `json:"excluded,omitempty"`
}

var alphabet = []byte{0x00, 0x01, 0x10, 0x11, 0xff}

func genKey(t *rapid.T) []byte {
	n := rapid.IntRange(1, 4).Draw(t, "klen")
	k := make([]byte, n)
	for i := range k {
		k[i] = alphabet[rapid.IntRange(0, len(alphabet)-1).Draw(t, "kb")]
	}
	return k
}

func genVal(t *rapid.T) []byte {
	n := rapid.SampledFrom([]int{33, 40, 1, 32, 100, 31, 2, 130, 20}).Draw(t, "vlen")
	v := make([]byte, n)
	fill := rapid.Byte().Draw(t, "vfill")
	for i := range v {
		v[i] = fill + byte(i)
	}
	return v
}

func genKVs(t *rapid.T, n int, allowDelete bool, existing []KV) []KV {
	var out []KV
	for i := 0; i < n; i++ {
		switch rapid.IntRange(0, 9).Draw(t, "kvkind") {
		case 0, 1: // mirrored subtree: the same suffixes and values under two prefixes
			p1 := alphabet[rapid.IntRange(0, len(alphabet)-1).Draw(t, "p1")]
			p2 := alphabet[rapid.IntRange(0, len(alphabet)-1).Draw(t, "p2")]
			m := rapid.IntRange(2, 4).Draw(t, "msize")
			for j := 0; j < m; j++ {
				suf := genKey(t)
				if len(suf) > 2 {
					suf = suf[:2]
				}
				v := genVal(t)
				out = append(out, KV{K: append([]byte{p1}, suf...), V: v}, KV{K: append([]byte{p2}, suf...), V: v})
			}
		case 2:
			if allowDelete && len(existing) > 0 {
				out = append(out, KV{K: existing[rapid.IntRange(0, len(existing)-1).Draw(t, "del")].K})
				continue
			}
			fallthrough
		default:
			out = append(out, KV{K: genKey(t), V: genVal(t)})
		}
	}
	return out
}

var stepKinds = []string{
	"fetch", "fetch", "fetch", "fetch",
	"answer", "answer", "answer", "answer", "answer", "answer",
	"late", "release", "dup", "unrequested", "foreign", "corrupt", "corrupt",
	"commit", "commit", "interrupt", "commitfail", "probe", "probe",
	"timeout", "emptyresp",
}

func genSteps(t *rapid.T) []Step {
	n := rapid.SampledFrom([]int{25, 40, 15, 60, 8, 3, 0}).Draw(t, "nsteps")
	var out []Step
	for i := 0; i < n; i++ {
		s := Step{Kind: rapid.SampledFrom(stepKinds).Draw(t, "step")}
		s.N = rapid.IntRange(0, 40).Draw(t, "n")
		s.M = rapid.IntRange(0, 40).Draw(t, "m")
		s.Peer = rapid.IntRange(0, 3).Draw(t, "peer")
		switch s.Kind {
		case "fetch":
			s.N = rapid.SampledFrom([]int{3, 1, 8, 0, 2, 20}).Draw(t, "batch")
		case "answer":
			s.N = rapid.SampledFrom([]int{2, 1, 4, 8, 100}).Draw(t, "count")
			s.Mode = rapid.SampledFrom([]string{"single", "batch"}).Draw(t, "mode")
		case "interrupt":
			s.Mode = rapid.SampledFrom([]string{"graceful", "crash", "torn"}).Draw(t, "imode")
		case "corrupt":
			s.Mode = rapid.SampledFrom([]string{"flip", "truncate", "append", "empty"}).Draw(t, "cmode")
		}
		out = append(out, s)
	}
	return out
}

func genCase(t *rapid.T) Case {
	var c Case
	c.Kind = rapid.SampledFrom([]string{"trie", "state", "trie"}).Draw(t, "kind")
	if c.Kind == "trie" {
		nb := rapid.SampledFrom([]int{8, 4, 14, 2, 24, 1, 0}).Draw(t, "nbase")
		c.Base = genKVs(t, nb, false, nil)
		nv := rapid.SampledFrom([]int{1, 0, 2}).Draw(t, "ndeltas")
		cur := append([]KV(nil), c.Base...)
		for i := 0; i < nv; i++ {
			d := genKVs(t, rapid.IntRange(1, 4).Draw(t, "nd"), true, cur)
			c.Deltas = append(c.Deltas, d)
			cur = append(cur, d...)
		}
		nt := rapid.SampledFrom([]int{1, 2, 3}).Draw(t, "ntargets")
		for i := 0; i < nt; i++ {
			c.Targets = append(c.Targets, rapid.IntRange(0, len(c.Deltas)).Draw(t, "target"))
		}
	} else {
		c.Vals = rapid.SampledFrom([]int{2, 0, 1, 3}).Draw(t, "vals")
		ns := rapid.IntRange(1, 3).Draw(t, "nstores")
		for i := 0; i < ns; i++ {
			var set []Slot
			m := rapid.SampledFrom([]int{3, 1, 6, 12}).Draw(t, "nslots")
			for j := 0; j < m; j++ {
				set = append(set, Slot{K: rapid.IntRange(0, 30).Draw(t, "slot"), V: rapid.IntRange(1, 5).Draw(t, "sval")})
			}
			c.Stores = append(c.Stores, set)
		}
		alias := !kit.IsKnown("code-aliases-trie-node")
		nver := rapid.SampledFrom([]int{1, 2}).Draw(t, "nver")
		for v := 0; v < nver; v++ {
			na := rapid.SampledFrom([]int{4, 2, 8, 1, 12}).Draw(t, "naccts")
			if v > 0 {
				na = rapid.IntRange(1, 3).Draw(t, "nchg")
			}
			var as []Acct
			for i := 0; i < na; i++ {
				a := Acct{
					Addr:  rapid.IntRange(0, 15).Draw(t, "addr"),
					Bal:   int64(rapid.IntRange(1, 1000).Draw(t, "bal")),
					Nonce: uint64(rapid.IntRange(0, 5).Draw(t, "nonce")),
					Code:  rapid.SampledFrom([]int{0, 1, 2, 1, 3, 4}).Draw(t, "code"),
					Store: rapid.IntRange(0, len(c.Stores)).Draw(t, "store"),
				}
				if c.Vals > 0 && rapid.IntRange(0, 2).Draw(t, "dlg") == 0 {
					a.Dlg = rapid.IntRange(1, 1<<uint(c.Vals)-1).Draw(t, "dlgmask")
				}
				if rapid.IntRange(0, 7).Draw(t, "alias") == 0 {
					if alias {
						a.Code = -1 - rapid.IntRange(0, len(c.Stores)-1).Draw(t, "aliasset")
					} else {
						c.Excluded++
					}
				}
				as = append(as, a)
			}
			c.Vers = append(c.Vers, as)
		}
		// each version: its three roots in a generated order
		for v := 0; v < nver; v++ {
			order := rapid.SampledFrom([][]int{{0, 1, 2}, {1, 2, 0}, {2, 0, 1}, {1, 0, 2}, {0}, {0, 2}}).Draw(t, "order")
			for _, o := range order {
				c.Targets = append(c.Targets, v*3+o)
			}
		}
	}
	c.ViaLoop = rapid.IntRange(0, 2).Draw(t, "vialoop") == 0
	c.Peers = rapid.SampledFrom([]int{2, 1, 3}).Draw(t, "peers")
	c.Steps = genSteps(t)
	c.Finish = rapid.IntRange(0, 6).Draw(t, "finish") != 0
	return c
}

// ---------------------------------------------------------------------------------
// sources

const (
	kindState = 1 // node of the account trie (leaves are accounts)
	kindPlain = 2 // node of a trie whose leaves refer to nothing
	kindRaw   = 4 // code / delegation blob
)

type target struct {
	name   string
	root   common.Hash
	kind   int
	tk     types.TrieKind
	reach  map[common.Hash]bool
	verify func(dst *youdb.MemDatabase, complete map[common.Hash]bool) *violation
	// verifyLive reads the content through a given (long-lived) state database
	verifyLive func(sdb state.Database, complete map[common.Hash]bool) *violation
}

type source struct {
	db      *youdb.MemDatabase
	kinds   map[common.Hash]int // every hash reachable from any target -> kinds it occurs as
	targets []*target
	labels  map[string]bool
	alias   bool                 // some account's code is byte-identical to a trie node of the same state
	shadow  map[common.Hash]bool // strict descendants of such aliased nodes
}

type violation struct {
	class   string
	msg     string
	missing *common.Hash // the absent node, for incomplete-reported-complete / parent-without-child
}

func vio(class, format string, args ...interface{}) *violation {
	return &violation{class: class, msg: fmt.Sprintf(format, args...)}
}

func (s *source) blob(h common.Hash) []byte {
	b, err := s.db.Get(h[:])
	if err != nil || len(b) == 0 {
		panic(fmt.Sprintf("harness: source database lacks %x", h))
	}
	return b
}

// deps lists what the blob stored under h refers to when read as the given kind.
func (s *source) deps(h common.Hash, kind int, blob []byte) []struct {
	h    common.Hash
	kind int
} {
	type ref = struct {
		h    common.Hash
		kind int
	}
	if kind == kindRaw {
		return nil
	}
	hashes, leaves, err := nodeRefs(blob)
	if err != nil {
		panic(fmt.Sprintf("harness: source node %x does not parse: %v", h, err))
	}
	var out []ref
	for _, c := range hashes {
		out = append(out, ref{common.BytesToHash(c), kind})
	}
	if kind == kindState {
		for _, l := range leaves {
			a, err := decodeAccount(l)
			if err != nil {
				panic(fmt.Sprintf("harness: account leaf in %x does not parse", h))
			}
			if r := common.BytesToHash(a.Root); r != emptyRoot {
				out = append(out, ref{r, kindPlain})
			}
			if ch := common.BytesToHash(a.CodeHash); ch != emptyCode {
				out = append(out, ref{ch, kindRaw})
			}
			if len(a.DlgHash) == 32 {
				out = append(out, ref{common.BytesToHash(a.DlgHash), kindRaw})
			}
		}
	}
	return out
}

func (s *source) walk(root common.Hash, kind int) map[common.Hash]bool {
	reach := map[common.Hash]bool{}
	if root == emptyRoot {
		return reach
	}
	type item struct {
		h    common.Hash
		kind int
	}
	seen := map[item]bool{}
	stack := []item{{root, kind}}
	for len(stack) > 0 {
		it := stack[len(stack)-1]
		stack = stack[:len(stack)-1]
		if seen[it] {
			s.labels["shared-node"] = true // referenced from more than one place
			continue
		}
		seen[it] = true
		reach[it.h] = true
		if hasEmbedded(s.blob(it.h)) {
			s.labels["embedded-node"] = true
		}
		s.kinds[it.h] |= it.kind
		for _, d := range s.deps(it.h, it.kind, s.blob(it.h)) {
			if ok, _ := s.db.Has(d.h[:]); !ok {
				panic(fmt.Sprintf("harness: source database lacks %x (kind %d), referenced by %x (kind %d)", d.h, d.kind, it.h, it.kind))
			}
			stack = append(stack, item{d.h, d.kind})
		}
	}
	return reach
}

// walkOnly is walk without recording kinds.
func (s *source) walkOnly(root common.Hash, kind int) map[common.Hash]bool {
	saved := s.kinds
	s.kinds = map[common.Hash]int{}
	defer func() { s.kinds = saved }()
	return s.walk(root, kind)
}

func applyKVs(tr *trie.Trie, model map[string][]byte, kvs []KV) {
	for _, kv := range kvs {
		if len(kv.V) == 0 {
			tr.Delete(kv.K)
			delete(model, string(kv.K))
		} else {
			tr.Update(kv.K, kv.V)
			model[string(kv.K)] = kv.V
		}
	}
}

func buildTrieSource(c Case) (*source, *violation) {
	s := &source{db: youdb.NewMemDatabase(), kinds: map[common.Hash]int{}, labels: map[string]bool{}}
	tdb := trie.NewDatabase(s.db)
	tr, _ := trie.New(common.Hash{}, tdb)
	model := map[string][]byte{}
	type ver struct {
		root  common.Hash
		model map[string][]byte
	}
	var vers []ver
	commit := func() *violation {
		root, err := tr.Commit(nil)
		if err != nil {
			return vio("source", "source trie commit: %v", err)
		}
		if want := RefRoot(model); !bytes.Equal(root[:], want) {
			return vio("source", "source trie root %x differs from the independent MPT root %x", root, want)
		}
		if root != emptyRoot {
			if err := tdb.Commit(root, false); err != nil {
				return vio("source", "source database commit: %v", err)
			}
		}
		m := map[string][]byte{}
		for k, v := range model {
			m[k] = v
		}
		vers = append(vers, ver{root, m})
		return nil
	}
	applyKVs(tr, model, c.Base)
	if v := commit(); v != nil {
		return nil, v
	}
	for _, d := range c.Deltas {
		applyKVs(tr, model, d)
		if v := commit(); v != nil {
			return nil, v
		}
	}
	for i, ti := range c.Targets {
		v := vers[ti%len(vers)]
		t := &target{name: fmt.Sprintf("sync %d: trie version %d", i, ti%len(vers)), root: v.root, kind: kindPlain, tk: types.KindValidator}
		t.reach = s.walk(v.root, kindPlain)
		want := v.model
		root := v.root
		t.verify = func(dst *youdb.MemDatabase, _ map[common.Hash]bool) *violation { return verifyTrie(dst, root, want) }
		t.verifyLive = func(sdb state.Database, _ map[common.Hash]bool) *violation {
			return verifyTrieIn(sdb.TrieDB(), root, want)
		}
		s.targets = append(s.targets, t)
		if len(want) == 0 {
			s.labels["empty-trie"] = true
		}
		if len(want) == 1 {
			s.labels["single-leaf"] = true
		}
	}
	return s, nil
}

func verifyTrie(dst *youdb.MemDatabase, root common.Hash, want map[string][]byte) *violation {
	return verifyTrieIn(trie.NewDatabase(dst), root, want)
}

func verifyTrieIn(tdb *trie.Database, root common.Hash, want map[string][]byte) *violation {
	tr, err := trie.New(root, tdb)
	if err != nil {
		return vio("incomplete-reported-complete", "opening synced root %x on the destination failed: %v", root, err)
	}
	it := trie.NewIterator(tr.NodeIterator(nil))
	got := 0
	for it.Next() {
		w, ok := want[string(it.Key)]
		if !ok || !bytes.Equal(w, it.Value) {
			return vio("content-mismatch", "synced trie %x holds key %x = %x, the source has %x", root, it.Key, it.Value, w)
		}
		got++
	}
	if it.Err != nil {
		return vio("incomplete-reported-complete", "walking synced trie %x failed: %v", root, it.Err)
	}
	if got != len(want) {
		return vio("content-mismatch", "synced trie %x yields %d pairs, the source has %d", root, got, len(want))
	}
	return nil
}

// ---- whole states -------------------------------------------------------------------

func addrOf(i int) common.Address { return common.BytesToAddress([]byte{0xa0, byte(i)}) }

func codeOf(k int) []byte {
	n := []int{0, 5, 40, 1, 200}[k%5]
	b := make([]byte, n)
	for i := range b {
		b[i] = byte(k*31 + i)
	}
	return b
}

type valKey struct {
	pub  []byte
	addr common.Address
}

var valKeys = func() []valKey {
	var out []valKey
	for i := 0; i < 3; i++ {
		k, err := crypto.ToECDSA(keccak([]byte{'v', 'a', 'l', byte(i)}))
		if err != nil {
			panic(err)
		}
		pub := crypto.CompressPubkey(&k.PublicKey)
		out = append(out, valKey{pub, state.PubToAddress(pub)})
	}
	return out
}()

type macct struct {
	bal     int64
	nonce   uint64
	code    []byte
	storage map[common.Hash]common.Hash
	dlg     map[int]int64 // validator index -> delegated units
}

type mstate struct {
	accts map[int]*macct
	vals  int
}

func (m *mstate) clone() *mstate {
	out := &mstate{accts: map[int]*macct{}, vals: m.vals}
	for k, a := range m.accts {
		b := &macct{bal: a.bal, nonce: a.nonce, code: a.code, storage: map[common.Hash]common.Hash{}, dlg: map[int]int64{}}
		for x, y := range a.storage {
			b.storage[x] = y
		}
		for x, y := range a.dlg {
			b.dlg[x] = y
		}
		out.accts[k] = b
	}
	return out
}

func slotKey(k int) common.Hash { return common.BigToHash(big.NewInt(int64(k))) }
func slotVal(v int) common.Hash { return common.BigToHash(big.NewInt(int64(v))) }

// storageRootBlob is the root node of the storage trie that holds exactly the given
// slots (what an attacker can compute off-chain and deploy as contract code).
func storageRootBlob(set []Slot) ([]byte, *youdb.MemDatabase) {
	db := youdb.NewMemDatabase()
	sdb := state.NewDatabase(db)
	st, err := state.New(common.Hash{}, common.Hash{}, common.Hash{}, sdb)
	if err != nil {
		panic(err)
	}
	a := addrOf(99)
	st.SetBalance(a, big.NewInt(1))
	for _, sl := range set {
		st.SetState(a, slotKey(sl.K), slotVal(sl.V))
	}
	root, _, _, err := st.Commit(true)
	if err != nil {
		panic(err)
	}
	sdb.TrieDB().Commit(root, false)
	obj, err := sdb.OpenTrie(root)
	if err != nil {
		panic(err)
	}
	enc, err := obj.TryGet(a[:])
	if err != nil || len(enc) == 0 {
		panic("harness: helper account missing")
	}
	acc, err := decodeAccount(enc)
	if err != nil {
		panic(err)
	}
	if common.BytesToHash(acc.Root) == emptyRoot {
		return nil, db
	}
	b, _ := db.Get(acc.Root)
	return b, db
}

func buildStateSource(c Case) (*source, *violation) {
	s := &source{db: youdb.NewMemDatabase(), kinds: map[common.Hash]int{}, labels: map[string]bool{}}
	sdb := state.NewDatabase(s.db)
	st, err := state.New(common.Hash{}, common.Hash{}, common.Hash{}, sdb)
	if err != nil {
		return nil, vio("source", "state.New: %v", err)
	}
	nv := c.Vals
	if nv > len(valKeys) {
		nv = len(valKeys)
	}
	model := &mstate{accts: map[int]*macct{}, vals: nv}
	for i := 0; i < nv; i++ {
		k := valKeys[i]
		if st.CreateValidator(fmt.Sprintf("val-%d", i), k.addr, k.addr, params.RoleChancellor, k.pub, bytes.Repeat([]byte{byte(i + 1)}, 48),
			big.NewInt(1000), big.NewInt(10), params.AcceptDelegation, 2000, 1000, params.ValidatorOnline) == nil {
			return nil, vio("source", "CreateValidator %d failed", i)
		}
	}
	type roots struct {
		r     [3]common.Hash
		model *mstate
	}
	var vers []roots
	var helpers []*youdb.MemDatabase
	for _, accts := range c.Vers {
		for _, a := range accts {
			addr := addrOf(a.Addr)
			m := model.accts[a.Addr]
			if m == nil {
				m = &macct{storage: map[common.Hash]common.Hash{}, dlg: map[int]int64{}}
				model.accts[a.Addr] = m
			}
			bal := a.Bal
			if bal < 1 {
				bal = 1
			}
			st.SetBalance(addr, big.NewInt(bal))
			st.SetNonce(addr, a.Nonce)
			m.bal, m.nonce = bal, a.Nonce
			switch {
			case a.Code > 0:
				if code := codeOf(a.Code); len(code) > 0 {
					st.SetCode(addr, code)
					m.code = code
				}
			case a.Code < 0 && len(c.Stores) > 0:
				if blob, hdb := storageRootBlob(c.Stores[(-1-a.Code)%len(c.Stores)]); len(blob) > 0 {
					st.SetCode(addr, blob)
					m.code = blob
					helpers = append(helpers, hdb)
				}
			}
			if a.Store > 0 && len(c.Stores) > 0 {
				for _, sl := range c.Stores[(a.Store-1)%len(c.Stores)] {
					st.SetState(addr, slotKey(sl.K), slotVal(sl.V))
					m.storage[slotKey(sl.K)] = slotVal(sl.V)
				}
			}
			for i := 0; i < nv; i++ {
				if a.Dlg&(1<<uint(i)) != 0 {
					val := st.GetValidatorByMainAddr(valKeys[i].addr)
					if val == nil {
						return nil, vio("source", "validator %d vanished", i)
					}
					amount := new(big.Int).Mul(big.NewInt(100), params.StakeUint)
					st.UpdateDelegation(addr, val, amount)
					m.dlg[i] += 100
					st.AddStakingRecord(addr, valKeys[i].addr, common.BytesToHash([]byte{0xee, byte(a.Addr), byte(i)}), new(big.Int).Mul(big.NewInt(m.dlg[i]), params.StakeUint))
				}
			}
		}
		root, valRoot, stakingRoot, err := st.Commit(true)
		if err != nil {
			return nil, vio("source", "state commit: %v", err)
		}
		for _, r := range []common.Hash{root, valRoot, stakingRoot} {
			if r != emptyRoot && r != (common.Hash{}) {
				if err := sdb.TrieDB().Commit(r, false); err != nil {
					return nil, vio("source", "source database commit: %v", err)
				}
			}
		}
		vers = append(vers, roots{[3]common.Hash{root, valRoot, stakingRoot}, model.clone()})
	}
	// The responder is a node that holds every node of the state. (When a contract's code
	// is byte-identical to a trie node, the real trie.Database of the source keeps only
	// the first of the two insertions and does not flush the node's children; a responder
	// that committed the storage trie in an earlier block has them, which is modelled by
	// merging the separately built storage trie into the source database.)
	for _, hdb := range helpers {
		for _, k := range hdb.Keys() {
			if len(k) == common.HashLength {
				if ok, _ := s.db.Has(k); !ok {
					v, _ := hdb.Get(k)
					s.db.Put(k, v)
					s.labels["source-repaired-for-alias"] = true
				}
			}
		}
	}
	for i, ti := range c.Targets {
		v, which := (ti/3)%len(vers), ti%3
		ver := vers[v]
		t := &target{root: ver.r[which]}
		switch which {
		case 0:
			t.kind, t.tk, t.name = kindState, types.KindState, fmt.Sprintf("sync %d: state trie of version %d", i, v)
		case 1:
			t.kind, t.tk, t.name = kindPlain, types.KindValidator, fmt.Sprintf("sync %d: validator trie of version %d", i, v)
		default:
			t.kind, t.tk, t.name = kindPlain, types.KindStaking, fmt.Sprintf("sync %d: staking trie of version %d", i, v)
		}
		if t.root == (common.Hash{}) {
			t.root = emptyRoot
		}
		t.reach = s.walk(t.root, t.kind)
		m, r, w := ver.model, ver.r, which
		t.verify = func(dst *youdb.MemDatabase, complete map[common.Hash]bool) *violation {
			whole := true
			for _, x := range r {
				if x != emptyRoot && x != (common.Hash{}) && !complete[x] {
					whole = false
				}
			}
			return verifyState(state.NewDatabase(dst), r, m, w, whole)
		}
		t.verifyLive = func(sdb state.Database, complete map[common.Hash]bool) *violation {
			whole := true
			for _, x := range r {
				if x != emptyRoot && x != (common.Hash{}) && !complete[x] {
					whole = false
				}
			}
			return verifyState(sdb, r, m, w, whole)
		}
		s.targets = append(s.targets, t)
	}
	// hostile shape present? (a raw blob that is also a trie node of the synced data)
	s.shadow = map[common.Hash]bool{}
	for h, k := range s.kinds {
		if k&kindRaw != 0 && k&(kindState|kindPlain) != 0 {
			s.alias = true
			s.labels["code-aliases-trie-node"] = true
			for _, kind := range []int{kindState, kindPlain} {
				if k&kind != 0 {
					for x := range s.walkOnly(h, kind) {
						if x != h {
							s.shadow[x] = true
						}
					}
				}
			}
		}
	}
	for _, m := range model.accts {
		if len(m.dlg) > 0 {
			s.labels["delegation-blob"] = true
		}
		if len(m.storage) > 0 {
			s.labels["storage-trie"] = true
		}
	}
	return s, nil
}

// verifyState reads the synced data through the real StateDB on a fresh database.
// which: the root just completed; whole: all three roots of the version are complete.
func verifyState(sdb state.Database, r [3]common.Hash, m *mstate, which int, whole bool) *violation {
	if which != 0 && !whole {
		// a validator / staking trie alone: walk it
		tr, err := trie.New(r[which], sdb.TrieDB())
		if err != nil {
			return vio("incomplete-reported-complete", "opening synced root %x failed: %v", r[which], err)
		}
		it := trie.NewIterator(tr.NodeIterator(nil))
		for it.Next() {
		}
		if it.Err != nil {
			return vio("incomplete-reported-complete", "walking synced trie %x failed: %v", r[which], it.Err)
		}
		return nil
	}
	valRoot, stakingRoot := common.Hash{}, common.Hash{}
	if whole {
		valRoot, stakingRoot = r[1], r[2]
	}
	st, err := state.New(r[0], valRoot, stakingRoot, sdb)
	if err != nil {
		return vio("incomplete-reported-complete", "state.New on the synced roots failed: %v", err)
	}
	var ids []int
	for id := range m.accts {
		ids = append(ids, id)
	}
	sort.Ints(ids)
	for _, id := range ids {
		a, addr := m.accts[id], addrOf(id)
		if got := st.GetBalance(addr); got.Cmp(big.NewInt(a.bal)) != 0 {
			return vio("content-mismatch", "account %d: balance %v, source %d", id, got, a.bal)
		}
		if got := st.GetNonce(addr); got != a.nonce {
			return vio("content-mismatch", "account %d: nonce %d, source %d", id, got, a.nonce)
		}
		if got := st.GetCode(addr); !bytes.Equal(got, a.code) {
			return vio("content-mismatch", "account %d: code %x, source %x", id, got, a.code)
		}
		var keys []string
		for k := range a.storage {
			keys = append(keys, string(k[:]))
		}
		sort.Strings(keys)
		for _, ks := range keys {
			k := common.BytesToHash([]byte(ks))
			if got := st.GetState(addr, k); got != a.storage[k] {
				return vio("content-mismatch", "account %d: slot %x = %x, source %x (db error: %v)", id, k, got, a.storage[k], st.Error())
			}
		}
		if got := st.GetCountOfDelegateTo(addr); got != len(a.dlg) {
			return vio("content-mismatch", "account %d: %d delegations, source %d", id, got, len(a.dlg))
		}
		if whole {
			dtos, err := st.GetDelegationsFrom(addr)
			if err != nil || len(dtos) != len(a.dlg) {
				return vio("content-mismatch", "account %d: GetDelegationsFrom = %d entries, err %v; source %d", id, len(dtos), err, len(a.dlg))
			}
			for vi, units := range a.dlg {
				want := new(big.Int).Mul(big.NewInt(units), params.StakeUint)
				if got := st.GetStakingRecordValue(addr, valKeys[vi].addr); got == nil || got.Cmp(want) != 0 {
					return vio("content-mismatch", "account %d: staking record for validator %d = %v, source %v", id, vi, got, want)
				}
			}
		}
	}
	if err := st.Error(); err != nil {
		return vio("incomplete-reported-complete", "reading the synced state failed: %v", err)
	}
	if whole {
		for i := 0; i < m.vals; i++ {
			if st.GetValidatorByMainAddr(valKeys[i].addr) == nil {
				return vio("content-mismatch", "validator %d missing from the synced validator trie", i)
			}
		}
	}
	// integrity walk over accounts, storage, code and delegation blobs
	it := state.NewNodeIterator(st)
	for it.Next() {
	}
	if it.Error != nil {
		return vio("incomplete-reported-complete", "walking the synced state failed: %v", it.Error)
	}
	return nil
}

// ---------------------------------------------------------------------------------
// the sync driver

type limitedPutter struct {
	db     *youdb.MemDatabase
	left   int
	wrote  int
	failed bool
}

var errTorn = fmt.Errorf("c19: simulated crash during write")

func (p *limitedPutter) Put(k, v []byte) error {
	if p.left == 0 {
		p.failed = true
		return errTorn
	}
	p.left--
	p.wrote++
	return p.db.Put(k, v)
}

type driver struct {
	c         Case
	src       *source
	dst       *youdb.MemDatabase
	fdb       *faultDB       // the destination as the sync sees it (can refuse a Put into a write batch)
	live      state.Database // ONE long-lived state database over the destination disk, created before any sync (as BlockChain.stateCache is)
	all       []common.Hash  // every hash of the source, sorted (probe targets)
	t         *target
	sched     *trie.Sync
	ts        *downloader.VerifTrieSync
	peers     []string
	labels    map[string]bool
	ntriv     bool
	completed map[common.Hash]bool // roots whose sync reported completion (and passed the oracle)

	// direct mode bookkeeping (the harness plays the downloader's task set)
	outstanding []common.Hash
	held        []common.Hash
	accepted    map[common.Hash]bool
	requested   map[common.Hash]bool
	history     [][]byte
	// loop mode
	activeFor map[string][]common.Hash
}

// init prepares what lives as long as the case: the fault-injecting view of the
// destination and the long-lived state database over it.
func (d *driver) init() {
	d.fdb = &faultDB{MemDatabase: d.dst}
	d.live = state.NewDatabase(d.dst)
	var hs []string
	for h := range d.src.kinds {
		hs = append(hs, string(h[:]))
	}
	sort.Strings(hs)
	for _, k := range hs {
		d.all = append(d.all, common.BytesToHash([]byte(k)))
	}
}

// probe looks n source hashes up through the long-lived database, as a node serving
// GetNodeData to its own peers (or reading code / delegation lists) does - whether or
// not the sync has delivered them yet. What it returns must agree with the disk.
func (d *driver) probe(n, sel int) *violation {
	if len(d.all) == 0 {
		return nil
	}
	if n > len(d.all) {
		n = len(d.all)
	}
	for j := 0; j < n; j++ {
		h := d.all[(sel+j*5)%len(d.all)]
		if v := d.lookup(h, "probe"); v != nil {
			return v
		}
	}
	if n > 0 {
		d.labels["probed-through-long-lived-db"] = true
	}
	return nil
}

func (d *driver) lookup(h common.Hash, when string) *violation {
	got, err := d.live.TrieDB().Node(h)
	disk, derr := d.dst.Get(h[:])
	switch {
	case derr != nil || len(disk) == 0:
		if err == nil && len(got) > 0 {
			return vio("foreign-data-written", "%s: the long-lived database returns a blob for %x which is not on disk", when, h)
		}
		d.labels["probe-miss-before-delivery"] = true
	case err != nil || !bytes.Equal(got, disk):
		return vio("stale-lookup-after-sync", "%s: %x is on the destination disk, but Node() of the state database that was opened before the sync returns %x... (err=%v): the synced content cannot be read through the running node's database", when, h, head(got), err)
	}
	return nil
}

func (d *driver) newSync() {
	if d.t.kind == kindState {
		d.sched = state.NewStateSync(d.t.root, d.fdb)
	} else {
		d.sched = trie.NewSync(d.t.root, d.fdb, nil)
	}
	d.ts = downloader.VerifNewTrieSync(d.t.tk, d.fdb, d.sched, d.peers)
	d.outstanding, d.held = nil, nil
	d.accepted, d.requested = map[common.Hash]bool{}, map[common.Hash]bool{}
	d.activeFor = map[string][]common.Hash{}
}

// closure checks that the destination holds only source blobs and is downward closed.
func (d *driver) closure(when string) *violation {
	keys := d.dst.Keys()
	sort.Slice(keys, func(i, j int) bool { return bytes.Compare(keys[i], keys[j]) < 0 })
	for _, k := range keys {
		if len(k) != common.HashLength {
			continue // the downloader's own progress marker
		}
		h := common.BytesToHash(k)
		val, _ := d.dst.Get(k)
		src, err := d.src.db.Get(k)
		if err != nil || !bytes.Equal(src, val) {
			return vio("foreign-data-written", "%s: destination holds %x = %x..., which is not a blob of the source", when, k, head(val))
		}
		if !bytes.Equal(keccak(val), k) {
			return vio("foreign-data-written", "%s: destination key %x does not hash its value", when, k)
		}
		kinds := d.src.kinds[h]
		for _, kind := range []int{kindState, kindPlain} {
			if kinds&kind == 0 {
				continue
			}
			for _, dep := range d.src.deps(h, kind, val) {
				if ok, _ := d.dst.Has(dep.h[:]); !ok {
					v := vio("parent-without-child", "%s: destination holds node %x but not %x which it refers to (%s); a later sync treats the stored node as a complete subtree", when, k, dep.h, d.t.name)
					miss := dep.h
					v.missing = &miss
					return v
				}
			}
		}
	}
	return nil
}

func head(b []byte) []byte {
	if len(b) > 12 {
		return b[:12]
	}
	return b
}

// complete is the oracle for a sync that reported completion.
func (d *driver) complete(when string) *violation {
	var hs []string
	for h := range d.t.reach {
		hs = append(hs, string(h[:]))
	}
	sort.Strings(hs)
	for _, k := range hs {
		want := d.src.blob(common.BytesToHash([]byte(k)))
		got, err := d.dst.Get([]byte(k))
		if err != nil {
			v := vio("incomplete-reported-complete", "%s: %s reported complete (Pending()==0) but %x, reachable from root %x in the source, is missing from the destination (%d of %d present)", when, d.t.name, []byte(k), d.t.root, d.present(), len(hs))
			miss := common.BytesToHash([]byte(k))
			v.missing = &miss
			return v
		}
		if !bytes.Equal(got, want) {
			return vio("content-mismatch", "%s: destination blob %x differs from the source", when, []byte(k))
		}
	}
	if v := d.closure(when); v != nil {
		return v
	}
	d.completed[d.t.root] = true
	if v := d.t.verify(d.dst, d.completed); v != nil {
		v.msg = when + ": " + d.t.name + ": " + v.msg
		return v
	}
	// the same through the database instance that has been open since before the sync
	for _, k := range hs {
		if v := d.lookup(common.BytesToHash([]byte(k)), when+": "+d.t.name+" complete"); v != nil {
			return v
		}
	}
	if d.t.verifyLive != nil {
		if v := d.t.verifyLive(d.live, d.completed); v != nil {
			v.msg = when + ": " + d.t.name + " (read through the long-lived state database): " + v.msg
			if v.class == "content-mismatch" || v.class == "incomplete-reported-complete" {
				v.class = "stale-lookup-after-sync"
			}
			return v
		}
	}
	return nil
}

func (d *driver) present() int {
	n := 0
	for h := range d.t.reach {
		if ok, _ := d.dst.Has(h[:]); ok {
			n++
		}
	}
	return n
}

// rootCheck: at an interruption point a present root must be a complete trie.
func (d *driver) rootCheck(when string) *violation {
	if v := d.closure(when); v != nil {
		return v
	}
	if d.t.root == emptyRoot {
		return nil
	}
	if ok, _ := d.dst.Has(d.t.root[:]); ok {
		if v := d.complete(when + " (root present after interruption)"); v != nil {
			return v
		}
	}
	return nil
}

// send delivers one blob the way the downloader does and classifies the outcome.
// expect: "accept" (must be taken), "reject" (must be refused), "" (either).
func (d *driver) send(when string, blob []byte, expect string) (bool, *violation) {
	_, h, err := d.ts.ProcessNodeData(blob)
	if !bytes.Equal(h[:], keccak(blob)) {
		return false, vio("wrong-hash", "%s: processNodeData keyed a blob by %x, its keccak is %x", when, h, keccak(blob))
	}
	d.history = append(d.history, blob)
	if err == nil {
		if expect == "reject" {
			return true, vio("unrequested-accepted", "%s: blob %x... (hash %x) is not part of the trie being synced, Process accepted it", when, head(blob), h)
		}
		d.accepted[h] = true
		return true, nil
	}
	if expect == "accept" {
		return false, vio("requested-refused", "%s: the correct blob for requested hash %x was refused: %v", when, h, err)
	}
	return false, nil
}

func removeAt(hs []common.Hash, i int) []common.Hash {
	return append(hs[:i:i], hs[i+1:]...)
}

func (d *driver) fetchDirect(n int) *violation {
	hs := d.sched.Missing(n)
	for _, h := range hs {
		if !d.t.reach[h] {
			return vio("requested-foreign-hash", "%s: Missing() asks for %x which is not part of the source trie", d.t.name, h)
		}
		if d.requested[h] {
			d.labels["missing-repeats-hash"] = true
			continue
		}
		d.requested[h] = true
		d.outstanding = append(d.outstanding, h)
	}
	return nil
}

// corrupted derives a blob that cannot hash to what was requested.
func corrupted(blob []byte, s Step) []byte {
	b := append([]byte(nil), blob...)
	switch s.Mode {
	case "truncate":
		return b[:s.N%len(b)]
	case "append":
		return append(b, byte(s.M))
	case "empty":
		return []byte{}
	default:
		b[s.N%len(b)] ^= 1 << uint(s.M%8)
		return b
	}
}

// foreignBlob returns a well-formed trie node that is not part of the target.
func (d *driver) foreignBlob(s Step) []byte {
	var cand []string
	for h := range d.src.kinds {
		if !d.t.reach[h] {
			cand = append(cand, string(h[:]))
		}
	}
	if len(cand) > 0 && s.M%2 == 0 {
		sort.Strings(cand)
		return d.src.blob(common.BytesToHash([]byte(cand[s.N%len(cand)])))
	}
	// a leaf node of nobody's trie
	val := bytes.Repeat([]byte{byte(s.N), 0x5a}, 20)
	return rlpList(rlpString(hexPrefix([]byte{1, 2, byte(s.M % 16)}, true)), rlpString(val))
}

func (d *driver) stepDirect(when string, s Step) *violation {
	switch s.Kind {
	case "fetch":
		return d.fetchDirect(s.N)
	case "answer":
		if len(d.outstanding) == 0 {
			return nil
		}
		cnt := s.N
		if cnt > len(d.outstanding) {
			cnt = len(d.outstanding)
		}
		var picks []common.Hash
		for j := 0; j < cnt; j++ {
			i := (s.M + j*7) % len(d.outstanding)
			picks = append(picks, d.outstanding[i])
			d.outstanding = removeAt(d.outstanding, i)
		}
		if s.Mode == "batch" {
			var rs []trie.SyncResult
			for _, h := range picks {
				if !d.accepted[h] {
					rs = append(rs, trie.SyncResult{Hash: h, Data: d.src.blob(h)})
				}
			}
			if len(rs) > 1 {
				d.labels["batch-process"] = true
			}
			if _, idx, err := d.sched.Process(rs); err != nil {
				return vio("requested-refused", "%s: Process of %d correct blobs for requested hashes failed at #%d (%x): %v", when, len(rs), idx, rs[idx].Hash, err)
			}
			for _, r := range rs {
				d.accepted[r.Hash] = true
				d.history = append(d.history, r.Data)
			}
			return nil
		}
		for _, h := range picks {
			expect := "accept"
			if d.accepted[h] {
				expect = "" // delivered before it was asked for; now a duplicate
			}
			if _, v := d.send(when, d.src.blob(h), expect); v != nil {
				return v
			}
		}
	case "late":
		cnt := 1 + s.N%3
		for j := 0; j < cnt && len(d.outstanding) > 0; j++ {
			i := (s.M + j) % len(d.outstanding)
			d.held = append(d.held, d.outstanding[i])
			d.outstanding = removeAt(d.outstanding, i)
			d.labels["late-answer"] = true
			d.ntriv = true
		}
	case "release":
		if len(d.held) > 0 {
			i := s.M % len(d.held)
			d.outstanding = append(d.outstanding, d.held[i])
			d.held = removeAt(d.held, i)
		}
	case "dup":
		if len(d.history) == 0 {
			return nil
		}
		blob := d.history[s.M%len(d.history)]
		h := common.BytesToHash(keccak(blob))
		expect := ""
		if !d.t.reach[h] {
			expect = "reject"
		}
		d.labels["duplicate"] = true
		d.ntriv = true
		was := d.accepted[h]
		ok, v := d.send(when, blob, expect)
		if v != nil {
			return v
		}
		if ok && was {
			d.labels["duplicate-accepted-again"] = true
		}
	case "unrequested":
		// a node of the target that has not been asked for (yet)
		var cand []string
		for h := range d.t.reach {
			if !d.requested[h] && !d.accepted[h] {
				cand = append(cand, string(h[:]))
			}
		}
		if len(cand) == 0 {
			return nil
		}
		sort.Strings(cand)
		h := common.BytesToHash([]byte(cand[s.M%len(cand)]))
		d.labels["unrequested-node-of-target"] = true
		d.ntriv = true
		if ok, v := d.send(when, d.src.blob(h), ""); v != nil {
			return v
		} else if ok {
			d.labels["early-delivery-accepted"] = true
		}
	case "foreign":
		d.labels["foreign-node"] = true
		d.ntriv = true
		blob := d.foreignBlob(s)
		if d.t.reach[common.BytesToHash(keccak(blob))] {
			return nil
		}
		_, v := d.send(when, blob, "reject")
		return v
	case "corrupt":
		if len(d.outstanding) == 0 {
			return nil
		}
		h := d.outstanding[s.Peer%len(d.outstanding)]
		blob := corrupted(d.src.blob(h), s)
		if d.t.reach[common.BytesToHash(keccak(blob))] {
			return nil
		}
		d.labels["corrupt-"+s.Mode] = true
		d.ntriv = true
		_, v := d.send(when, blob, "reject")
		return v
	}
	return nil
}

// ---- loop mode: the downloader's own task bookkeeping ---------------------------------

func (d *driver) stepLoop(when string, s Step) *violation {
	peer := d.peers[s.Peer%len(d.peers)]
	switch s.Kind {
	case "fetch":
		if d.activeFor[peer] != nil {
			return nil
		}
		n := s.N // NodeDataCapacity is always within [2, MaxTrieNodeFetch]
		if n == 0 || n > downloader.MaxTrieNodeFetch {
			n = downloader.MaxTrieNodeFetch
		}
		if n < 2 {
			n = 2
		}
		items := d.ts.FillTasks(n, peer)
		for _, h := range items {
			if !d.t.reach[h] {
				return vio("requested-foreign-hash", "%s: the sync asks for %x which is not part of the source trie", d.t.name, h)
			}
			d.requested[h] = true
		}
		if items != nil {
			d.activeFor[peer] = items
		}
	case "answer", "late", "dup", "unrequested", "foreign", "corrupt", "timeout", "emptyresp", "release":
		// one response of the peer's active request
		items := d.activeFor[peer]
		if items == nil {
			// pick any busy peer
			for _, p := range d.peers {
				if d.activeFor[p] != nil {
					peer, items = p, d.activeFor[p]
					break
				}
			}
		}
		if items == nil {
			return nil
		}
		delete(d.activeFor, peer)
		var resp [][]byte
		mustOK := true
		switch s.Kind {
		case "timeout":
			resp = nil
			d.labels["timeout"] = true
			d.ntriv = true
		case "emptyresp":
			resp = [][]byte{}
			mustOK = false // "failed with all peers" is a legitimate abort
			d.labels["empty-response"] = true
			d.ntriv = true
		default:
			cnt := len(items)
			if s.Kind == "late" || s.Kind == "answer" && s.N < cnt {
				cnt = s.N % (len(items) + 1)
				if cnt == 0 {
					cnt = 1
				}
				if cnt < len(items) {
					d.labels["partial-response"] = true
					d.ntriv = true
				}
			}
			rot := s.M % len(items)
			for j := 0; j < cnt; j++ {
				resp = append(resp, d.src.blob(items[(rot+j)%len(items)]))
			}
			switch s.Kind {
			case "dup":
				if len(d.history) > 0 {
					resp = append(resp, d.history[s.M%len(d.history)])
				}
				resp = append(resp, resp[0])
				d.labels["duplicate"] = true
				d.ntriv = true
			case "foreign":
				if b := d.foreignBlob(s); !d.t.reach[common.BytesToHash(keccak(b))] {
					resp = append([][]byte{b}, resp...)
					d.labels["foreign-node"] = true
					d.ntriv = true
				}
			case "corrupt":
				j := s.N % len(resp)
				if b := corrupted(resp[j], s); !d.t.reach[common.BytesToHash(keccak(b))] && len(b) > 0 {
					resp[j] = b
					d.labels["corrupt-"+s.Mode] = true
					d.ntriv = true
				}
			case "unrequested":
				var cand []string
				for h := range d.t.reach {
					if !d.requested[h] {
						cand = append(cand, string(h[:]))
					}
				}
				if len(cand) > 0 {
					sort.Strings(cand)
					resp = append(resp, d.src.blob(common.BytesToHash([]byte(cand[s.M%len(cand)]))))
					d.labels["unrequested-node-of-target"] = true
					d.ntriv = true
				}
			}
		}
		for _, b := range resp {
			d.history = append(d.history, b)
		}
		_, err := d.ts.Process(peer, resp, false)
		if err != nil {
			if mustOK {
				return vio("requested-refused", "%s: trieSync.process failed on a response of %d blobs (the sync aborts): %v", when, len(resp), err)
			}
			// the sync aborted; the loop's deferred commit runs, then a new sync starts
			d.labels["abort-all-peers-failed"] = true
			return d.interrupt(when, "graceful", s)
		}
	}
	return nil
}

func (d *driver) interrupt(when, mode string, s Step) *violation {
	d.labels["interrupt-"+mode] = true
	d.ntriv = true
	switch mode {
	case "graceful": // trieSync.loop's deferred commit(true)
		if err := d.ts.Commit(true); err != nil {
			return vio("commit-error", "%s: commit failed: %v", when, err)
		}
	case "torn": // crash in the middle of writing the membatch, in completion order
		p := &limitedPutter{db: d.dst, left: 1 + s.N%4}
		d.sched.Commit(p)
		if p.wrote > 0 && p.failed {
			d.labels["torn-write-partial"] = true
		}
	case "crash": // everything not yet committed is lost
	}
	if v := d.rootCheck(when + " interrupt(" + mode + ")"); v != nil {
		return v
	}
	d.newSync()
	return nil
}

func runCase(c Case) kit.Result {
	var (
		src *source
		v   *violation
	)
	if c.Kind == "state" {
		if len(c.Vers) == 0 || len(c.Stores) == 0 {
			return kit.Discarded("empty state case")
		}
		src, v = buildStateSource(c)
	} else {
		src, v = buildTrieSource(c)
	}
	if v != nil {
		return kit.Fail(v.class, "%s", v.msg)
	}
	if len(src.targets) == 0 || c.Peers < 1 {
		return kit.Discarded("no targets")
	}
	d := &driver{c: c, src: src, dst: youdb.NewMemDatabase(), labels: src.labels, completed: map[common.Hash]bool{}}
	for i := 0; i < c.Peers; i++ {
		d.peers = append(d.peers, fmt.Sprintf("peer-%d", i))
	}
	fail := func(v *violation) kit.Result {
		// known finding: the only thing missing is what hangs below a trie node that is
		// byte-identical to some contract's code
		if src.alias && v.missing != nil && src.shadow[*v.missing] {
			v.class = "code-aliases-trie-node"
		}
		return kit.Fail(v.class, "%s", v.msg)
	}
	d.init()
	if len(c.Steps) > 0 && c.Steps[0].Kind == "probe" {
		// (a probe before any sync has started: every lookup misses)
		if v := d.probe(len(d.all), 0); v != nil {
			return fail(v)
		}
	}
	step := 0
	deep := false
	for ti, t := range src.targets {
		d.t = t
		d.newSync()
		if len(t.reach) >= 4 {
			deep = true
		}
		if ti > 0 && d.sched.Pending() == 0 && t.root != emptyRoot {
			d.labels["target-already-present"] = true
		}
		finished := false
		for !finished {
			when := fmt.Sprintf("%s, step %d", t.name, step)
			if d.sched.Pending() == 0 {
				if err := d.ts.Commit(true); err != nil {
					return fail(vio("commit-error", "%s: commit failed: %v", when, err))
				}
				if v := d.complete(when); v != nil {
					return fail(v)
				}
				finished = true
				break
			}
			if step >= len(c.Steps) {
				break
			}
			s := c.Steps[step]
			step++
			when = fmt.Sprintf("%s, step %d (%s %s)", t.name, step-1, s.Kind, s.Mode)
			switch s.Kind {
			case "commit":
				if err := d.ts.Commit(true); err != nil {
					return fail(vio("commit-error", "%s: commit failed: %v", when, err))
				}
				d.labels["mid-commit"] = true
				if v := d.closure(when); v != nil {
					return fail(v)
				}
			case "probe":
				if v := d.probe(1+s.N%4, s.M); v != nil {
					return fail(v)
				}
			case "commitfail":
				// a flush whose write batch refuses its k-th entry (size limit, I/O error): the
				// flush fails, the batch is dropped, the sync aborts - and, as trieSync.loop's
				// deferred commit(true) does, flushes once more on its way out
				d.fdb.armPut(1 + s.N%4)
				err := d.ts.Commit(true)
				d.fdb.armPut(0)
				if err == nil {
					if v := d.closure(when); v != nil {
						return fail(v)
					}
					continue // the membatch had fewer entries: an ordinary flush
				}
				d.labels["flush-refused-mid-batch"] = true
				if v := d.interrupt(when, "graceful", s); v != nil {
					return fail(v)
				}
			case "interrupt":
				mode := s.Mode
				if c.ViaLoop && mode == "torn" {
					mode = "crash"
				}
				if v := d.interrupt(when, mode, s); v != nil {
					return fail(v)
				}
			default:
				var v *violation
				if c.ViaLoop {
					v = d.stepLoop(when, s)
				} else {
					v = d.stepDirect(when, s)
				}
				if v != nil {
					return fail(v)
				}
			}
		}
		if finished {
			continue
		}
		// schedule exhausted
		if !c.Finish {
			// abandoned: the sync says it is incomplete; what is on disk must not look complete
			d.labels["abandoned"] = true
			if d.sched.Pending() == 0 {
				return fail(vio("bookkeeping", "%s: unreachable", t.name))
			}
			if v := d.interrupt(t.name+", abandon", "graceful", Step{}); v != nil {
				return fail(v)
			}
			continue
		}
		// honest responder until done (bounded)
		bound := 2*len(t.reach) + 8
		rounds := 0
		for ; d.sched.Pending() > 0 && rounds < bound; rounds++ {
			when := fmt.Sprintf("%s, honest round %d", t.name, rounds)
			if c.ViaLoop {
				// assignTasks: every idle peer gets what it may be asked for; then every
				// request in flight is answered completely
				for pi, p := range d.peers {
					if d.activeFor[p] == nil {
						if v := d.stepLoop(when, Step{Kind: "fetch", N: 0, Peer: pi}); v != nil {
							return fail(v)
						}
					}
				}
				progressed := false
				for pi, p := range d.peers {
					if d.activeFor[p] != nil {
						if v := d.stepLoop(when, Step{Kind: "answer", N: 1 << 20, Peer: pi}); v != nil {
							return fail(v)
						}
						progressed = true
					}
				}
				if !progressed {
					return fail(vio("task-lost", "%s: Pending()=%d but the downloader's task set has nothing to assign to any of %d idle peers and no request is in flight (retry set: %d)", when, d.sched.Pending(), len(d.peers), d.ts.TasksLen()))
				}
			} else {
				if v := d.fetchDirect(0); v != nil {
					return fail(v)
				}
				d.outstanding = append(d.outstanding, d.held...)
				d.held = nil
				if len(d.outstanding) == 0 {
					return fail(vio("task-lost", "%s: Pending()=%d but Missing() offers nothing and every offered hash was answered", when, d.sched.Pending()))
				}
				if v := d.stepDirect(when, Step{Kind: "answer", N: 1 << 20, Mode: "single"}); v != nil {
					return fail(v)
				}
			}
		}
		if d.sched.Pending() > 0 {
			return fail(vio("liveness", "%s: an honest responder answering every request did not complete the sync in %d rounds (Pending()=%d, %d of %d nodes present)", t.name, rounds, d.sched.Pending(), d.present(), len(t.reach)))
		}
		if err := d.ts.Commit(true); err != nil {
			return fail(vio("commit-error", "%s: final commit failed: %v", t.name, err))
		}
		if v := d.complete(t.name + ", after honest finish"); v != nil {
			return fail(v)
		}
	}
	var ls []string
	for l := range d.labels {
		ls = append(ls, l)
	}
	ls = append(ls, "kind:"+c.Kind)
	if c.Excluded > 0 {
		ls = append(ls, "excluded:code-aliases-trie-node")
	}
	if c.ViaLoop {
		ls = append(ls, "via-downloader-loop")
	}
	if len(src.targets) > 1 {
		ls = append(ls, "several-syncs-one-db")
	}
	sort.Strings(ls)
	return kit.OK(d.ntriv && deep, ls...)
}

var _ = kit.Register(kit.Prop[Case]{
	Name: "SyncSchedule",
	Rule: "sources: plain tries (0-24 prefix-heavy keys incl. mirrored subtrees, values 1-130 bytes so that nodes are embedded or hashed) in 1-3 versions sharing nodes, or whole states (1-12 accounts, shared code, shared storage sets, delegation blobs, 0-3 validators, staking records; 1-2 versions; state, validator and staking roots synced in generated order) - all into ONE destination database; responder schedule of 0-60 steps: fetch(batch), answer(count, single/batch), late/release, duplicate, unrequested node of the target, foreign node, corrupted blob (flip/truncate/append/empty), commit, interruption (graceful commit / crash / torn write) + fresh sync on the same destination, timeouts and empty responses (downloader loop mode); then an honest responder (or abandonment). non-trivial = the schedule contains a corruption, foreign/unrequested/duplicate blob, delay, timeout or interruption and some target has >= 4 nodes; distinct = FNV-64 of the case JSON",
	Gen:  genCase, Run: runCase,
	Quick: 4000, Thorough: 40000, Chunk: 500, MinNonTrivialPct: 35,
})
