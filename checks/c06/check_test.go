package c06

import (
	"bytes"
	"crypto/sha256"
	"encoding/hex"
	"encoding/json"
	"errors"
	"fmt"
	"os"
	"os/exec"
	"strings"
	"testing"

	"github.com/youchainhq/go-youchain/common"
	"github.com/youchainhq/go-youchain/core"
	"github.com/youchainhq/go-youchain/core/state"
	"github.com/youchainhq/go-youchain/core/types"
	"github.com/youchainhq/go-youchain/core/vm"
	"github.com/youchainhq/go-youchain/local"
	"pgregory.net/rapid"
	"verif/kit"
	"github.com/youchainhq/go-youchain/staking"
	sc "verif/lib/stakechain"
	"verif/lib/stakeworker"
)

func TestMain(m *testing.M)   { kit.Main(m, "C06") }
func TestProps(t *testing.T)  { kit.RunAll(t) }
func TestReplay(t *testing.T) { kit.ReplayAll(t) }

const (
	classZeroPenalty = "zero-penalty-divergence"
	classNegRec      = "negative-pending-record"
)

// Case is a chain history plus the sampling of the determinism re-runs.
type Case struct {
	Cfg    int            `json:"cfg"`
	Gen    []sc.GenVal    `json:"gen"`
	Excl   sc.Excl        `json:"excl"`
	Batch  int            `json:"batch,omitempty"` // > 0: a third node imports the chain in batches of this many blocks
	Reruns int            `json:"reruns"`          // K: executions of a sampled block on fresh state objects
	MaxRe  int            `json:"max_re"`          // at most this many blocks are re-executed per case
	Every  int            `json:"every"`           // also re-execute every n-th trivial block
	Cross  bool           `json:"cross,omitempty"` // also assemble every worker-built block with the mirrored builder and compare
	Blocks []sc.BlockSpec `json:"blocks"`
}

func processCfg() int {
	shard, _ := kit.Shard()
	return sc.ProcessConfig(kit.Seed(), shard)
}

func genCase(t *rapid.T) Case {
	c := Case{Cfg: processCfg()}
	cfg := &sc.Configs[c.Cfg]
	// zero-stake-division is a crash in takePenalty that belongs to C05; it is kept out while the
	// tree still has it (probed once per process).
	c.Excl = sc.Excl{ZeroStake: sc.ZeroStakePenaltyPanics(c.Cfg), ZeroToken: kit.IsKnown(classZeroPenalty), NoNegRec: kit.IsKnown(classNegRec)}
	c.Gen = sc.GenGenesis(t, cfg)
	maxBlocks := 40
	if kit.Thorough() {
		maxBlocks = 90
	}
	n := rapid.IntRange(int(2*cfg.Freq)+2, maxBlocks).Draw(t, "nblocks")
	c.Blocks = sc.GenBlocks(t, c.Gen, int(cfg.Freq), n, 2)
	if rapid.IntRange(0, 3).Draw(t, "batch") == 3 {
		c.Batch = rapid.IntRange(2, 9).Draw(t, "batchsize")
	}
	c.Cross = rapid.IntRange(0, 2).Draw(t, "cross") == 0
	// Directed scenario (half of the cases) for the worker's gas-pool accounting: in one pool-built
	// block an account first spends (nearly) everything, so that its second transaction - with a
	// gas limit of 90 % of the block - fails in buyGas (the "default" error branch of
	// commitTransactions); two more senders submit failing staking transactions with the same huge
	// gas limit, each of which burns all of it. Exactly one of the two fits into the block.
	if rapid.Bool().Draw(t, "gas-scenario") {
		at := rapid.IntRange(0, n-1).Draw(t, "gas-at")
		b := &c.Blocks[at]
		b.Pool = true
		b.Ops = append(b.Ops,
			sc.Op{K: "xfer", A: sc.AcctPlain, X: sc.AcctPlain + 1, M: 2, P: 5},
			sc.Op{K: "xfer", A: sc.AcctPlain, X: sc.AcctPlain + 1, M: 4, P: 5, G: 12},
			sc.Op{K: "raw", A: sc.AcctDeleg + 3, X: 0, P: 1, G: 12},
			sc.Op{K: "raw", A: sc.AcctDeleg + 4, X: 0, P: 0, G: 12})
	}
	c.Reruns = 3
	if kit.Thorough() {
		c.Reruns = 5
	}
	c.Every = rapid.IntRange(2, 6).Draw(t, "every")
	c.MaxRe = 10
	if kit.Thorough() {
		c.MaxRe = 30
	}
	return c
}

// execution is the observable outcome of executing one block on one fresh state.
type execution struct {
	root, valRoot, stakingRoot, receiptHash common.Hash
	bloom                                   types.Bloom
	gasUsed                                 uint64
	receiptsRLP                             []byte
	queue                                   string // order of the withdraw-queue records
	err                                     error
	validateErr                             error
}

func (e *execution) diff(o *execution) string {
	var d []string
	add := func(name string, same bool) {
		if !same {
			d = append(d, name)
		}
	}
	add("state root", e.root == o.root)
	add("validator root", e.valRoot == o.valRoot)
	add("staking root", e.stakingRoot == o.stakingRoot)
	add("receipt hash", e.receiptHash == o.receiptHash)
	add("bloom", e.bloom == o.bloom)
	add("gas used", e.gasUsed == o.gasUsed)
	add("receipts/logs", bytes.Equal(e.receiptsRLP, o.receiptsRLP))
	add("withdraw queue order", e.queue == o.queue)
	add("error", fmt.Sprint(e.err) == fmt.Sprint(o.err))
	return strings.Join(d, ", ")
}

// execute runs the real Processor.Process of node n (whose head must be the parent) on a
// wire copy of the block, on a StateDB opened through a FRESH state.Database (empty
// caches); nothing is written to the chain.
func execute(n *sc.Node, block, parent *types.Block) *execution {
	e := &execution{}
	cp, err := sc.WireCopy(block)
	if err != nil {
		e.err = err
		return e
	}
	yp, err := n.BC.VersionForRound(cp.NumberU64())
	if err != nil {
		e.err = err
		return e
	}
	sroot := core.StakingRootForNewBlock(yp.StakingTrieFrequency, parent.Header())
	st, err := state.New(parent.Root(), parent.ValRoot(), sroot, state.NewDatabase(n.DB))
	if err != nil {
		e.err = err
		return e
	}
	res, err := n.BC.Processor().Process(yp, cp, st, vm.LocalConfig{}, local.FakeRecorder())
	if err != nil {
		e.err = err
		return e
	}
	e.validateErr = n.BC.Validator().ValidateState(cp, parent, st, res.Recs, res.UsedGas)
	e.root, e.valRoot, e.stakingRoot = st.IntermediateRoot(true)
	e.receiptHash = types.DeriveSha(types.Receipts(res.Recs))
	e.bloom = types.CreateBloom(res.Recs)
	e.gasUsed = res.UsedGas
	var buf bytes.Buffer
	for _, r := range res.Recs {
		enc, _ := json.Marshal(r) // consensus fields and logs, in order
		buf.Write(enc)
	}
	e.receiptsRLP = buf.Bytes()
	var q strings.Builder
	for _, r := range st.GetWithdrawQueue().Records {
		fmt.Fprintf(&q, "%x/%d/%d/%s;", r.TxHash[:6], r.Nonce, r.Finished, r.FinalBalance)
	}
	e.queue = q.String()
	return e
}

// zeroPenaltyPredicate: the block was built while an evidence that passes the whole
// acceptance gate at the right height accused a validator whose penalty amount
// floor(Token*fraction/100) is 0: the builder expels it (state change) but classes the
// evidence "deleted" and does not put it into SlashData, so no importer replays it.
func zeroPenaltyPredicate(step *sc.StepResult, pre *state.StateDB) (bool, string) {
	for _, ev := range step.Evidences {
		if !ev.PassesGate || !ev.RightHeight || ev.Spec.Adv {
			continue
		}
		v := pre.GetValidatorByMainAddr(ev.Accused)
		if v != nil && sc.PenaltyAmount(v.Token).Sign() == 0 && len(step.Built.Block.Header().SlashData) == 0 {
			return true, fmt.Sprintf("validator %d has Token=%s LU: the double-sign penalty amount is 0, the builder expels it without writing the evidence to SlashData", ev.AccusedID, v.Token)
		}
	}
	return false, ""
}

func runChain(c Case, digestOnly bool) (kit.Result, string) {
	net, err := sc.NewNet(c.Cfg, c.Gen)
	if err != nil {
		if errors.Is(err, sc.ErrInfra) {
			return kit.Discarded("infra: " + err.Error()), ""
		}
		return kit.Fail("setup", "cannot create the network: %v", err), ""
	}
	defer net.Close()
	var third *sc.Node
	if c.Batch > 0 && !digestOnly {
		cfg := &sc.Configs[c.Cfg]
		third, err = sc.NewNode(sc.MakeGenesis(cfg, c.Gen), false)
		if err != nil {
			return kit.Fail("setup", "third node: %v", err), ""
		}
		defer third.Stop()
	}
	w := sc.NewWorld(net)
	// Builder: blocks whose transactions go through the pool are built by the REAL
	// miner.worker.commitNewWork (synchronously, through the miner shim); blocks that bypass
	// the pool (transactions in case order) by the mirrored builder.
	wb := stakeworker.New(net.A)
	var workerBlocks, crossSame, crossDiff int
	w.Builder = func(cb common.Address, txs []*types.Transaction, opt sc.BuildOpts) (*sc.Built, error) {
		if !opt.UsePool || opt.SlashData != nil || opt.Replay {
			return net.A.Build(cb, txs, opt)
		}
		var mirror *sc.Built
		if c.Cross && !digestOnly && net.A.Stk.VerifPendingEvidences() == 0 {
			mirror, _ = net.A.Build(cb, txs, sc.BuildOpts{UsePool: true, DryRun: true})
		}
		b, err := wb.Build(cb, txs)
		if err == nil {
			workerBlocks++
			if mirror != nil {
				if mirror.Block.Hash() == b.Block.Hash() {
					crossSame++
				} else {
					crossDiff++
				}
			}
		}
		return b, err
	}
	h := sha256.New()
	var (
		pendingBatch               types.Blocks
		blocks, nontrivialBlocks   int
		reruns, evBlocks, stakingB int
		periodEnds                 int
		halted                     bool
		reexecuted                 int
		// successful self-withdrawals / delegation unbinds of the current period, by validator
		selfWd, unbound = map[common.Address]bool{}, map[common.Address]bool{}
		resetPeriod     bool
		probeCalls, factoryCalls int
	)
	// negative-pending-record: some validator has both in this period (incl. the current block)
	negRec := func() bool {
		for v := range selfWd {
			if unbound[v] {
				return true
			}
		}
		return false
	}
	for bi, bs := range c.Blocks {
		preState, err := net.A.State()
		if err != nil {
			return kit.Fail("build", "state: %v", err), ""
		}
		step, err := w.Step(bs, c.Excl)
		if err != nil {
			if errors.Is(err, sc.ErrInfra) {
				return kit.Discarded("infra: " + err.Error()), ""
			}
			return kit.Fail("build", "block spec %d: %v", bi, err), ""
		}
		for _, sk := range step.Skipped {
			if strings.HasPrefix(sk, "excluded:") || strings.HasPrefix(sk, "skipped:") {
				w.Excluded[sk]++
			}
		}
		if step.Halted {
			halted = true
			break
		}
		blk := step.Built.Block
		hdr := blk.Header()
		num := blk.NumberU64()
		blocks++
		h.Write(blk.Hash().Bytes())
		if digestOnly {
			if err := net.B.Import(blk); err != nil {
				return kit.Fail("import-rejected", "block %d: %v", num, err), ""
			}
			continue
		}
		if resetPeriod {
			selfWd, unbound, resetPeriod = map[common.Address]bool{}, map[common.Address]bool{}, false
		}
		hasStaking := false
		for i, tx := range step.Built.Included {
			if m := step.Metas[tx.Hash()]; m != nil && m.Kind == "call" && i < len(step.Built.Receipts) && step.Built.Receipts[i].Status == types.ReceiptStatusSuccessful {
				switch m.CKind {
				case sc.KindProbe, sc.KindProbeNoStore:
					probeCalls++
				case sc.KindFactory:
					factoryCalls++
				}
			}
			if m := step.Metas[tx.Hash()]; m != nil && m.Staking {
				hasStaking = true
				if i < len(step.Built.Receipts) && step.Built.Receipts[i].Status == types.ReceiptStatusSuccessful {
					if m.Action == staking.ValidatorWithDraw {
						selfWd[m.Target] = true
					}
					if m.Action == staking.DelegationSub {
						unbound[m.Target] = true
					}
				}
			}
		}
		interesting := hasStaking || len(hdr.SlashData) > 0 || len(step.Evidences) > 0 || step.PeriodEnd
		if hasStaking {
			stakingB++
		}
		if len(hdr.SlashData) > 0 {
			evBlocks++
		}
		if step.PeriodEnd {
			periodEnds++
			resetPeriod = true
		}
		if interesting {
			nontrivialBlocks++
		}
		// ---- (b) determinism: K executions of the same block on the same parent state, fresh state objects
		if (interesting || (c.Every > 0 && bi%c.Every == 0)) && (reexecuted < c.MaxRe || len(hdr.SlashData) > 0) {
			reexecuted++
			var first *execution
			for k := 0; k < c.Reruns; k++ {
				e := execute(net.B, blk, step.Parent)
				reruns++
				if first == nil {
					first = e
					continue
				}
				if d := first.diff(e); d != "" {
					if negRec() && d == "staking root" {
						return kit.Fail(classNegRec, "block %d: execution %d differs from execution 0 in the staking root: a validator has a successful self-withdrawal and a successful delegation unbind in this period (negative pending record, dirty records persisted in map order until the encoding error)", num, k), ""
					}
					return kit.Fail("nondeterministic-execution", "block %d (%d txs, slashdata %d bytes, period end %v): execution %d differs from execution 0 in: %s",
						num, len(step.Built.Included), len(hdr.SlashData), step.PeriodEnd, k, d), ""
				}
			}
			// the executions must also reproduce what the builder committed to
			if first.err != nil || first.validateErr != nil || first.root != hdr.Root || first.valRoot != hdr.ValRoot || first.stakingRoot != hdr.StakingRoot ||
				first.receiptHash != hdr.ReceiptHash || first.bloom != hdr.Bloom || first.gasUsed != hdr.GasUsed {
				if ok, why := zeroPenaltyPredicate(step, preState); ok {
					return kit.Fail(classZeroPenalty, "block %d: importer and builder disagree: %s (process err=%v validate err=%v)", num, why, first.err, first.validateErr), ""
				}
				if negRec() && first.err == nil && first.root == hdr.Root && first.valRoot == hdr.ValRoot && first.receiptHash == hdr.ReceiptHash {
					return kit.Fail(classNegRec, "block %d: builder and importer compute different staking roots: a validator has a successful self-withdrawal and a successful delegation unbind in this period (negative pending record)", num), ""
				}
				return kit.Fail("builder-importer-disagree", "block %d (%d txs, slashdata %d bytes, period end %v): executing the built block on the importer gives process err=%v validate err=%v; roots equal: state %v validator %v staking %v; receipts %v bloom %v gas %v",
					num, len(step.Built.Included), len(hdr.SlashData), step.PeriodEnd, first.err, first.validateErr,
					first.root == hdr.Root, first.valRoot == hdr.ValRoot, first.stakingRoot == hdr.StakingRoot, first.receiptHash == hdr.ReceiptHash, first.bloom == hdr.Bloom, first.gasUsed == hdr.GasUsed), ""
			}
		}
		// ---- (a) differential: the import path of another node accepts the block unchanged
		if err := net.B.Import(blk); err != nil {
			if negRec() && strings.Contains(err.Error(), "staking root") {
				return kit.Fail(classNegRec, "block %d: the importer rejects the built block (%v): negative pending record of a validator with a self-withdrawal and a delegation unbind in this period", num, err), ""
			}
			if ok, why := zeroPenaltyPredicate(step, preState); ok {
				return kit.Fail(classZeroPenalty, "block %d: importer rejects the built block (%v): %s", num, err, why), ""
			}
			return kit.Fail("import-rejected", "block %d (%d txs, slashdata %d bytes, period end %v): the importer rejects the built block: %v", num, len(step.Built.Included), len(hdr.SlashData), step.PeriodEnd, err), ""
		}
		bh := net.B.Head().Header()
		if bh.Root != hdr.Root || bh.ValRoot != hdr.ValRoot || bh.StakingRoot != hdr.StakingRoot {
			return kit.Fail("import-rejected", "block %d: importer head roots differ from the built header", num), ""
		}
		if third != nil {
			pendingBatch = append(pendingBatch, blk)
			if len(pendingBatch) >= c.Batch || bi == len(c.Blocks)-1 {
				batch := make(types.Blocks, len(pendingBatch))
				for i, b := range pendingBatch {
					if batch[i], err = sc.WireCopy(b); err != nil {
						return kit.Fail("setup", "wire copy: %v", err), ""
					}
				}
				if err := third.BC.InsertChain(batch); err != nil {
					return kit.Fail("batch-import-rejected", "blocks %d..%d imported one by one on node B but rejected as one InsertChain batch on node C: %v", batch[0].NumberU64(), num, err), ""
				}
				if third.Head().Hash() != blk.Hash() {
					return kit.Fail("batch-import-rejected", "after the batch ending at block %d node C's head is #%d", num, third.Head().NumberU64()), ""
				}
				pendingBatch = nil
			}
		}
	}
	digest := hex.EncodeToString(h.Sum(nil))
	labels := []string{"cfg:" + net.Cfg.Name}
	flag := func(cond bool, l string) {
		if cond {
			labels = append(labels, l)
		}
	}
	flag(halted, "halted")
	flag(evBlocks > 0, "block-with-slashdata")
	flag(stakingB >= 5, "staking-blocks>=5")
	flag(periodEnds >= 3, "periods>=3")
	flag(c.Batch > 0, "batch-import")
	flag(probeCalls > 0, "evm:address-probe-call")
	flag(factoryCalls > 0, "evm:create-by-contract")
	flag(workerBlocks > 0, "built-by-real-worker")
	flag(crossSame > 0, "worker==mirror")
	// not a violation of the statement (it may be builder-side nondeterminism or a changed
	// packing policy); reported so that a drift between worker.go and the mirror is visible
	flag(crossDiff > 0, "worker!=mirror")
	for l := range w.Excluded {
		labels = append(labels, l)
	}
	return kit.OK(nontrivialBlocks >= 4 && stakingB >= 1, labels...), digest
}

func runCase(c Case) kit.Result {
	res, digest := runChain(c, false)
	if res.Violation != nil || res.Discard != "" {
		return res
	}
	// thorough: the same case in ANOTHER PROCESS must build the same chain of block hashes
	if kit.Thorough() && len(c.Blocks) > 0 && c.Blocks[0].CB%4 == 0 {
		if other, err := childDigest(c); err == nil {
			res.Labels = append(res.Labels, "cross-process-compared")
			if other != digest {
				return kit.Fail("nondeterministic-across-processes", "the same history gives block-hash digest %s in this process and %s in a fresh process", digest[:16], other[:16])
			}
		} else {
			res.Labels = append(res.Labels, "cross-process-unavailable")
		}
	}
	return res
}

// childDigest re-runs the case in a fresh process of the same test binary (TestChildDigest).
func childDigest(c Case) (string, error) {
	raw, err := json.Marshal(c)
	if err != nil {
		return "", err
	}
	f, err := os.CreateTemp("", "c06-child-*.json")
	if err != nil {
		return "", err
	}
	defer os.Remove(f.Name())
	f.Write(raw)
	f.Close()
	cmd := exec.Command(os.Args[0], "-test.run", "^TestChildDigest$", "-test.count", "1")
	cmd.Env = append(os.Environ(), "VERIF_C06_CHILD="+f.Name(), "VERIF_OUT="+os.TempDir())
	out, err := cmd.Output()
	if err != nil {
		return "", err
	}
	for _, line := range strings.Split(string(out), "\n") {
		if strings.HasPrefix(line, "DIGEST ") {
			return strings.TrimSpace(strings.TrimPrefix(line, "DIGEST ")), nil
		}
	}
	return "", errors.New("no digest line")
}

// TestChildDigest is the child side of the cross-process comparison.
func TestChildDigest(t *testing.T) {
	path := os.Getenv("VERIF_C06_CHILD")
	if path == "" {
		t.Skip("not a child run")
	}
	raw, err := os.ReadFile(path)
	if err != nil {
		t.Fatal(err)
	}
	var c Case
	if err := json.Unmarshal(raw, &c); err != nil {
		t.Fatal(err)
	}
	res, digest := runChain(c, true)
	if res.Violation != nil {
		t.Fatalf("child: %s", res.Violation.Msg)
	}
	fmt.Printf("DIGEST %s\n", digest)
}

var _ = kit.Register(kit.Prop[Case]{
	Name: "BuilderImporterDeterminism",
	Rule: "chains of 2*frequency+2..40 (thorough 90) blocks over the C07 alphabet (transfers, contracts, all staking actions, evidences, period ends) built " +
		"on node A by the REAL miner.worker.commitNewWork (2/3 of the blocks: real TxPool, price/nonce order, gas-pool accounting; run synchronously through the " +
		"miner shim) or by the mirrored builder (pool bypassed, case order); in half of the cases one block carries a gas-pool scenario (failing transactions with " +
		"gas limits of 90 % of the block); in a third of the cases every worker block is also assembled by the mirror and the hashes compared (label only); every block that contains a staking transaction, " +
		"slash data, a posted evidence or ends a period (and every n-th other block) is executed K=3 (thorough 5) times (at most 10, thorough 30, blocks per case plus all with slash data) by the real " +
		"Processor.Process of node B on fresh state databases and compared field by field and with the header, then imported by InsertChain on B; " +
		"in a third of the cases a third node imports the same chain in batches. Non-trivial: >= 4 such blocks and >= 1 block with a staking transaction.",
	Gen: genCase, Run: runCase,
	Quick: 100, Thorough: 320, Chunk: 10, MinNonTrivialPct: 50,
	QuickBudgetS: 60, ThoroughBudgetS: 540,
})
