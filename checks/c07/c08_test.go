package c07

import (
	"bytes"
	"errors"
	"fmt"
	"math/big"
	"sort"
	"strings"

	"github.com/youchainhq/go-youchain/common"
	"github.com/youchainhq/go-youchain/core/state"
	"github.com/youchainhq/go-youchain/params"
	"pgregory.net/rapid"
	"verif/kit"
	sc "verif/lib/stakechain"
)

// C08, chain level (DESIGN.md §4 C08 part ii): the validator-set statistics, index and
// delegation links are recomputed from the validator records after every block of the
// C07 chains. This prop is an EXTRA of the C07 check package (the API-level machine of
// C08 lives in checks/c08); its violation classes carry the prefix "c08-".

type sums struct {
	onStake, onToken, offStake, offToken *big.Int
	on, off                              uint64
}

func newSums() *sums {
	return &sums{new(big.Int), new(big.Int), new(big.Int), new(big.Int), 0, 0}
}

func (s *sums) add(v *state.Validator) {
	if v.IsOnline() {
		s.onStake.Add(s.onStake, v.Stake)
		s.onToken.Add(s.onToken, v.Token)
		s.on++
	} else {
		s.offStake.Add(s.offStake, v.Stake)
		s.offToken.Add(s.offToken, v.Token)
		s.off++
	}
}

func (s *sums) diff(st *state.ValKindStat) string {
	if st == nil {
		return "statistics entry missing"
	}
	var d []string
	chk := func(name string, want, have *big.Int) {
		if want.Cmp(have) != 0 {
			d = append(d, fmt.Sprintf("%s: records sum to %s, statistics say %s", name, want, have))
		}
	}
	chk("online stake", s.onStake, st.GetOnlineStake())
	chk("online token", s.onToken, st.GetOnlineToken())
	chk("offline stake", s.offStake, st.GetOfflineStake())
	chk("offline token", s.offToken, st.GetOfflineToken())
	if s.on != st.GetCount() {
		d = append(d, fmt.Sprintf("online count: %d records, statistics say %d", s.on, st.GetCount()))
	}
	if s.off != st.GetOfflineCount() {
		d = append(d, fmt.Sprintf("offline count: %d records, statistics say %d", s.off, st.GetOfflineCount()))
	}
	if len(d) == 0 {
		return ""
	}
	return fmt.Sprint(d)
}

// balanceDrift is set by checkC08 when an account's DelegationBalance differs from the sum of
// its delegations. The C08 statement speaks of "who delegates to whom" (the links), not of that
// aggregate, so the drift is reported as a label (observed after penalties: takePenalty lowers the
// delegation inside the validator record without UpdateDelegator), not as a violation.
var balanceDrift bool

// checkC08 returns (class, message) of the first broken invariant, or "".
func checkC08(o *sc.Obs, st *state.StateDB) (string, string) {
	roleSums := map[params.ValidatorRole]*sums{params.RoleChancellor: newSums(), params.RoleSenator: newSums(), params.RoleHouse: newSums()}
	kindSums := map[params.ValidatorKind]*sums{params.KindValidator: newSums(), params.KindChamber: newSums(), params.KindHouse: newSums()}
	var mains []common.Address
	delegatorTotals := map[common.Address]*big.Int{}
	delegatorLinks := map[common.Address]map[common.Address]*big.Int{}
	for _, v := range o.Vals {
		id := sc.ValIndexByMain(v.MainAddress())
		mains = append(mains, v.MainAddress())
		roleSums[v.Role].add(v)
		kindSums[v.Kind()].add(v)
		kindSums[params.KindValidator].add(v)
		tok, stk := new(big.Int).Set(v.SelfToken), new(big.Int).Set(v.SelfStake)
		if want := params.YOUToStake(v.SelfToken); want.Cmp(v.SelfStake) != 0 {
			return "c08-stake-unit", fmt.Sprintf("validator %d: SelfStake=%s but SelfToken=%s gives %s", id, v.SelfStake, v.SelfToken, want)
		}
		for i, d := range v.Delegations {
			if i > 0 && v.Delegations[i-1].Delegator.Big().Cmp(d.Delegator.Big()) >= 0 {
				return "c08-delegations-order", fmt.Sprintf("validator %d: delegations not strictly ascending at position %d", id, i)
			}
			if want := params.YOUToStake(d.Token); want.Cmp(d.Stake) != 0 {
				return "c08-stake-unit", fmt.Sprintf("validator %d: delegation of account %d has Stake=%s but Token=%s gives %s", id, sc.AccountIndex(d.Delegator), d.Stake, d.Token, want)
			}
			tok.Add(tok, d.Token)
			stk.Add(stk, d.Stake)
			if delegatorTotals[d.Delegator] == nil {
				delegatorTotals[d.Delegator] = new(big.Int)
				delegatorLinks[d.Delegator] = map[common.Address]*big.Int{}
			}
			delegatorTotals[d.Delegator].Add(delegatorTotals[d.Delegator], d.Token)
			delegatorLinks[d.Delegator][v.MainAddress()] = d.Token
		}
		if tok.Cmp(v.Token) != 0 {
			return "c08-token-sum", fmt.Sprintf("validator %d: Token=%s but SelfToken + delegations = %s", id, v.Token, tok)
		}
		if stk.Cmp(v.Stake) != 0 {
			return "c08-stake-sum", fmt.Sprintf("validator %d: Stake=%s but SelfStake + delegation stakes = %s", id, v.Stake, stk)
		}
	}
	if o.Stat == nil {
		return "c08-stat", "no statistics record in the validator trie"
	}
	for _, r := range []params.ValidatorRole{params.RoleChancellor, params.RoleSenator, params.RoleHouse} {
		if d := roleSums[r].diff(o.Stat.GetByRole(r)); d != "" {
			return "c08-stat", fmt.Sprintf("role %d: %s", r, d)
		}
	}
	for _, k := range []params.ValidatorKind{params.KindValidator, params.KindChamber, params.KindHouse} {
		if d := kindSums[k].diff(o.Stat.GetByKind(k)); d != "" {
			return "c08-stat", fmt.Sprintf("kind %s: %s", params.ValidatorKindToString(k), d)
		}
		if o.Stat.GetStakeByKind(k).Cmp(kindSums[k].onStake) != 0 {
			return "c08-stat", fmt.Sprintf("kind %s: GetStakeByKind (what sortition reads) = %s, online records sum to %s", params.ValidatorKindToString(k), o.Stat.GetStakeByKind(k), kindSums[k].onStake)
		}
	}
	// the address index lists exactly the existing validators
	sort.Slice(mains, func(i, j int) bool { return bytes.Compare(mains[i][:], mains[j][:]) < 0 })
	idx := append([]common.Address{}, o.Index...)
	sort.Slice(idx, func(i, j int) bool { return bytes.Compare(idx[i][:], idx[j][:]) < 0 })
	if len(idx) != len(mains) {
		return "c08-index", fmt.Sprintf("the validator index lists %d addresses, the trie holds %d validator records", len(idx), len(mains))
	}
	for i := range idx {
		if idx[i] != mains[i] {
			return "c08-index", fmt.Sprintf("validator index entry %d is %x, the record set has %x there", i, idx[i][:4], mains[i][:4])
		}
	}
	// delegator side: every known account, and every delegator a validator names
	candidates := map[common.Address]bool{}
	for _, a := range sc.Accounts {
		candidates[a.Addr] = true
	}
	for d := range delegatorTotals {
		candidates[d] = true
	}
	for a := range candidates {
		tos, err := st.GetDelegationsFrom(a)
		if err != nil {
			return "c08-delegation-links", fmt.Sprintf("account %d: %v", sc.AccountIndex(a), err)
		}
		want := delegatorLinks[a]
		if len(tos) != len(want) {
			return "c08-delegation-links", fmt.Sprintf("account %d lists %d delegations, validators name it %d times", sc.AccountIndex(a), len(tos), len(want))
		}
		for _, to := range tos {
			if w, ok := want[to.Validator]; !ok || w.Cmp(to.Token) != 0 {
				return "c08-delegation-links", fmt.Sprintf("account %d lists a delegation to validator %d that the validator does not hold with the same amount", sc.AccountIndex(a), sc.ValIndexByMain(to.Validator))
			}
		}
		have := new(big.Int)
		if acc, ok := o.Acct[a]; ok && acc.DelegationBalance != nil {
			have = acc.DelegationBalance
		}
		total := delegatorTotals[a]
		if total == nil {
			total = new(big.Int)
		}
		if have.Cmp(total) != 0 {
			balanceDrift = true
		}
	}
	return "", ""
}

// genCaseC08: the Conservation generator with chains of at least four periods, three quarters of
// them with the directed delegation-unbind scenario (lib/stakechain/gen.go AddUnbindScenario) that
// drives an online validator below MinStakes through teDelegationSub.
func genCaseC08(t *rapid.T) Case {
	c := Case{Cfg: processCfg()}
	cfg := &sc.Configs[c.Cfg]
	c.Excl = sc.Excl{AutoSettle: kit.IsKnown(classStale), NoRefund: kit.IsKnown(classRefund), NoEmpty: kit.IsKnown(classDust), NoNegRec: kit.IsKnown(classNegRec), ZeroStake: sc.ZeroStakePenaltyPanics(c.Cfg)}
	c.Gen = sc.GenGenesis(t, cfg)
	f := int(cfg.Freq)
	maxBlocks := 64
	if kit.Thorough() {
		maxBlocks = 100
	}
	n := rapid.IntRange(4*f+1, maxBlocks).Draw(t, "nblocks")
	c.Blocks = sc.GenBlocks(t, c.Gen, f, n, 2)
	if rapid.IntRange(0, 3).Draw(t, "unbind") != 0 {
		sc.AddUnbindScenario(t, c.Blocks, c.Gen, f)
	}
	if rapid.IntRange(0, 2).Draw(t, "slash-delegated") != 0 {
		addSlashDelegated(t, &c, f)
	}
	return c
}

// addSlashDelegated: a directed scenario for penalties on validators WITH bound delegations and
// non-round token amounts: a genesis validator (any role, token with a fractional YOU part) opens for
// delegation in period 0, receives one or two delegations of "minimum + N.5 YOU" in period 1, and a
// real equivocation of it is reported in period 2 (or it is simply never chosen as proposer again, for
// chamber validators: inactivity). takePenalty then splits the penalty per stake unit over the self
// stake and the delegations, which leaves every share with a fractional YOU part.
func addSlashDelegated(t *rapid.T, c *Case, f int) {
	if len(c.Blocks) < 2*f+2 {
		return
	}
	gi := rapid.IntRange(0, len(c.Gen)-1).Draw(t, "sd-val")
	if gi == 0 {
		gi = len(c.Gen) - 1 // keep the first chancellor as a proposer
	}
	g := &c.Gen[gi]
	g.Offline = false
	if g.Sub == 0 {
		g.Sub = uint64(rapid.IntRange(1, 999).Draw(t, "sd-sub"))
	}
	v := -1 - g.ID
	c.Blocks[0].Ops = append(c.Blocks[0].Ops, sc.Op{K: "vupdate", V: v, X: 1 | 4, Y: 36 + 6*rapid.IntRange(0, 5).Draw(t, "sd-risk"), P: 4})
	nd := rapid.IntRange(1, 2).Draw(t, "sd-ndeleg")
	for i := 0; i < nd; i++ {
		at := f - 1 + rapid.IntRange(0, f-2).Draw(t, "sd-dadd-at")
		c.Blocks[at].Ops = append(c.Blocks[at].Ops, sc.Op{K: "dadd", A: (gi + i) % sc.NDeleg, V: v, M: 5, P: 4 + i})
	}
	at := 2*f - 1 + rapid.IntRange(0, len(c.Blocks)-2*f).Draw(t, "sd-evidence-at")
	kind := rapid.SampledFrom([]uint8{sc.KPrevote, sc.KPrecommit}).Draw(t, "sd-kind")
	c.Blocks[at].Ev = append(c.Blocks[at].Ev, sc.EvSpec{Signer: 100 + g.ID, Index: 1, VoteType: kind,
		Pairs: []sc.PairSpec{{Kind: kind, Hash: 0}, {Kind: kind, Hash: 1}}})
}

// negRecError recognises the two error texts by which the recorded finding negative-pending-record
// shows up when the negative record arises before the period end: the staking trie update aborts
// ("cannot encode negative *big.Int") and the block's staking root then names a trie that was never
// completely written ("open trie error, name=stakingRoot ... missing trie node").
func negRecError(err error) bool {
	msg := err.Error()
	return strings.Contains(msg, "cannot encode negative") || (strings.Contains(msg, "name=stakingRoot") && strings.Contains(msg, "missing trie node"))
}

func runC08(c Case) kit.Result {
	net, err := sc.NewNet(c.Cfg, c.Gen)
	if err != nil {
		if errors.Is(err, sc.ErrInfra) {
			return kit.Discarded("infra: " + err.Error())
		}
		return kit.Fail("setup", "cannot create the network: %v", err)
	}
	defer net.Close()
	w := sc.NewWorld(net)
	var statusChanges, stakeBoundary, delegationChanges, blocks, penalties, forcedByUnbind, penaltyFractional int
	balanceDrift = false
	pre, err := sc.Observe(net.A, net.A.Head().Header())
	if err != nil {
		return kit.Fail("observe", "genesis: %v", err)
	}
	for bi, bs := range c.Blocks {
		step, err := w.Step(bs, c.Excl)
		if err != nil {
			if errors.Is(err, sc.ErrInfra) {
				return kit.Discarded("infra: " + err.Error())
			}
			if negRecError(err) {
				return kit.Fail(classNegRec, "block spec %d: %v", bi, err)
			}
			return kit.Fail("build", "block spec %d: %v", bi, err)
		}
		if step.Halted {
			break
		}
		blocks++
		hdr := step.Built.Block.Header()
		post, err := sc.Observe(net.A, hdr)
		if err != nil {
			return kit.Fail("observe", "block %d: %v", hdr.Number, err)
		}
		st, err := net.A.StateOf(step.Built.Block)
		if err != nil {
			if negRecError(err) {
				return kit.Fail(classNegRec, "block %d: the committed state cannot be opened: %v", hdr.Number, err)
			}
			return kit.Fail("observe", "block %d: %v", hdr.Number, err)
		}
		if cls, msg := checkC08(post, st); cls != "" {
			return kit.Fail(cls, "after block %d (period end %v, %d txs, slash data %d bytes): %s", hdr.Number, step.PeriodEnd, len(step.Built.Included), len(hdr.SlashData), msg)
		}
		for _, v := range pre.Vals {
			p := post.ValByMain[v.MainAddress()]
			if p == nil {
				continue
			}
			if p.Status != v.Status {
				statusChanges++
			}
			if p.Stake.Cmp(v.Stake) != 0 {
				stakeBoundary++
			}
			if len(p.Delegations) != len(v.Delegations) {
				delegationChanges++
			}
			// an online validator whose delegations shrank and that is offline (not expelled) afterwards
			if v.IsOnline() && !p.IsOnline() && !p.Expelled && p.SelfToken.Cmp(v.SelfToken) == 0 && p.Token.Cmp(v.Token) < 0 {
				forcedByUnbind++
			}
			if p.Token.Cmp(v.Token) < 0 && p.Expelled && !v.Expelled {
				penalties++
				// a penalty on a validator with bound delegations that leaves fractional YOU parts summing
				// to at least one stake unit: floor(sum of tokens) > sum of floors
				if len(v.Delegations) > 0 && len(p.Delegations) > 0 {
					sumFloors := new(big.Int).Set(params.YOUToStake(p.SelfToken))
					for _, d := range p.Delegations {
						sumFloors.Add(sumFloors, params.YOUToStake(d.Token))
					}
					if params.YOUToStake(p.Token).Cmp(sumFloors) > 0 {
						penaltyFractional++
					}
				}
			}
		}
		pre = post
	}
	labels := []string{"cfg:" + net.Cfg.Name}
	if penalties > 0 {
		labels = append(labels, "penalty")
	}
	if delegationChanges > 0 {
		labels = append(labels, "delegation-change")
	}
	if statusChanges > 0 {
		labels = append(labels, "status-change")
	}
	if penaltyFractional > 0 {
		labels = append(labels, "penalty-on-delegated-validator-fractional")
	}
	if forcedByUnbind > 0 {
		labels = append(labels, "forced-offline-by-unbind")
	}
	if balanceDrift {
		labels = append(labels, "observed:delegation-balance-drift")
	}
	return kit.OK(blocks >= 8 && (statusChanges > 0 || stakeBoundary > 0 || delegationChanges > 0), labels...)
}

var _ = kit.Register(kit.Prop[Case]{
	Name: "C08ChainLevel",
	Rule: "EXTRA prop for property C08 part (ii), run on chains of the Conservation generator with >= 4 staking periods, 3/4 of them with a directed " +
		"scenario (house validator opens for delegation, is delegated MinStakes, withdraws its own stake down to 10-50 units, the delegator unbinds: " +
		"teDelegationSub forces it offline): after every block the statistics record (per role and " +
		"kind: online/offline stake, token, count; GetStakeByKind), the address index, Token/Stake = self + delegations, Stake = floor(Token/unit), sorted " +
		"duplicate-free delegations and the delegator-side links are recomputed from the validator records read leaf by leaf " +
		"from the committed validator trie. Non-trivial: >= 8 blocks and a status, stake or delegation change.",
	Gen: genCaseC08, Run: runC08,
	Quick: 40, Thorough: 300, Chunk: 10, MinNonTrivialPct: 40,
	QuickBudgetS: 40, ThoroughBudgetS: 300,
})
