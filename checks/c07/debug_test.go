package c07

import (
	"encoding/json"
	"fmt"
	"os"
	"testing"

	"github.com/youchainhq/go-youchain/logging"
	"verif/kit"
	sc "verif/lib/stakechain"
)

// TestDebug prints a per-block trace of one saved case (VERIF_DEBUG_FILE=<replay file>); development aid only.
func TestDebug(t *testing.T) {
	path := os.Getenv("VERIF_DEBUG_FILE")
	if path == "" {
		t.Skip("VERIF_DEBUG_FILE not set")
	}
	raw, err := os.ReadFile(path)
	if err != nil {
		t.Fatal(err)
	}
	var rf kit.ReplayFile
	if err := json.Unmarshal(raw, &rf); err != nil {
		t.Fatal(err)
	}
	var c Case
	if err := json.Unmarshal(rf.Case, &c); err != nil {
		t.Fatal(err)
	}
	if os.Getenv("VERIF_DEBUG_LOG") != "" {
		logging.Root().SetHandler(logging.FuncHandler(func(r *logging.Record) error {
			if r.Lvl <= logging.LvlError {
				fmt.Println("    LOG", r.Msg, r.Ctx)
			}
			return nil
		}))
	}
	net, err := sc.NewNet(c.Cfg, c.Gen)
	if err != nil {
		t.Fatal(err)
	}
	defer net.Close()
	w := sc.NewWorld(net)
	dump := func(o *sc.Obs) {
		fmt.Println("   ", o.Breakdown())
		for _, v := range o.Vals {
			fmt.Printf("    val %d la=%d role=%d st=%d exp=%v token=%s self=%s stake=%s RD=%s RT=%s last=%d dlg=%d cr=%d\n", sc.ValIndexByMain(v.MainAddress()), v.LastActive(), v.Role, v.Status, v.Expelled,
				v.Token, v.SelfToken, v.Stake, v.RewardsDistributable, v.RewardsTotal, v.RewardsLastSettled, len(v.Delegations), v.CommissionRate)
			for _, d := range v.Delegations {
				fmt.Printf("        dlg %d token=%s stake=%s\n", sc.AccountIndex(d.Delegator), d.Token, d.Stake)
			}
		}
		for _, r := range o.Withdraws {
			fmt.Printf("    wd val=%d dlg=%d fin=%d init=%s final=%s ch=%d\n", sc.ValIndexByMain(r.Validator), sc.AccountIndex(r.Delegator), r.Finished, r.InitialBalance, r.FinalBalance, r.CompletionHeight)
		}
	}
	o, _ := sc.Observe(net.A, net.A.Head().Header())
	dump(o)
	for i, bs := range c.Blocks {
		step, err := w.Step(bs, c.Excl)
		if err != nil {
			t.Fatal(i, err)
		}
		if step.Halted {
			fmt.Println("halted")
			break
		}
		b := step.Built
		fmt.Printf("block %d periodEnd=%v txs=%d skipped=%v subsidy=%s gasRewards=%s\n", b.Block.NumberU64(), step.PeriodEnd, len(b.Included), step.Skipped, b.Block.Header().Subsidy, b.Block.Header().GasRewards)
		for j, tx := range b.Included {
			m := step.Metas[tx.Hash()]
			fmt.Printf("    tx %d %s status=%d gas=%d op=%+v\n", j, m.Kind, b.Receipts[j].Status, b.Receipts[j].GasUsed, m.Op)
		}
		for h, why := range b.Rejected {
			fmt.Printf("    rejected %s: %s\n", step.Metas[h].Kind, why)
		}
		for _, e := range step.Evidences {
			fmt.Printf("    evidence accused=%d gate=%v right=%v\n", e.AccusedID, e.PassesGate, e.RightHeight)
		}
		o, err := sc.Observe(net.A, b.Block.Header())
		if err != nil {
			t.Fatal(err)
		}
		dump(o)
	}
}
