package c07

import (
	"errors"
	"fmt"
	"math/big"
	"strings"
	"testing"

	"github.com/youchainhq/go-youchain/common"
	"github.com/youchainhq/go-youchain/core/state"
	"github.com/youchainhq/go-youchain/core/types"
	"github.com/youchainhq/go-youchain/params"
	"github.com/youchainhq/go-youchain/rlp"
	"github.com/youchainhq/go-youchain/staking"
	"pgregory.net/rapid"
	"verif/kit"
	sc "verif/lib/stakechain"
)

func TestMain(m *testing.M)   { kit.Main(m, "C07") }
func TestProps(t *testing.T)  { kit.RunAll(t) }
func TestReplay(t *testing.T) { kit.ReplayAll(t) }

const (
	classStale  = "stale-val-forced-settle"
	classRefund = "refund-minted"
	classDust   = "deleted-validator-dust"
	classNegRec = "negative-pending-record"
)

// Case is a chain history: configuration index, genesis validators, exclusions in force
// when it was generated, and the blocks.
type Case struct {
	Cfg    int            `json:"cfg"`
	Gen    []sc.GenVal    `json:"gen"`
	Excl   sc.Excl        `json:"excl"`
	Blocks []sc.BlockSpec `json:"blocks"`
}

// processCfg is the configuration of this process (one per process, from VERIF_SEED and VERIF_SHARD).
func processCfg() int {
	shard, _ := kit.Shard()
	idx := sc.ProcessConfig(kit.Seed(), shard)
	if kit.IsKnown(classStale) && sc.Configs[idx].MaxRewardsPeriod == 1 {
		// see lib/stakechain/config.go entries 6 and 7
		if idx == 1 {
			return 6
		}
		return 7
	}
	return idx
}

// ---------------------------------------------------------------------------------
// generator (shared pieces: lib/stakechain/gen.go)

func genCase(t *rapid.T) Case {
	c := Case{Cfg: processCfg()}
	cfg := &sc.Configs[c.Cfg]
	// Evidence against a validator with stake 0 is kept out while the tree still crashes on it
	// (C05 zero-stake-division, probed once per process). A penalty amount of 0 (C05/C06
	// zero-penalty-divergence) is a builder/importer matter and harmless for this builder-only check.
	c.Excl = sc.Excl{AutoSettle: kit.IsKnown(classStale), NoRefund: kit.IsKnown(classRefund), NoEmpty: kit.IsKnown(classDust), NoNegRec: kit.IsKnown(classNegRec), ZeroStake: sc.ZeroStakePenaltyPanics(c.Cfg)}
	c.Gen = sc.GenGenesis(t, cfg)
	maxBlocks := 64
	if kit.Thorough() {
		maxBlocks = 120
	}
	// long enough to cross several periods and to reach forced settlement
	minBlocks := int(2*cfg.Freq) + 2
	n := rapid.IntRange(minBlocks, maxBlocks).Draw(t, "nblocks")
	c.Blocks = sc.GenBlocks(t, c.Gen, int(cfg.Freq), n, 2)
	return c
}

// ---------------------------------------------------------------------------------
// oracle

var (
	topicSlashing       = common.StringToHash(staking.LogTopicSlashing)
	topicWithdrawResult = common.StringToHash(staking.LogTopicWithdrawResult)
	topicDepositFailed  = common.StringToHash(staking.LogTopicDepositFailed)
	topicDlgAddFailed   = common.StringToHash(staking.LogTopicDelegationAddFailed)
)

func touches(metas map[common.Hash]*sc.TxMeta, b *sc.Built, a common.Address) bool {
	for _, tx := range b.Included {
		if to := tx.To(); to != nil && *to == a {
			return true
		}
		if m := metas[tx.Hash()]; m != nil {
			for _, x := range m.Touches {
				if x == a {
					return true
				}
			}
			if m.CKind >= 4 && m.Kind == "call" {
				return true // forwarders may reach any address through nested forwarding
			}
		}
	}
	return false
}

// staleSettlePredicate decides whether a deficit of `deficit` LU at period-end block
// `post` is exactly the recorded defect: every online house validator that met the
// forced-settlement condition with unsettled rewards kept its RewardsTotal (the
// rewards just added by distributeRewards were overwritten by the write-back of the
// stale object), and the deficit is that number of validators times the per-validator
// house reward of this period end.
func staleSettlePredicate(pre, post *sc.Obs, deficit *big.Int, yp *params.YouParams) (bool, string) {
	num := post.Number
	if (num+1)%yp.StakingTrieFrequency != 0 || deficit.Sign() <= 0 {
		return false, ""
	}
	gap := yp.MaxRewardsPeriod * yp.StakingTrieFrequency
	var victims, others []*state.Validator
	for _, v := range pre.Vals {
		if v.Role != params.RoleHouse || !v.IsOnline() {
			continue
		}
		if v.RewardsLastSettled < num && v.RewardsLastSettled+gap <= num && v.Stake.Sign() > 0 && v.RewardsDistributable.Sign() > 0 {
			victims = append(victims, v)
		} else {
			others = append(others, v)
		}
	}
	if len(victims) == 0 {
		return false, ""
	}
	for _, v := range victims {
		p := post.ValByMain[v.MainAddress()]
		// (the defect is about validators that STAY online and were force-settled in this block: one that was
		// slashed and expelled in the same block also keeps its RewardsTotal, for a legitimate reason)
		if p == nil || !p.IsOnline() || p.RewardsLastSettled != num || p.RewardsTotal.Cmp(v.RewardsTotal) != 0 {
			return false, ""
		}
	}
	per, rem := new(big.Int).QuoRem(deficit, big.NewInt(int64(len(victims))), new(big.Int))
	if rem.Sign() != 0 {
		return false, ""
	}
	for _, v := range others {
		p := post.ValByMain[v.MainAddress()]
		if p == nil || !p.IsOnline() {
			continue
		}
		got := new(big.Int).Sub(p.RewardsTotal, v.RewardsTotal)
		if got.Cmp(per) != 0 {
			return false, ""
		}
	}
	return true, fmt.Sprintf("%d online house validator(s) force-settled at block %d lost the %s each that distributeRewards had just added", len(victims), num, sc.LU(per))
}

// refundPredicate decides whether an excess of `excess` LU is exactly what the recorded
// defect refund-minted produces: the sum, over some EVM transactions of the block, of
// gasPrice * min(refund, gasUsed/2) with refund one of the two EVM refund constants the
// contract library can earn (15000 storage clear, 24000 self-destruct). The sender gets
// that amount back (refundGas) while header.GasRewards still counts the pre-refund gas.
func refundPredicate(b *sc.Built, metas map[common.Hash]*sc.TxMeta, excess *big.Int) (bool, string) {
	if excess.Sign() <= 0 {
		return false, ""
	}
	type cand struct{ opts []*big.Int }
	var cands []cand
	for i, tx := range b.Included {
		m := metas[tx.Hash()]
		if m == nil || m.Staking || b.Receipts[i].Status != types.ReceiptStatusSuccessful {
			continue
		}
		c := cand{opts: []*big.Int{new(big.Int)}}
		for _, r := range []uint64{15000, 24000} {
			if half := b.Receipts[i].GasUsed / 2; r > half {
				r = half
			}
			c.opts = append(c.opts, new(big.Int).Mul(tx.GasPrice(), new(big.Int).SetUint64(r)))
		}
		cands = append(cands, c)
	}
	var rec func(i int, acc *big.Int, used int) bool
	rec = func(i int, acc *big.Int, used int) bool {
		if i == len(cands) {
			return used > 0 && acc.Cmp(excess) == 0
		}
		for k, o := range cands[i].opts {
			u := used
			if k > 0 {
				u++
			}
			if rec(i+1, new(big.Int).Add(acc, o), u) {
				return true
			}
		}
		return false
	}
	if len(cands) == 0 || len(cands) > 8 || !rec(0, new(big.Int), 0) {
		return false, ""
	}
	return true, "the excess equals gasPrice x the EVM gas refund of the block's contract transaction(s): the refund was paid back to the sender but is still part of header.GasRewards"
}

// dustPredicate decides whether a deficit is the recorded defect deleted-validator-dust:
// at least one validator record disappeared in this block (its Token reached 0, so
// IntermediateRoot deleted it) and the deficit is smaller than the stake those records
// had - the bound of the remainder settleValidatorRewards leaves in RewardsDistributable
// (total mod Stake), which is deleted with the record instead of being paid out.
func dustPredicate(pre, post *sc.Obs, deficit *big.Int) (bool, string) {
	if deficit.Sign() <= 0 {
		return false, ""
	}
	bound := new(big.Int)
	n := 0
	for _, v := range pre.Vals {
		if post.ValByMain[v.MainAddress()] == nil {
			n++
			bound.Add(bound, v.Stake)
			bound.Add(bound, big.NewInt(1))
		}
	}
	if n == 0 || deficit.Cmp(bound) >= 0 {
		return false, ""
	}
	return true, fmt.Sprintf("%d validator record(s) were deleted in this block (Token reached 0) together with the undistributed remainder of their rewards", n)
}

type runStats struct {
	periodEnds, stakingOK, stakingFailed, evm, matured, penalties, refunds, inactivity, forced, evAccepted, injected int
	probeCalls, factoryCalls, blocks, depositFailed                                                                                          int
	halted                                                                                                         bool
}

func runCase(c Case) kit.Result {
	net, err := sc.NewNet(c.Cfg, c.Gen)
	if err != nil {
		if errors.Is(err, sc.ErrInfra) {
			return kit.Discarded("infra: " + err.Error())
		}
		return kit.Fail("setup", "cannot create the network: %v", err)
	}
	defer net.Close()
	w := sc.NewWorld(net)
	yp := sc.Params()
	pre, err := sc.Observe(net.A, net.A.Head().Header())
	if err != nil {
		return kit.Fail("observe", "genesis: %v", err)
	}
	constant := new(big.Int).Set(pre.Total)
	detained := new(big.Int)
	var rs runStats
	selfWd, unbound := map[common.Address]bool{}, map[common.Address]bool{} // successful self-withdrawals / unbinds of the current period, by validator

	for bi, bs := range c.Blocks {
		step, err := w.Step(bs, c.Excl)
		if err != nil {
			if errors.Is(err, sc.ErrInfra) {
				return kit.Discarded("infra: " + err.Error())
			}
			return kit.Fail("build", "block spec %d: %v", bi, err)
		}
		for _, sk := range step.Skipped {
			if strings.HasPrefix(sk, "excluded:") || strings.HasPrefix(sk, "skipped:") {
				w.Excluded[sk]++
			}
		}
		if step.Halted {
			rs.halted = true
			break
		}
		b := step.Built
		hdr := b.Block.Header()
		num := hdr.Number.Uint64()
		rs.blocks++
		rs.injected += step.Injected
		post, err := sc.Observe(net.A, hdr)
		if err != nil {
			return kit.Fail("observe", "block %d: %v", num, err)
		}
		// --- fees: header.GasRewards == sum(gasUsed * price)
		fees := new(big.Int)
		for i, tx := range b.Included {
			r := b.Receipts[i]
			fees.Add(fees, new(big.Int).Mul(tx.GasPrice(), new(big.Int).SetUint64(r.GasUsed)))
			m := step.Metas[tx.Hash()]
			if m == nil {
				continue
			}
			if m.Staking {
				if r.Status == types.ReceiptStatusSuccessful {
					rs.stakingOK++
					if m.Action == staking.ValidatorWithDraw {
						selfWd[m.Target] = true
					}
					if m.Action == staking.DelegationSub {
						unbound[m.Target] = true
					}
					if m.Detain != nil && (m.Action == staking.ValidatorCreate || m.Action == staking.ValidatorDeposit || m.Action == staking.DelegationAdd) {
						detained.Add(detained, m.Detain)
					}
				} else {
					rs.stakingFailed++
				}
			} else {
				rs.evm++
				if m.Kind == "call" && r.Status == types.ReceiptStatusSuccessful {
					switch m.CKind {
					case sc.KindProbe, sc.KindProbeNoStore:
						rs.probeCalls++
					case sc.KindFactory:
						rs.factoryCalls++
					}
				}
			}
		}
		if fees.Cmp(hdr.GasRewards) != 0 {
			return kit.Fail("fees-vs-gasrewards", "block %d: header.GasRewards=%s but receipts pay %s", num, hdr.GasRewards, fees)
		}
		if len(b.Receipts) != len(b.Included)+1 {
			return kit.Fail("receipts", "block %d: %d receipts for %d transactions (+1 end-block receipt expected)", num, len(b.Receipts), len(b.Included))
		}
		endRec := b.Receipts[len(b.Receipts)-1]
		// --- end-block logs
		loggedPenalty := new(big.Int)
		for _, l := range endRec.Logs {
			if len(l.Topics) == 0 {
				continue
			}
			switch l.Topics[0] {
			case topicSlashing:
				var sd staking.SlashDataV5
				if err := rlp.DecodeBytes(l.Data, &sd); err != nil {
					return kit.Fail("slash-log", "block %d: undecodable slashing log: %v", num, err)
				}
				if sd.Total != nil {
					loggedPenalty.Add(loggedPenalty, sd.Total)
				}
				rs.penalties++
				if sd.Type == staking.EventTypeInactive {
					rs.inactivity++
				} else {
					rs.evAccepted++
				}
			case topicDepositFailed:
				rs.refunds++
				rs.depositFailed++
			case topicDlgAddFailed:
				rs.refunds++
			case topicWithdrawResult:
				amount := new(big.Int).SetBytes(l.Data[common.AddressLength:])
				if amount.Sign() == 0 {
					continue
				}
				rs.matured++
				var before *state.WithdrawRecord
				for _, r := range pre.Withdraws {
					if r.TxHash == l.TxHash && r.Operator.Hash() == l.Topics[1] {
						before = r
					}
				}
				if before == nil {
					return kit.Fail("withdraw-payout", "block %d: withdraw result of %s for a record that was not in the queue", num, sc.LU(amount))
				}
				if before.Finished != 0 {
					return kit.Fail("withdraw-payout", "block %d: record %x paid again (%s) although it was finished", num, before.TxHash[:4], sc.LU(amount))
				}
				if amount.Cmp(before.FinalBalance) > 0 {
					return kit.Fail("withdraw-payout", "block %d: record %x paid %s, more than its final balance %s", num, before.TxHash[:4], sc.LU(amount), sc.LU(before.FinalBalance))
				}
				for _, r := range post.Withdraws {
					if r.TxHash == l.TxHash && r.Operator == before.Operator {
						if r.Finished != 1 || r.FinalBalance.Cmp(amount) != 0 {
							return kit.Fail("withdraw-payout", "block %d: record %x paid %s but is left finished=%d final=%s", num, r.TxHash[:4], sc.LU(amount), r.Finished, sc.LU(r.FinalBalance))
						}
					}
				}
			}
		}
		// --- subsidy comes out of the rewards pool account
		if !touches(step.Metas, b, yp.RewardsPoolAddress) {
			dec := new(big.Int).Sub(pre.Balance(yp.RewardsPoolAddress), post.Balance(yp.RewardsPoolAddress))
			if dec.Cmp(hdr.Subsidy) != 0 {
				return kit.Fail("subsidy-vs-pool", "block %d: header.Subsidy=%s but the rewards pool account decreased by %s", num, hdr.Subsidy, dec)
			}
		}
		// --- penalties arrive in the penalty account
		if !touches(step.Metas, b, yp.PenaltyTo) {
			inc := new(big.Int).Sub(post.Balance(yp.PenaltyTo), pre.Balance(yp.PenaltyTo))
			if inc.Cmp(loggedPenalty) != 0 {
				return kit.Fail("penalty-account", "block %d: penalty account received %s but the slashing logs total %s", num, sc.LU(inc), sc.LU(loggedPenalty))
			}
		}
		// --- the conservation sum
		detainedBefore := new(big.Int).Set(detained)
		negRecCandidate := false
		for v := range selfWd {
			if unbound[v] {
				negRecCandidate = true
			}
		}
		if step.PeriodEnd {
			selfWd, unbound = map[common.Address]bool{}, map[common.Address]bool{}
			rs.periodEnds++
			detained.SetUint64(0) // every pending deposit took effect or was refunded
			for _, v := range pre.Vals {
				if p := post.ValByMain[v.MainAddress()]; p != nil && v.IsOnline() && p.RewardsLastSettled == num && v.RewardsLastSettled != num {
					rs.forced++
				}
			}
		}
		have := new(big.Int).Add(post.Total, detained)
		if have.Cmp(constant) != 0 {
			diff := new(big.Int).Sub(constant, have)
			if ok, why := staleSettlePredicate(pre, post, diff, &yp); ok {
				return kit.Fail(classStale, "block %d: %s are missing from the conservation sum: %s\nbefore: %s\nafter:  %s detained=%s",
					num, sc.LU(diff), why, pre.Breakdown(), post.Breakdown(), detained)
			}
			// negative-pending-record: in this period a validator had a successful self-withdrawal and a
			// successful delegation unbind, and exactly the deposits detained during the period are gone
			// (processPendingTxs aborted: nothing took effect, nothing was refunded)
			if step.PeriodEnd && negRecCandidate && diff.Sign() > 0 && diff.Cmp(detainedBefore) == 0 {
				return kit.Fail(classNegRec, "block %d: the %s detained by this period's deposits are missing from the conservation sum: a self-withdrawal and a delegation unbind of one validator in the same period drove its pending record negative, so no pending transaction of the period took effect or was refunded\nbefore: %s\nafter:  %s",
					num, sc.LU(diff), pre.Breakdown(), post.Breakdown())
			}
			if ok, why := dustPredicate(pre, post, diff); ok {
				return kit.Fail(classDust, "block %d: %s LU are missing from the conservation sum: %s\nbefore: %s\nafter:  %s detained=%s",
					num, diff, why, pre.Breakdown(), post.Breakdown(), detained)
			}
			word := "missing from"
			if diff.Sign() < 0 {
				word = "in excess in"
				diff.Neg(diff)
				if ok, why := refundPredicate(b, step.Metas, diff); ok {
					return kit.Fail(classRefund, "block %d: %s are in excess in the conservation sum: %s\nbefore: %s\nafter:  %s detained=%s",
						num, sc.LU(diff), why, pre.Breakdown(), post.Breakdown(), detained)
				}
			}
			return kit.Fail("conservation", "block %d (period end: %v, %d txs): %s are %s the conservation sum\nbefore: %s\nafter:  %s detained=%s",
				num, step.PeriodEnd, len(b.Included), sc.LU(diff), word, pre.Breakdown(), post.Breakdown(), detained)
		}
		pre = post
	}

	labels := []string{"cfg:" + net.Cfg.Name}
	flag := func(cond bool, l string) {
		if cond {
			labels = append(labels, l)
		}
	}
	flag(rs.halted, "halted")
	flag(rs.matured > 0, "withdraw-matured")
	flag(rs.penalties > 0, "penalty")
	flag(rs.inactivity > 0, "inactivity-penalty")
	flag(rs.evAccepted > 0, "double-sign-penalty")
	flag(rs.refunds > 0, "refund-path")
	flag(rs.depositFailed > 0, "refund-path:deposit")
	flag(rs.forced > 0, "settlement-at-period-end")
	flag(rs.evm > 0, "evm-tx")
	flag(rs.probeCalls > 0, "evm:address-probe-call")
	flag(rs.factoryCalls > 0, "evm:create-by-contract")
	flag(rs.stakingOK >= 5, "staking-ok>=5")
	flag(rs.injected > 0, "excluded:"+classStale)
	for l := range w.Excluded {
		labels = append(labels, l)
	}
	flag(rs.periodEnds >= 4, "periods>=4")
	nontrivial := rs.periodEnds >= 2 && rs.stakingOK >= 1
	return kit.OK(nontrivial, labels...)
}

var _ = kit.Register(kit.Prop[Case]{
	Name: "Conservation",
	Rule: "chains of 2*frequency+2..64 (thorough 120) blocks on a genesis with chancellor, senator and HOUSE validators under one scaled YouV5 " +
		"configuration per process; per block 0-4 transactions from the full alphabet (transfers, contract create/call incl. reverting and " +
		"self-destructing contracts, all nine staking actions with valid, boundary and invalid arguments, undecodable staking payloads), " +
		"double-sign evidences, skewed proposer choice (inactivity). Non-trivial: the chain crosses >= 2 period ends and contains >= 1 " +
		"successful staking transaction.",
	Gen: genCase, Run: runCase,
	Quick: 150, Thorough: 1200, Chunk: 15, MinNonTrivialPct: 50,
	QuickBudgetS: 60, ThoroughBudgetS: 540,
})
