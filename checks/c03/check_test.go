package c03

import (
	"fmt"
	"math/big"
	"sort"
	"strings"
	"sync"
	"testing"

	"github.com/youchainhq/go-youchain/common"
	"github.com/youchainhq/go-youchain/consensus/ucon"
	"github.com/youchainhq/go-youchain/core/types"
	"github.com/youchainhq/go-youchain/params"
	"github.com/youchainhq/go-youchain/rlp"
	"github.com/youchainhq/go-youchain/staking"
	"github.com/youchainhq/go-youchain/youdb"
	"pgregory.net/rapid"
	"verif/kit"
	uk "verif/lib/uconkit"
	"verif/lib/uconrig"
)

// protocol triples (proposer, validator, certificate committee sizes), as in C01
var triples = [][3]uint64{{26, 2000, 4000}, {5, 200, 400}, {3, 50, 100}}

const certRound = 32768

func version(i int) params.YouVersion { return params.YouVersion(101 + i) }

func TestMain(m *testing.M) {
	params.InitNetworkId(params.NetworkIdForTestCase)
	base := params.Versions[params.YouV5]
	for i, t := range triples {
		yp := base
		yp.Version = version(i)
		yp.ProposerThreshold, yp.ValidatorThreshold, yp.CertValThreshold = t[0], t[1], t[2]
		yp.EnableBls = true
		params.Versions[version(i)] = yp
	}
	kit.Main(m, "C03")
}
func TestProps(t *testing.T)  { kit.RunAll(t) }
func TestReplay(t *testing.T) { kit.ReplayAll(t) }

// Op is one event of a history.
type Op struct {
	Kind string `json:"kind"`
	A    int    `json:"a"`
	B    int    `json:"b"`
	C    int    `json:"c"`
	D    int    `json:"d"`
}

// Case is a validator set, a protocol triple, a round and a history of events.
type Case struct {
	Params int          `json:"params"`
	Vals   []uk.ValSpec `json:"vals"`
	Seed   uint8        `json:"seed"`
	Cert   bool         `json:"cert"`
	Legacy bool         `json:"legacy"` // protocol version below YouV5 (no slashing evidence; the tally rules are the same)
	Ops    []Op         `json:"ops"`
}

var kinds = []ucon.VoteType{ucon.Prevote, ucon.Precommit, ucon.NextIndex, ucon.Certificate}

func genCase(t *rapid.T) Case {
	c := Case{Params: rapid.IntRange(0, 2).Draw(t, "params"), Seed: uint8(rapid.IntRange(0, 3).Draw(t, "seed"))}
	c.Cert = rapid.IntRange(0, 2).Draw(t, "cert") == 0
	c.Legacy = rapid.IntRange(0, 3).Draw(t, "legacy") == 0
	T := triples[c.Params][1]
	if c.Cert {
		T = triples[c.Params][2]
	}
	n := rapid.IntRange(4, 6).Draw(t, "nvals")
	var chamber uint64
	for i := 0; i < n; i++ {
		v := uk.ValSpec{Key: i, Online: true, Role: uint8(params.RoleSenator)}
		if i > 0 {
			switch rapid.IntRange(0, 9).Draw(t, "role") {
			case 0:
				v.Role = uint8(params.RoleHouse)
			case 1:
				v.Online = false
			case 2:
				v.Role = uint8(params.RoleChancellor)
			}
		}
		v.Stake = 1 + uint64(rapid.IntRange(0, int(T)).Draw(t, "stake"))
		if v.IsChamber() && v.Online {
			chamber += v.Stake
		}
		c.Vals = append(c.Vals, v)
	}
	if chamber < T {
		c.Vals[0].Stake += T - chamber
	}
	op := func(kind string) Op {
		return Op{Kind: kind, A: rapid.IntRange(0, 255).Draw(t, "a"), B: rapid.IntRange(0, 255).Draw(t, "b"),
			C: rapid.IntRange(0, 255).Draw(t, "c"), D: rapid.IntRange(0, 255).Draw(t, "d")}
	}
	episodes := rapid.IntRange(1, 3).Draw(t, "episodes")
	for ep := 0; ep < episodes; ep++ {
		if ep > 0 && len(c.Ops) > 0 && c.Ops[len(c.Ops)-1].Kind == "nextindex" && rapid.IntRange(0, 2).Draw(t, "staleequiv") == 0 {
			for n := rapid.IntRange(1, 2).Draw(t, "nstale"); n > 0; n-- {
				c.Ops = append(c.Ops, op("stale-equiv"))
			}
		}
		if ep > 0 && len(c.Ops) > 0 && c.Ops[len(c.Ops)-1].Kind == "nextindex" && rapid.IntRange(0, 2).Draw(t, "carry") == 0 {
			// the new round index goes on with a block of the earlier one (C = 3 selects it): quorums of the
			// earlier index must not count here, and the commit of a block proposed in index k with the votes
			// of index k+1 must verify
			for _, k := range rapid.SampledFrom([][]int{{0, 1, 3}, {3}, {1, 3}, {0, 1}, {3, 1}}).Draw(t, "carrykinds") {
				o := op("votes-until")
				o.A, o.C, o.D = k, 3, 0
				c.Ops = append(c.Ops, o)
			}
		}
		// most episodes start with an honest proposal, so that there is something to commit
		if rapid.IntRange(0, 4).Draw(t, "lead") > 0 {
			o := op("propose")
			o.D = 0
			c.Ops = append(c.Ops, o)
		}
		np := rapid.IntRange(0, 2).Draw(t, "nprop")
		for i := 0; i < np; i++ {
			c.Ops = append(c.Ops, op("propose"))
		}
		if rapid.IntRange(0, 7).Draw(t, "bodylate") == 0 {
			// votes outrun the proposed block: only the priority message is here when the quorums are counted, one
			// of their senders turns out to be a double voter, then the body arrives and the timer ticks - whatever
			// the node kept from the first attempt, a commit needs the quorum as it stands now
			pa, pb := rapid.IntRange(0, 255).Draw(t, "bla"), rapid.IntRange(0, 255).Draw(t, "blb")
			prio := Op{Kind: "propose", A: pa, B: pb, D: 11} // priority message only
			body := Op{Kind: "propose", A: pa, B: pb, D: rapid.SampledFrom([]int{10, 0}).Draw(t, "blbody")}
			c.Ops = append(c.Ops, prio)
			for _, k := range rapid.SampledFrom([][]int{{1}, {0, 1}, {1, 3}, {0, 1, 3}}).Draw(t, "blkinds") {
				o := op("votes-until")
				o.A, o.C, o.D = k, 0, rapid.IntRange(0, 1).Draw(t, "blmode")
				c.Ops = append(c.Ops, o)
			}
			e := op("late-equiv")
			e.A = 1
			for n := rapid.IntRange(1, 2).Draw(t, "bln"); n > 0; n-- {
				c.Ops = append(c.Ops, e)
				e.B++
			}
			c.Ops = append(c.Ops, body, op("step"))
			if rapid.Bool().Draw(t, "blstep2") {
				c.Ops = append(c.Ops, op("step"))
			}
		}
		if rapid.IntRange(0, 5).Draw(t, "revoke") == 0 {
			// quorum, then one of its senders turns out to be a double voter, then the next quorum:
			// a quorum that was counted once must not outlive the removal of a double voter's weight
			blk := rapid.IntRange(0, 5).Draw(t, "revblock")
			first := rapid.SampledFrom([]int{1, 1, 1, 3, 0}).Draw(t, "revfirst")
			second := rapid.SampledFrom([]int{3, 3, 1, 0}).Draw(t, "revsecond")
			pre := op("votes-until")
			pre.A, pre.C, pre.D = 0, blk, 0
			a := op("votes-until")
			a.A, a.C = first, blk
			a.D = rapid.IntRange(0, 1).Draw(t, "revmode")
			e := op("late-equiv")
			e.A = first
			b := op("votes-until")
			b.A, b.C, b.D = second, blk, 0
			if rapid.Bool().Draw(t, "revprevotes") {
				c.Ops = append(c.Ops, pre)
			}
			c.Ops = append(c.Ops, a)
			for n := rapid.IntRange(1, 2).Draw(t, "revn"); n > 0; n-- {
				c.Ops = append(c.Ops, e)
				e.B++
			}
			c.Ops = append(c.Ops, b)
		}
		steps := rapid.IntRange(0, 6).Draw(t, "steps")
		for st := 0; st < steps; st++ {
			nev := rapid.IntRange(0, 3).Draw(t, "nev")
			for i := 0; i < nev; i++ {
				k := rapid.SampledFrom([]string{"vote", "vote", "vote", "votes-until", "votes-until", "votes-until", "propose", "late-equiv"}).Draw(t, "ev")
				o := op(k)
				if k == "vote" && rapid.IntRange(0, 2).Draw(t, "honestvote") == 0 {
					o.D = 0
				}
				if k == "votes-until" {
					// prevote and precommit quorums are what drives escalation; certificate in cert rounds
					o.A = rapid.SampledFrom([]int{0, 0, 1, 1, 1, 2, 3, 3}).Draw(t, "untilkind")
					o.C = rapid.IntRange(0, 5).Draw(t, "untilblock")
				}
				c.Ops = append(c.Ops, o)
			}
			c.Ops = append(c.Ops, op("step"))
		}
		switch rapid.IntRange(0, 5).Draw(t, "end") {
		case 0, 1:
			c.Ops = append(c.Ops, op("nextindex"))
		case 2, 3:
			// the committed block (if any) becomes the head, the node enters the next round, and precommits
			// for the committed block keep arriving (the node merges them into the stored header)
			c.Ops = append(c.Ops, op("advance"))
			for n := rapid.IntRange(0, 3).Draw(t, "nlate"); n > 0; n-- {
				o := op("late-precommit")
				if rapid.IntRange(0, 2).Draw(t, "honestlate") == 0 {
					o.D = 0
				}
				c.Ops = append(c.Ops, o)
			}
		}
	}
	return c
}

// ---------------------------------------------------------------------------------
// memoised crypto (pure functions of their arguments)

var (
	memoMu   sync.Mutex
	credMemo = map[string]uk.Credential{}
	sigMemo  = map[string][]byte{}
)

func cred(key int, seed common.Hash, ri, step uint32, T, stake, total uint64) uk.Credential {
	k := fmt.Sprintf("%d/%x/%d/%d/%d/%d/%d", key, seed, ri, step, T, stake, total)
	memoMu.Lock()
	if c, ok := credMemo[k]; ok {
		memoMu.Unlock()
		return c
	}
	memoMu.Unlock()
	c := uk.Sortition(key, seed, ri, step, T, stake, total)
	memoMu.Lock()
	if len(credMemo) < 300000 {
		credMemo[k] = c
	}
	memoMu.Unlock()
	return c
}

func blsSig(key int, payload []byte) []byte {
	k := fmt.Sprintf("%d/%x", key, payload)
	memoMu.Lock()
	if s, ok := sigMemo[k]; ok {
		memoMu.Unlock()
		return s
	}
	memoMu.Unlock()
	c := uk.BlsSign(key, payload).Compress()
	s := append([]byte(nil), c.Bytes()...)
	memoMu.Lock()
	if len(sigMemo) < 300000 {
		sigMemo[k] = s
	}
	memoMu.Unlock()
	return s
}

// ---------------------------------------------------------------------------------

type world struct {
	c       Case
	set     *uk.Set
	certSet *uk.Set // look-back set of the certificate committee (certificate rounds): same validators, other stakes and ranks
	trip    [3]uint64
	yp      *params.YouParams
	chain   *uk.FakeChain
	rig     *ucon.VerifRig
	col     *uk.Collector
	round   uint64
	index   uint32
	step    uint32
	members []int
	others  []int
	blocks  map[string]*types.Block // "ri/id/variant" -> block
	hist    []string
	labels  map[string]bool

	// the last block the node committed (header as assembled and verified), for late precommits
	last *commitRec
	// commit of the current round, not yet adopted as the head (op "advance")
	pending *commitRec
	// counted precommits of the earlier round indexes of the current round: index -> sender -> block
	prevIdx map[uint32]map[int]common.Hash

	// tally model for the current (round, index)
	first  map[ucon.VoteType]map[int]common.Hash // sender -> block of its first counted vote
	equiv  map[ucon.VoteType]map[int]bool
	weight map[ucon.VoteType]map[int]uint32
}

// commitRec is a committed block with the header the node assembled for it.
type commitRec struct {
	round  uint64
	index  uint32 // round index of the vote container
	header *types.Header
	voted  map[int]bool // senders whose precommit for it was counted
	// senders whose precommit for this block was counted in an EARLIER round index of its round
	// (the block was locked there and committed later): index -> senders
	earlier map[uint32]map[int]bool
	seen    int // entries of chain.Updated already judged
}

func (w *world) resetTally() {
	w.first = map[ucon.VoteType]map[int]common.Hash{}
	w.equiv = map[ucon.VoteType]map[int]bool{}
	w.weight = map[ucon.VoteType]map[int]uint32{}
	for _, k := range kinds {
		w.first[k] = map[int]common.Hash{}
		w.equiv[k] = map[int]bool{}
		w.weight[k] = map[int]uint32{}
	}
}

func (w *world) tally(k ucon.VoteType, b common.Hash) uint64 {
	var sum uint64
	for s, h := range w.first[k] {
		if h == b && !w.equiv[k][s] {
			sum += uint64(w.weight[k][s])
		}
	}
	return sum
}

func (w *world) isCert() bool { return w.round%params.ACoCHTFrequency == 0 }

// seed and committee size a credential of this step is issued for
func (w *world) seedT(step uint32) (common.Hash, uint64) {
	switch step {
	case 1:
		return w.chain.SeedOf(w.round - w.yp.SeedLookBack), w.trip[0]
	case 5:
		if w.isCert() {
			return w.chain.SeedOf(0), w.trip[2]
		}
		// no certificate committee exists in an ordinary round (the node rejects such votes);
		// keep the harness's own credential computation inside the binomial's domain (p <= 1)
	}
	return w.chain.SeedOf(w.round - w.yp.SeedLookBack), w.trip[1]
}

// setOf returns the look-back set a credential of this step is judged against.
func (w *world) setOf(step uint32) *uk.Set {
	if step == 5 && w.isCert() && w.certSet != nil {
		return w.certSet
	}
	return w.set
}

func (w *world) credOf(i int, step uint32, ri uint32) uk.Credential {
	seed, T := w.seedT(step)
	set := w.setOf(step)
	sp := set.Specs[i]
	return cred(sp.Key, seed, ri, step, T, sp.Stake, set.TotalChamber)
}

func quorum(T uint64, frac float64) uint64 { return uint64(uint32(float64(T) * frac)) }

func (w *world) quorumOf(k ucon.VoteType) uint64 {
	if k == ucon.Certificate {
		return quorum(w.trip[2], 0.585)
	}
	return quorum(w.trip[1], 0.685)
}

func (w *world) logf(f string, a ...interface{}) { w.hist = append(w.hist, fmt.Sprintf(f, a...)) }

// block builds (and caches) a proposed block for the current round and index.
// variant: 0 honest, 3 forged priority, 4 non-maximal seat, 5 inflated seats, 6 zero-seat proposer,
// 7 house/offline proposer, 8 header carries other thresholds
func (w *world) block(proposer int, id int, variant int) (*types.Block, *ucon.BlockConsensusData, bool) {
	key := fmt.Sprintf("%d/%d/%d/%d", w.index, id, variant, proposer)
	sp := w.set.Specs[proposer]
	cr := w.credOf(proposer, 1, w.index)
	sub := cr.J
	prio := ucon.VrfComputePriority(cr.Value, cr.J)
	honestCred := cr.J >= 1 && sp.IsChamber() && sp.Online
	switch variant {
	case 3:
		prio = common.HexToHash("0xffffffffffffffffffffffffffffffffffffffffffffffffffffffffffffffff")
		honestCred = false
	case 4:
		alt := ucon.VrfComputePriority(cr.Value, 0)
		if alt == prio {
			return nil, nil, false
		}
		prio, honestCred = alt, false
	case 5:
		sub++
		prio = ucon.VrfComputePriority(cr.Value, sub)
		honestCred = false
	case 6:
		if cr.J != 0 {
			return nil, nil, false
		}
		honestCred = false
	}
	if b, ok := w.blocks[key]; ok {
		cd, _ := ucon.GetConsensusDataFromHeader(b.Header())
		return b, cd, honestCred
	}
	parent := w.chain.CurrentHeader()
	h := uk.NewHeader(parent, w.round)
	h.CurrVersion = version(w.c.Params)
	h.Extra = []byte{byte(id), byte(variant)}
	seedNext, _ := uk.PoolKey(sp.Key).Vrf.Evaluate([]byte{byte(id)})
	cd := &ucon.BlockConsensusData{Round: new(big.Int).SetUint64(w.round), RoundIndex: w.index, Seed: seedNext,
		SortitionProof: cr.Proof, Priority: prio, SubUsers: sub,
		ProposerThreshold: w.trip[0], ValidatorThreshold: w.trip[1], CertValThreshold: w.trip[2]}
	if variant == 8 {
		cd.ValidatorThreshold, cd.ProposerThreshold = 1, w.set.TotalChamber
	}
	if err := uk.SetConsensus(h, cd, sp.Key); err != nil {
		panic(err)
	}
	uk.SealHeader(h, sp.Key)
	b := types.NewBlockWithHeader(h)
	w.blocks[key] = b
	return b, cd, honestCred
}

// knownBlocks lists blocks built so far for the current index, sorted by key
func (w *world) knownBlocks() []*types.Block {
	var ks []string
	for k := range w.blocks {
		if strings.HasPrefix(k, fmt.Sprintf("%d/", w.index)) {
			ks = append(ks, k)
		}
	}
	sort.Strings(ks)
	var out []*types.Block
	for _, k := range ks {
		out = append(out, w.blocks[k])
	}
	return out
}

// earlierBlocks are the blocks proposed in earlier round indexes of this round (the node keeps them
// cached: a block locked in index k can be voted again, and committed, in index k+1).
func (w *world) earlierBlocks() []*types.Block {
	var ks []string
	cur := fmt.Sprintf("%d/", w.index)
	for k := range w.blocks {
		if !strings.HasPrefix(k, cur) {
			ks = append(ks, k)
		}
	}
	sort.Strings(ks)
	var out []*types.Block
	for _, k := range ks {
		out = append(out, w.blocks[k])
	}
	return out
}

func (w *world) pickBlock(c int) common.Hash {
	if c%4 == 3 {
		if eb := w.earlierBlocks(); len(eb) > 0 {
			w.labels["vote-for-earlier-index-block"] = true
			return eb[(c/4)%len(eb)].Hash()
		}
	}
	bs := w.knownBlocks()
	if len(bs) == 0 || c%7 == 6 {
		return crypto3(byte(c)) // a block nobody proposed to this node
	}
	return bs[c%len(bs)].Hash()
}

func crypto3(b byte) common.Hash {
	return common.BytesToHash([]byte{0xab, b % 3, 0xcd, 1, 2, 3, 4, 5, 6, 7, 8, 9, 10, 11, 12, 13, 14, 15, 16, 17, 18, 19, 20, 21, 22, 23, 24, 25, 26, 27, 28, b % 3})
}

// evidenceDefect judges what the node's double-vote detector posts by the acceptance rule of the slashing
// code (staking.processDoubleSignV5): the signer index resolves in the look-back set of the evidence's
// round, and BOTH signatures verify under that validator's BLS key over (hash, round, round index) as the
// evidence states them; the two hashes differ. Evidence that fails this rule can never penalise anybody,
// and the detector's per-sender latch means no second evidence follows.
func (w *world) evidenceDefect(ev staking.Evidence) string {
	if ev.Type != staking.EvidenceTypeDoubleSignV5 {
		return fmt.Sprintf("evidence type %q", ev.Type)
	}
	var ds staking.EvidenceDoubleSignV5
	if err := rlp.DecodeBytes(ev.Data, &ds); err != nil {
		return "evidence data does not decode: " + err.Error()
	}
	if len(ds.Signs) != 2 || ds.Signs[0] == nil || ds.Signs[1] == nil {
		return "evidence does not carry two signatures"
	}
	if ds.Signs[0].Hash == ds.Signs[1].Hash {
		return "both signatures are for the same block"
	}
	set := w.set
	if ucon.VoteType(ds.VoteType) == ucon.Certificate && w.certSet != nil {
		set = w.certSet
	}
	signer := -1
	for i := range set.Specs {
		if uint32(set.Index[i]) == ds.SignerIdx {
			signer = i
		}
	}
	if signer < 0 {
		return fmt.Sprintf("signer index %d is not in the look-back set", ds.SignerIdx)
	}
	pk, err := uk.PoolKey(set.Specs[signer].Key).BlsSk.PubKey()
	if err != nil {
		return err.Error()
	}
	for k, si := range ds.Signs {
		sig, err := uk.BlsMgr.DecSignature(si.Sign)
		if err != nil {
			return fmt.Sprintf("signature %d does not decode", k)
		}
		if err := pk.Verify(uk.VotePayload(si.Hash, ds.Round, ds.RoundIndex), sig); err != nil {
			return fmt.Sprintf("evidence names (round %d, index %d, kind %d, signer v%d): signature %d over block %x does not verify for that context (%v) - the votes were cast in another round / round index than the evidence says",
				ds.Round, ds.RoundIndex, ds.VoteType, signer, k, si.Hash[:4], err)
		}
	}
	w.labels["evidence-usable"] = true
	return ""
}

// sendLateVote delivers a precommit for the block committed in the previous round (w.last).
// variant 0 honest, 3 inflated weight, 4 credential of another step, 11 signature over another block,
// 12 zero-seat sender claiming one seat. It reports whether the vote is genuine.
func (w *world) sendLateVote(sender int, variant int, ri uint32) bool {
	sp := w.set.Specs[sender]
	r := w.last.round
	hash := w.last.header.Hash()
	step := uint32(ucon.Precommit)
	credStep := step
	if variant == 4 {
		credStep = uint32(ucon.Prevote)
	}
	seed := w.chain.SeedOf(r - w.yp.SeedLookBack)
	cr := cred(sp.Key, seed, ri, credStep, w.trip[1], sp.Stake, w.set.TotalChamber)
	votes := cr.J
	switch variant {
	case 3:
		votes += 1 + uint32(sender)
	case 12:
		if votes == 0 {
			votes = 1
		}
	}
	sigHash := hash
	if variant == 11 {
		sigHash = crypto3(7)
	}
	vote := &ucon.SingleVote{VoterIdx: uint32(w.set.Index[sender]), Votes: votes, Proof: cr.Proof,
		Signature: blsSig(sp.Key, uk.VotePayload(sigHash, r, ri))}
	err := w.rig.HandleMsg(uconrig.VoteMessage(sp.Key, codeOf[ucon.Precommit], r, ri, hash, common.Hash{}, vote))
	genuine := cr.J >= 1 && votes == cr.J && credStep == step && sigHash == hash
	w.logf("    late vote Precommit from v%d (stake %d) for (%d,%d) block %x weight %d (true seats %d) variant %d genuine %v -> %v", sender, sp.Stake, r, ri, hash[:4], votes, cr.J, variant, genuine, err)
	if genuine {
		w.labels["late-precommit-genuine"] = true
	} else {
		w.labels["late-precommit-bogus"] = true
	}
	return genuine
}

var codeOf = map[ucon.VoteType]uint8{ucon.Prevote: ucon.VerifMsgPrevote, ucon.Precommit: ucon.VerifMsgPrecommit,
	ucon.NextIndex: ucon.VerifMsgNext, ucon.Certificate: ucon.VerifMsgCertificate}

// sendVote delivers sender's vote through the real HandleMsg path. variant 0 = honest.
// It returns whether, by ground truth, the vote is one the node must be able to count now.
func (w *world) sendVote(kind ucon.VoteType, sender int, hash common.Hash, variant int) {
	sp := w.set.Specs[sender]
	r, ri := w.round, w.index
	step := uint32(kind)
	credRI, credStep := ri, step
	switch variant {
	case 4:
		credStep = []uint32{2, 3, 4, 5}[(int(step)-1)%4] // another step's credential
		if credStep == step {
			credStep = 2 + (step-1)%3
		}
	case 5:
		credRI = ri + 1
	case 6:
		if ri > 1 {
			ri--
			credRI = ri
		}
	case 7:
		ri++
		credRI = ri
	case 8:
		r++
	}
	seed, T := w.seedT(credStep)
	if variant == 8 {
		seed = w.chain.SeedOf(r - w.yp.SeedLookBack)
	}
	cset := w.setOf(credStep)
	cr := cred(sp.Key, seed, credRI, credStep, T, cset.Specs[sender].Stake, cset.TotalChamber)
	votes := cr.J
	if variant == 3 {
		votes++
	}
	sigHash := hash
	if variant == 11 {
		sigHash = crypto3(7)
	}
	msgKey := sp.Key
	if variant == 9 {
		msgKey = w.set.Specs[(sender+1)%len(w.set.Specs)].Key
	}
	vote := &ucon.SingleVote{VoterIdx: uint32(w.setOf(step).Index[sender]), Votes: votes, Proof: cr.Proof,
		Signature: blsSig(sp.Key, uk.VotePayload(sigHash, r, ri))}
	msg := uconrig.VoteMessage(msgKey, codeOf[kind], r, ri, hash, common.Hash{}, vote)
	err := w.rig.HandleMsg(msg)
	w.logf("    vote %s from v%d (stake %d%s) for (%d,%d) block %x weight %d variant %d -> %v", ucon.VoteTypeToString(kind), sender, sp.Stake,
		map[bool]string{true: "", false: ", NOT an online chamber member"}[sp.IsChamber() && sp.Online], r, ri, hash[:4], votes, variant, err)
	if variant == 1 {
		w.rig.HandleMsg(msg)
	}
	// ground truth: does this delivery add weight to the node's tally of the current (round, index)?
	// (decided from what was actually built, not from the variant number)
	valid := sp.IsChamber() && sp.Online && cr.J >= 1 && votes == cr.J &&
		r == w.round && ri == w.index && credRI == ri && credStep == step &&
		sigHash == hash && msgKey == sp.Key && !(kind == ucon.Certificate && !w.isCert())
	if !valid {
		return
	}
	if w.equiv[kind][sender] {
		return
	}
	if prev, ok := w.first[kind][sender]; ok {
		if prev != hash && kind != ucon.NextIndex {
			w.equiv[kind][sender] = true // voted two different blocks in one step: contributes nothing
			w.labels["equivocation"] = true
		}
		return
	}
	w.first[kind][sender] = hash
	w.weight[kind][sender] = votes
}

func runCase(c Case) kit.Result {
	set, err := uk.BuildSet(c.Vals)
	if err != nil {
		return kit.Discarded("set: " + err.Error())
	}
	yp := params.Versions[version(c.Params)]
	if c.Legacy {
		yp.Version = params.YouV4 // what CurrentYouParams().Version reports; the table key stays private
	}
	w := &world{c: c, set: set, trip: triples[c.Params], yp: &yp, blocks: map[string]*types.Block{}, labels: map[string]bool{}}
	w.round = 40
	if c.Cert {
		w.round = certRound
	}
	w.index, w.step = 1, 0
	for i, sp := range c.Vals {
		if sp.IsChamber() && sp.Online {
			w.members = append(w.members, i)
		} else {
			w.others = append(w.others, i)
		}
	}
	w.chain = uk.NewFakeChain(set, w.yp, w.round-1, c.Seed)
	w.chain.HeaderVersion = version(c.Params)
	if c.Cert {
		// the certificate committee is drawn from an older look-back block: same validators,
		// but the online chamber members' stakes rotated, so stakes and ranks (VoterIdx) differ
		cs := append([]uk.ValSpec(nil), c.Vals...)
		for k, m := range w.members {
			cs[m].Stake = c.Vals[w.members[(k+1)%len(w.members)]].Stake
		}
		w.certSet, err = uk.BuildSetOn(set.DB, cs)
		if err != nil {
			return kit.Discarded("cert set: " + err.Error())
		}
		w.chain.CertValRoot = &w.certSet.ValRoot
		if fmt.Sprint(w.certSet.Index) != fmt.Sprint(set.Index) {
			w.labels["cert-ranks-differ"] = true
		}
	}
	own := uk.PoolKey(c.Vals[0].Key)
	rig, err := ucon.VerifNewRig(youdb.NewMemDatabase(), w.chain, own.Ecdsa, own.BlsSk, w.yp, w.round)
	if err != nil {
		return kit.Discarded("rig: " + err.Error())
	}
	w.rig = rig
	w.col = uk.NewCollector(rig.Mux, ucon.SendMessageEvent{}, ucon.CommitEvent{}, ucon.RoundIndexChangeEvent{}, staking.Evidence{}, ucon.UpdateExistedHeaderEvent{})
	defer func() {
		w.col.Quiesce()
		w.col.Close()
		rig.Mux.Stop()
	}()
	verifier, _ := ucon.NewVRFServer(youdb.NewMemDatabase())
	w.resetTally()
	escalations, commits, adversarial, boundary := 0, 0, 0, 0

	fail := func(class, f string, a ...interface{}) kit.Result {
		return kit.Fail(class, "%s\nvalidators: %+v (online chamber stake %d), params %v, node = v0\nhistory:\n%s",
			fmt.Sprintf(f, a...), c.Vals, set.TotalChamber, w.trip, strings.Join(w.hist, "\n"))
	}

	// process the events the node emitted during the last delivery
	process := func() *kit.Result {
		if !w.col.Quiesce() {
			r := kit.Discarded("event mux did not quiesce")
			return &r
		}
		evs := w.col.Drain()
		type own struct {
			kind  ucon.VoteType
			hash  common.Hash
			votes uint32
		}
		var owns []own
		var cms []ucon.CommitEvent
		var ups []ucon.UpdateExistedHeaderEvent
		for _, ev := range evs {
			switch e := ev.(type) {
			case ucon.UpdateExistedHeaderEvent:
				ups = append(ups, e)
			case ucon.SendMessageEvent:
				var kind ucon.VoteType
				switch uint8(e.Code) {
				case ucon.VerifMsgPrevote:
					kind = ucon.Prevote
				case ucon.VerifMsgPrecommit:
					kind = ucon.Precommit
				case ucon.VerifMsgNext:
					kind = ucon.NextIndex
				case ucon.VerifMsgCertificate:
					kind = ucon.Certificate
				default:
					continue
				}
				var v ucon.BlockHashWithVotes
				if err := rlp.DecodeBytes(e.Payload, &v); err != nil {
					r := fail("undecodable-own-vote", "own vote does not decode: %v", err)
					return &r
				}
				if v.Round.Uint64() != w.round || v.RoundIndex != w.index {
					r := fail("own-vote-wrong-context", "own %s vote is for (%d,%d), the node is at (%d,%d)", ucon.VoteTypeToString(kind), v.Round, v.RoundIndex, w.round, w.index)
					return &r
				}
				owns = append(owns, own{kind, v.BlockHash, v.Vote.Votes})
			case ucon.CommitEvent:
				cms = append(cms, e)
			case staking.Evidence:
				w.labels["evidence-posted"] = true
				if why := w.evidenceDefect(e); why != "" {
					r := fail("detector-evidence-unusable", "the node detected a double vote and posted evidence that the slashing code cannot accept: %s", why)
					return &r
				}
			}
		}
		sort.Slice(owns, func(i, j int) bool { return owns[i].kind < owns[j].kind })
		for _, o := range owns {
			w.logf("      -> node EMITS %s for block %x weight %d", ucon.VoteTypeToString(o.kind), o.hash[:4], o.votes)
			trueJ := w.credOf(0, uint32(o.kind), w.index).J
			if o.votes != trueJ || trueJ < 1 {
				r := fail("own-vote-weight", "own %s vote claims %d seats; the node's sortition for this step gives %d", ucon.VoteTypeToString(o.kind), o.votes, trueJ)
				return &r
			}
			var need ucon.VoteType
			switch o.kind {
			case ucon.Precommit:
				need = ucon.Prevote
			case ucon.Certificate:
				need = ucon.Precommit
			}
			if need != 0 {
				escalations++
				got, q := w.tally(need, o.hash), w.quorumOf(need)
				if got < q {
					r := fail("escalation-without-quorum", "node emitted a %s vote for block %x although the %s votes for exactly that block from distinct, valid, non-equivocating committee members weigh %d < quorum %d",
						ucon.VoteTypeToString(o.kind), o.hash[:4], ucon.VoteTypeToString(need), got, q)
					return &r
				}
				if got <= q+q/8 {
					boundary++
				}
			}
			if _, ok := w.first[o.kind][0]; !ok {
				w.first[o.kind][0] = o.hash
				w.weight[o.kind][0] = o.votes
			}
		}
		for _, ce := range cms {
			commits++
			h := ce.Block.Hash()
			w.logf("      -> node COMMITS block %x in (%d,%d)", h[:4], ce.Round, ce.RoundIndex)
			got, q := w.tally(ucon.Precommit, h), w.quorumOf(ucon.Precommit)
			if got < q {
				r := fail("commit-without-quorum", "node announced a commit of block %x although counted precommits for it weigh %d < quorum %d", h[:4], got, q)
				return &r
			}
			if w.isCert() {
				gc, qc := w.tally(ucon.Certificate, h), w.quorumOf(ucon.Certificate)
				if gc < qc {
					r := fail("commit-without-cert-quorum", "certificate round: node announced a commit of block %x although counted certificate votes weigh %d < quorum %d", h[:4], gc, qc)
					return &r
				}
			}
			// (c) the vote set attached to the commit must verify
			blk, err := w.rig.VerifAssembleCommit(ce)
			if err != nil {
				r := fail("commit-assemble-failed", "assembling the committed header failed: %v", err)
				return &r
			}
			parent := types.NewBlockWithHeader(w.chain.CurrentHeader())
			seedHeader := w.chain.GetHeaderByNumber(w.round - w.yp.SeedLookBack)
			cp := w.yp.CaravelParams
			var verr error
			func() {
				defer func() {
					if r := recover(); r != nil {
						verr = fmt.Errorf("verifier panicked: %v", r)
					}
				}()
				if w.isCert() {
					verr = verifier.VerifySideChainHeader(&cp, seedHeader, set.Reader, w.chain.GetHeaderByNumber(0), w.certSet.Reader, blk, []*types.Block{parent})
				} else {
					verr = verifier.VerifySideChainHeader(&cp, seedHeader, set.Reader, nil, nil, blk, []*types.Block{parent})
				}
			}()
			if verr != nil {
				cd, _ := ucon.GetConsensusDataFromHeader(blk.Header())
				class := "committed-header-rejected"
				for k, b := range w.blocks {
					if b.Hash() == h && !strings.Contains(k, "/0/") {
						_ = k
					}
				}
				r := fail(class, "the header assembled from the node's commit of block %x (proposer seats %d, priority %x) is REJECTED by header verification: %v", h[:4], cd.SubUsers, cd.Priority[:4], verr)
				return &r
			}
			w.labels["commit-verified"] = true
			if w.pending == nil {
				rec := &commitRec{round: w.round, index: ce.RoundIndex, header: blk.Header(), voted: map[int]bool{}, earlier: map[uint32]map[int]bool{}}
				for idx, m := range w.prevIdx {
					for s, fh := range m {
						if fh == h {
							if rec.earlier[idx] == nil {
								rec.earlier[idx] = map[int]bool{}
							}
							rec.earlier[idx][s] = true
						}
					}
				}
				for s, fh := range w.first[ucon.Precommit] {
					if fh == h && !w.equiv[ucon.Precommit][s] {
						rec.voted[s] = true
					}
				}
				w.pending = rec
			}
		}
		// late precommits merged into the stored header of a committed block: the header must stay verifiable
		for _, ue := range ups {
			if w.last == nil || ue.BlockHash != w.last.header.Hash() {
				continue
			}
			w.rig.VerifUpdateBlockHeader(ue)
			for ; w.last.seen < len(w.chain.Updated); w.last.seen++ {
				uh := w.chain.Updated[w.last.seen]
				w.labels["stored-header-updated"] = true
				w.logf("      -> node UPDATES the stored header of block %x (#%d) with late precommits", uh.Hash().Bytes()[:4], uh.Number.Uint64())
				parent := types.NewBlockWithHeader(w.chain.GetHeaderByNumber(w.last.round - 1))
				seedHeader := w.chain.GetHeaderByNumber(w.last.round - w.yp.SeedLookBack)
				cp := w.yp.CaravelParams
				var verr error
				func() {
					defer func() {
						if r := recover(); r != nil {
							verr = fmt.Errorf("verifier panicked: %v", r)
						}
					}()
					if w.last.round%params.ACoCHTFrequency == 0 {
						verr = verifier.VerifySideChainHeader(&cp, seedHeader, set.Reader, w.chain.GetHeaderByNumber(0), w.certSet.Reader, types.NewBlockWithHeader(uh), []*types.Block{parent})
					} else {
						verr = verifier.VerifySideChainHeader(&cp, seedHeader, set.Reader, nil, nil, types.NewBlockWithHeader(uh), []*types.Block{parent})
					}
				}()
				if verr != nil {
					r := fail("updated-header-rejected", "the node merged late precommits into the stored header of committed block %x (#%d); the stored header is now REJECTED by header verification: %v", uh.Hash().Bytes()[:4], uh.Number.Uint64(), verr)
					return &r
				}
				w.labels["updated-header-verified"] = true
			}
		}
		return nil
	}

	setContext := func() *kit.Result {
		w.rig.SetContext(w.round, w.index, w.step)
		return process()
	}
	if r := setContext(); r != nil {
		return *r
	}
	w.logf("start: node at (%d,%d) step 0; quorum %d of %d%s", w.round, w.index, w.quorumOf(ucon.Precommit), w.trip[1],
		map[bool]string{true: fmt.Sprintf("; certificate round, cert quorum %d of %d", w.quorumOf(ucon.Certificate), w.trip[2]), false: ""}[w.isCert()])

	for i, op := range c.Ops {
		switch op.Kind {
		case "step":
			if w.step >= 7 {
				continue
			}
			w.step++
			w.logf("[%d] timer: step %d", i, w.step)
			if r := setContext(); r != nil {
				return *r
			}
		case "nextindex":
			if w.pending != nil && w.pending.round == w.round {
				continue // a node that has committed inserts the block and starts the next round: its round index never times out
			}
			if w.prevIdx == nil {
				w.prevIdx = map[uint32]map[int]common.Hash{}
			}
			w.prevIdx[w.index] = map[int]common.Hash{}
			for s, fh := range w.first[ucon.Precommit] {
				if !w.equiv[ucon.Precommit][s] {
					w.prevIdx[w.index][s] = fh
				}
			}
			w.index++
			w.step = 0
			w.resetTally()
			w.logf("[%d] next round index: (%d,%d)", i, w.round, w.index)
			if r := setContext(); r != nil {
				return *r
			}
		case "advance":
			// InsertChain of the committed block and StartNewRound, as far as consensus is concerned: the header
			// the node assembled becomes the head of the chain, the node enters round+1 at index 1
			if w.pending == nil || w.pending.round != w.round {
				continue
			}
			w.last, w.pending = w.pending, nil
			w.chain.Pin(w.round, types.CopyHeader(w.last.header))
			w.chain.Head = w.round
			w.last.seen = len(w.chain.Updated)
			w.round++
			w.index, w.step = 1, 0
			w.blocks = map[string]*types.Block{}
			w.prevIdx = nil
			w.resetTally()
			w.labels["advanced-to-next-round"] = true
			w.logf("[%d] block %x becomes the head; new round: (%d,%d)", i, w.last.header.Hash().Bytes()[:4], w.round, w.index)
			if r := setContext(); r != nil {
				return *r
			}
		case "late-precommit":
			// a precommit for the block committed in the previous round arrives late
			if w.last == nil || w.last.round+1 != w.round {
				continue
			}
			// the vote is for the round index the block was committed in or - if the block had already
			// collected precommits in an earlier index of that round (locked, committed later) - for that index
			ri := w.last.index
			votedThere := w.last.voted
			if op.C%2 == 1 && len(w.last.earlier) > 0 {
				var idxs []int
				for idx := range w.last.earlier {
					idxs = append(idxs, int(idx))
				}
				sort.Ints(idxs)
				ri = uint32(idxs[(op.C/2)%len(idxs)])
				votedThere = w.last.earlier[ri]
				w.labels["late-precommit-for-earlier-index"] = true
			}
			var cands []int
			for _, m := range w.members {
				if m != 0 && !votedThere[m] {
					cands = append(cands, m)
				}
			}
			if len(cands) == 0 {
				continue
			}
			sender := cands[op.B%len(cands)]
			variant := []int{0, 0, 3, 4, 11, 12}[op.D%6]
			if variant != 0 {
				adversarial++
			}
			w.logf("[%d] deliver (late, for the block committed in round %d):", i, w.last.round)
			if w.sendLateVote(sender, variant, ri) {
				votedThere[sender] = true
			}
			if r := process(); r != nil {
				return *r
			}
		case "propose":
			variant := []int{0, 0, 0, 3, 4, 5, 6, 7, 8, 9, 1, 2}[op.D%12]
			var proposer int
			if variant == 7 {
				if len(w.others) == 0 {
					continue
				}
				proposer = w.others[op.A%len(w.others)]
			} else {
				// prefer a member that really won a proposer seat in this index
				var winners []int
				for _, m := range w.members {
					if m != 0 && w.credOf(m, 1, w.index).J >= 1 {
						winners = append(winners, m)
					}
				}
				pool := winners
				if len(pool) == 0 && variant != 6 {
					if op.D%3 != 0 {
						continue // nobody won a proposer seat in this index
					}
					variant = 6 // ... but somebody claims the proposal anyway
				}
				if variant == 6 {
					pool = nil
					for _, m := range w.members {
						if m != 0 {
							pool = append(pool, m)
						}
					}
				}
				if len(pool) == 0 {
					continue
				}
				proposer = pool[op.A%len(pool)]
			}
			bv := variant
			if variant == 9 || variant == 1 || variant == 2 {
				bv = 0
			}
			blk, cd, honest := w.block(proposer, op.B%3, bv)
			if blk == nil {
				continue
			}
			if variant != 0 && variant != 1 && variant != 2 {
				adversarial++
			}
			msgKey := c.Vals[proposer].Key
			if variant == 9 {
				msgKey = c.Vals[(proposer+1)%len(c.Vals)].Key
			}
			w.logf("[%d] proposal by v%d (seats %d, variant %d, credential honest: %v): block %x priority %x", i, proposer, cd.SubUsers, variant, honest, blk.Hash().Bytes()[:4], cd.Priority[:4])
			if variant != 1 {
				e := w.rig.HandleMsg(uconrig.PriorityMessage(msgKey, cd, blk.Hash(), blk.ParentHash()))
				w.logf("    priority message -> %v", e)
				if r := process(); r != nil {
					return *r
				}
			}
			if variant != 2 {
				e := w.rig.HandleMsg(uconrig.BlockMessage(msgKey, blk))
				w.logf("    block message -> %v", e)
				if r := process(); r != nil {
					return *r
				}
			}
		case "vote":
			kind := kinds[op.A%4]
			variant := []int{0, 0, 0, 1, 2, 3, 4, 5, 6, 7, 8, 9, 10, 11}[op.D%14]
			var sender int
			if variant == 10 {
				if len(w.others) == 0 {
					continue
				}
				sender = w.others[op.B%len(w.others)]
			} else {
				sender = 1 + op.B%(len(c.Vals)-1)
			}
			hash := w.pickBlock(op.C)
			if variant >= 2 {
				adversarial++
			}
			w.logf("[%d] deliver:", i)
			w.sendVote(kind, sender, hash, variant)
			if r := process(); r != nil {
				return *r
			}
			if variant == 2 { // equivocation: the same sender votes another block in the same step
				other := w.pickBlock(op.C + 1)
				if other == hash {
					other = crypto3(byte(op.C))
				}
				w.sendVote(kind, sender, other, 2)
				if r := process(); r != nil {
					return *r
				}
			}
		case "stale-equiv":
			// a sender whose precommit was counted in the PREVIOUS round index of this round precommits another
			// block for that index, and the vote arrives only now (the detector still has that index's votes)
			prev := w.prevIdx[w.index-1]
			var cands []int
			for s := range prev {
				if s != 0 {
					cands = append(cands, s)
				}
			}
			if w.index < 2 || len(cands) == 0 {
				continue
			}
			sort.Ints(cands)
			sender := cands[op.B%len(cands)]
			other := w.pickBlock(op.C)
			if other == prev[sender] {
				other = crypto3(byte(op.C))
			}
			adversarial++
			w.labels["stale-index-equivocation"] = true
			w.logf("[%d] deliver (double vote for the previous round index, arriving late):", i)
			w.sendVote(ucon.Precommit, sender, other, 6)
			if r := process(); r != nil {
				return *r
			}
		case "late-equiv":
			// a sender whose vote of this kind has been counted votes another block of the same step later on
			kind := kinds[op.A%4]
			if kind == ucon.NextIndex || (kind == ucon.Certificate && !w.isCert()) {
				kind = ucon.Precommit
			}
			var cands []int
			for s := range w.first[kind] {
				if s != 0 && !w.equiv[kind][s] {
					cands = append(cands, s)
				}
			}
			if len(cands) == 0 {
				continue
			}
			sort.Ints(cands)
			sender := cands[op.B%len(cands)]
			other := w.pickBlock(op.C)
			if other == w.first[kind][sender] {
				other = w.pickBlock(op.C + 1)
			}
			if other == w.first[kind][sender] {
				other = crypto3(byte(op.C))
			}
			adversarial++
			w.labels["late-equivocation"] = true
			w.logf("[%d] deliver (double vote of a counted sender):", i)
			w.sendVote(kind, sender, other, 0)
			if r := process(); r != nil {
				return *r
			}
		case "votes-until":
			kind := kinds[op.A%4]
			if kind == ucon.Certificate && !w.isCert() {
				kind = ucon.Precommit
			}
			hash := w.pickBlock(op.C)
			mode := op.D % 3
			q := w.quorumOf(kind)
			w.logf("[%d] members vote %s for block %x (mode %d):", i, ucon.VoteTypeToString(kind), hash[:4], mode)
			for _, m := range w.members {
				if m == 0 {
					continue
				}
				cur := w.tally(kind, hash)
				j := uint64(w.credOf(m, uint32(kind), w.index).J)
				if _, voted := w.first[kind][m]; voted || j == 0 {
					continue
				}
				if mode == 1 && cur >= q {
					break // stop right after the quorum was crossed
				}
				if mode == 2 && cur+j >= q {
					boundary++
					continue // stay just below the quorum
				}
				w.sendVote(kind, m, hash, 0)
				if r := process(); r != nil {
					return *r
				}
			}
		}
	}
	var ls []string
	for l := range w.labels {
		ls = append(ls, l)
	}
	if escalations > 0 {
		ls = append(ls, "escalated")
	}
	if commits > 0 {
		ls = append(ls, "committed")
	}
	if c.Cert {
		ls = append(ls, "cert-round")
	}
	if c.Legacy {
		ls = append(ls, "legacy-version")
	}
	if adversarial > 0 {
		ls = append(ls, "adversarial")
	}
	if boundary > 0 {
		ls = append(ls, "boundary")
	}
	sort.Strings(ls)
	return kit.OK((escalations > 0 || commits > 0) && (adversarial > 0 || boundary > 0), ls...)
}

var _ = kit.Register(kit.Prop[Case]{
	Name: "QuorumEscalation",
	Rule: "4-6 validators (node = v0; senators/chancellors/house, online/offline), protocol triple as in C01, ordinary round or certificate round 32768 on a synthetic header table over the real validator trie; histories of step timers, next-index, honest and adversarial proposals (forged / non-maximal priority, inflated or zero seats, house/offline proposer, other sender key) and votes with genuine credentials delivered through the real MessageHandler.HandleMsg -> processVoteMsg path (duplicate, equivocation, wrong weight, credential of another step/index, stale/future index, other round, foreign message key, house/offline sender, signature over another block) plus 'members vote until the quorum is just crossed / just missed', late double votes of senders that were already counted (also for the previous round index), quorum / double voter / other quorum episodes, votes outrunning the block body, votes for blocks proposed in earlier round indexes (locked blocks), and - after a commit - the committed block becoming the head, the next round, and late precommits for it (genuine, inflated, other step, wrong signature; for the commit's round index or an earlier one) merged into the stored header by the real updateBlockHeader. Oracle: tally model from generator ground truth (distinct valid non-equivocating senders, true weights): precommit only after a prevote quorum for exactly that block, certificate vote only after a precommit quorum, commit only after precommit (and certificate) quorums; every commit is assembled as Server.commit does and must be accepted by header verification, the stored header must stay acceptable after every update, and every double-vote evidence the node posts must pass the slashing code's acceptance rule (signer index, both signatures over the context the evidence names). Non-trivial = the node escalated or committed AND the history has an adversarial delivery or lands next to the quorum",
	Gen:  genCase, Run: runCase,
	Quick: 250, Thorough: 3000, Chunk: 50, MinNonTrivialPct: 12,
})
