package c09

import (
	"fmt"
	"runtime/debug"
	"strings"
	"testing"

	"pgregory.net/rapid"
	"verif/kit"
	sk "verif/lib/statekit"
)

func TestMain(m *testing.M) {
	debug.SetGCPercent(400) // many short-lived tries per case; the heap stays small
	kit.Main(m, "C09")
}
func TestProps(t *testing.T)  { kit.RunAll(t) }
func TestReplay(t *testing.T) { kit.ReplayAll(t) }

// Case is a history on one StateDB: several transactions of a block (and possibly
// several blocks), with snapshots and reverts anywhere.
type Case struct {
	Ops []sk.Op `json:"ops"`
	// Excl lists the recorded defect classes this case steers around (set by the
	// generator from known_findings.json; empty in replay files of the findings).
	Excl []string `json:"excl,omitempty"`
}

func genCase(t *rapid.T) Case {
	c := Case{Excl: sk.CurrentExclusions()}
	c.Ops = sk.GenOps(t, sk.GenCfg{Snapshots: true, DeepNest: true, Commit: true, MaxOps: 60})
	return c
}

func genStorageCase(t *rapid.T) Case {
	return Case{Excl: sk.CurrentExclusions(), Ops: sk.GenStorageOps(t, 40)}
}

func genLifecycleCase(t *rapid.T) Case {
	return Case{Excl: sk.CurrentExclusions(), Ops: sk.GenLifecycleOps(t, 30)}
}

// classify attributes a post-revert mismatch to a recorded root cause, by the exact
// shape of the history (which operations the revert undid) and of the mismatch (which
// observables differ). Anything else is "revert-mismatch".
func classify(keys []string, crossed []sk.Event, want, got sk.Obs) string {
	aliasV := map[int]bool{}
	inplace, wq := false, false
	for _, e := range crossed {
		switch e.Kind {
		case "alias":
			aliasV[e.V] = true
		case "inplace":
			inplace = true
		case "wqremove":
			wq = true
		}
	}
	isAliasKey := func(k string) bool {
		for v := range aliasV {
			if k == fmt.Sprintf("val/%d/dlg", v) {
				return true
			}
		}
		if strings.HasPrefix(k, "acct/") && strings.HasSuffix(k, "/dlg") {
			return true // GetDelegationsFrom reads the validator's list
		}
		if k == "deep/valroot" {
			return true
		}
		// a nil entry left in the list makes Copy (DeepCopy of the entry) panic
		return got["deep/panic"] != "" && strings.HasPrefix(k, "deep/")
	}
	aliasHit, statHit, onlyAlias, onlyAliasOrStat := false, false, true, true
	for _, k := range keys {
		if strings.HasPrefix(k, "val/") && strings.HasSuffix(k, "/dlg") && isAliasKey(k) {
			aliasHit = true
		}
		if strings.HasPrefix(k, "stat/") {
			statHit = true
		}
		if !isAliasKey(k) {
			onlyAlias = false
			if !strings.HasPrefix(k, "stat/") {
				onlyAliasOrStat = false
			}
		}
	}
	switch {
	case inplace && statHit && onlyAliasOrStat:
		// staking.teDelegationSub switches the stored validator object offline in place;
		// the earlier journal entry of UpdateDelegation holds the same object as newVal
		return sk.ClsInplaceStatus
	case len(aliasV) > 0 && aliasHit && onlyAlias:
		return sk.ClsDlgAlias
	case wq && want["queue/set"] == got["queue/set"] && sk.OnlyPrefixes(keys, "queue/list", "deep/valroot"):
		return sk.ClsQueueOrder
	}
	return "revert-mismatch"
}

// snapData is what the harness remembers about a live snapshot.
type snapData struct {
	obs   sk.Obs
	opPos int // number of data operations executed in this transaction before the snapshot
}

func runCase(c Case) kit.Result {
	m := sk.NewMachine(c.Excl)
	nontrivial := false
	labels := map[string]bool{}
	// for the second oracle: which data operations took effect and were never undone
	executed := make([]bool, len(c.Ops))
	undone := make([]bool, len(c.Ops))
	var txOps []int
	for i, op := range c.Ops {
		switch op.K {
		case "snap":
			if len(m.Live) >= 8 {
				continue
			}
			m.Snapshot(snapData{m.Observe(m.St, false, true), len(txOps)})
			if len(m.Live) >= 3 {
				labels["nesting>=3"] = true
			}
		case "revert":
			pos, ok := m.PickRevert(op.N)
			if !ok {
				continue
			}
			innermost := pos == len(m.Live)-1
			poisoned := m.Poisoned(pos)
			nLive := len(m.Live)
			pv, crossed, snap := m.Revert(pos)
			when := fmt.Sprintf("op %d: RevertToSnapshot(%d) [live snapshot %d of %d, transaction %d of this state object]", i, snap.ID, pos+1, nLive, m.TxInBlk+1)
			if pv != nil {
				msg := fmt.Sprint(pv)
				if poisoned && msg == fmt.Sprintf("revision id %d cannot be reverted", snap.ID) {
					return kit.Fail(sk.ClsRevisionList, "%s of a live snapshot panicked: %s (valValidRevisions is not reset by clearJournalAndRefund and is truncated with the index of validRevisions)", when, msg)
				}
				return kit.Fail("revert-panic", "%s of a live snapshot panicked: %s", when, msg)
			}
			sd := snap.Data.(snapData)
			want := sd.obs
			got := m.Observe(m.St, false, true)
			if keys := sk.Diff(want, got, nil); len(keys) > 0 {
				return kit.Fail(classify(keys, crossed, want, got), "%s did not restore the snapshotted state; %d observables differ:\n%s", when, len(keys), sk.Explain(want, got, keys))
			}
			for _, j := range txOps[sd.opPos:] {
				undone[j] = true
			}
			txOps = txOps[:sd.opPos]
			crossVal := false
			for _, e := range crossed {
				if e.Kind == "vj" {
					crossVal = true
				}
			}
			if !innermost {
				labels["revert-outer"] = true
			}
			if m.TxInBlk > 0 {
				labels["revert-in-later-tx"] = true
			}
			if crossVal {
				labels["revert-validator-journal"] = true
			}
			if len(crossed) == 0 {
				labels["revert-no-validator-op"] = true
			}
			nontrivial = nontrivial || !innermost || m.TxInBlk > 0 || crossVal
		case "fin":
			m.Finalise()
			txOps = nil
		case "iroot":
			m.IRoot()
			txOps = nil
		case "commit":
			txOps = nil
			if err := m.Commit(); err != nil {
				return kit.Fail("commit-error", "op %d: Commit failed: %v", i, err)
			}
			if op.M > 0 {
				st, db, disk, err := m.Open(op.M)
				if err != nil {
					return kit.Fail("reopen-error", "op %d: reopening the committed roots failed: %v", i, err)
				}
				m.Adopt(st, db, disk)
				labels["reopen"] = true
			}
		case "copy":
		default:
			executed[i] = m.Exec(i, op)
			txOps = append(txOps, i)
		}
	}
	// Second oracle (does not go through Copy): the same history without the snapshots and
	// without every operation that was undone must end in the same state and the same
	// roots of IntermediateRoot(true) computed by the subjects themselves.
	w := sk.NewMachine(c.Excl)
	for i, op := range c.Ops {
		switch op.K {
		case "snap", "revert", "copy":
		case "fin":
			w.Finalise()
		case "iroot":
			w.IRoot()
		case "commit":
			if err := w.Commit(); err != nil {
				return kit.Fail("commit-error", "op %d (history without the reverted parts): Commit failed: %v", i, err)
			}
			if op.M > 0 {
				st, db, disk, err := w.Open(op.M)
				if err != nil {
					return kit.Fail("reopen-error", "op %d (history without the reverted parts): reopening failed: %v", i, err)
				}
				w.Adopt(st, db, disk)
			}
		default:
			if executed[i] && !undone[i] {
				w.Exec(i, op)
			}
		}
	}
	got, want := m.Observe(m.St, false, false), w.Observe(w.St, false, false)
	rg, rw := m.IRoot(), w.IRoot()
	got["roots"] = fmt.Sprintf("%x %x %x", rg[0][:8], rg[1][:8], rg[2][:8])
	want["roots"] = fmt.Sprintf("%x %x %x", rw[0][:8], rw[1][:8], rw[2][:8])
	if keys := sk.Diff(want, got, nil); len(keys) > 0 {
		return kit.Fail("final-state-mismatch", "the history ends in another state than the same history without its reverted parts (\"want\"); %d observables differ:\n%s", len(keys), sk.Explain(want, got, keys))
	}
	for _, l := range m.SortedLabels() {
		labels[l] = true
	}
	var ls []string
	for l := range labels {
		ls = append(ls, l)
	}
	return kit.OK(nontrivial, ls...)
}

var _ = kit.Register(kit.Prop[Case]{
	Name: "SnapshotRevert",
	Rule: "histories of up to ~75 operations on one StateDB over 6 accounts x 3 storage slots and 4 validators: account operations (balance, nonce, code, storage, suicide, re-creation, logs, refund, preimages, touch), validator operations replaying the staking callers (create, update, deposit, withdraw, status, delegation add/sub, rewards, settle, expel, recover, withdraw-queue removal), Snapshot, RevertToSnapshot of ANY live id, Finalise(true)/IntermediateRoot(true) as transaction boundaries, Commit with and without reopening; at every Snapshot Obs (all getters + the 3 roots and the address index of IntermediateRoot on a Copy) is recorded and must be equal after the revert; at the end the state and the roots of IntermediateRoot on the subject itself must equal those of the same history executed without snapshots and without the undone operations; non-trivial = reverts a non-innermost snapshot, or reverts in a transaction that is not the first of the state object, or the revert undoes a validator-journal entry; distinct = FNV-64 of the case JSON",
	Gen:  genCase, Run: runCase,
	Quick: 4000, Thorough: 25000, Chunk: 500, MinNonTrivialPct: 35,
})

var _ = kit.Register(kit.Prop[Case]{
	Name: "StorageRevertAcrossTxs",
	Rule: "same oracles as SnapshotRevert on histories concentrated on the storage journal across the transactions of one block: 2 contracts x 2 slots with a committed (mostly reopened) pre-state of non-zero slots, SSTOREs of values from {the slot's parent value, 0, 1, 2, 3}, nested snapshots and reverts of any live id, mostly Finalise-only transaction boundaries (IntermediateRoot / Commit rare), occasional self-destruct and re-creation; non-trivial = reverts a non-innermost snapshot or reverts in a transaction that is not the first of the state object; distinct = FNV-64 of the case JSON",
	Gen:  genStorageCase, Run: runCase,
	Quick: 6000, Thorough: 50000, Chunk: 500, MinNonTrivialPct: 12,
})

var _ = kit.Register(kit.Prop[Case]{
	Name: "AccountLifecycleRevert",
	Rule: "same oracles as SnapshotRevert on histories concentrated on the life cycle of two accounts within a block: transfers incl. zero-value touches, self-destruct (repeated, and again after the account received value), re-creation as evm.Call / evm.create do it, nested snapshots and reverts of any live id, few transaction boundaries; 40% start from a base state committed WITHOUT empty-account clearing that holds 1-2 empty accounts (the only use of deleteEmptyObjects=false; the RIPEMD address, whose touch survives a revert by design, is not among them); non-trivial = reverts a non-innermost snapshot or reverts in a transaction that is not the first of the state object (labels count touches of existing empty accounts and repeated self-destructs after receiving value); distinct = FNV-64 of the case JSON",
	Gen:  genLifecycleCase, Run: runCase,
	Quick: 6000, Thorough: 50000, Chunk: 500, MinNonTrivialPct: 12,
})
