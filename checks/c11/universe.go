package c11

import (
	"strings"
	"math/big"

	"github.com/youchainhq/go-youchain/common"
	"github.com/youchainhq/go-youchain/core/types"
	"github.com/youchainhq/go-youchain/params"
)

// ---------------------------------------------------------------------------------
// plain-data description of a block tree, an offer schedule and a crash selection

// ForkSpec is a side branch: Parent indexes the valid blocks built so far (0 = genesis,
// 1.. = trunk, then earlier fork blocks), taken modulo their number.
type ForkSpec struct {
	Parent int         `json:"parent"`
	Blocks []BlockSpec `json:"blocks"`
}

// InvalidSpec derives an invalid block from valid block Base (index into the valid
// blocks, 1-based like ForkSpec.Parent, modulo). Child additionally builds a block that
// is a copy of Base's first child re-parented onto the invalid block.
type InvalidSpec struct {
	Base  int    `json:"base"`
	Kind  string `json:"kind"`
	Child bool   `json:"child,omitempty"`
}

// CrashSel selects the crash points of a case. Mode "all": every prefix of the write
// log of every call; "quick": first 10, last 10 and 5 strided ones per call; Only: just
// that one point, evaluated strictly (known classes are not tolerated) - the form used
// by committed replays.
type CrashSel struct {
	Mode      string      `json:"mode"`
	Offset    int         `json:"offset,omitempty"`
	ContEvery int         `json:"cont_every,omitempty"` // every n-th clean crash point also continues the schedule
	Only      *CrashPoint `json:"only,omitempty"`
}

// CrashPoint names one prefix: the first K entries of the canonicalised log of call Call.
type CrashPoint struct {
	Call int `json:"call"`
	K    int `json:"k"`
}

// Case is one generated scenario.
type Case struct {
	Engine  string        `json:"engine"`
	Trunk   []BlockSpec   `json:"trunk"`
	Forks   []ForkSpec    `json:"forks,omitempty"`
	Invalid []InvalidSpec `json:"invalid,omitempty"`
	// Calls: each call is a list of indices into the offerable blocks (valid blocks
	// without genesis in build order, then the invalid ones), taken modulo their number.
	Calls [][]int   `json:"calls"`
	Extra BlockSpec `json:"extra"` // content of the "one further valid block"
	// ExtraDepth: the further block is a child of the ancestor this many blocks below the
	// uncrashed head (0: it extends the head; >0: it is a new competing block), modulo.
	ExtraDepth int `json:"extra_depth,omitempty"`
	Crash *CrashSel `json:"crash,omitempty"`
	// Strict: recorded findings are not tolerated (the form used by committed replays of cases without a crash point)
	Strict bool `json:"strict,omitempty"`
}

var invalidKinds = []string{"state-root", "val-root", "staking-root", "tx-root", "receipt-root", "gas-used", "gas-rewards",
	"bloom", "bad-nonce", "dup-tx", "version-approvals", "version-curr"}

// ---------------------------------------------------------------------------------
// the materialised universe of a case

type universe struct {
	f       Factory
	valid   []*types.Block // valid[0] = genesis
	parent  []int          // index in valid of the parent (-1 for genesis)
	branch  []int          // 0 trunk, i fork i
	offer   []*types.Block // valid[1:] ++ invalid
	invalid map[common.Hash]string
	vindex  map[common.Hash]int
	txs     map[common.Hash]bool // every transaction hash that occurs in any offerable block
	ext     map[common.Hash]*types.Block
	extra   BlockSpec
	senders []common.Address
	all     []common.Address
}

func mod(i, n int) int {
	if n <= 0 {
		return 0
	}
	return ((i % n) + n) % n
}

func buildUniverse(f Factory, genesis *types.Block, c Case) *universe {
	u := &universe{f: f, invalid: map[common.Hash]string{}, vindex: map[common.Hash]int{}, txs: map[common.Hash]bool{},
		ext: map[common.Hash]*types.Block{}, extra: c.Extra}
	u.senders, u.all = f.Accounts()
	add := func(b *types.Block, parent, branch int) {
		u.vindex[b.Hash()] = len(u.valid)
		u.valid = append(u.valid, b)
		u.parent = append(u.parent, parent)
		u.branch = append(u.branch, branch)
	}
	add(genesis, -1, 0)
	p := 0
	for _, bs := range c.Trunk {
		b := f.Build(u.valid[p], bs, []byte{0})
		add(b, p, 0)
		p = len(u.valid) - 1
	}
	for fi, fk := range c.Forks {
		p := mod(fk.Parent, len(u.valid))
		for _, bs := range fk.Blocks {
			b := f.Build(u.valid[p], bs, []byte{byte(fi + 1)})
			if _, dup := u.vindex[b.Hash()]; dup {
				continue // cannot happen (the tag differs), kept for safety
			}
			add(b, p, fi+1)
			p = len(u.valid) - 1
		}
	}
	u.offer = append(u.offer, u.valid[1:]...)
	if len(u.valid) > 1 {
		for _, is := range c.Invalid {
			bi := 1 + mod(is.Base, len(u.valid)-1)
			inv := u.makeInvalid(u.valid[bi], is.Kind)
			if inv == nil {
				continue
			}
			if _, isValid := u.vindex[inv.Hash()]; isValid {
				continue
			}
			u.invalid[inv.Hash()] = is.Kind
			u.offer = append(u.offer, inv)
			if is.Child {
				for ci := bi + 1; ci < len(u.valid); ci++ {
					if u.parent[ci] == bi {
						h := u.valid[ci].Header()
						h.ParentHash = inv.Hash()
						ch := types.NewBlockWithHeader(h).WithBody(u.valid[ci].Body())
						if rd, ok := u.f.(interface {
							Redress(parent, blk *types.Block) *types.Block
						}); ok && strings.HasPrefix(is.Kind, "ucon-voted-") {
							ch = rd.Redress(inv, ch) // the child is voted and sealed over its new hash
						}
						u.invalid[ch.Hash()] = "child-of-" + is.Kind
						u.offer = append(u.offer, ch)
						break
					}
				}
			}
		}
	}
	for _, b := range u.offer {
		for _, tx := range b.Transactions() {
			u.txs[tx.Hash()] = true
		}
	}
	return u
}

// makeInvalid returns a block that violates one validity rule the importing chain itself
// enforces (state/receipt/tx roots, gas used, fee total, bloom, transaction nonce,
// protocol version state); nil if the kind is unknown.
func (u *universe) makeInvalid(base *types.Block, kind string) *types.Block {
	h := base.Header()
	txs := base.Transactions()
	switch kind {
	case "state-root":
		h.Root[0] ^= 0xff
	case "val-root":
		h.ValRoot[7] ^= 0x01
	case "staking-root":
		h.StakingRoot[31] ^= 0x80
	case "tx-root":
		h.TxHash[0] ^= 0xff
	case "receipt-root":
		h.ReceiptHash[1] ^= 0x10
	case "gas-used":
		h.GasUsed++
	case "gas-rewards":
		h.GasRewards = new(big.Int).Add(h.GasRewards, big.NewInt(1))
	case "bloom":
		h.Bloom[3] ^= 0x04
	case "version-approvals":
		h.NextApprovals = 1 // approvals without a proposal
	case "version-curr":
		h.CurrVersion++ // version switch nobody voted for
	case "bad-nonce", "dup-tx":
		var bad *types.Transaction
		if kind == "dup-tx" && len(txs) > 0 {
			bad = txs[len(txs)-1] // replayed inside the same block: its nonce is now too low
		} else {
			var err error
			bad, err = types.SignTx(types.NewTransaction(1<<40, u.all[len(u.all)-1], big.NewInt(1), params.TxGas, gasPrice, nil), txSigner, soloKeys[0])
			if err != nil {
				panic(err)
			}
		}
		txs = append(append(types.Transactions{}, txs...), bad)
		h.TxHash = types.DeriveSha(txs) // the body matches its root; execution must fail
	default:
		return u.f.MakeInvalid(base, kind) // engine-specific kind, or nil
	}
	return types.NewBlockWithHeader(h).WithBody(&types.Body{Transactions: txs})
}

// extension returns the "one further valid block": a valid child of the ancestor `depth`
// blocks below head (head must be a valid block of the universe).
func (u *universe) extension(head *types.Block, depth int) *types.Block {
	if u.f.Name() == "ucon" {
		// Under the BFT engine a valid block at an already decided height cannot exist in an
		// honest-majority network and is by design never adopted (ErrExistCanonical / "Importing
		// sidechain terminate"); the "one further valid block" of the statement is a child of the head.
		depth = 0
	}
	i := u.vindex[head.Hash()]
	for d := mod(depth, int(head.NumberU64())+1); d > 0 && i > 0; d-- {
		i = u.parent[i]
	}
	head = u.valid[i]
	if x, ok := u.ext[head.Hash()]; ok {
		return x
	}
	x := u.f.Build(head, u.extra, []byte{0xee})
	u.ext[head.Hash()] = x
	for _, tx := range x.Transactions() {
		u.txs[tx.Hash()] = true
	}
	return x
}

func (u *universe) resolve(call []int) types.Blocks {
	var out types.Blocks
	if len(u.offer) == 0 {
		return out
	}
	for _, i := range call {
		out = append(out, u.offer[mod(i, len(u.offer))])
	}
	return out
}

// pathTo returns the blocks from genesis (exclusive) to valid[i] (inclusive).
func (u *universe) pathTo(i int) []int {
	var rev []int
	for ; i > 0; i = u.parent[i] {
		rev = append(rev, i)
	}
	for a, b := 0, len(rev)-1; a < b; a, b = a+1, b-1 {
		rev[a], rev[b] = rev[b], rev[a]
	}
	return rev
}
