package c11

import (
	"fmt"
	"runtime"
	"sort"
	"strings"
	"testing"
	"time"

	"github.com/youchainhq/go-youchain/common"
	"github.com/youchainhq/go-youchain/core/types"
	"pgregory.net/rapid"
	"verif/kit"
	"verif/lib/crashdb"
)

func TestMain(m *testing.M)   { kit.Main(m, "C11") }
func TestProps(t *testing.T)  { kit.RunAll(t) }
func TestReplay(t *testing.T) { kit.ReplayAll(t) }

// violation classes that are position-attributable consequences of one root cause
const (
	// a crash strictly inside the index updates of a reorganisation (canonical hashes,
	// head markers, lookup puts and deletes are separate database writes)
	clsTornReorg = "crash-torn-reorg"
	// a crash between the receipts+lookups batch of a block and its head marker
	clsLookupAhead = "crash-lookup-ahead"
	// a crash between the body put and the header put of one block, after which a child of
	// that block is offered: insertSidechain dereferences the missing header
	clsTornBlockPanic = "post-crash-panic-insert-sidechain"
	// insertSidechain stores the blocks of a side chain (WriteBlockWithoutState) before anything but their
	// headers is checked and leaves them stored when their re-import fails (BAD BLOCK); ValidateBody then takes
	// any stored parent whose header names an existing state for an executed block: a child offered later is
	// executed on top of the rejected block and the reorganisation makes the invalid block canonical. Reached
	// after a crash left a block without state (the only way into insertSidechain with the solo engine) and
	// for invalid variants of blocks that change no state (their state root is the parent's)
	clsStoredUnvalidated = "stored-unvalidated-block-adopted"
)

// ---------------------------------------------------------------------------------
// generator

func genBlockSpec(t *rapid.T) BlockSpec {
	var bs BlockSpec
	n := rapid.IntRange(0, 3).Draw(t, "ntx")
	for i := 0; i < n; i++ {
		bs.Txs = append(bs.Txs, TxSpec{
			From:  rapid.IntRange(0, nSenders-1).Draw(t, "from"),
			To:    rapid.IntRange(0, nSenders+nSinks-1).Draw(t, "to"),
			Value: rapid.IntRange(0, 3).Draw(t, "value"),
		})
	}
	return bs
}

func genCase(t *rapid.T, crash bool) Case {
	c := Case{Engine: "solo"}
	// the real consensus engine (honestly voted blocks, production import paths) in a fifth of the
	// schedules, a sixth of the crash cases (each block costs real VRF / BLS verification)
	if (crash && rapid.IntRange(0, 5).Draw(t, "engine") == 0) || (!crash && rapid.IntRange(0, 4).Draw(t, "engine") == 0) {
		c.Engine = "ucon"
	}
	maxTrunk := 8
	if crash {
		maxTrunk = 6
	}
	nTrunk := rapid.IntRange(3, maxTrunk).Draw(t, "trunk")
	// shadow of the universe layout: parent and height of every valid block
	parent := []int{-1}
	height := []int{0}
	branchOf := []int{0}
	specAt := map[int]BlockSpec{} // trunk spec by height
	for i := 1; i <= nTrunk; i++ {
		bs := genBlockSpec(t)
		c.Trunk = append(c.Trunk, bs)
		specAt[i] = bs
		parent = append(parent, i-1)
		height = append(height, i)
		branchOf = append(branchOf, 0)
	}
	nForks := rapid.IntRange(1, 2).Draw(t, "forks")
	for fi := 1; fi <= nForks; fi++ {
		var p int
		if fi > 1 && rapid.IntRange(0, 3).Draw(t, "onfork") == 0 {
			p = rapid.IntRange(nTrunk+1, len(parent)-1).Draw(t, "forkparent")
		} else {
			p = rapid.IntRange(0, nTrunk-1).Draw(t, "forkparent")
		}
		fk := ForkSpec{Parent: p}
		n := rapid.IntRange(1, 4).Draw(t, "forklen")
		for i := 0; i < n; i++ {
			h := height[p] + 1
			var bs BlockSpec
			if ts, ok := specAt[h]; ok && rapid.IntRange(0, 2).Draw(t, "copy") == 0 {
				bs = ts // same transactions as the trunk block at this height
			} else {
				bs = genBlockSpec(t)
			}
			fk.Blocks = append(fk.Blocks, bs)
			parent = append(parent, p)
			height = append(height, h)
			branchOf = append(branchOf, fi)
			p = len(parent) - 1
		}
		c.Forks = append(c.Forks, fk)
	}
	nValid := len(parent) - 1 // without genesis
	// invalid blocks; offer layout: valid i -> i-1, then per invalid spec 1 or 2 entries
	type invPos struct{ base, at, n int }
	var invs []invPos
	nInv := rapid.IntRange(0, 3).Draw(t, "ninvalid")
	next := nValid
	for i := 0; i < nInv; i++ {
		is := InvalidSpec{Base: rapid.IntRange(0, nValid-1).Draw(t, "invbase"), Kind: rapid.SampledFrom(invalidKinds).Draw(t, "invkind"),
			Child: rapid.Bool().Draw(t, "invchild")}
		if c.Engine == "ucon" && rapid.IntRange(0, 2).Draw(t, "uconkind") > 0 {
			// under the real engine an edited header is first of all a header with a broken seal; the engine's own
			// kinds are consensus-wise genuine (too few votes, foreign seal) or fully voted but invalid to execute
			is.Kind = rapid.SampledFrom(uconInvalidKinds).Draw(t, "invkind2")
		}
		c.Invalid = append(c.Invalid, is)
		bi := 1 + is.Base
		n := 1
		if is.Child {
			for ci := bi + 1; ci < len(parent); ci++ {
				if parent[ci] == bi {
					n = 2
					break
				}
			}
		}
		invs = append(invs, invPos{bi, next, n})
		next += n
	}
	// segments: every branch cut into consecutive groups, in build order
	var segs [][]int
	for b := 0; b <= nForks; b++ {
		var idx []int
		for i := 1; i < len(parent); i++ {
			if branchOf[i] == b {
				idx = append(idx, i-1)
			}
		}
		for len(idx) > 0 {
			n := rapid.IntRange(1, len(idx)).Draw(t, "group")
			segs = append(segs, idx[:n])
			idx = idx[n:]
		}
	}
	ancestors := func(i, n int) []int { // up to n valid ancestors of valid[i] (exclusive), oldest first, as offer indices
		var out []int
		for p := parent[i]; p > 0 && len(out) < n; p = parent[p] {
			out = append([]int{p - 1}, out...)
		}
		return out
	}
	// some segments start a few blocks early (re-offering known ancestors inside the call)
	for si := range segs {
		if rapid.IntRange(0, 4).Draw(t, "overlap") == 0 {
			first := segs[si][0] + 1
			segs[si] = append(ancestors(first, rapid.IntRange(1, 3).Draw(t, "overlapn")), segs[si]...)
		}
	}
	// perturb the order
	for n := rapid.IntRange(0, 3).Draw(t, "swaps"); n > 0 && len(segs) > 1; n-- {
		a := rapid.IntRange(0, len(segs)-1).Draw(t, "swapa")
		b := rapid.IntRange(0, len(segs)-1).Draw(t, "swapb")
		segs[a], segs[b] = segs[b], segs[a]
	}
	insert := func(seg []int) {
		at := rapid.IntRange(0, len(segs)).Draw(t, "at")
		segs = append(segs, nil)
		copy(segs[at+1:], segs[at:])
		segs[at] = seg
	}
	// duplicates
	for n := rapid.IntRange(0, 2).Draw(t, "dups"); n > 0; n-- {
		insert(segs[rapid.IntRange(0, len(segs)-1).Draw(t, "dup")])
	}
	// invalid blocks, optionally behind some of their valid ancestors, anywhere
	for _, ip := range invs {
		seg := ancestors(ip.base, rapid.IntRange(0, 2).Draw(t, "invanc"))
		for i := 0; i < ip.n; i++ {
			seg = append(seg, ip.at+i)
		}
		insert(seg)
		if ip.n == 2 && rapid.IntRange(0, 3).Draw(t, "invchildalone") == 0 {
			insert([]int{ip.at + 1}) // the child of the invalid block on its own
		}
	}
	// directed opening for a fully voted invalid block with a child (real engine): its valid twin becomes
	// the head, the invalid twin is offered alone (a competing block at a known height), then its child alone -
	// the node must not build on a block it has never executed
	for k, ip := range invs {
		if c.Engine == "ucon" && ip.n == 2 && strings.HasPrefix(c.Invalid[k].Kind, "ucon-voted-") && rapid.Bool().Draw(t, "twinopening") {
			c.Calls = append(c.Calls, append(ancestors(ip.base, 100), ip.base-1), []int{ip.at}, []int{ip.at + 1})
			break
		}
	}
	for _, s := range segs {
		c.Calls = append(c.Calls, append([]int(nil), s...))
	}
	c.Extra = genBlockSpec(t)
	if crash && rapid.IntRange(0, 2).Draw(t, "extrafork") == 0 {
		c.ExtraDepth = rapid.IntRange(1, 3).Draw(t, "extradepth")
	}
	if crash {
		cs := &CrashSel{Mode: "quick", Offset: rapid.IntRange(0, 63).Draw(t, "offset")}
		if kit.Thorough() {
			cs.Mode = "all"
		}
		cs.ContEvery = rapid.SampledFrom([]int{0, 2, 3, 5}).Draw(t, "contevery")
		c.Crash = cs
	}
	return c
}

// ---------------------------------------------------------------------------------
// runCase

type run struct {
	c      Case
	f      Factory
	u      *universe
	labels map[string]bool
	nt     bool
	points int // crash points evaluated
}

func (r *run) label(l string) { r.labels[l] = true }

func (r *run) sortedLabels() []string {
	out := make([]string, 0, len(r.labels))
	for l := range r.labels {
		out = append(out, l)
	}
	sort.Strings(out)
	return out
}

func newFactory(name string) Factory {
	switch name {
	case "", "solo":
		return newSoloFactory()
	case "ucon":
		return newUconFactory()
	}
	return nil
}

func joinFails(fs []invFail) string {
	var sb strings.Builder
	for i, f := range fs {
		if i == 6 {
			fmt.Fprintf(&sb, "... and %d more\n", len(fs)-i)
			break
		}
		fmt.Fprintf(&sb, "[%s] %s\n", f.kind, f.msg)
	}
	return sb.String()
}

func (r *run) describe(blocks types.Blocks) string {
	var parts []string
	for _, b := range blocks {
		s := fmt.Sprintf("#%d:%s", b.NumberU64(), short(b.Hash()))
		if k, bad := r.u.invalid[b.Hash()]; bad {
			s += "(INVALID " + k + ")"
		} else if i, ok := r.u.vindex[b.Hash()]; ok {
			s += fmt.Sprintf("(branch %d)", r.u.branch[i])
		}
		parts = append(parts, s)
	}
	return strings.Join(parts, " ")
}

func isAncestor(u *universe, anc, desc common.Hash) bool {
	i, ok := u.vindex[desc]
	if !ok {
		return false
	}
	for ; i >= 0; i = u.parent[i] {
		if u.valid[i].Hash() == anc {
			return true
		}
	}
	return false
}

func runCase(c Case) (res kit.Result) {
	g0 := runtime.NumGoroutine()
	defer func() {
		// no goroutine outlives the case: BlockChain.Stop has joined its loops; the
		// fire-and-forget event posts (no subscriber) finish on their own - wait for them
		for i := 0; i < 300 && runtime.NumGoroutine() > g0; i++ {
			if i < 50 {
				runtime.Gosched()
			} else {
				time.Sleep(50 * time.Microsecond)
			}
		}
	}()
	f := newFactory(c.Engine)
	if f == nil {
		return kit.Discarded("unknown engine")
	}
	if len(c.Trunk) == 0 || len(c.Calls) == 0 {
		return kit.Discarded("empty")
	}
	r := &run{c: c, f: f, labels: map[string]bool{}}
	db := crashdb.New()
	genesis := f.Genesis(db)
	r.u = buildUniverse(f, genesis, c)
	u := r.u
	db.StartLog()
	main, err := startNode(f, db)
	if err != nil {
		return kit.Fail("start-fails", "NewBlockChain on a fresh genesis database: %v", err)
	}
	defer main.stop()
	if fs := checkInvariants(main, u); len(fs) > 0 {
		return kit.Fail("genesis-inconsistent", "%s", joinFails(fs))
	}
	strict := c.Strict || (c.Crash != nil && c.Crash.Only != nil)
	for j, call := range c.Calls {
		blocks := u.resolve(call)
		if len(blocks) == 0 {
			continue
		}
		var base crashdb.Snapshot
		if c.Crash != nil {
			base = db.Snapshot()
		}
		before := main.bc.CurrentBlock()
		mark := db.LogLen()
		storedUnvalidated := storedUnvalidatedBlocks(main, u)
		ierr, pv, stack := main.insert(blocks)
		if pv != nil {
			return kit.Fail(panicClass(stack), "call %d = InsertChain(%s) panics: %v\n%s", j, r.describe(blocks), pv, trimStack(stack))
		}
		raw := db.LogSince(mark)
		after := main.bc.CurrentBlock()
		if fs := checkInvariants(main, u); len(fs) > 0 {
			cls := "import-" + fs[0].kind
			if adoptedStoredUnvalidated(main, u, fs, storedUnvalidated) {
				cls = clsStoredUnvalidated
				if !strict && kit.IsKnown(cls) {
					// the node is beyond repair for this schedule: count it and stop the case here
					r.label("excluded:" + cls)
					return kit.OK(r.nt, r.sortedLabels()...)
				}
			}
			return kit.Fail(cls, "after call %d = InsertChain(%s) (err=%v), head #%d %s -> #%d %s:\n%s",
				j, r.describe(blocks), ierr, before.NumberU64(), short(before.Hash()), after.NumberU64(), short(after.Hash()), joinFails(fs))
		}
		// shape labels
		if after.Hash() != before.Hash() {
			if !isAncestor(u, before.Hash(), after.Hash()) {
				r.label("reorg")
				r.nt = true
				if after.NumberU64() < before.NumberU64() {
					r.label("reorg-to-lower")
				}
			}
		} else if ierr == nil {
			r.label("call-without-effect")
		}
		if ierr != nil {
			r.label("call-error")
			for _, b := range blocks {
				if kind, bad := u.invalid[b.Hash()]; bad && main.bc.HasBlock(b.ParentHash(), b.NumberU64()-1) {
					r.label("invalid-with-known-parent")
					r.label("invalid:" + kind)
					r.nt = true
				}
			}
		}
		if c.Crash != nil {
			if c.Crash.Only != nil && c.Crash.Only.Call != j {
				continue
			}
			if out := r.crashCall(j, base, raw, blocks, before, after, strict); out != nil {
				return *out
			}
		}
	}
	// restart without a crash: nothing a finished import announced may be lost
	final := main.bc.CurrentBlock()
	main.stop()
	n2, err := startNode(f, crashdb.Materialise(db.Snapshot(), nil))
	if err != nil {
		return kit.Fail("restart-fails", "NewBlockChain on the database of a cleanly stopped node: %v", err)
	}
	defer n2.stop()
	if h := n2.bc.CurrentBlock(); h.Hash() != final.Hash() {
		return kit.Fail("restart-head-lost", "after a clean stop the head was #%d %s, after restart it is #%d %s", final.NumberU64(), short(final.Hash()), h.NumberU64(), short(h.Hash()))
	}
	if fs := checkInvariants(n2, u); len(fs) > 0 {
		return kit.Fail("restart-"+fs[0].kind, "after a clean stop and restart at head #%d:\n%s", final.NumberU64(), joinFails(fs))
	}
	if len(final.Transactions()) > 0 {
		r.label("head-has-txs")
	}
	if c.Crash != nil {
		switch {
		case r.points <= 50:
			r.label("crash-points:1-50")
		case r.points <= 150:
			r.label("crash-points:51-150")
		default:
			r.label("crash-points:>150")
		}
	}
	return kit.OK(r.nt, r.sortedLabels()...)
}

// ---------------------------------------------------------------------------------
// crash enumeration for one InsertChain call

func crashPoints(sel *CrashSel, j, n int) []int {
	if sel.Only != nil {
		return []int{mod(sel.Only.K, n+1)}
	}
	if sel.Mode != "quick" || n <= 25 {
		ks := make([]int, n+1)
		for i := range ks {
			ks[i] = i
		}
		return ks
	}
	set := map[int]bool{}
	for i := 0; i < 10; i++ {
		set[i] = true
		set[n-i] = true
	}
	lo, hi := 10, n-10 // inclusive middle range
	step := (hi-lo+1)/5 + 1
	for k := lo + mod(sel.Offset+j, step); k <= hi; k += step {
		set[k] = true
	}
	ks := make([]int, 0, len(set))
	for k := range set {
		ks = append(ks, k)
	}
	sort.Ints(ks)
	return ks
}

// reference: a node that never crashed imports calls 0..j and then the further block X.
func (r *run) reference(j int) (L []logEntry, x *types.Block, d stateDigest, res *kit.Result) {
	u := r.u
	db := crashdb.New()
	r.f.Genesis(db)
	db.StartLog()
	n, err := startNode(r.f, db)
	if err != nil {
		out := kit.Fail("start-fails", "reference node: %v", err)
		return nil, nil, d, &out
	}
	defer n.stop()
	for i := 0; i <= j; i++ {
		blocks := u.resolve(r.c.Calls[i])
		if len(blocks) == 0 {
			continue
		}
		mark := db.LogLen()
		if _, pv, stack := n.insert(blocks); pv != nil {
			out := kit.Fail(panicClass(stack), "reference node, call %d panics: %v\n%s", i, pv, trimStack(stack))
			return nil, nil, d, &out
		}
		if i == j {
			L = r.f.CanonicaliseLog(db.LogSince(mark))
		}
	}
	head := n.bc.CurrentBlock()
	x = u.extension(head, r.c.ExtraDepth)
	err, pv, stack := n.insert(types.Blocks{x})
	if pv != nil {
		out := kit.Fail(panicClass(stack), "reference node, further block panics: %v\n%s", pv, trimStack(stack))
		return L, x, d, &out
	}
	if err != nil {
		out := kit.Fail("extension-rejected", "a node that never crashed rejects a valid child of its head #%d %s: %v", head.NumberU64(), short(head.Hash()), err)
		return L, x, d, &out
	}
	d, err = digest(n, u)
	if err != nil {
		out := kit.Fail("import-state", "reference node: State() after the further block: %v", err)
		return L, x, d, &out
	}
	if d.head != x.Hash() && x.ParentHash() == head.Hash() {
		out := kit.Fail("extension-not-head", "a node that never crashed imported a valid child #%d %s of its head but its head is #%d %s", x.NumberU64(), short(x.Hash()), d.number, short(d.head))
		return L, x, d, &out
	}
	return L, x, d, nil
}

// attribute splits invariant failures into those explained by the crash position (one
// of the two position classes) and the rest.
func attribute(fs []invFail, pos position, recovered bool) (cls string, explained, rest []invFail) {
	for _, f := range fs {
		// only failures about the block numbers the interrupted window (re)writes
		inScope := pos.insideWindow && f.num >= pos.minNum
		switch {
		case inScope && pos.reorg && !recovered && (f.kind == fIndexLink || f.kind == fHead || f.kind == fLookupMiss || f.kind == fLookupNon):
			cls = clsTornReorg
			explained = append(explained, f)
		case inScope && pos.reorg && recovered && (f.kind == fLookupMiss || f.kind == fLookupNon):
			cls = clsTornReorg
			explained = append(explained, f)
		case inScope && !pos.reorg && pos.lookups && f.kind == fLookupNon && f.num == pos.minNum:
			// (also after recovery: the block is skipped as "known" on re-import, and if the
			// further block competes with it nothing ever deletes its lookups)
			cls = clsLookupAhead
			explained = append(explained, f)
		default:
			rest = append(rest, f)
		}
	}
	return
}

func (r *run) crashCall(j int, base crashdb.Snapshot, raw []logEntry, blocks types.Blocks, before, after *types.Block, strict bool) *kit.Result {
	u := r.u
	L := r.f.CanonicaliseLog(raw)
	if _, ok := u.vindex[after.Hash()]; !ok {
		return nil // cannot happen: the invariants just passed
	}
	refL, x, want, bad := r.reference(j)
	if bad != nil {
		return bad
	}
	if !sameLog(L, refL) {
		out := kit.Discarded("nondeterministic-write-log")
		return &out
	}
	// self-check of the crash model: base + full log = the disk of the node that did not crash
	if full := crashdb.SnapshotOf(crashdb.Materialise(base, L)); !crashdb.Equal(full, main2snap(r, raw, base)) {
		out := kit.Discarded("canonical-log-not-equivalent")
		return &out
	}
	kinds := kindsOf(L)
	ws := windows(L, kinds)
	history := map[common.Hash]bool{before.Hash(): true}
	for _, h := range headsIn(L, kinds) {
		history[h] = true
	}
	where := func(k int) string {
		return fmt.Sprintf("call %d = InsertChain(%s), crash after %d of %d database writes; head before the call #%d %s, uncrashed head after it #%d %s\nwrite log of the call:\n%s",
			j, r.describe(blocks), k, len(L), before.NumberU64(), short(before.Hash()), after.NumberU64(), short(after.Hash()), renderLog(L, kinds, k))
	}
	clean := 0
	for _, k := range crashPoints(r.c.Crash, j, len(L)) {
		r.points++
		pos := positionOf(kinds, ws, k)
		if pos.insideBlock {
			r.nt = true
			r.label("crash-inside-block")
		}
		if pos.insideWindow && pos.reorg {
			r.label("crash-inside-reorg")
		}
		tolerate := func(cls string) bool {
			if cls != "" && !strict && kit.IsKnown(cls) {
				r.label("excluded:" + cls)
				return true
			}
			return false
		}
		n, err := startNode(r.f, crashdb.Materialise(base, L[:k]))
		if err != nil {
			out := kit.Fail("crash-restart-fails", "%s\nNewBlockChain on the crashed database: %v", where(k), err)
			return &out
		}
		out := func() *kit.Result {
			defer n.stop()
			restartClean := true
			if fs := checkInvariants(n, u); len(fs) > 0 {
				restartClean = false
				cls, explained, rest := attribute(fs, pos, false)
				if len(rest) > 0 {
					out := kit.Fail("crash-restart-"+rest[0].kind, "%s\nafter restart:\n%s", where(k), joinFails(fs))
					return &out
				}
				if !tolerate(cls) {
					out := kit.Fail(cls, "%s\nafter restart the chain is not consistent:\n%s", where(k), joinFails(explained))
					return &out
				}
			}
			h := n.bc.CurrentBlock()
			if !history[h.Hash()] {
				out := kit.Fail("crash-head-lost", "%s\nafter restart the head is #%d %s, which the interrupted import never announced as head (an import that had completed was lost)",
					where(k), h.NumberU64(), short(h.Hash()))
				return &out
			}
			if k == len(L) && h.Hash() != after.Hash() {
				out := kit.Fail("crash-head-lost", "%s\nall writes of the call reached the disk but after restart the head is #%d %s", where(k), h.NumberU64(), short(h.Hash()))
				return &out
			}
			// not wedged: the interrupted blocks again, then one further valid block
			rerr, pv, stack := n.insert(blocks)
			if pv != nil {
				out := kit.Fail("crash-"+panicClass(stack), "%s\nafter restart, re-import of the interrupted blocks panics: %v\n%s", where(k), pv, trimStack(stack))
				return &out
			}
			xerr, pv, stack := n.insert(types.Blocks{x})
			if pv != nil {
				out := kit.Fail("crash-"+panicClass(stack), "%s\nafter restart and re-import (err=%v), the further valid block panics: %v\n%s", where(k), rerr, pv, trimStack(stack))
				return &out
			}
			if xerr != nil {
				out := kit.Fail("crash-wedged", "%s\nafter restart, re-import of the interrupted blocks (err=%v): the further valid block #%d %s is rejected: %v",
					where(k), rerr, x.NumberU64(), short(x.Hash()), xerr)
				return &out
			}
			got, derr := digest(n, u)
			if derr != nil {
				out := kit.Fail("crash-wedged", "%s\nafter recovery State() fails: %v", where(k), derr)
				return &out
			}
			if got != want && pos.insideWindow && pos.reorg && tolerate(clsTornReorg) {
				// the same root cause seen through the real engine's fork choice: after a death
				// inside the reorganisation's separate index writes the restarted node keeps the old
				// head while the canonical index already names the new branch; ucon never reorganises
				// back at an equal height, so the node stays on the abandoned branch for good
				r.label("torn-reorg:stays-on-old-branch")
				return nil
			}
			if got != want {
				out := kit.Fail("crash-diverged", "%s\nafter restart, re-import (err=%v) and the further block #%d %s:\n  crashed node: head #%d %s root %s accounts %s\n  never crashed: head #%d %s root %s accounts %s",
					where(k), rerr, x.NumberU64(), short(x.Hash()), got.number, short(got.head), short(got.root), got.accounts, want.number, short(want.head), short(want.root), want.accounts)
				return &out
			}
			if fs := checkInvariants(n, u); len(fs) > 0 {
				cls, explained, rest := attribute(fs, pos, true)
				if len(rest) > 0 {
					out := kit.Fail("crash-recovered-"+rest[0].kind, "%s\nafter restart, re-import and the further block:\n%s", where(k), joinFails(fs))
					return &out
				}
				if !tolerate(cls) {
					out := kit.Fail(cls, "%s\nafter restart, re-import of the interrupted blocks and one further block the chain is still not consistent:\n%s", where(k), joinFails(explained))
					return &out
				}
			}
			if restartClean {
				clean++
			}
			return nil
		}()
		if out != nil {
			return out
		}
		// continue the rest of the schedule on the restarted node instead of re-offering
		if ce := r.c.Crash.ContEvery; ce > 0 && !pos.insideWindow && j+1 < len(r.c.Calls) && (strict || pos.stateless || (clean+k)%ce == 0) {
			if pos.tornBlock && tolerate(clsTornBlockPanic) {
				continue
			}
			if out := r.continueAfterCrash(j, k, base, L, where, strict); out != nil {
				return out
			}
		}
	}
	return nil
}

// main2snap: the disk of the uncrashed node after the call = base + raw log.
func main2snap(r *run, raw []logEntry, base crashdb.Snapshot) crashdb.Snapshot {
	return crashdb.SnapshotOf(crashdb.Materialise(base, raw))
}

// storedUnvalidatedBlocks: invalid blocks the node holds although it never accepted them (stored by
// insertSidechain before execution), whose claimed state exists anyway.
func storedUnvalidatedBlocks(n *node, u *universe) map[common.Hash]bool {
	out := map[common.Hash]bool{}
	for _, b := range u.offer {
		if _, bad := u.invalid[b.Hash()]; bad && n.bc.HasBlock(b.Hash(), b.NumberU64()) && n.bc.HasState(b.Root()) {
			out[b.Hash()] = true
		}
	}
	return out
}

// adoptedStoredUnvalidated reports whether the failures are explained by the recorded finding
// clsStoredUnvalidated: the lowest invalid canonical block was already stored (rejected or never
// executed) before the call and the state its header names existed; nothing else is wrong.
func adoptedStoredUnvalidated(n *node, u *universe, fs []invFail, stored map[common.Hash]bool) bool {
	var low *types.Block
	for num := uint64(1); num <= n.bc.CurrentBlock().NumberU64() && low == nil; num++ {
		if b := n.bc.GetBlockByNumber(num); b != nil {
			if _, bad := u.invalid[b.Hash()]; bad {
				low = b
			}
		}
	}
	if low == nil || !stored[low.Hash()] {
		return false
	}
	for _, f := range fs {
		if f.kind != fInvalid && !(f.kind == fBlockIndex && f.num >= low.NumberU64()) {
			return false
		}
	}
	return true
}

// continueAfterCrash restarts at prefix k and offers the remaining calls (at most 3)
// without re-offering the interrupted one: the restarted node is an ordinary node, so
// the first sentence of the statement must hold after every further import.
func (r *run) continueAfterCrash(j, k int, base crashdb.Snapshot, L []logEntry, where func(int) string, strict bool) *kit.Result {
	u := r.u
	n, err := startNode(r.f, crashdb.Materialise(base, L[:k]))
	if err != nil {
		return nil // reported by the caller's own restart
	}
	defer n.stop()
	r.label("continued-after-crash")
	for i := j + 1; i < len(r.c.Calls) && i <= j+3; i++ {
		blocks := u.resolve(r.c.Calls[i])
		if len(blocks) == 0 {
			continue
		}
		before := n.bc.CurrentBlock()
		storedUnvalidated := storedUnvalidatedBlocks(n, u)
		ierr, pv, stack := n.insert(blocks)
		if pv != nil {
			out := kit.Fail("post-crash-"+panicClass(stack), "%s\nthe restarted node then imports call %d = InsertChain(%s) and panics: %v\n%s", where(k), i, r.describe(blocks), pv, trimStack(stack))
			return &out
		}
		if before.Hash() != n.bc.CurrentBlock().Hash() && !isAncestor(u, before.Hash(), n.bc.CurrentBlock().Hash()) {
			r.label("continued-reorg")
		}
		if fs := checkInvariants(n, u); len(fs) > 0 {
			explained := adoptedStoredUnvalidated(n, u, fs, storedUnvalidated)
			if explained && !strict && kit.IsKnown(clsStoredUnvalidated) {
				r.label("excluded:" + clsStoredUnvalidated)
				return nil
			}
			cls := "post-crash-" + fs[0].kind
			if explained {
				cls = clsStoredUnvalidated
			}
			out := kit.Fail(cls, "%s\nthe restarted node then imports call %d = InsertChain(%s) (err=%v):\n%s", where(k), i, r.describe(blocks), ierr, joinFails(fs))
			return &out
		}
	}
	return nil
}

// ---------------------------------------------------------------------------------

var _ = kit.Register(kit.Prop[Case]{
	Name: "ImportOrder",
	Rule: "block tree (trunk 3-8, 1-2 forks of 1-4 blocks at random heights, 0-3 transfers per block, fork blocks often repeat trunk transactions) plus " +
		"0-3 invalid blocks (bad roots/gas/fees/bloom/nonce/version state, optionally with a re-parented child; a fifth of the schedules run the REAL ucon engine on honestly proposed and voted blocks, with engine-specific invalid kinds: too few votes, foreign seal, and fully voted blocks with a wrong bloom / gas used / transaction root); the branches are cut into segments, " +
		"reordered, duplicated and offered to InsertChain; invariants after every call and after a clean restart. Non-trivial: a call reorganised the " +
		"chain or offered an invalid block whose parent was known",
	Gen: func(t *rapid.T) Case { return genCase(t, false) }, Run: runCase,
	Quick: 220, Thorough: 5000, Chunk: 50, MinNonTrivialPct: 40,
})

var _ = kit.Register(kit.Prop[Case]{
	Name: "CrashRecover",
	Rule: "same schedules (trunk 3-6); every InsertChain call is additionally crashed at every prefix of its write log (quick: first/last 10 + 5 strided): " +
		"restart on base+prefix must succeed with a consistent chain whose head the import had announced, and after re-offering the call's blocks " +
		"plus one further valid block head and state equal those of a node that never crashed; some restarted nodes continue the schedule instead. " +
		"Non-trivial: a crash point strictly between a block's body write and its head marker was evaluated",
	Gen: func(t *rapid.T) Case { return genCase(t, true) }, Run: runCase,
	Quick: 20, Thorough: 450, Chunk: 4, MinNonTrivialPct: 45,
})
