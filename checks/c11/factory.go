package c11

import (
	"crypto/ecdsa"
	"fmt"
	"math/big"
	"runtime/debug"

	"github.com/youchainhq/go-youchain/common"
	"github.com/youchainhq/go-youchain/consensus"
	"github.com/youchainhq/go-youchain/consensus/solo"
	"github.com/youchainhq/go-youchain/core"
	"github.com/youchainhq/go-youchain/core/types"
	"github.com/youchainhq/go-youchain/crypto"
	"github.com/youchainhq/go-youchain/event"
	"github.com/youchainhq/go-youchain/local"
	"github.com/youchainhq/go-youchain/params"
	"github.com/youchainhq/go-youchain/youdb"
)

// ---------------------------------------------------------------------------------
// engine / block factory plug-in point
//
// A Factory owns everything that depends on the consensus engine: the genesis
// specification, how a *valid* child block of a given parent is produced, and the engine
// instance an importing BlockChain runs with. The schedule generator, the crash
// enumeration and the oracle only talk to this interface, so a second factory that
// produces honestly voted ucon blocks (lib/uconkit) can be registered later without
// touching them.

// TxSpec is one plain transfer: From/To index the factory's account table.
type TxSpec struct {
	From  int `json:"from"`
	To    int `json:"to"`
	Value int `json:"value"`
}

// BlockSpec describes the content of one generated block.
type BlockSpec struct {
	Txs []TxSpec `json:"txs,omitempty"`
}

// Factory builds blocks for one engine.
type Factory interface {
	Name() string
	// Genesis commits the genesis block to db and returns it.
	Genesis(db youdb.Database) *types.Block
	// NewChain starts an importing node on db exactly as a starting process does (fresh
	// engine instance, fresh event mux, whatever modules the engine needs registered).
	NewChain(db youdb.Database) (*core.BlockChain, error)
	// Build returns a valid child of parent with the given content; tag makes blocks with
	// identical content on different branches distinct. The factory keeps the states of
	// everything it built, so any block it returned can be a parent later.
	Build(parent *types.Block, spec BlockSpec, tag []byte) *types.Block
	// Senders / Sinks: addresses of the accounts a TxSpec can name (From: senders only).
	Accounts() (senders []common.Address, all []common.Address)
	// InvalidKinds / MakeInvalid: engine-specific ways to make a block invalid (e.g.
	// "too few votes"), in addition to the engine-independent kinds of universe.makeInvalid.
	InvalidKinds() []string
	MakeInvalid(base *types.Block, kind string) *types.Block
	// CanonicaliseLog rewrites the parts of a write log whose order the implementation
	// leaves to chance (see canonLog) into one fixed, feasible order.
	CanonicaliseLog(log []logEntry) []logEntry
}

// ---------------------------------------------------------------------------------
// solo factory

const (
	nSenders = 3
	nSinks   = 2
)

var (
	soloKeys  []*ecdsa.PrivateKey
	soloAddrs []common.Address // senders first, then sinks
	txSigner  types.Signer
	initBal   = new(big.Int).Mul(big.NewInt(1e9), big.NewInt(1e9))
	gasPrice  = big.NewInt(1)
)

func init() {
	// the cases allocate heavily and live briefly; a larger GC target halves the run time
	debug.SetGCPercent(400)
	// process-wide protocol table: set once, never changed (BUILDING.md)
	params.InitNetworkId(params.NetworkIdForTestCase)
	txSigner = types.MakeSigner(big.NewInt(0))
	for i := 0; i < nSenders+nSinks; i++ {
		k, err := crypto.ToECDSA(crypto.Keccak256([]byte(fmt.Sprintf("verif-c11-account-%d", i))))
		if err != nil {
			panic(err)
		}
		soloKeys = append(soloKeys, k)
		soloAddrs = append(soloAddrs, crypto.PubkeyToAddress(k.PublicKey))
	}
}

type soloFactory struct {
	gendb     *youdb.MemDatabase // holds the state of every block built so far
	processor core.Processor
	engine    consensus.Engine
	genesis   *types.Block
}

func newSoloFactory() *soloFactory {
	f := &soloFactory{gendb: youdb.NewMemDatabase(), engine: solo.NewSolo()}
	f.processor = core.NewStateProcessor(nil, f.engine)
	f.genesis = f.spec().MustCommit(f.gendb)
	return f
}

func (f *soloFactory) Name() string { return "solo" }

func (f *soloFactory) spec() *core.Genesis {
	alloc := core.GenesisAlloc{}
	for i := 0; i < nSenders; i++ {
		alloc[soloAddrs[i]] = core.GenesisAccount{Balance: new(big.Int).Set(initBal)}
	}
	return &core.Genesis{
		NetworkId:   params.NetworkIdForTestCase,
		GasLimit:    params.GenesisGasLimit,
		Alloc:       alloc,
		CurrVersion: params.YouCurrentVersion,
	}
}

func (f *soloFactory) Genesis(db youdb.Database) *types.Block {
	g := f.spec().MustCommit(db)
	if g.Hash() != f.genesis.Hash() {
		panic("c11: genesis is not deterministic")
	}
	return g
}

func (f *soloFactory) NewChain(db youdb.Database) (*core.BlockChain, error) {
	return core.NewBlockChain(db, solo.NewSolo(), new(event.TypeMux), params.ArchiveNode, local.FakeDetailDB())
}

func (f *soloFactory) InvalidKinds() []string { return nil }

func (f *soloFactory) MakeInvalid(base *types.Block, kind string) *types.Block { return nil }

func (f *soloFactory) Accounts() ([]common.Address, []common.Address) {
	return soloAddrs[:nSenders], soloAddrs
}

func (f *soloFactory) Build(parent *types.Block, spec BlockSpec, tag []byte) *types.Block {
	blocks, _ := core.GenerateChain(parent, f.engine, f.gendb, 1, f.processor, func(i int, g *core.BlockGen) {
		g.SetExtra(append([]byte(nil), tag...))
		for _, ts := range spec.Txs {
			from := ((ts.From % nSenders) + nSenders) % nSenders
			to := ((ts.To % len(soloAddrs)) + len(soloAddrs)) % len(soloAddrs)
			val := big.NewInt(int64(ts.Value))
			tx, err := types.SignTx(types.NewTransaction(g.TxNonce(soloAddrs[from]), soloAddrs[to], val, params.TxGas, gasPrice, nil), txSigner, soloKeys[from])
			if err != nil {
				panic(err)
			}
			g.AddTx(tx)
		}
	})
	return blocks[0]
}

func (f *soloFactory) CanonicaliseLog(log []logEntry) []logEntry { return canonLog(log) }
