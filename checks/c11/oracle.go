package c11

import (
	"fmt"
	"math/big"
	"runtime"
	"runtime/debug"
	"strings"
	"time"

	"github.com/youchainhq/go-youchain/common"
	"github.com/youchainhq/go-youchain/core"
	"github.com/youchainhq/go-youchain/core/rawdb"
	"github.com/youchainhq/go-youchain/core/types"
	"github.com/youchainhq/go-youchain/params"
	"github.com/youchainhq/go-youchain/trie"
	"github.com/youchainhq/go-youchain/youdb"
)

// ---------------------------------------------------------------------------------
// a running node

type node struct {
	db       youdb.Database
	bc       *core.BlockChain
	poisoned bool
}

// startNode creates a BlockChain on db exactly as a starting process does. It waits until
// the two chain-indexer event loops run, because ChainIndexer.Close only stops a loop
// whose `active` flag is already set - otherwise a quick Stop would leak the goroutine.
func startNode(f Factory, db youdb.Database) (*node, error) {
	bc, err := f.NewChain(db)
	if err != nil {
		return nil, err
	}
	for i := 0; !bc.VerifIndexersActive(); i++ {
		if i < 200 {
			runtime.Gosched()
		} else {
			time.Sleep(20 * time.Microsecond)
		}
	}
	return &node{db: db, bc: bc}, nil
}

func (n *node) stop() {
	if n != nil && n.bc != nil {
		if n.poisoned {
			// InsertChain panicked while holding the chain lock and the shutdown wait
			// group (neither is released with defer), so Stop would block forever in
			// wg.Wait. Stop what can be stopped in the background; the case is a
			// violation anyway and this one blocked goroutine is the price.
			go n.bc.Stop()
		} else {
			n.bc.Stop()
		}
		n.bc = nil
	}
}

// insert calls InsertChain and converts a panic into a value (with its stack).
func (n *node) insert(blocks types.Blocks) (err error, pv interface{}, stack string) {
	defer func() {
		if r := recover(); r != nil {
			n.poisoned = true
			pv, stack = r, string(debug.Stack())
		}
	}()
	return n.bc.InsertChain(blocks), nil, ""
}

// panicClass names the root cause of a panic inside InsertChain by the innermost
// function of the code under test on the stack.
func panicClass(stack string) string {
	for _, fn := range []struct{ needle, class string }{
		{"core.(*BlockChain).insertSidechain", "panic-insert-sidechain"},
		{"core.(*BlockChain).reorg", "panic-reorg"},
		{"core.(*BlockChain).WriteBlockWithState", "panic-write-block"},
		{"core.(*BlockChain).loadLastState", "panic-load-last-state"},
	} {
		if strings.Contains(stack, fn.needle) {
			return fn.class
		}
	}
	return "panic"
}

func trimStack(s string) string {
	// keep the frames of the code under test
	var keep []string
	lines := strings.Split(s, "\n")
	for i := 0; i+1 < len(lines); i++ {
		if strings.Contains(lines[i], "go-youchain/") && !strings.Contains(lines[i], "verif/") {
			keep = append(keep, strings.TrimSpace(lines[i])+"  "+strings.TrimSpace(lines[i+1]))
		}
		if len(keep) == 6 {
			break
		}
	}
	return strings.Join(keep, "\n")
}

// ---------------------------------------------------------------------------------
// invariants of the statement

// failure kinds
const (
	fHead       = "head"                // CurrentBlock / CurrentHeader / number index disagree about the tip
	fIndexLink  = "index-link"          // number->hash index from head to genesis is not a parent-linked chain
	fBlockIndex = "block-index"         // GetBlockByNumber disagrees with the header index / body does not match
	fState      = "state"               // head state not available / not the state the canonical transactions produce
	fLookupMiss = "lookup-missing"      // a transaction of a canonical block has no (or a wrong) lookup entry
	fLookupNon  = "lookup-noncanonical" // a lookup entry points to a block that is not canonical
	fInvalid    = "invalid-canonical"   // an invalid block (or a block nobody built) is canonical
)

type invFail struct {
	kind string
	msg  string
	num  uint64 // the block number the failure is about
}

func short(h common.Hash) string { return fmt.Sprintf("%x", h[:4]) }

// checkInvariants evaluates every clause of the first sentence of the statement on a
// running node and returns all failures (empty = consistent).
func checkInvariants(n *node, u *universe) []invFail {
	var out []invFail
	var at uint64 // block number the next failures are about
	fail := func(kind, format string, a ...interface{}) {
		out = append(out, invFail{kind, fmt.Sprintf(format, a...), at})
	}
	bc := n.bc
	head := bc.CurrentBlock()
	if head == nil {
		fail(fHead, "CurrentBlock is nil")
		return out
	}
	hn := head.NumberU64()
	at = hn
	if ch := bc.CurrentHeader(); ch == nil || ch.Hash() != head.Hash() {
		fail(fHead, "CurrentHeader %v differs from CurrentBlock #%d %s", ch, hn, short(head.Hash()))
	}
	// number -> hash index, head ... genesis
	canon := make([]common.Hash, hn+1)
	var child *types.Header
	linked := true
	for i := int64(hn); i >= 0; i-- {
		num := uint64(i)
		at = num
		h := bc.GetHeaderByNumber(num)
		if h == nil {
			fail(fIndexLink, "no canonical header at #%d (head #%d)", num, hn)
			linked = false
			child = nil
			continue
		}
		hash := h.Hash()
		canon[num] = hash
		if h.Number.Uint64() != num {
			fail(fIndexLink, "canonical header at #%d has number %d", num, h.Number.Uint64())
			linked = false
		}
		if num == hn && hash != head.Hash() {
			fail(fHead, "canonical #%d is %s but CurrentBlock is %s", num, short(hash), short(head.Hash()))
			linked = false
		}
		if child != nil && child.ParentHash != hash {
			at = num + 1
			fail(fIndexLink, "canonical #%d %s is not the parent of canonical #%d (parent %s)", num, short(hash), num+1, short(child.ParentHash))
			linked = false
			at = num
		}
		child = h
		if rh := rawdb.ReadCanonicalHash(n.db, num); rh != hash {
			fail(fIndexLink, "database canonical hash at #%d %s differs from GetHeaderByNumber %s", num, short(rh), short(hash))
		}
		b := bc.GetBlockByNumber(num)
		if b == nil {
			fail(fBlockIndex, "GetBlockByNumber(%d) is nil but the header index has %s", num, short(hash))
			continue
		}
		if b.Hash() != hash {
			fail(fBlockIndex, "GetBlockByNumber(%d) = %s, header index has %s", num, short(b.Hash()), short(hash))
			continue
		}
		if types.DeriveSha(b.Transactions()) != b.TxHash() {
			fail(fBlockIndex, "stored body of canonical #%d does not match its transaction root", num)
		}
		if num == 0 {
			if hash != u.valid[0].Hash() {
				fail(fIndexLink, "canonical #0 %s is not the genesis block", short(hash))
			}
		} else {
			if kind, bad := u.invalid[hash]; bad {
				fail(fInvalid, "invalid block (%s) %s is canonical at #%d", kind, short(hash), num)
			} else if _, ok := u.vindex[hash]; !ok && !u.isExt(hash) {
				fail(fInvalid, "canonical #%d %s is not a block anybody built", num, short(hash))
			}
		}
		// every transaction of a canonical block has a lookup entry pointing to that block
		for ti, tx := range b.Transactions() {
			bh, bn, idx := rawdb.ReadTxLookupEntry(n.db, tx.Hash())
			if bh != hash || bn != num || idx != uint64(ti) {
				if bh == (common.Hash{}) {
					fail(fLookupMiss, "tx %s (#%d[%d]) has no lookup entry", short(tx.Hash()), num, ti)
				} else {
					fail(fLookupMiss, "tx %s of canonical #%d %s [%d]: lookup entry says %s #%d [%d]", short(tx.Hash()), num, short(hash), ti, short(bh), bn, idx)
				}
			}
		}
	}
	// no lookup points to a non-canonical block
	for _, th := range u.sortedTxs() {
		bh, bn, idx := rawdb.ReadTxLookupEntry(n.db, th)
		if bh == (common.Hash{}) {
			continue
		}
		at = bn
		if bn > hn || canon[bn] != bh {
			fail(fLookupNon, "lookup of tx %s points to %s #%d, which is not canonical (head #%d %s)", short(th), short(bh), bn, hn, short(head.Hash()))
			continue
		}
		b := bc.GetBlock(bh, bn)
		if b == nil || int(idx) >= len(b.Transactions()) || b.Transactions()[idx].Hash() != th {
			fail(fLookupNon, "lookup of tx %s points to %s #%d [%d], which does not hold it", short(th), short(bh), bn, idx)
		}
	}
	at = hn
	// head state: all three tries open, every node is reachable, content = model
	st, err := bc.State()
	if err != nil {
		fail(fState, "State() of head #%d %s: %v", hn, short(head.Hash()), err)
		return out
	}
	for _, nr := range []struct {
		name string
		root common.Hash
	}{{"state", head.Root()}, {"val", head.ValRoot()}, {"staking", head.StakingRoot()}} {
		name, root := nr.name, nr.root
		tr, err := st.Database().OpenTrie(root)
		if err != nil {
			fail(fState, "%s trie %s of head does not open: %v", name, short(root), err)
			continue
		}
		it := trie.NewIterator(tr.NodeIterator(nil))
		for it.Next() {
		}
		if it.Err != nil {
			fail(fState, "%s trie of head #%d is incomplete: %v", name, hn, it.Err)
		}
	}
	if linked {
		if hi, ok := u.headIndex(head.Hash()); ok {
			nonce, bal := u.model(hi, head)
			for _, a := range u.all {
				if got := st.GetNonce(a); got != nonce[a] {
					fail(fState, "head #%d: nonce of %x is %d, the canonical transactions give %d", hn, a[:3], got, nonce[a])
				}
				if got := st.GetBalance(a); got.Cmp(bal[a]) != 0 {
					fail(fState, "head #%d: balance of %x is %v, the canonical transactions give %v", hn, a[:3], got, bal[a])
				}
			}
		}
	}
	return out
}

func (u *universe) isExt(h common.Hash) bool {
	for _, x := range u.ext {
		if x.Hash() == h {
			return true
		}
	}
	return false
}

func (u *universe) sortedTxs() []common.Hash {
	out := make([]common.Hash, 0, len(u.txs))
	for h := range u.txs {
		out = append(out, h)
	}
	sortHashes(out)
	return out
}

// headIndex: index of a valid block (or of the parent of an extension block, with ok).
func (u *universe) headIndex(h common.Hash) (int, bool) {
	if i, ok := u.vindex[h]; ok {
		return i, true
	}
	for ph, x := range u.ext {
		if x.Hash() == h {
			i, ok := u.vindex[ph]
			return i, ok
		}
	}
	return 0, false
}

// model computes nonces and balances from the transactions on the path genesis..valid[hi]
// (plus head itself when head is an extension block): plain transfers at a fixed gas price.
func (u *universe) model(hi int, head *types.Block) (map[common.Address]uint64, map[common.Address]*big.Int) {
	nonce := map[common.Address]uint64{}
	bal := map[common.Address]*big.Int{}
	for _, a := range u.all {
		bal[a] = new(big.Int)
	}
	for _, a := range u.senders {
		bal[a].Set(initBal)
	}
	fee := new(big.Int).Mul(gasPrice, new(big.Int).SetUint64(params.TxGas))
	apply := func(b *types.Block) {
		for _, tx := range b.Transactions() {
			from, err := types.Sender(txSigner, tx)
			if err != nil {
				panic(err)
			}
			nonce[from]++
			if _, ok := bal[from]; ok {
				bal[from].Sub(bal[from], tx.Value())
				bal[from].Sub(bal[from], fee)
			}
			if to := tx.To(); to != nil {
				if _, ok := bal[*to]; ok {
					bal[*to].Add(bal[*to], tx.Value())
				}
			}
		}
	}
	for _, i := range u.pathTo(hi) {
		apply(u.valid[i])
	}
	if head.Hash() != u.valid[hi].Hash() {
		apply(head)
	}
	return nonce, bal
}

func sortHashes(hs []common.Hash) {
	for i := 1; i < len(hs); i++ {
		for j := i; j > 0 && lessHash(hs[j], hs[j-1]); j-- {
			hs[j], hs[j-1] = hs[j-1], hs[j]
		}
	}
}

func lessHash(a, b common.Hash) bool {
	for i := range a {
		if a[i] != b[i] {
			return a[i] < b[i]
		}
	}
	return false
}

// stateDigest summarises head + state for the crash differential.
type stateDigest struct {
	head, root, valRoot, stakingRoot common.Hash
	number                           uint64
	accounts                         string
}

func digest(n *node, u *universe) (stateDigest, error) {
	h := n.bc.CurrentBlock()
	d := stateDigest{head: h.Hash(), root: h.Root(), valRoot: h.ValRoot(), stakingRoot: h.StakingRoot(), number: h.NumberU64()}
	st, err := n.bc.State()
	if err != nil {
		return d, err
	}
	for _, a := range u.all {
		d.accounts += fmt.Sprintf("%x:%d:%v;", a[:3], st.GetNonce(a), st.GetBalance(a))
	}
	return d, nil
}
