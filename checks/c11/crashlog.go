package c11

import (
	"bytes"
	"encoding/binary"
	"fmt"
	"strings"

	"github.com/youchainhq/go-youchain/common"
	"github.com/youchainhq/go-youchain/crypto"
	"verif/lib/crashdb"
)

type logEntry = crashdb.Entry

// ---------------------------------------------------------------------------------
// classification of write-log entries by database key (core/rawdb/schema.go)

type entKind int

const (
	kOther      entKind = iota
	kBody               // "b" + num + hash
	kHashNum            // "H" + hash
	kHeader             // "h" + num + hash
	kTrie               // batch of trie nodes (key = keccak(value))
	kPreimage           // batch of "secure-key-" preimages
	kTrieMixed          // batch holding both
	kRcptBatch          // batch of receipts ("r"...) and/or lookup puts ("l"...)
	kLookupPut          // single "l" + txhash put (reorg re-adding lookups)
	kLookupDel          // batch of "l" deletes (reorg dropping lookups)
	kLastHeader         // "LastHeader"
	kCanon              // "h" + num + "n"
	kLastBlock          // "LastBlock"
	kIndexBatch         // batch mixing receipts/lookups with canonical hashes and/or head markers (an atomic index update)
)

var preimagePrefix = []byte("secure-key-")

func isTrieOp(op crashdb.Op) (node, pre bool) {
	if op.Del {
		return false, false
	}
	if len(op.Key) == len(preimagePrefix)+common.HashLength && bytes.HasPrefix(op.Key, preimagePrefix) {
		return false, true
	}
	if len(op.Key) == common.HashLength && bytes.Equal(crypto.Keccak256(op.Val), op.Key) {
		return true, false
	}
	return false, false
}

func kindOf(e logEntry) entKind {
	if !e.Batch {
		op := e.Ops[0]
		k := op.Key
		switch {
		case string(k) == "LastHeader":
			return kLastHeader
		case string(k) == "LastBlock":
			return kLastBlock
		case len(k) == 10 && k[0] == 'h' && k[9] == 'n':
			return kCanon
		case len(k) == 41 && k[0] == 'h':
			return kHeader
		case len(k) == 41 && k[0] == 'b':
			return kBody
		case len(k) == 33 && k[0] == 'H':
			return kHashNum
		case len(k) == 33 && k[0] == 'l' && !op.Del:
			return kLookupPut
		}
		return kOther
	}
	nodes, pres, rl, ldel, marks := 0, 0, 0, 0, 0
	for _, op := range e.Ops {
		n, p := isTrieOp(op)
		switch {
		case n:
			nodes++
		case p:
			pres++
		case len(op.Key) == 33 && op.Key[0] == 'l' && op.Del:
			ldel++
		case !op.Del && ((len(op.Key) == 33 && op.Key[0] == 'l') || (len(op.Key) == 41 && op.Key[0] == 'r')):
			rl++
		case !op.Del && (string(op.Key) == "LastHeader" || string(op.Key) == "LastBlock" || (len(op.Key) == 10 && op.Key[0] == 'h' && op.Key[9] == 'n')):
			marks++
		}
	}
	switch len(e.Ops) {
	case nodes:
		return kTrie
	case pres:
		return kPreimage
	case nodes + pres:
		return kTrieMixed
	case rl:
		return kRcptBatch
	case ldel:
		return kLookupDel
	case rl + ldel + marks:
		return kIndexBatch
	}
	return kOther
}

func isTrieKind(k entKind) bool { return k == kTrie || k == kPreimage || k == kTrieMixed }

func isIndexKind(k entKind) bool {
	switch k {
	case kRcptBatch, kLookupPut, kLookupDel, kLastHeader, kCanon, kLastBlock, kIndexBatch:
		return true
	}
	return false
}

// canonLog makes a write log reproducible.
//
// BlockChain.WriteBlockWithState flushes the three state tries with
//
//	for key, value := range map[string]common.Hash{"state": root, "val": valRoot, "staking": stakingRoot} {
//	    state.Database().TrieDB().Commit(value, false)
//
// i.e. in Go map order, and trie.Database.Commit writes ALL pending key preimages in the
// batch of whichever trie comes first (iterating another map). The run of trie batches
// of one block therefore differs from run to run in how it is cut into batches. Every cut
// is a feasible execution; we replace the run by one fixed feasible cut: first one batch
// with all preimages (what happens when a trie without dirty nodes is flushed first),
// then one batch with all trie nodes. Inside every batch whose keys are distinct the
// operations are sorted by key (a batch is atomic, its internal order is unobservable).
func canonLog(log []logEntry) []logEntry {
	var out []logEntry
	for i := 0; i < len(log); {
		if !isTrieKind(kindOf(log[i])) {
			out = append(out, log[i].Normalise())
			i++
			continue
		}
		var pre, nodes []crashdb.Op
		seen := map[string]bool{}
		for ; i < len(log) && isTrieKind(kindOf(log[i])); i++ {
			for _, op := range log[i].Ops {
				if seen[string(op.Key)] {
					continue // same key, same content (content-addressed)
				}
				seen[string(op.Key)] = true
				if _, p := isTrieOp(op); p {
					pre = append(pre, op)
				} else {
					nodes = append(nodes, op)
				}
			}
		}
		if len(pre) > 0 {
			out = append(out, logEntry{Batch: true, Ops: pre}.Normalise())
		}
		if len(nodes) > 0 {
			out = append(out, logEntry{Batch: true, Ops: nodes}.Normalise())
		}
	}
	return out
}

func sameLog(a, b []logEntry) bool {
	if len(a) != len(b) {
		return false
	}
	for i := range a {
		if a[i].Batch != b[i].Batch || len(a[i].Ops) != len(b[i].Ops) {
			return false
		}
		for j := range a[i].Ops {
			x, y := a[i].Ops[j], b[i].Ops[j]
			if x.Del != y.Del || !bytes.Equal(x.Key, y.Key) || !bytes.Equal(x.Val, y.Val) {
				return false
			}
		}
	}
	return true
}

// ---------------------------------------------------------------------------------
// index-update windows
//
// WriteBlockWithState writes, for one block: body, hash->number, header, the trie
// batches, and then its *index updates*: (for a reorg) per re-canonicalised block
// LastHeader / canonical hash / LastBlock / lookup puts, a batch of lookup deletes, and
// finally the receipts+lookups batch and LastHeader / canonical hash / LastBlock of the
// block itself. A window is a maximal run of such index entries.

type window struct {
	start, end int // entry indices, inclusive
	reorg      bool
	lookups    bool   // the window writes or deletes lookup entries
	minNum     uint64 // lowest block number whose canonical hash the window writes
}

func kindsOf(log []logEntry) []entKind {
	ks := make([]entKind, len(log))
	for i, e := range log {
		ks[i] = kindOf(e)
	}
	return ks
}

func windows(log []logEntry, kinds []entKind) []window {
	var ws []window
	for i := 0; i < len(log); {
		if !isIndexKind(kinds[i]) {
			i++
			continue
		}
		w := window{start: i, minNum: ^uint64(0)}
		heads := 0
		for ; i < len(log) && isIndexKind(kinds[i]); i++ {
			if kinds[i] == kLookupPut || kinds[i] == kLookupDel {
				w.reorg = true
			}
			for _, op := range log[i].Ops {
				switch {
				case string(op.Key) == "LastBlock":
					heads++
				case len(op.Key) == 10 && op.Key[0] == 'h' && op.Key[9] == 'n':
					if n := binary.BigEndian.Uint64(op.Key[1:9]); n < w.minNum {
						w.minNum = n
					}
				case len(op.Key) == 33 && op.Key[0] == 'l':
					w.lookups = true
				}
			}
		}
		w.end = i - 1
		if heads > 1 {
			w.reorg = true
		}
		ws = append(ws, w)
	}
	return ws
}

// position of the crash prefix k (entries [0,k) reached the disk)
type position struct {
	insideWindow bool // strictly inside an index-update window
	reorg        bool // ... of a reorganisation
	lookups      bool // ... that touches lookup entries
	minNum       uint64 // ... lowest block number it (re)writes
	insideBlock  bool // strictly between a block's body write and its last head marker
	tornBlock    bool // the body of a block is on disk, its header is not (WriteBlock is three separate puts)
	stateless    bool // body and header of a block are on disk, its state is not yet
}

func positionOf(kinds []entKind, ws []window, k int) position {
	var p position
	for _, w := range ws {
		if k > w.start && k <= w.end {
			p.insideWindow, p.reorg, p.lookups, p.minNum = true, w.reorg, w.lookups, w.minNum
		}
	}
	if k > 0 && k <= len(kinds) && (kinds[k-1] == kBody || kinds[k-1] == kHashNum) {
		p.tornBlock = true
	}
	if k > 0 && k <= len(kinds) && k < len(kinds) && (kinds[k-1] == kHeader || kinds[k-1] == kPreimage) && isTrieKind(kinds[k]) {
		p.stateless = true
	}
	// inside a block import: some body write at index < k whose window end is >= k
	lastBody := -1
	for i := 0; i < k && i < len(kinds); i++ {
		if kinds[i] == kBody {
			lastBody = i
		}
	}
	if lastBody >= 0 {
		for _, w := range ws {
			if w.start > lastBody {
				p.insideBlock = k <= w.end
				break
			}
		}
	}
	return p
}

var kindNames = map[entKind]string{kOther: "other", kBody: "body", kHashNum: "hash->number", kHeader: "header", kTrie: "trie-nodes",
	kPreimage: "preimages", kTrieMixed: "trie+preimages", kRcptBatch: "receipts+lookups", kLookupPut: "lookup-put", kLookupDel: "lookup-deletes",
	kLastHeader: "LastHeader", kCanon: "canonical", kLastBlock: "LastBlock", kIndexBatch: "index-batch"}

// renderLog prints the write log compactly, marking the crash prefix k with "<<< crash".
func renderLog(log []logEntry, kinds []entKind, k int) string {
	var sb strings.Builder
	for i, e := range log {
		if i == k {
			sb.WriteString("  ---- crash: nothing below reached the disk ----\n")
		}
		fmt.Fprintf(&sb, "  %2d %-16s", i, kindNames[kinds[i]])
		op := e.Ops[0]
		switch kinds[i] {
		case kBody, kHeader:
			fmt.Fprintf(&sb, " #%d %x", binary.BigEndian.Uint64(op.Key[1:9]), op.Key[9:13])
		case kHashNum, kLookupPut:
			fmt.Fprintf(&sb, " %x", op.Key[1:5])
		case kCanon:
			fmt.Fprintf(&sb, " #%d = %x", binary.BigEndian.Uint64(op.Key[1:9]), op.Val[:4])
		case kLastHeader, kLastBlock:
			fmt.Fprintf(&sb, " = %x", op.Val[:4])
		default:
			fmt.Fprintf(&sb, " (%d ops)", len(e.Ops))
		}
		sb.WriteByte('\n')
	}
	if k >= len(log) {
		sb.WriteString("  ---- crash after the last write ----\n")
	}
	return sb.String()
}

// headsIn returns the hashes written to the LastBlock marker in log.
func headsIn(log []logEntry, kinds []entKind) []common.Hash {
	var out []common.Hash
	for _, e := range log {
		for _, op := range e.Ops {
			if !op.Del && string(op.Key) == "LastBlock" {
				out = append(out, common.BytesToHash(op.Val))
			}
		}
	}
	return out
}
