package c11

// ucon factory: honestly proposed and voted blocks for the REAL consensus engine
// (ucon.Server as consensus.Engine), so that imports go through the production paths
// (VerifyHeaders -> verifyHeader -> verifyConsensusField, ErrExistCanonical,
// insertSidechain, verifyAllSideChainBlocks) instead of the solo engine's shortcuts.
//
// Block bodies and state roots are produced exactly like the solo factory does
// (core.GenerateChain on the factory's own database); the header is then dressed for
// ucon: protocol version of the genesis, consensus data with a genuine proposer
// credential, precommit votes of every validator that won a seat (real VRF proofs, BLS
// aggregate) and the proposer's seal. All look-backs of chains this short are the genesis
// (stake look-back 16) or an ancestor at most 8 blocks back (seed look-back).

import (
	"fmt"
	"math/big"

	"github.com/youchainhq/go-youchain/bls"
	"github.com/youchainhq/go-youchain/common"
	"github.com/youchainhq/go-youchain/consensus/solo"
	"github.com/youchainhq/go-youchain/consensus/ucon"
	"github.com/youchainhq/go-youchain/core"
	"github.com/youchainhq/go-youchain/core/types"
	"github.com/youchainhq/go-youchain/crypto"
	"github.com/youchainhq/go-youchain/event"
	"github.com/youchainhq/go-youchain/local"
	"github.com/youchainhq/go-youchain/params"
	"github.com/youchainhq/go-youchain/rlp"
	"github.com/youchainhq/go-youchain/youdb"
	uk "verif/lib/uconkit"
)

const (
	uconVersion   = params.YouVersion(111)
	uconVals      = 4
	uconStake     = 100 // stake units per validator
	uconPropT     = 5
	uconValT      = 200
	uconCertT     = 400
	stepProposal  = 1
	stepPrecommit = 3
)

func init() {
	// (params.InitNetworkId has run in factory.go's init: same package, file order)
	installUconVersion()
}

func installUconVersion() {
	if params.Versions == nil {
		params.InitNetworkId(params.NetworkIdForTestCase)
	}
	yp := params.Versions[params.YouV5]
	yp.Version = uconVersion
	yp.ProposerThreshold, yp.ValidatorThreshold, yp.CertValThreshold = uconPropT, uconValT, uconCertT
	yp.EnableBls = true
	yp.ApprovedUpgradeVersion = 0 // no upgrade proposals along these chains
	params.Versions[uconVersion] = yp
}

type uconFactory struct {
	gendb   *youdb.MemDatabase
	proc    core.Processor
	genesis *types.Block
	built   map[common.Hash]*types.Block
	genSeed common.Hash
}

func newUconFactory() *uconFactory {
	installUconVersion()
	f := &uconFactory{gendb: youdb.NewMemDatabase(), built: map[common.Hash]*types.Block{}}
	f.genSeed = crypto.Keccak256Hash([]byte("verif-c11-ucon-genesis-seed"))
	f.proc = core.NewStateProcessor(nil, solo.NewSolo())
	f.genesis = f.spec().MustCommit(f.gendb)
	f.built[f.genesis.Hash()] = f.genesis
	return f
}

func (f *uconFactory) Name() string { return "ucon" }

func (f *uconFactory) spec() *core.Genesis {
	alloc := core.GenesisAlloc{}
	for i := 0; i < nSenders; i++ {
		alloc[soloAddrs[i]] = core.GenesisAccount{Balance: new(big.Int).Set(initBal)}
	}
	vals := core.GenesisValidators{}
	for i := 0; i < uconVals; i++ {
		k := uk.PoolKey(i)
		vals[k.Addr] = core.GenesisValidator{Name: fmt.Sprintf("v%d", i), OperatorAddress: k.Addr, Coinbase: k.Addr,
			MainPubKey: k.MainPub, BlsPubKey: k.BlsPub, Token: new(big.Int).Mul(big.NewInt(uconStake), params.StakeUint),
			Role: params.RoleSenator, Status: params.ValidatorOnline}
	}
	cd := &ucon.BlockConsensusData{Round: new(big.Int), RoundIndex: 1, Seed: f.genSeed, SortitionProof: []byte{}, Signature: []byte{}}
	cons, err := rlp.EncodeToBytes(cd)
	if err != nil {
		panic(err)
	}
	return &core.Genesis{NetworkId: params.NetworkIdForTestCase, GasLimit: params.GenesisGasLimit, Alloc: alloc, Validators: vals,
		Consensus: cons, Mixhash: types.UConMixHash, CurrVersion: uconVersion, Timestamp: 1}
}

func (f *uconFactory) Genesis(db youdb.Database) *types.Block {
	g := f.spec().MustCommit(db)
	if g.Hash() != f.genesis.Hash() {
		panic("c11: ucon genesis is not deterministic")
	}
	return g
}

func (f *uconFactory) NewChain(db youdb.Database) (*core.BlockChain, error) {
	engine, err := ucon.NewVRFServer(db)
	if err != nil {
		return nil, err
	}
	return core.NewBlockChain(db, engine, new(event.TypeMux), params.ArchiveNode, local.FakeDetailDB())
}

func (f *uconFactory) Accounts() ([]common.Address, []common.Address) { return soloAddrs[:nSenders], soloAddrs }

// seedFor returns the seed of the look-back block of round n on the branch ending at parent.
func (f *uconFactory) seedFor(parent *types.Block, n uint64) common.Hash {
	var lb uint64
	if n > 8 {
		lb = n - 8
	}
	b := parent
	for b.NumberU64() > lb {
		p, ok := f.built[b.ParentHash()]
		if !ok {
			panic("c11: ucon factory lost an ancestor")
		}
		b = p
	}
	cd, err := ucon.GetConsensusDataFromHeader(b.Header())
	if err != nil {
		panic(err)
	}
	return cd.Seed
}

// dress turns a solo-generated block into an honestly proposed and voted ucon block.
// voters < 0: every validator that won a seat votes; otherwise only the first `voters` of them.
func (f *uconFactory) dress(parent, raw *types.Block, voters int, sealKey int, extraSuffix []byte) *types.Block {
	n := raw.NumberU64()
	seed := f.seedFor(parent, n)
	total := uint64(uconVals * uconStake)
	// proposer: first round index at which some validator wins a proposer seat
	var (
		ri       uint32
		proposer = -1
		pc       uk.Credential
	)
	for ri = 1; ri <= 200 && proposer < 0; ri++ {
		for i := 0; i < uconVals; i++ {
			c := uk.Sortition(i, seed, ri, stepProposal, uconPropT, uconStake, total)
			if c.J >= 1 {
				proposer, pc = i, c
				break
			}
		}
		if proposer >= 0 {
			break
		}
	}
	if proposer < 0 {
		panic("c11: no ucon proposer found")
	}
	h := types.CopyHeader(raw.Header())
	h.MixDigest = types.UConMixHash
	h.CurrVersion = uconVersion
	// (the coinbase stays what the body was executed with)
	h.Extra = append(append([]byte(nil), h.Extra...), extraSuffix...)
	nextSeed, _ := uk.PoolKey(proposer).Vrf.Evaluate(append(seed.Bytes(), byte(n), byte(ri)))
	cd := &ucon.BlockConsensusData{Round: new(big.Int).SetUint64(n), RoundIndex: ri, Seed: nextSeed, SortitionProof: pc.Proof,
		Priority: ucon.VrfComputePriority(pc.Value, pc.J), SubUsers: pc.J,
		ProposerThreshold: uconPropT, ValidatorThreshold: uconValT, CertValThreshold: uconCertT}
	if err := uk.SetConsensus(h, cd, proposer); err != nil {
		panic(err)
	}
	hash := h.Hash() // excludes Validator / Signature / Certificate
	payload := uk.VotePayload(hash, n, ri)
	// VoterIdx = rank in the genesis validator set (sorted by stake, token, address - all equal stakes here)
	set := f.valIndex()
	var votes []ucon.SingleVote
	var sigs []bls.Signature
	for i := 0; i < uconVals; i++ {
		c := uk.Sortition(i, seed, ri, stepPrecommit, uconValT, uconStake, total)
		if c.J < 1 {
			continue
		}
		if voters >= 0 && len(votes) >= voters {
			break
		}
		votes = append(votes, ucon.SingleVote{VoterIdx: uint32(set[i]), Votes: c.J, Proof: c.Proof})
		sigs = append(sigs, uk.BlsSign(i, payload))
	}
	uv := &ucon.UconValidators{RoundIndex: ri, ChamberCommitters: votes, SCAggrSig: uk.Aggregate(sigs)}
	vb, err := rlp.EncodeToBytes(uv)
	if err != nil {
		panic(err)
	}
	h.Validator = vb
	cv, _ := rlp.EncodeToBytes(&ucon.UconValidators{RoundIndex: ri})
	h.Certificate = cv
	if sealKey < 0 {
		sealKey = proposer
	}
	if err := uk.SealHeader(h, sealKey); err != nil {
		panic(err)
	}
	return raw.WithSeal(h)
}

var uconIndexCache []int

// valIndex maps pool key number -> VoterIdx in the genesis validator set.
func (f *uconFactory) valIndex() []int {
	if uconIndexCache != nil {
		return uconIndexCache
	}
	var specs []uk.ValSpec
	for i := 0; i < uconVals; i++ {
		specs = append(specs, uk.ValSpec{Key: i, Role: uint8(params.RoleSenator), Online: true, Stake: uconStake})
	}
	set, err := uk.BuildSet(specs)
	if err != nil {
		panic(err)
	}
	uconIndexCache = set.Index
	return uconIndexCache
}

func (f *uconFactory) raw(parent *types.Block, spec BlockSpec, tag []byte) *types.Block {
	blocks, _ := core.GenerateChain(parent, solo.NewSolo(), f.gendb, 1, f.proc, func(i int, g *core.BlockGen) {
		g.SetExtra(append([]byte(nil), tag...))
		for _, ts := range spec.Txs {
			from := ((ts.From % nSenders) + nSenders) % nSenders
			to := ((ts.To % len(soloAddrs)) + len(soloAddrs)) % len(soloAddrs)
			tx, err := types.SignTx(types.NewTransaction(g.TxNonce(soloAddrs[from]), soloAddrs[to], big.NewInt(int64(ts.Value)), params.TxGas, gasPrice, nil), txSigner, soloKeys[from])
			if err != nil {
				panic(err)
			}
			g.AddTx(tx)
		}
	})
	return blocks[0]
}

func (f *uconFactory) Build(parent *types.Block, spec BlockSpec, tag []byte) *types.Block {
	raw := f.raw(parent, spec, tag)
	b := f.dress(parent, raw, -1, -1, nil)
	f.built[b.Hash()] = b
	return b
}

var uconInvalidKinds = []string{"ucon-few-votes", "ucon-foreign-seal", "ucon-voted-bloom", "ucon-voted-gas-used", "ucon-voted-tx-root"}

func (f *uconFactory) InvalidKinds() []string { return uconInvalidKinds }

// Redress gives a block whose header was edited after dressing (a child re-parented onto an invalid
// block) a genuine proposer credential, votes and seal again: consensus-wise it is a properly voted block.
func (f *uconFactory) Redress(parent, blk *types.Block) *types.Block {
	if _, ok := f.built[parent.Hash()]; !ok {
		f.built[parent.Hash()] = parent
	}
	b := f.dress(parent, blk, -1, -1, nil)
	f.built[b.Hash()] = b
	return b
}

// MakeInvalid re-dresses a valid block's body with too few votes / a seal by another key.
func (f *uconFactory) MakeInvalid(base *types.Block, kind string) *types.Block {
	parent, ok := f.built[base.ParentHash()]
	if !ok {
		return nil
	}
	// undo the dressing that does not matter for re-dressing (dress overwrites every ucon field)
	switch kind {
	case "ucon-voted-bloom", "ucon-voted-gas-used", "ucon-voted-tx-root":
		// a block that only execution can tell from a valid one (state roots are those of the valid twin),
		// proposed, voted by a quorum and sealed like any other: what a node must reject on its own
		h := base.Header()
		switch kind {
		case "ucon-voted-bloom":
			h.Bloom[3] ^= 0x04
		case "ucon-voted-gas-used":
			h.GasUsed++
		default:
			h.TxHash[0] ^= 0xff
		}
		b := f.dress(parent, types.NewBlockWithHeader(h).WithBody(base.Body()), -1, -1, nil)
		f.built[b.Hash()] = b
		return b
	case "ucon-few-votes":
		// (votes and seal are not part of the block hash: the suffix gives the invalid variant a hash of its own)
		return f.dress(parent, base, 1, -1, []byte{0xee, 1})
	case "ucon-foreign-seal":
		// sealed by a validator that is not the proposer of the consensus data: try both candidates
		b := f.dress(parent, base, -1, 0, []byte{0xee, 2})
		cd, err := ucon.GetConsensusDataFromHeader(b.Header())
		if err != nil {
			return nil
		}
		if pub, err := cd.GetPublicKey(); err == nil && crypto.PubkeyToAddress(*pub) == uk.PoolKey(0).Addr {
			b = f.dress(parent, base, -1, 1, []byte{0xee, 2})
		}
		return b
	}
	return nil
}

func (f *uconFactory) CanonicaliseLog(log []logEntry) []logEntry { return canonLog(log) }
