package c10

import (
	"fmt"
	"runtime/debug"
	"sort"
	"strings"
	"testing"

	"github.com/youchainhq/go-youchain/common"
	"github.com/youchainhq/go-youchain/core/state"
	"pgregory.net/rapid"
	"verif/kit"
	sk "verif/lib/statekit"
)

func TestMain(m *testing.M) {
	debug.SetGCPercent(400) // many short-lived tries per case; the heap stays small
	kit.Main(m, "C10")
}
func TestProps(t *testing.T)  { kit.RunAll(t) }
func TestReplay(t *testing.T) { kit.ReplayAll(t) }

// ---------------------------------------------------------------------------------
// (a) commit + reopen round trip, (b) copies are equal and independent

// Case is a history with commit, reopen and copy points.
type Case struct {
	Ops  []sk.Op  `json:"ops"`
	Excl []string `json:"excl,omitempty"`
}

func genCase(t *rapid.T) Case {
	c := Case{Excl: sk.CurrentExclusions()}
	c.Ops = sk.GenOps(t, sk.GenCfg{Snapshots: true, Staking: true, Copy: true, Commit: true, MaxOps: 50})
	return c
}

type witness struct {
	st     *state.StateDB
	twin   *state.StateDB // a second copy of the same moment, never touched until the end
	obs    sk.Obs
	what   string
	atRisk bool // accounts were finalised but not yet hashed into the trie at the copy point
}

// commitOther commits a state that is not the machine's subject and reads it back.
func commitOther(m *sk.Machine, st *state.StateDB) (roots [3]common.Hash, live, reopened sk.Obs, err error) {
	defer func() {
		if r := recover(); r != nil {
			err = fmt.Errorf("panic: %v", r)
		}
	}()
	a, b, c, err := st.Commit(true)
	if err != nil {
		return roots, nil, nil, err
	}
	roots = [3]common.Hash{a, b, c}
	db := st.Database() // (the subject may have moved on to another database since)
	for _, r := range roots {
		if err := db.TrieDB().Commit(r, false); err != nil {
			return roots, nil, nil, err
		}
	}
	live = m.Observe(st, true, false)
	re, err := state.New(a, b, c, db)
	if err != nil {
		return roots, live, nil, err
	}
	reopened = m.Observe(re, true, false)
	return roots, live, reopened, nil
}

func onlyContractAccounts(keys []string) bool {
	for _, k := range keys {
		ok := false
		for a := 0; a < sk.NAcct; a++ {
			if strings.HasPrefix(k, fmt.Sprintf("acct/%d/", a)) {
				ok = true
			}
		}
		if !ok {
			return false
		}
	}
	return len(keys) > 0
}

func onlyAccountBlobs(keys []string) bool {
	for _, k := range keys {
		if !strings.HasPrefix(k, "acct/") {
			return false
		}
	}
	return len(keys) > 0
}

// vldReaderObs renders what a validator-only reader opened on valRoot shows, in the
// vocabulary of Obs (val/<i>/..., stat/..., deep/index).
func vldReaderObs(valRoot common.Hash, db state.Database) (o sk.Obs, err error) {
	defer func() {
		if r := recover(); r != nil {
			err = fmt.Errorf("panic: %v", r)
		}
	}()
	rd, err := state.NewVldReader(valRoot, db, true)
	if err != nil {
		return nil, err
	}
	o = (&sk.Machine{}).ObserveValidators(rd.(*state.StateDB))
	delete(o, "stat")
	var idx []string
	for _, v := range rd.GetValidators().List() {
		idx = append(idx, fmt.Sprintf("%x", v.MainAddress().Bytes()[:3]))
	}
	sort.Strings(idx)
	o["deep/index"] = strings.Join(idx, " ")
	return o, nil
}

func subsetOf(a, b string) bool {
	have := map[string]bool{}
	for _, f := range strings.Fields(b) {
		have[f] = true
	}
	for _, f := range strings.Fields(a) {
		if !have[f] {
			return false
		}
	}
	return true
}

func sortedIndex(s string) string {
	f := strings.Fields(s)
	sort.Strings(f)
	return strings.Join(f, " ")
}

func runCase(c Case) kit.Result {
	m := sk.NewMachine(c.Excl)
	var wits []witness
	labels := map[string]bool{}
	checks := 0
	unsafeCopy := false    // the subject descends from a copy taken while a delegator list had no blob in the node database
	dirtyMarkRisk := false // the subject descends from a copy taken between Finalise and IntermediateRoot

	checkWitnesses := func(when string) *kit.Result {
		for _, w := range wits {
			got := m.Observe(w.st, true, true)
			if keys := sk.Diff(w.obs, got, nil); len(keys) > 0 {
				r := kit.Fail("copy-not-independent", "%s: %s changed although only the other side was modified since the copy; %d observables differ:\n%s", when, w.what, len(keys), sk.Explain(w.obs, got, keys))
				return &r
			}
		}
		return nil
	}
	classOf := func(def string, obs ...sk.Obs) string {
		if unsafeCopy {
			for _, o := range obs {
				for k, v := range o {
					if strings.HasSuffix(k, "/dlg") && strings.Contains(v, "load delegations error") {
						return sk.ClsCopyDlgs
					}
				}
			}
		}
		return def
	}
	// earlier commits of this history: their roots must stay readable, with the content they
	// had, on the database the subject uses now - also while the committing StateDB object
	// goes on being used and flushed (the state.Database keeps recently committed tries)
	type pastCommit struct {
		roots [3]common.Hash
		obs   sk.Obs
		at    string
	}
	var past []pastCommit
	recheckPast := func(when string) *kit.Result {
		for k := len(past) - 1; k >= 0 && k >= len(past)-3; k-- {
			p := past[k]
			st, err := state.New(p.roots[0], p.roots[1], p.roots[2], m.DB)
			if err != nil {
				r := kit.Fail("old-root-error", "%s: state.New with the roots committed at %s failed: %v", when, p.at, err)
				return &r
			}
			got := m.Observe(st, true, true)
			if keys := sk.Diff(p.obs, got, sk.Persistent); len(keys) > 0 {
				r := kit.Fail("old-root-mismatch", "%s: the state opened from the roots committed at %s (%d commits ago) no longer shows what was committed; %d observables differ:\n%s", when, p.at, len(past)-k, len(keys), sk.Explain(p.obs, got, keys))
				return &r
			}
			vo, err := vldReaderObs(p.roots[1], m.DB)
			if err != nil {
				r := kit.Fail("vldreader-error", "%s: NewVldReader on the validator root committed at %s failed: %v", when, p.at, err)
				return &r
			}
			wantV := sk.Obs{"deep/index": sortedIndex(p.obs["deep/index"])}
			for key, v := range p.obs {
				if strings.HasPrefix(key, "val/") || strings.HasPrefix(key, "stat/") {
					wantV[key] = v
				}
			}
			if keys := sk.Diff(wantV, vo, nil); len(keys) > 0 {
				r := kit.Fail("old-root-mismatch", "%s: NewVldReader on the validator root committed at %s no longer shows what was committed:\n%s", when, p.at, sk.Explain(wantV, vo, keys))
				return &r
			}
			labels["reopen-earlier-commit"] = true
		}
		return nil
	}
	commitAndCompare := func(when string, mode int) *kit.Result {
		if err := m.Commit(); err != nil {
			r := kit.Fail("commit-error", "%s: Commit failed: %v", when, err)
			return &r
		}
		live := m.Observe(m.St, true, true)
		if live["deep/panic"] != "" {
			r := kit.Fail(classOf("obs-panic", live), "%s: observing the live state after Commit panicked: %s", when, live["deep/panic"])
			return &r
		}
		for _, md := range []int{1, 2} {
			st, db, _, err := m.Open(md)
			name := map[int]string{1: "on the same database", 2: "on a byte copy of the disk database with a fresh node cache"}[md]
			if err != nil {
				r := kit.Fail(classOf("reopen-error", live), "%s: state.New(%x, %x, %x) %s failed: %v", when, m.Roots[0][:4], m.Roots[1][:4], m.Roots[2][:4], name, err)
				return &r
			}
			got := m.Observe(st, true, true)
			if keys := sk.Diff(live, got, sk.Persistent); len(keys) > 0 {
				cls := classOf("reopen-mismatch", live, got)
				if dirtyMarkRisk && onlyAccountBlobs(keys) {
					cls = sk.ClsCopyDirtyMark
				}
				if m.Resurrected && onlyContractAccounts(keys) {
					// evm.Call's CreateAccount gave a fresh object the balance of a deleted one and
					// nothing marked it dirty: the live object shows an account the tries do not hold
					cls = sk.ClsResurrect
				}
				r := kit.Fail(cls, "%s: the state reopened %s differs from the live object in %d observables:\n%s", when, name, len(keys), sk.Explain(live, got, keys))
				return &r
			}
			want := fmt.Sprintf("%x %x %x", m.Roots[0][:8], m.Roots[1][:8], m.Roots[2][:8])
			if g := got["deep/root"] + " " + got["deep/valroot"] + " " + got["deep/stakingroot"]; g != want {
				r := kit.Fail("reopen-root-drift", "%s: IntermediateRoot of the untouched reopened state (%s) = %s, committed roots %s", when, name, g, want)
				return &r
			}
			// validator-only reader with integrity check
			vo, err := vldReaderObs(m.Roots[1], db)
			if err != nil {
				r := kit.Fail("vldreader-error", "%s: NewVldReader(valRoot, checkIntegrity) %s failed: %v", when, name, err)
				return &r
			}
			wantV := sk.Obs{"deep/index": sortedIndex(live["deep/index"])}
			for k, v := range live {
				if strings.HasPrefix(k, "val/") || strings.HasPrefix(k, "stat/") {
					wantV[k] = v
				}
			}
			if keys := sk.Diff(wantV, vo, nil); len(keys) > 0 {
				r := kit.Fail("vldreader-mismatch", "%s: NewVldReader %s differs from the live object:\n%s", when, name, sk.Explain(wantV, vo, keys))
				return &r
			}
			if md == 2 {
				// RawDump is the third reader of a committed state
				if r := compareDump(when, st, live, m); r != nil {
					return r
				}
			}
		}
		checks++
		if r := recheckPast(when); r != nil {
			return r
		}
		past = append(past, pastCommit{m.Roots, live, when})
		if mode > 0 {
			dirtyMarkRisk = false
			if mode == 2 {
				unsafeCopy = false // everything was written and re-read from disk
			}
			st, db, disk, _ := m.Open(mode)
			m.Adopt(st, db, disk)
			labels[fmt.Sprintf("continue-reopened-%d", mode)] = true
		} else {
			labels["continue-after-commit"] = true
		}
		return nil
	}

	for i, op := range c.Ops {
		when := fmt.Sprintf("op %d (%s)", i, op.K)
		switch op.K {
		case "snap":
			if len(m.Live) < 8 {
				m.Snapshot(nil)
			}
		case "revert":
			if pos, ok := m.PickRevert(op.N); ok {
				if pv, _, _ := m.Revert(pos); pv != nil {
					return kit.Discarded("RevertToSnapshot panicked (subject of C09)")
				}
			}
		case "fin":
			m.Finalise()
		case "iroot":
			m.IRoot()
			if r := recheckPast(when); r != nil {
				return *r
			}
		case "commit":
			if r := commitAndCompare(when, op.M); r != nil {
				return *r
			}
			if r := checkWitnesses(when); r != nil {
				return *r
			}
		case "copy":
			// every production caller copies between transactions (miner.updateSnapshot, the
			// side-chain verifier, the pool's noncer): finish the running transaction first
			// ... except that Copy is written to cope with un-finalised changes (its first loop
			// walks the journal): with no call frame open and no self-destructed or
			// touched-empty account in the running transaction (the copy's empty journal could
			// not delete those at the next boundary - upstream behaviour) it may come first
			unfinalised := op.M&2 == 2 && len(m.Live) == 0 && m.OpsInTx > 0 && m.NoGhostAccounts()
			if unfinalised {
				labels["copy-before-finalise"] = true
			} else if m.OpsInTx > 0 || len(m.Live) > 0 {
				m.Finalise()
			}
			if m.AcctDirtySinceRoot && m.Excl[sk.ClsCopyDirtyMark] {
				m.IRoot()
				labels["excl:"+sk.ClsCopyDirtyMark] = true
			}
			atRisk := m.AcctDirtySinceRoot
			safe := m.CopySafe()
			if !safe && m.Excl[sk.ClsCopyDlgs] {
				labels["excl:"+sk.ClsCopyDlgs] = true
				continue
			}
			if m.FlushedSrec && m.Excl[sk.ClsCopyRecKeys] {
				labels["excl:"+sk.ClsCopyRecKeys] = true
				continue
			}
			keysAtRisk := m.FlushedSrec
			if m.DirtySrec {
				labels["copy-with-dirty-staking-records"] = true
			}
			orig := m.St
			var cp, twin *state.StateDB
			var pv interface{}
			func() {
				defer func() { pv = recover() }()
				cp = orig.Copy()
				twin = orig.Copy()
			}()
			if pv != nil {
				return kit.Fail("copy-panic", "%s: Copy panicked: %v", when, pv)
			}
			cp.Prepare(m.CurTx, sk.BlockHash, m.TxIdx) // the transaction context is not part of the state
			twin.Prepare(m.CurTx, sk.BlockHash, m.TxIdx)
			a := m.Observe(orig, true, true)
			b := m.Observe(cp, true, true)
			m.NoteFlush() // (the observation enumerated the staking records of both)
			if keys := sk.Diff(a, b, nil); len(keys) > 0 {
				cls := "copy-mismatch"
				if !safe {
					unsafeCopy = true
					cls = classOf(cls, b)
				}
				if keysAtRisk && len(keys) == 1 && keys[0] == "srecs" && subsetOf(b["srecs"], a["srecs"]) {
					// the records are in the copy, but ForEachStakingRecord cannot name them: the
					// key preimages stayed in the secure-key cache of the original's trie
					cls = sk.ClsCopyRecKeys
				}
				return kit.Fail(cls, "%s: the copy differs from the original at the copy point (transaction %d of the object) in %d observables:\n%s", when, m.TxInBlk, len(keys), sk.Explain(a, b, keys))
			}
			if !safe {
				unsafeCopy = true
			}
			if atRisk {
				labels["copy-before-intermediate-root"] = true
			}
			if op.M&4 == 4 {
				// both sides go on to append a (different) transaction hash to the same existing
				// staking records - what two descendants of one state do when the same
				// delegator/validator pair gets another pending transaction on each branch
				type pair struct {
					d, v common.Address
					old  []common.Hash
				}
				var pairs []pair
				for v := 0; v < sk.NVal && len(pairs) < 3; v++ {
					for d := 0; d <= sk.NDel && len(pairs) < 3; d++ {
						da := common.Address{}
						if d < sk.NDel {
							da = sk.Addrs[sk.NAcct+d]
						}
						if r := orig.GetStakingRecord(da, sk.ValAddr[v]); r != nil && len(r.TxHashes) > 0 {
							pairs = append(pairs, pair{da, sk.ValAddr[v], append([]common.Hash(nil), r.TxHashes...)})
							if cap(r.TxHashes) > len(r.TxHashes) {
								labels["record-with-spare-capacity"] = true
							}
						}
					}
				}
				if len(pairs) > 0 {
					subj, wit := cp, orig
					if op.M&1 == 1 {
						subj, wit = orig, cp
					}
					hS := common.BytesToHash([]byte{0xf1, byte(i >> 8), byte(i), 1})
					hW := common.BytesToHash([]byte{0xf1, byte(i >> 8), byte(i), 2})
					write := func(st *state.StateDB, h common.Hash) {
						for _, p := range pairs {
							st.AddStakingRecord(p.d, p.v, h, nil)
						}
					}
					if op.M&8 == 0 {
						write(subj, hS)
						write(wit, hW)
						write(twin, hW)
					} else {
						write(wit, hW)
						write(twin, hW)
						write(subj, hS)
					}
					for _, side := range []struct {
						st   *state.StateDB
						h    common.Hash
						name string
					}{{subj, hS, "the side that continues"}, {wit, hW, "the side that is kept"}, {twin, hW, "the second copy"}} {
						for _, p := range pairs {
							want := fmt.Sprintf("%x", append(append([]common.Hash(nil), p.old...), side.h))
							got := "<no record>"
							if r := side.st.GetStakingRecord(p.d, p.v); r != nil {
								got = fmt.Sprintf("%x", r.TxHashes)
							}
							if got != want {
								return kit.Fail("copy-not-independent", "%s: after the copy each side appended its own transaction hash to the staking record %x>%x (%d hashes before); %s now lists\n  %s\nexpected\n  %s", when, p.d[17:], p.v[:3], len(p.old), side.name, got, want)
							}
						}
					}
					a = m.Observe(orig, true, true)
					b = m.Observe(cp, true, true)
					m.NoteSrecWrite()
					m.NoteFlush()
					labels["both-sides-append-to-record"] = true
				}
			}
			if op.M&1 == 0 {
				wits = append(wits, witness{orig, twin, a, fmt.Sprintf("the original (copied at op %d)", i), atRisk})
				m.Adopt(cp, m.DB, m.Disk)
				dirtyMarkRisk = dirtyMarkRisk || atRisk
				labels["continue-on-copy"] = true
			} else {
				wits = append(wits, witness{cp, twin, b, fmt.Sprintf("the copy (taken at op %d)", i), atRisk})
				labels["continue-on-original"] = true
			}
			if len(wits) >= 2 {
				labels["copy-of-copy-or-sibling"] = true
			}
			checks++
		default:
			m.Exec(i, op)
		}
	}
	if r := checkWitnesses("end of history"); r != nil {
		return *r
	}
	if r := commitAndCompare("final commit", 0); r != nil {
		return *r
	}
	// the witnesses are no longer needed: commit each one and its twin copy (the twin
	// first, so that it cannot borrow nodes the other wrote) - equal states commit to the
	// same roots and read back the same
	for _, w := range wits {
		tr, tl, tre, err := commitOther(m, w.twin)
		if err != nil {
			return kit.Fail("copy-commit-error", "committing an untouched copy of %s failed: %v", w.what, err)
		}
		or, _, ore, err := commitOther(m, w.st)
		if err != nil {
			return kit.Fail("copy-commit-error", "committing %s failed: %v", w.what, err)
		}
		cls := func(keys []string) string {
			if w.atRisk && onlyAccountBlobs(keys) {
				return sk.ClsCopyDirtyMark
			}
			return "copy-commit-mismatch"
		}
		if tr != or {
			return kit.Fail("copy-commit-mismatch", "%s and an untouched copy of the same moment commit to different roots: %x vs %x", w.what, or, tr)
		}
		if keys := sk.Diff(tl, tre, sk.Persistent); len(keys) > 0 {
			return kit.Fail(cls(keys), "an untouched copy of %s was committed; reopened from its roots it differs from the committed object in %d observables:\n%s", w.what, len(keys), sk.Explain(tl, tre, keys))
		}
		if keys := sk.Diff(ore, tre, sk.Persistent); len(keys) > 0 {
			return kit.Fail(cls(keys), "%s and an untouched copy of the same moment were both committed; reopened they differ in %d observables:\n%s", w.what, len(keys), sk.Explain(ore, tre, keys))
		}
	}
	for _, l := range m.SortedLabels() {
		labels[l] = true
	}
	var ls []string
	for l := range labels {
		ls = append(ls, l)
	}
	return kit.OK((labels["delegation"] || labels["staking-record"]) && checks >= 2, ls...)
}

// compareDump: RawDump of a reopened state must walk all three tries and every
// delegation blob without failing and must report the committed roots.
func compareDump(when string, st *state.StateDB, live sk.Obs, m *sk.Machine) (res *kit.Result) {
	defer func() {
		if r := recover(); r != nil {
			x := kit.Fail("dump-panic", "%s: RawDump of the reopened state panicked: %v", when, r)
			res = &x
		}
	}()
	d := st.RawDump()
	if want := fmt.Sprintf("%x %x %x", m.Roots[0], m.Roots[1], m.Roots[2]); d.Root+" "+d.ValRoot+" "+d.StakingRoot != want {
		x := kit.Fail("dump-mismatch", "%s: RawDump roots %s %s %s, committed %s", when, d.Root, d.ValRoot, d.StakingRoot, want)
		return &x
	}
	// (which accounts and validators RawDump lists is not compared: it finds them through
	// the key preimages, which a trie copy does not carry over - upstream behaviour)
	return nil
}

var _ = kit.Register(kit.Prop[Case]{
	Name: "CommitReopenCopy",
	Rule: "histories of up to ~65 operations (account, validator [replaying the staking callers], staking records, pending relationships, staking-trie reset, passive snapshots/reverts, transaction boundaries) with random Commit and Copy points; after every Commit (+ TrieDB.Commit of the three roots, as WriteBlockWithState) Obs of the live object must equal Obs of state.New(roots) on the same database AND on a byte copy of the disk under a fresh node cache, NewVldReader with integrity check and RawDump must agree, IntermediateRoot of the untouched reopened state must equal the committed roots; at every Copy Obs(copy)==Obs(original), then one side continues and the other must keep its Obs (both directions, copies of copies); non-trivial = the history has a delegation or a staking record and at least 2 commit/copy check points; distinct = FNV-64 of the case JSON",
	Gen:  genCase, Run: runCase,
	Quick: 1800, Thorough: 20000, Chunk: 300, MinNonTrivialPct: 30,
})

// ---------------------------------------------------------------------------------
// (c) roots depend only on content

// MetaCase is one sequence of content-writing operations and two schedules for it.
type MetaCase struct {
	Atoms []sk.Op `json:"atoms"`
	// Pick[k] selects, at step k, among the atoms whose conflicting predecessors are done
	PickA []int `json:"pick_a"`
	PickB []int `json:"pick_b"`
	// Bound[k]: boundary after step k: 0 none, 1 Finalise, 2 IntermediateRoot, 3 Commit,
	// 4 Commit+reopen on the same database, 5 Commit+reopen on a disk copy
	BoundA []int `json:"bound_a"`
	BoundB []int `json:"bound_b"`
	// JunkB[i]: schedule B first writes another value where atom i sets a nonce, code or storage slot
	JunkB []bool   `json:"junk_b"`
	Excl  []string `json:"excl,omitempty"`
}

func genMetaCase(t *rapid.T) MetaCase {
	c := MetaCase{Excl: sk.CurrentExclusions()}
	c.Atoms = sk.GenContentAtoms(t, 30)
	n := len(c.Atoms)
	bound := rapid.SampledFrom([]int{0, 0, 0, 0, 0, 0, 1, 1, 2, 3, 4, 5})
	c.PickA = rapid.SliceOfN(rapid.IntRange(0, 40), n, n).Draw(t, "pickA")
	c.PickB = rapid.SliceOfN(rapid.IntRange(0, 40), n, n).Draw(t, "pickB")
	c.BoundA = rapid.SliceOfN(bound, n, n).Draw(t, "boundA")
	c.BoundB = rapid.SliceOfN(bound, n, n).Draw(t, "boundB")
	c.JunkB = rapid.SliceOfN(rapid.Bool(), n, n).Draw(t, "junkB")
	return c
}

type schedResult struct {
	order   []int
	commits int
	roots   [3]common.Hash
	obs     sk.Obs
	labels  []string
	fail    *kit.Result
}

func at(l []int, i int) int {
	if i < len(l) {
		return l[i]
	}
	return 0
}

func runSchedule(c MetaCase, name string, pick, bound []int, junk []bool) (res schedResult) {
	m := sk.NewMachine(c.Excl)
	m.ContentOnly = true
	n := len(c.Atoms)
	done := make([]bool, n)
	for step := 0; step < n; step++ {
		var ready []int
		for i := 0; i < n; i++ {
			if done[i] {
				continue
			}
			ok := true
			for j := 0; j < i; j++ {
				if !done[j] && sk.Conflict(c.Atoms[j], c.Atoms[i]) {
					ok = false
					break
				}
			}
			if ok {
				ready = append(ready, i)
			}
		}
		i := ready[at(pick, step)%len(ready)]
		done[i] = true
		res.order = append(res.order, i)
		op := c.Atoms[i]
		if i < len(junk) && junk[i] {
			switch op.K {
			case "setstate", "setcode":
				j := op
				j.N = op.N + 1
				m.Exec(i, j)
			case "setnonce":
				j := op
				j.N = op.N + 5
				m.Exec(i, j)
			}
		}
		m.Exec(i, op)
		switch b := at(bound, step); b {
		case 1:
			m.Finalise()
		case 2:
			m.IRoot()
		case 3, 4, 5:
			if err := m.Commit(); err != nil {
				r := kit.Fail("commit-error", "schedule %s: Commit failed: %v", name, err)
				res.fail = &r
				return
			}
			res.commits++
			if b > 3 {
				st, db, disk, err := m.Open(b - 3)
				if err != nil {
					r := kit.Fail("reopen-error", "schedule %s: reopening failed: %v", name, err)
					res.fail = &r
					return
				}
				m.Adopt(st, db, disk)
			}
		}
	}
	if err := m.Commit(); err != nil {
		r := kit.Fail("commit-error", "schedule %s: final Commit failed: %v", name, err)
		res.fail = &r
		return
	}
	res.commits++
	res.roots = m.Roots
	res.obs = m.Observe(m.St, true, true)
	res.labels = m.SortedLabels()
	return
}

func runMetaCase(c MetaCase) kit.Result {
	a := runSchedule(c, "A", c.PickA, c.BoundA, nil)
	if a.fail != nil {
		return *a.fail
	}
	b := runSchedule(c, "B", c.PickB, c.BoundB, c.JunkB)
	if b.fail != nil {
		return *b.fail
	}
	if a.roots != b.roots {
		keys := sk.Diff(a.obs, b.obs, sk.Persistent)
		which := []string{}
		for i, n := range []string{"state", "validator", "staking"} {
			if a.roots[i] != b.roots[i] {
				which = append(which, n)
			}
		}
		return kit.Fail("root-depends-on-schedule", "two schedules of the same writes end in different %s root(s): A=%x/%x/%x B=%x/%x/%x\norder A %v\norder B %v\n%d observables differ:\n%s",
			strings.Join(which, "+"), a.roots[0][:6], a.roots[1][:6], a.roots[2][:6], b.roots[0][:6], b.roots[1][:6], b.roots[2][:6], a.order, b.order, len(keys), sk.Explain(a.obs, b.obs, keys))
	}
	if keys := sk.Diff(a.obs, b.obs, sk.Persistent); len(keys) > 0 {
		return kit.Fail("same-root-different-content", "two schedules end in the same roots but %d observables differ:\n%s", len(keys), sk.Explain(a.obs, b.obs, keys))
	}
	reordered := fmt.Sprint(a.order) != fmt.Sprint(b.order)
	has := map[string]bool{}
	for _, l := range a.labels {
		has[l] = true
	}
	labels := append([]string{}, a.labels...)
	if reordered {
		labels = append(labels, "reordered")
	}
	if fmt.Sprint(c.BoundA) != fmt.Sprint(c.BoundB) {
		labels = append(labels, "regrouped")
	}
	return kit.OK((has["delegation"] || has["staking-record"]) && a.commits >= 2 && b.commits >= 2 && reordered, labels...)
}

var _ = kit.Register(kit.Prop[MetaCase]{
	Name: "RootsContentOnly",
	Rule: "a sequence of up to ~45 content-writing operations (accounts first given a nonce; balances, code, storage, validators, delegations, withdraw records, rewards, staking records, pending relationships) is executed twice on separate databases: two random linear extensions of the 'touches a common entity' partial order (independent writes permuted), different placement of Finalise / IntermediateRoot / Commit / reopen boundaries, and in schedule B extra intermediate values that are overwritten; the three committed roots and the persistent Obs must be equal; non-trivial = content has a delegation or staking record, both schedules have >= 2 commits and the two orders differ; distinct = FNV-64 of the case JSON",
	Gen:  genMetaCase, Run: runMetaCase,
	Quick: 1200, Thorough: 12000, Chunk: 200, MinNonTrivialPct: 40,
})
