package c20

import (
	"crypto/ecdsa"
	"fmt"
	"math/big"
	"sort"
	"strings"
	"sync"

	"github.com/youchainhq/go-youchain/common"
	"github.com/youchainhq/go-youchain/core"
	"github.com/youchainhq/go-youchain/core/state"
	"github.com/youchainhq/go-youchain/core/types"
	"github.com/youchainhq/go-youchain/crypto"
	"github.com/youchainhq/go-youchain/event"
	"github.com/youchainhq/go-youchain/params"
	"github.com/youchainhq/go-youchain/rlp"
	"github.com/youchainhq/go-youchain/staking"
	"github.com/youchainhq/go-youchain/youdb"
)

// ---------------------------------------------------------------------------------
// fixed world: four accounts, the network id, recipients

const nAcct = 4

var (
	netID    = uint64(params.NetworkIdForTestCase)
	keys     [nAcct]*ecdsa.PrivateKey
	addrs    [nAcct]common.Address
	addrIdx  = map[common.Address]int{}
	addrList []common.Address

	goodSigner types.Signer
	badSigner  types.Signer

	plainTo = common.HexToAddress("0x00000000000000000000000000000000000c2000")
)

func init() {
	params.InitNetworkId(netID)
	goodSigner = types.NewYouSigner(netID)
	badSigner = types.NewYouSigner(netID + 1)
	for i := 0; i < nAcct; i++ {
		d := make([]byte, 32)
		d[0], d[15], d[31] = 0xc2, byte(0x20+i), byte(i+1)
		k, err := crypto.ToECDSA(d)
		if err != nil {
			panic(err)
		}
		keys[i] = k
		addrs[i] = crypto.PubkeyToAddress(k.PublicKey)
		addrIdx[addrs[i]] = i
		addrList = append(addrList, addrs[i])
	}
}

// pool limits: small, so that every limit is hit by short histories
const (
	accountSlots = 4
	globalSlots  = 8
	accountQueue = 4
	globalQueue  = 8
)

var (
	balChoices      = []int64{0, 60000, 400000, 2000000, 50000000}
	creditChoices   = []int64{0, 0, 50000, 1000000}
	valueChoices    = []int64{0, 1, 1000, 150000, 1200000}
	foreignValues   = []int64{0, 1000, 300000}
	gasExtraChoices = []uint64{0, 4000, 30000, 80000}
	gasLimitChoices = []uint64{1000000, 30000, 60000, 125000, 1000000}
	priceChoices    = []int64{0, 1, 2, 3, 5, 8, 20, 1000}
)

// ---------------------------------------------------------------------------------
// transactions

const (
	toPlain   = 0
	toStaking = 1
	toCreate  = 2
)

func txData(to int, salt byte) []byte {
	switch to {
	case toStaking:
		return []byte{0x01, 0x00, salt}
	case toCreate:
		return []byte{0x60, 0x00, 0x00, salt | 1}
	}
	return nil
}

// intrinsicGas is the harness's own statement of the admission rule: the base gas of the
// message kind (plain 21000, staking module 100000, creation 53000) plus 16 per non-zero
// and 4 per zero data byte.
func intrinsicGas(to int, data []byte) uint64 {
	g := uint64(21000)
	switch to {
	case toStaking:
		g = 100000
	case toCreate:
		g = 53000
	}
	for _, b := range data {
		if b != 0 {
			g += 16
		} else {
			g += 4
		}
	}
	return g
}

type sigKey struct {
	acct int
	bad  bool
	h    common.Hash
}

// signature memo: signing is a pure function of (key, hash); the memo only saves time
var (
	sigMu   sync.Mutex
	sigMemo = map[sigKey][]byte{}
)

func signTx(acct int, bad bool, tx *types.Transaction) *types.Transaction {
	signer := goodSigner
	if bad {
		signer = badSigner
	}
	h := signer.Hash(tx)
	k := sigKey{acct, bad, h}
	sigMu.Lock()
	sig, ok := sigMemo[k]
	sigMu.Unlock()
	if !ok {
		var err error
		sig, err = crypto.Sign(h[:], keys[acct])
		if err != nil {
			panic(err)
		}
		sigMu.Lock()
		if len(sigMemo) > 300000 {
			sigMemo = map[sigKey][]byte{}
		}
		sigMemo[k] = sig
		sigMu.Unlock()
	}
	stx, err := tx.WithSignature(signer, sig)
	if err != nil {
		panic(err)
	}
	return stx
}

func makeTx(acct int, nonce uint64, to int, salt byte, gas uint64, price, value int64, bad bool) *types.Transaction {
	var raw *types.Transaction
	data := txData(to, salt)
	switch to {
	case toStaking:
		raw = types.NewTransaction(nonce, params.StakingModuleAddress, big.NewInt(value), gas, big.NewInt(price), data)
	case toCreate:
		raw = types.NewContractCreation(nonce, big.NewInt(value), gas, big.NewInt(price), data)
	default:
		raw = types.NewTransaction(nonce, plainTo, big.NewInt(value), gas, big.NewInt(price), data)
	}
	return signTx(acct, bad, raw)
}

// wireCopy returns the transaction as a peer would deliver it again: a distinct object
// decoded from its encoding (no cached sender / hash).
func wireCopy(tx *types.Transaction) *types.Transaction {
	b, err := rlp.EncodeToBytes(tx)
	if err != nil {
		panic(err)
	}
	c := new(types.Transaction)
	if err := rlp.DecodeBytes(b, c); err != nil {
		panic(err)
	}
	return c
}

// txInfo is what the harness knows about a transaction it created.
type txInfo struct {
	acct   int
	nonce  uint64
	toKind int
	bad    bool
	cost   *big.Int
	gas    uint64
	price  int64
}

// ---------------------------------------------------------------------------------
// harness chain: a block tree with a settable head; state is (nonce, balance) per account

type acctState struct {
	nonce uint64
	bal   *big.Int
}

type worldState [nAcct]acctState

func (w worldState) clone() worldState {
	var c worldState
	for i := range w {
		c[i] = acctState{w[i].nonce, new(big.Int).Set(w[i].bal)}
	}
	return c
}

type hblock struct {
	blk    *types.Block
	hdr    *types.Header
	parent *hblock
	st     worldState // state after this block
}

type hchain struct {
	mu     sync.RWMutex
	byHash map[common.Hash]*hblock
	byRoot map[common.Hash]*hblock
	head   *hblock
	seq    uint64
	feed   event.Feed
	proc   core.Processor
	sdb    state.Database
}

func newChain(genesis worldState, gasLimit uint64) *hchain {
	c := &hchain{byHash: map[common.Hash]*hblock{}, byRoot: map[common.Hash]*hblock{}}
	// the real processor with the staking module's converter registered, as the node wires it
	proc := core.NewStateProcessor(nil, nil)
	staking.NewStaking(new(event.TypeMux)).Register(proc)
	c.proc = proc
	c.sdb = state.NewDatabase(youdb.NewMemDatabase())
	c.head = c.extend(nil, nil, genesis, gasLimit)
	return c
}

// extend creates (and stores) a block on top of parent; it does not move the head.
func (c *hchain) extend(parent *hblock, txs []*types.Transaction, st worldState, gasLimit uint64) *hblock {
	c.mu.Lock()
	defer c.mu.Unlock()
	c.seq++
	h := &types.Header{
		Number:   big.NewInt(0),
		GasLimit: gasLimit,
		Time:     1600000000 + c.seq,
		Root:     crypto.Keccak256Hash([]byte("c20-state-root"), new(big.Int).SetUint64(c.seq).Bytes()),
		Subsidy:  new(big.Int), GasRewards: new(big.Int),
	}
	if parent != nil {
		h.ParentHash = parent.hdr.Hash()
		h.Number = new(big.Int).Add(parent.hdr.Number, big.NewInt(1))
	}
	blk := types.NewBlock(h, txs, nil)
	b := &hblock{blk: blk, hdr: blk.Header(), parent: parent, st: st.clone()}
	c.byHash[blk.Hash()] = b
	c.byRoot[b.hdr.Root] = b
	return b
}

func (c *hchain) setHead(b *hblock) {
	c.mu.Lock()
	c.head = b
	c.mu.Unlock()
}

func (c *hchain) Head() *hblock {
	c.mu.RLock()
	defer c.mu.RUnlock()
	return c.head
}

// blockChain interface of the pool
func (c *hchain) CurrentBlock() *types.Block { return c.Head().blk }

func (c *hchain) GetBlock(hash common.Hash, number uint64) *types.Block {
	c.mu.RLock()
	defer c.mu.RUnlock()
	if b := c.byHash[hash]; b != nil && b.hdr.Number.Uint64() == number {
		return b.blk
	}
	return nil
}

func (c *hchain) StateAt(root, valRoot, stakingRoot common.Hash) (*state.StateDB, error) {
	c.mu.RLock()
	b := c.byRoot[root]
	c.mu.RUnlock()
	if b == nil {
		return nil, fmt.Errorf("unknown state root %x", root)
	}
	// a fresh StateDB per call, as BlockChain.StateAt returns
	sdb, err := state.New(common.Hash{}, common.Hash{}, common.Hash{}, c.sdb)
	if err != nil {
		return nil, err
	}
	for i := range b.st {
		sdb.SetNonce(addrs[i], b.st[i].nonce)
		sdb.SetBalance(addrs[i], new(big.Int).Set(b.st[i].bal))
	}
	return sdb, nil
}

func (c *hchain) Processor() core.Processor { return c.proc }

func (c *hchain) SubscribeChainHeadEvent(ch chan<- core.ChainHeadEvent) event.Subscription {
	return c.feed.Subscribe(ch)
}

// ---------------------------------------------------------------------------------
// invariants

type violation struct {
	class string
	msg   string
	acct  int // account the violation is about, -1 if none
}

func vf(class, format string, args ...interface{}) *violation {
	return &violation{class, fmt.Sprintf(format, args...), -1}
}

func vfa(acct int, class, format string, args ...interface{}) *violation {
	return &violation{class, fmt.Sprintf(format, args...), acct}
}

// poolView is the data the invariant checker works on: one atomic snapshot of the pool
// plus what the harness knows independently (head state, price floor, tx registry).
type poolView struct {
	snap     *core.VerifPoolSnapshot
	st       worldState
	gasLimit uint64
	floor    int64 // gas price floor the harness last set
	known    func(common.Hash) *txInfo
	// demoted[i]: account i had transactions moved from pending to the queue since its
	// queue was last capped (see class account-queue-exceeded-after-demotion)
	bump uint64
}

type viewStats struct {
	pending, queued     int
	remotePending       int
	remoteQueued        int
	maxRemoteQueue      int
	maxRemotePending    int
	local               [nAcct]bool
	perAcctPend         [nAcct]int
	perAcctQueue        [nAcct]int
	hashes              map[common.Hash]bool // pooled hashes
	pendingHash         map[common.Hash]bool
	slot                map[[2]uint64]*types.Transaction // (acct, nonce) -> pooled tx
	remoteCount         int
	queueOverLimitAccts []int
}

func describe(txs types.Transactions) string {
	var sb strings.Builder
	sb.WriteByte('[')
	for i, tx := range txs {
		if i > 0 {
			sb.WriteByte(' ')
		}
		fmt.Fprintf(&sb, "n%d/p%s/g%d/c%s", tx.Nonce(), tx.GasPrice(), tx.Gas(), tx.Cost())
	}
	sb.WriteByte(']')
	return sb.String()
}

// checkView checks every state invariant of the property on one atomic snapshot. It returns
// all violations found (the caller attributes / filters known classes) and summary stats.
func checkView(v *poolView) ([]*violation, *viewStats) {
	var out []*violation
	s := v.snap
	vs := &viewStats{hashes: map[common.Hash]bool{}, pendingHash: map[common.Hash]bool{}, slot: map[[2]uint64]*types.Transaction{}}
	for _, a := range s.Locals {
		i, ok := addrIdx[a]
		if !ok {
			out = append(out, vf("foreign-local", "pool lists unknown account %x as local", a))
			continue
		}
		vs.local[i] = true
	}

	// --- structure: every pooled tx is filed once, under its sender, in nonce order
	scan := func(view string, m map[common.Address]types.Transactions, isPending bool) {
		var as []int
		for a := range m {
			i, ok := addrIdx[a]
			if !ok {
				out = append(out, vf("foreign-account", "%s view has a list for unknown account %x", view, a))
				continue
			}
			as = append(as, i)
		}
		sort.Ints(as)
		for _, i := range as {
			txs := m[addrs[i]]
			if len(txs) == 0 {
				out = append(out, vf("empty-list-kept", "%s view keeps an empty list for account %d", view, i))
			}
			for k, tx := range txs {
				h := tx.Hash()
				info := v.known(h)
				if info == nil {
					out = append(out, vf("invented-tx", "%s view of account %d holds tx %x that was never submitted", view, i, h))
					continue
				}
				if info.acct != i {
					out = append(out, vf("wrong-sender", "%s view files tx %x of account %d under account %d", view, h, info.acct, i))
				}
				if info.bad {
					out = append(out, vf("wrong-network-pooled", "%s view of account %d holds nonce %d signed for another network id", view, i, tx.Nonce()))
				}
				if vs.hashes[h] {
					if vs.pendingHash[h] && !isPending {
						out = append(out, vf("pending-and-queued", "account %d nonce %d (tx %x) is both pending and queued", i, tx.Nonce(), h))
					} else {
						out = append(out, vf("duplicate-entry", "%s view of account %d holds tx %x twice", view, i, h))
					}
				}
				vs.hashes[h] = true
				if isPending {
					vs.pendingHash[h] = true
				}
				if k > 0 && txs[k-1].Nonce() >= tx.Nonce() {
					out = append(out, vf("unsorted-list", "%s view of account %d is not strictly nonce-ordered: %s", view, i, describe(txs)))
				}
				key := [2]uint64{uint64(i), tx.Nonce()}
				if prev := vs.slot[key]; prev != nil && prev.Hash() != h {
					out = append(out, vf("nonce-in-both-views", "account %d nonce %d is held twice (tx %x and %x)", i, tx.Nonce(), prev.Hash(), h))
				}
				vs.slot[key] = tx
				if !vs.local[i] {
					vs.remoteCount++
					if tx.GasPrice().Cmp(big.NewInt(v.floor)) < 0 {
						out = append(out, vf("remote-below-price-floor", "%s view keeps remote tx (account %d nonce %d) priced %s below the pool's minimum %d", view, i, tx.Nonce(), tx.GasPrice(), v.floor))
					}
				}
			}
			if isPending {
				vs.perAcctPend[i] = len(txs)
				vs.pending += len(txs)
			} else {
				vs.perAcctQueue[i] = len(txs)
				vs.queued += len(txs)
			}
		}
	}
	scan("pending", s.Pending, true)
	scan("queued", s.Queued, false)

	// --- lookup index = union of the two views; price heap accounting
	inAll := map[common.Hash]bool{}
	for _, h := range s.All {
		inAll[h] = true
		if !vs.hashes[h] {
			n := "?"
			if info := v.known(h); info != nil {
				n = fmt.Sprintf("account %d nonce %d", info.acct, info.nonce)
			}
			out = append(out, vf("lookup-orphan", "lookup index holds tx %x (%s) that is neither pending nor queued", h, n))
		}
	}
	for h := range vs.hashes {
		if !inAll[h] {
			info := v.known(h)
			out = append(out, vf("lookup-missing", "tx %x (account %d nonce %d) is in a pending/queued list but not in the lookup index", h, info.acct, info.nonce))
		}
	}
	if s.PricedDistinctLive != len(s.All) {
		out = append(out, vf("priced-missing", "price heap covers %d of the %d pooled transactions", s.PricedDistinctLive, len(s.All)))
	}
	if s.Priced-s.Stales != len(s.All) {
		out = append(out, vf("priced-stale-accounting", "price heap has %d entries, %d accounted stale, but the pool holds %d transactions (heap entries really stale: %d, duplicate live entries: %d)",
			s.Priced, s.Stales, len(s.All), s.Priced-s.PricedLive, s.PricedLive-s.PricedDistinctLive))
	}

	// --- per account: pending gap-free from the state nonce and executable; queued above
	for i := 0; i < nAcct; i++ {
		a := addrs[i]
		stN, bal := v.st[i].nonce, v.st[i].bal
		p, q := s.Pending[a], s.Queued[a]
		for k, tx := range p {
			want := stN + uint64(k)
			if tx.Nonce() != want {
				class := "pending-gap"
				if k == 0 && tx.Nonce() < stN {
					class = "pending-stale-nonce"
				} else if k == 0 {
					class = "pending-gap-in-front"
				}
				out = append(out, vfa(i, class, "account %d (state nonce %d, balance %s): pending nonces are not the gap-free run from the state nonce: %s", i, stN, bal, describe(p)))
				break
			}
		}
		for _, tx := range p {
			if tx.Cost().Cmp(bal) > 0 {
				out = append(out, vf("pending-unaffordable", "account %d balance %s: pending nonce %d costs %s", i, bal, tx.Nonce(), tx.Cost()))
				break
			}
		}
		for _, tx := range p {
			if tx.Gas() > v.gasLimit {
				out = append(out, vf("pending-over-gas-limit", "account %d: pending nonce %d wants gas %d, head gas limit is %d", i, tx.Nonce(), tx.Gas(), v.gasLimit))
				break
			}
		}
		for _, tx := range q {
			if tx.Nonce() < stN {
				out = append(out, vf("queued-stale-nonce", "account %d (state nonce %d): queued %s", i, stN, describe(q)))
				break
			}
			if len(p) > 0 && tx.Nonce() <= p[len(p)-1].Nonce() {
				out = append(out, vfa(i, "queued-not-above-pending", "account %d: pending %s queued %s", i, describe(p), describe(q)))
				break
			}
		}
		if len(q) > 0 {
			// the first queued tx must not be executable right now
			first := q[0]
			next := stN + uint64(len(p))
			if first.Nonce() == next && first.Cost().Cmp(bal) <= 0 && first.Gas() <= v.gasLimit && pendingRunOK(p, stN) {
				out = append(out, vfa(i, "queued-promotable", "account %d (state nonce %d, balance %s): queued %s is executable after pending %s", i, stN, bal, describe(q), describe(p)))
			}
		}
		if got, want := s.PoolNonce[a], stN+uint64(len(p)); got != want {
			out = append(out, vfa(i, "nonce-view-mismatch", "account %d: pool nonce %d, state nonce %d + %d pending = %d (pending %s)", i, got, stN, len(p), want, describe(p)))
		}
		if s.StateNonce[a] != stN || s.StateBalance[a].Cmp(bal) != 0 {
			out = append(out, vf("state-view-mismatch", "account %d: pool works on nonce %d balance %s, head state has nonce %d balance %s", i, s.StateNonce[a], s.StateBalance[a], stN, bal))
		}
		if !vs.local[i] {
			vs.remotePending += len(p)
			vs.remoteQueued += len(q)
			if len(q) > vs.maxRemoteQueue {
				vs.maxRemoteQueue = len(q)
			}
			if len(p) > vs.maxRemotePending {
				vs.maxRemotePending = len(p)
			}
		}
	}
	if s.MaxGas != v.gasLimit {
		out = append(out, vf("state-view-mismatch", "pool works with block gas limit %d, head has %d", s.MaxGas, v.gasLimit))
	}

	// --- limits
	for i := 0; i < nAcct; i++ {
		if !vs.local[i] && vs.perAcctQueue[i] > accountQueue {
			vs.queueOverLimitAccts = append(vs.queueOverLimitAccts, i)
			out = append(out, vfa(i, "account-queue-exceeded", "remote account %d has %d queued transactions, AccountQueue is %d", i, vs.perAcctQueue[i], accountQueue))
		}
	}
	if vs.queued > globalQueue && vs.remoteQueued > 0 {
		out = append(out, vf("global-queue-exceeded", "%d transactions queued (%d of remote accounts), GlobalQueue is %d", vs.queued, vs.remoteQueued, globalQueue))
	}
	if vs.pending > globalSlots {
		for i := 0; i < nAcct; i++ {
			if !vs.local[i] && vs.perAcctPend[i] > accountSlots {
				out = append(out, vf("global-slots-exceeded", "%d transactions pending (GlobalSlots %d) while remote account %d holds %d > AccountSlots %d", vs.pending, globalSlots, i, vs.perAcctPend[i], accountSlots))
				break
			}
		}
	}
	if len(s.All) > globalSlots+globalQueue && vs.remoteCount > 1 {
		out = append(out, vf("pool-size-exceeded", "pool holds %d transactions (%d of remote accounts), limit is GlobalSlots+GlobalQueue = %d", len(s.All), vs.remoteCount, globalSlots+globalQueue))
	}
	return out, vs
}

func pendingRunOK(p types.Transactions, stN uint64) bool {
	for k, tx := range p {
		if tx.Nonce() != stN+uint64(k) {
			return false
		}
	}
	return true
}

// checkAPI compares what the exported read API reports with the atomic snapshot. Only
// meaningful while nothing mutates the pool concurrently.
func checkAPI(pool *core.TxPool, v *poolView, vs *viewStats, probe []common.Hash) []*violation {
	var out []*violation
	s := v.snap
	cp, cq := pool.Content()
	same := func(name string, got, want map[common.Address]types.Transactions) {
		if len(got) != len(want) {
			out = append(out, vf("api-view-mismatch", "%s lists %d accounts, the pool's lists hold %d", name, len(got), len(want)))
			return
		}
		for a, w := range want {
			g := got[a]
			if len(g) != len(w) {
				out = append(out, vf("api-view-mismatch", "%s of account %d: %s, pool list: %s", name, addrIdx[a], describe(g), describe(w)))
				return
			}
			for k := range w {
				if g[k].Hash() != w[k].Hash() {
					out = append(out, vf("api-view-mismatch", "%s of account %d: %s, pool list: %s", name, addrIdx[a], describe(g), describe(w)))
					return
				}
			}
		}
	}
	same("Content().pending", cp, s.Pending)
	same("Content().queued", cq, s.Queued)
	mp, err := pool.Pending()
	if err != nil {
		out = append(out, vf("pending-error", "Pending() failed: %v", err))
	}
	// what the block builder gets = what the pool reports as pending
	same("Pending()", mp, cp)
	np, nq := pool.Stats()
	if np != vs.pending || nq != vs.queued {
		out = append(out, vf("stats-mismatch", "Stats() = (%d, %d) but %d transactions are pending and %d queued", np, nq, vs.pending, vs.queued))
	}
	for i := 0; i < nAcct; i++ {
		if got := pool.Nonce(addrs[i]); got != s.PoolNonce[addrs[i]] {
			out = append(out, vf("nonce-view-mismatch", "Nonce(account %d) = %d, noncer has %d", i, got, s.PoolNonce[addrs[i]]))
		}
	}
	if len(probe) > 0 {
		sts := pool.Status(probe)
		for k, h := range probe {
			want := core.TxStatusUnknown
			if vs.pendingHash[h] {
				want = core.TxStatusPending
			} else if vs.hashes[h] {
				want = core.TxStatusQueued
			}
			if sts[k] != want {
				out = append(out, vf("status-mismatch", "Status(%x) = %d, want %d", h, sts[k], want))
			}
			if got := pool.Get(h); (got != nil) != vs.hashes[h] {
				out = append(out, vf("get-mismatch", "Get(%x) returned %v but pooled = %v", h, got != nil, vs.hashes[h]))
			}
		}
	}
	if gp := pool.GasPrice(); gp.Cmp(big.NewInt(v.floor)) != 0 {
		out = append(out, vf("gasprice-mismatch", "GasPrice() = %s after it was set to %d", gp, v.floor))
	}
	ls := pool.Locals()
	if len(ls) != len(s.Locals) {
		out = append(out, vf("api-view-mismatch", "Locals() has %d entries, account set has %d", len(ls), len(s.Locals)))
	}
	return out
}
