package c20

import (
	"fmt"
	"math/big"
	"os"
	"path/filepath"
	"sort"
	"strings"
	"sync/atomic"
	"testing"
	"time"

	"github.com/youchainhq/go-youchain/common"
	"github.com/youchainhq/go-youchain/core"
	"github.com/youchainhq/go-youchain/core/types"
	"github.com/youchainhq/go-youchain/event"
	"pgregory.net/rapid"
	"verif/kit"
)

func TestMain(m *testing.M) { kit.Main(m, "C20") }
func TestProps(t *testing.T) {
	kit.RunAll(t)
	if atomic.LoadInt64(&nBursts) > 0 {
		kit.Extra(burstSummary()) // how many concurrent-reader bursts this shard ran
	}
}

func TestReplay(t *testing.T) {
	// reproducing an overlap of concurrent readers is a matter of chance: a ReaderBurst
	// replay re-runs its schedule (fresh pool each time) until it fails, up to 60 times
	burstAttempts = 60
	kit.ReplayAll(t)
}

// ---------------------------------------------------------------------------------
// case data

// TxSpec describes one submitted transaction relative to the pool / chain state at the
// time of submission (resolved by the interpreter, so every case replays from JSON).
type TxSpec struct {
	A   int    `json:"a"`             // account 0..3
	K   string `json:"k"`             // next gap qnext state repl dup resub stale unaffordable overgas lowgas wrongnet underpriced
	Off int    `json:"off,omitempty"` // nonce offset / target index
	P   int    `json:"p,omitempty"`   // gas price 1..12, or replacement price mode
	G   int    `json:"g,omitempty"`   // gas above intrinsic: selector into gasExtraChoices
	V   int    `json:"v,omitempty"`   // value: selector into valueChoices
	To  int    `json:"to,omitempty"`  // 0 plain transfer, 1 staking module message, 2 contract creation
}

// BlockSpec describes one block built on the harness chain.
type BlockSpec struct {
	Take    []int `json:"take"`      // per account: how many of the pool's pending txs the block includes (as the miner takes them)
	Foreign []int `json:"foreign"`   // per account: txs of that account the pool never saw
	FVal    int   `json:"fval"`      // value selector of the foreign txs
	Credit  []int `json:"credit"`    // per account: incoming funds selector
	FeePct  int   `json:"fee_pct"`   // share of gas*price actually charged
	GasLim  int   `json:"gas_limit"` // 0 keep the parent's, else selector into gasLimitChoices
	Keep    int   `json:"keep"`      // reorg: bit j set = re-include discarded tx j on the new branch
}

// Op is one step of a pool history.
type Op struct {
	Kind   string      `json:"kind"` // add mine reorg addhead setprice restart evict
	Local  bool        `json:"local,omitempty"`
	Mode   int         `json:"mode,omitempty"` // add: 0 batch+sync, 1 batch async then quiesce, 2 one by one
	Txs    []TxSpec    `json:"txs,omitempty"`
	Blocks []BlockSpec `json:"blocks,omitempty"`
	Depth  int         `json:"depth,omitempty"`
	Price  int         `json:"price,omitempty"`
}

// Case is a pool configuration, a genesis state and a history.
type Case struct {
	PriceLimit  int   `json:"price_limit"`
	PriceBump   int   `json:"price_bump"`
	ConfigLocal bool  `json:"config_local"` // account 0 is configured as local from the start
	NoLocals    bool  `json:"no_locals"`
	Journal     bool  `json:"journal"`
	Evict       bool  `json:"evict"` // thorough: lifetime eviction running in the background
	Bal         []int `json:"bal"`
	Nonce0      []int `json:"nonce0"`
	GasLim      int   `json:"gas_limit"`
	Ops         []Op  `json:"ops"`
	// NoExclude is never generated; the committed replays of recorded findings set it so
	// that the interpreter does not steer around the finding they demonstrate.
	NoExclude bool `json:"no_exclude,omitempty"`
}

// ---------------------------------------------------------------------------------
// generator

var txKinds = []string{
	"next", "next", "next", "next", "next", "next", "next", "next",
	"gap", "gap", "qnext", "qnext", "qnext",
	"state", "state",
	"repl", "repl", "repl",
	"dup", "stale", "unaffordable", "overgas", "lowgas", "wrongnet", "underpriced", "resub", "resub",
}

func genTx(t *rapid.T, acct int) TxSpec {
	s := TxSpec{A: acct, K: rapid.SampledFrom(txKinds).Draw(t, "kind")}
	s.Off = rapid.IntRange(0, 7).Draw(t, "off")
	s.P = rapid.IntRange(1, 12).Draw(t, "price")
	s.G = rapid.SampledFrom([]int{0, 0, 0, 1, 2, 3}).Draw(t, "gas")
	s.V = rapid.SampledFrom([]int{0, 1, 2, 2, 3, 4}).Draw(t, "val")
	s.To = rapid.SampledFrom([]int{0, 0, 0, 0, 0, 0, 1, 2}).Draw(t, "to")
	return s
}

func genBlock(t *rapid.T, reorg bool) BlockSpec {
	b := BlockSpec{FeePct: rapid.SampledFrom([]int{100, 100, 60}).Draw(t, "fee")}
	for i := 0; i < nAcct; i++ {
		b.Take = append(b.Take, rapid.SampledFrom([]int{0, 0, 1, 2, 8}).Draw(t, "take"))
		b.Foreign = append(b.Foreign, rapid.SampledFrom([]int{0, 0, 0, 0, 1, 2}).Draw(t, "foreign"))
		b.Credit = append(b.Credit, rapid.IntRange(0, len(creditChoices)-1).Draw(t, "credit"))
	}
	b.FVal = rapid.IntRange(0, len(foreignValues)-1).Draw(t, "fval")
	b.GasLim = rapid.SampledFrom([]int{0, 0, 0, 0, 1, 2, 3, 4}).Draw(t, "gaslimit")
	if reorg {
		b.Keep = rapid.SampledFrom([]int{0, 0xffff, 0xffff, 0x5555, 0x00ff, 0xfffe, 0x0f0f}).Draw(t, "keep")
	}
	return b
}

func genCase(t *rapid.T) Case {
	c := Case{
		PriceLimit: rapid.SampledFrom([]int{1, 1, 1, 2, 5}).Draw(t, "pricelimit"),
		PriceBump:  rapid.SampledFrom([]int{10, 10, 10, 1, 50}).Draw(t, "pricebump"),
	}
	c.ConfigLocal = rapid.IntRange(0, 3).Draw(t, "cfglocal") == 0
	c.NoLocals = rapid.IntRange(0, 11).Draw(t, "nolocals") == 0
	c.Journal = !c.NoLocals && rapid.IntRange(0, 5).Draw(t, "journal") == 0
	if kit.Thorough() {
		c.Evict = rapid.IntRange(0, 7).Draw(t, "evict") == 0
	}
	for i := 0; i < nAcct; i++ {
		c.Bal = append(c.Bal, rapid.SampledFrom([]int{1, 2, 3, 3, 4, 4}).Draw(t, "bal"))
		c.Nonce0 = append(c.Nonce0, rapid.SampledFrom([]int{0, 0, 1, 5}).Draw(t, "nonce0"))
	}
	c.GasLim = rapid.SampledFrom([]int{0, 0, 0, 3, 2}).Draw(t, "gaslimit")
	kinds := []string{"add", "add", "add", "add", "add", "add", "add", "add", "add", "add", "add", "add",
		"mine", "mine", "mine", "reorg", "reorg", "setprice", "setprice", "addhead", "addhead"}
	if c.Journal {
		kinds = append(kinds, "restart")
	}
	if c.Evict {
		kinds = append(kinds, "evict", "evict")
	}
	n := rapid.IntRange(1, 40).Draw(t, "nops")
	for i := 0; i < n; i++ {
		op := Op{Kind: rapid.SampledFrom(kinds).Draw(t, "op")}
		switch op.Kind {
		case "add", "addhead":
			op.Local = rapid.IntRange(0, 3).Draw(t, "local") == 0
			op.Mode = rapid.SampledFrom([]int{0, 0, 1, 2}).Draw(t, "mode")
			ntx := rapid.SampledFrom([]int{1, 1, 2, 3, 4, 5, 6}).Draw(t, "ntx")
			// most batches come from one account (fills its slots), some are mixed
			mixed := rapid.IntRange(0, 2).Draw(t, "mixed") == 0
			acct := rapid.IntRange(0, nAcct-1).Draw(t, "acct")
			if op.Local {
				acct = rapid.SampledFrom([]int{0, 0, 0, 0, 0, 0, 0, 1}).Draw(t, "lacct")
			}
			// bursts fill one account's pending run or queue so that the limits are reached
			style := rapid.SampledFrom([]string{"", "", "", "next", "qnext"}).Draw(t, "style")
			for k := 0; k < ntx; k++ {
				a := acct
				if mixed && !op.Local && style == "" {
					a = rapid.IntRange(0, nAcct-1).Draw(t, "acct")
				}
				tx := genTx(t, a)
				if style != "" {
					tx.K = style
				}
				op.Txs = append(op.Txs, tx)
			}
			if op.Kind == "addhead" {
				op.Depth = rapid.SampledFrom([]int{0, 0, 0, 1, 2}).Draw(t, "depth")
				nb := rapid.SampledFrom([]int{1, 1, 2}).Draw(t, "nblocks")
				for k := 0; k < nb; k++ {
					op.Blocks = append(op.Blocks, genBlock(t, op.Depth > 0))
				}
			}
		case "mine":
			nb := rapid.SampledFrom([]int{1, 1, 1, 2}).Draw(t, "nblocks")
			for k := 0; k < nb; k++ {
				op.Blocks = append(op.Blocks, genBlock(t, false))
			}
		case "reorg":
			op.Depth = rapid.IntRange(1, 3).Draw(t, "depth")
			nb := rapid.IntRange(1, 3).Draw(t, "nblocks")
			for k := 0; k < nb; k++ {
				op.Blocks = append(op.Blocks, genBlock(t, true))
			}
		case "setprice":
			op.Price = rapid.IntRange(0, len(priceChoices)-1).Draw(t, "price")
		}
		c.Ops = append(c.Ops, op)
	}
	return c
}

// ---------------------------------------------------------------------------------
// interpreter

type harness struct {
	c       Case
	chain   *hchain
	pool    *core.TxPool
	cfg     core.TxPoolConfig
	known   map[common.Hash]*txInfo
	floor   int64
	evCh    chan core.NewTxsEvent
	sub     event.Subscription
	labels  map[string]bool
	nontriv bool
	salt    byte
	jdir    string
	restore func()
	events  int
	// localCand[i]: a local submission of account i was accepted, or it is configured local
	localCand [nAcct]bool
	// rejected hashes: submitted, refused, never accepted since (for Status/Get probes)
	probe []common.Hash
	// previous snapshot (after the previous op) and per-account attribution state of
	// the known class account-queue-exceeded-after-demotion
	prev               *core.VerifPoolSnapshot
	overByDemote       [nAcct]bool
	globalOverByDemote bool
	knownObserved      map[string]string // known class -> first message
	// set by a head-change op for the check that follows it: state before / after
	headOld, headNew *worldState
	headCrowded      bool // that head change reinjected transactions into a pool at its size limit
	batchSize        int
	batchAccts       [nAcct]bool
	// everPooled: hashes the pool has accepted at some time; gone: transactions that left
	// the pool (most recent last); readdPossible: a transaction re-entered the pool since
	// the price heap was last rebuilt (see class priced-duplicate-after-readd)
	// mergedBatch[i]: account i had transactions in a merged submission+reset run and its
	// queue head has been executable ever since (class queued-executable-after-merged-reset)
	mergedBatch   [nAcct]bool
	everPooled    map[common.Hash]bool
	gone          []*types.Transaction
	readdPossible bool
}

func pick64(ch []int64, i int) int64 {
	if i < 0 {
		i = -i
	}
	return ch[i%len(ch)]
}

func newHarness(c Case) *harness {
	h := &harness{c: c, known: map[common.Hash]*txInfo{}, labels: map[string]bool{}, everPooled: map[common.Hash]bool{}}
	var gen worldState
	for i := 0; i < nAcct; i++ {
		b, n := 3, 0
		if i < len(c.Bal) {
			b = c.Bal[i]
		}
		if i < len(c.Nonce0) && c.Nonce0[i] > 0 {
			n = c.Nonce0[i]
		}
		gen[i] = acctState{uint64(n), big.NewInt(pick64(balChoices, b))}
	}
	gl := gasLimitChoices[0]
	if c.GasLim > 0 {
		gl = gasLimitChoices[c.GasLim%len(gasLimitChoices)]
	}
	h.chain = newChain(gen, gl)
	h.cfg = core.TxPoolConfig{
		NoLocals:     c.NoLocals,
		Rejournal:    time.Hour,
		PriceLimit:   uint64(maxInt(c.PriceLimit, 1)),
		PriceBump:    uint64(maxInt(c.PriceBump, 1)),
		AccountSlots: accountSlots, GlobalSlots: globalSlots,
		AccountQueue: accountQueue, GlobalQueue: globalQueue,
		Lifetime: 3 * time.Hour,
	}
	if c.ConfigLocal {
		h.cfg.Locals = []common.Address{addrs[0]}
		h.localCand[0] = true
	}
	if c.Journal && !c.NoLocals {
		dir, err := os.MkdirTemp("", "c20-journal-")
		if err != nil {
			panic(err)
		}
		h.jdir = dir
		h.cfg.Journal = filepath.Join(dir, "transactions.rlp")
	}
	if c.Evict {
		h.cfg.Lifetime = time.Nanosecond
	}
	h.start()
	return h
}

func maxInt(a, b int) int {
	if a > b {
		return a
	}
	return b
}

// start creates the pool over the chain's current head. No other pool of this process is
// running at that moment, so the package-level ticker intervals can be set race-free.
func (h *harness) start() {
	if h.c.Evict {
		oe, or := core.VerifSetIntervals(time.Millisecond, 0)
		h.restore = func() { core.VerifSetIntervals(oe, or) }
	}
	h.pool = core.NewTxPool(h.cfg, h.chain)
	h.floor = int64(h.cfg.PriceLimit)
	h.evCh = make(chan core.NewTxsEvent, 256)
	h.sub = h.pool.SubscribeNewTxsEvent(h.evCh)
}

func (h *harness) stop() {
	if h.pool != nil {
		h.pool.Stop() // waits for loop() and scheduleReorgLoop() to exit
		h.sub.Unsubscribe()
		h.drain()
		h.pool = nil
		if h.restore != nil {
			h.restore()
			h.restore = nil
		}
	}
}

func (h *harness) close() {
	h.stop()
	if h.jdir != "" {
		os.RemoveAll(h.jdir)
	}
}

func (h *harness) drain() {
	for {
		select {
		case ev := <-h.evCh:
			h.events += len(ev.Txs)
		default:
			return
		}
	}
}

func (h *harness) knownTx(hash common.Hash) *txInfo { return h.known[hash] }

func (h *harness) register(tx *types.Transaction, acct, to int, bad bool) {
	hash := tx.Hash()
	if h.known[hash] == nil {
		h.known[hash] = &txInfo{acct: acct, nonce: tx.Nonce(), toKind: to, bad: bad, cost: tx.Cost(), gas: tx.Gas(), price: tx.GasPrice().Int64()}
	}
}

func (h *harness) view() *poolView {
	head := h.chain.Head()
	return &poolView{
		snap:     h.pool.VerifSnapshot(addrList),
		st:       head.st,
		gasLimit: head.hdr.GasLimit,
		floor:    h.floor,
		known:    h.knownTx,
		bump:     h.cfg.PriceBump,
	}
}

// check evaluates all invariants; it returns the first violation (nil if none) and stats.
func (h *harness) check(when string) (*kit.Result, *viewStats) {
	h.drain()
	v := h.view()
	viols, vs := checkView(v)
	if !h.c.Evict {
		viols = append(viols, checkAPI(h.pool, v, vs, h.probeSet(vs))...)
	}
	for i := 0; i < nAcct; i++ {
		if vs.local[i] && !h.localCand[i] {
			viols = append(viols, vf("spurious-local", "account %d is treated as local but no local submission of it was ever accepted", i))
		}
	}
	viols = h.attribute(viols, v.snap, vs, when)
	h.prev = v.snap
	h.headOld, h.headNew, h.headCrowded = nil, nil, false
	// labels: which limits are being touched
	if vs.pending >= globalSlots {
		h.labels["pending>=GlobalSlots"] = true
	}
	if vs.maxRemoteQueue >= accountQueue {
		h.labels["remote-queue>=AccountQueue"] = true
	}
	if vs.queued >= globalQueue {
		h.labels["queued>=GlobalQueue"] = true
	}
	if len(v.snap.All) >= globalSlots+globalQueue {
		h.labels["pool-full"] = true
	}
	if len(viols) == 0 {
		return nil, vs
	}
	// a violation outside the recorded findings is reported in preference to a recorded one
	sort.SliceStable(viols, func(i, j int) bool { return !kit.IsKnown(viols[i].class) && kit.IsKnown(viols[j].class) })
	var sb strings.Builder
	for i, x := range viols {
		if i > 0 {
			sb.WriteString("\n  also: ")
			fmt.Fprintf(&sb, "[%s] ", x.class)
		}
		sb.WriteString(x.msg)
		if i == 5 {
			break
		}
	}
	r := kit.Fail(viols[0].class, "after %s: %s", when, sb.String())
	return &r, vs
}

const (
	classQueueAfterDemotion = "account-queue-exceeded-after-demotion"
	classGapAfterReinject   = "pending-gap-after-partial-reinject"
	classPricedDup          = "priced-duplicate-after-readd"
	classNoncerLow          = "noncer-below-state-after-reset"
	classMergedStuck        = "queued-executable-after-merged-reset"
)

// attribute re-classifies violations that belong to a recorded root cause by an exact
// predicate, and (only while that root cause is listed in known_findings.json) lets the
// case continue behind it.
//
// account-queue-exceeded-after-demotion: a remote account's queue is above AccountQueue
// (or, after SetGasPrice, the whole queue above GlobalQueue), and it got there only by
// the pool moving pending transactions back to the queue (removeTx /
// demoteUnexecutables re-enqueue without applying the caps; SetGasPrice runs no
// truncation at all); it never grows by a submission while above the limit.
//
// queued-executable-after-merged-reset: when scheduleReorgLoop serves a submission's
// promotion request and a head change in ONE run, reset() first replaces the noncer by a
// fresh one (account nonce = state nonce); promoteExecutables then asks the queue for
// Ready(state nonce), which returns nothing for transactions that continue the account's
// still pending run. The queue keeps executable transactions (the documented meaning of
// the queue is "non-processable") until every older pending one is mined or the account
// submits again. Attributed only to accounts whose batch went through such a merged run
// and only while their queue head has stayed executable since.
//
// priced-duplicate-after-readd: Removed() only counts a departed transaction's heap entry
// as stale; when the same transaction (same hash) comes back - reinjected by a reorg or
// delivered again by a peer - Put() pushes a second entry and both look live. Cap/Discard
// then pop both, remove one transaction and leave the stale counter one too high (and
// Discard evicts one transaction fewer than it was asked to). Attributed only while a
// re-entry has happened since the heap was last rebuilt.
//
// noncer-below-state-after-reset: right after a head change that raised an account's nonce
// (its pending txs were mined) and reinjected transactions into a full pool, Nonce() of
// that account is below the state nonce: reset() installs a fresh noncer and then
// reinjects before demoteUnexecutables has removed the mined transactions; add() finds
// the pool full, Discard evicts one of those already-mined pending transactions and
// removeTx lowers the fresh noncer to its nonce.
//
// pending-gap-after-partial-reinject: right after a head change that lowered an account's
// nonce from o to s, its pending list starts at s but misses a nonce g with s < g < o,
// i.e. inside the range that could only come back by reinjection of the abandoned
// branch's transactions: reset() reinjected the ones below g, one at g was refused (or
// absent), promoteExecutables put the accepted ones in front of the still pending ones
// and demoteUnexecutables only looks for a gap at the very front.
func (h *harness) attribute(viols []*violation, cur *core.VerifPoolSnapshot, vs *viewStats, when string) []*violation {
	var over [nAcct]bool
	var out []*violation
	var gapAcct [nAcct]bool
	tolerate := func(x *violation) bool {
		if !kit.IsKnown(x.class) {
			return false
		}
		if h.knownObserved == nil {
			h.knownObserved = map[string]string{}
		}
		if _, ok := h.knownObserved[x.class]; !ok {
			h.knownObserved[x.class] = "after " + when + ": " + x.msg
		}
		h.labels["known:"+x.class] = true
		return true
	}
	for _, x := range viols {
		if x.class == "pending-gap" && h.headOld != nil && x.acct >= 0 {
			i := x.acct
			s, o := h.headNew[i].nonce, h.headOld[i].nonce
			p := cur.Pending[addrs[i]]
			g := s
			for _, tx := range p {
				if tx.Nonce() != g {
					break
				}
				g++
			}
			if s < o && len(p) > 0 && p[0].Nonce() == s && g > s && g < o {
				x.class = classGapAfterReinject
				x.msg += fmt.Sprintf(" (the head change lowered the account's nonce from %d to %d; nonce %d of the reinjected range is missing)", o, s, g)
				gapAcct[i] = true
			}
		}
	}
	var lowAcct [nAcct]bool
	for _, x := range viols {
		if i := x.acct; x.class == "nonce-view-mismatch" && i >= 0 && h.headOld != nil && h.headCrowded && !vs.local[i] &&
			h.headNew[i].nonce > h.headOld[i].nonce && cur.PoolNonce[addrs[i]] < h.headNew[i].nonce {
			x.class = classNoncerLow
			x.msg += fmt.Sprintf(" (the head change raised the account's nonce from %d to %d and reinjected transactions into a full pool)", h.headOld[i].nonce, h.headNew[i].nonce)
			lowAcct[i] = true
		}
	}
	// demotedOf: transactions of account i that were pending after the previous step and are queued now
	// (by nonce, not by hash: the submission whose pool-full eviction demoted a transaction
	// may replace that very transaction in the queue - a replacement does not mark the
	// account dirty, so no cap follows - and then no demoted hash is left to see. A nonce
	// that was pending cannot reach the queue of an over-limit account in any other way: a
	// fresh submission to it would have marked the account dirty and capped the queue)
	demotedOf := func(i int) int {
		n := 0
		if h.prev != nil {
			was := map[uint64]bool{}
			for _, tx := range h.prev.Pending[addrs[i]] {
				was[tx.Nonce()] = true
			}
			for _, tx := range cur.Queued[addrs[i]] {
				if was[tx.Nonce()] {
					n++
				}
			}
		}
		return n
	}
	globalOver := false
	var promotable [nAcct]bool
	// the stale counter disagrees with the heap content: the trace a duplicate heap entry leaves
	staleSkew := cur.Stales != cur.Priced-cur.PricedLive
	for _, x := range viols {
		switch x.class {
		case "nonce-view-mismatch":
			if x.acct >= 0 && gapAcct[x.acct] {
				continue // consequence of the gap on the same account
			}
		case "queued-not-above-pending":
			if x.acct >= 0 && gapAcct[x.acct] {
				continue // the pending run above the gap overlaps the queue: consequence of the gap
			}
		case "queued-promotable":
			if x.acct >= 0 && (lowAcct[x.acct] || gapAcct[x.acct]) {
				continue // consequence of the too low noncer / of the gap on the same account
			}
			if i := x.acct; i >= 0 && h.mergedBatch[i] {
				promotable[i] = true
				x.class = classMergedStuck
				x.msg += " (the account's submission was promoted by the same run that reset the pool to a new head: reset() installs a noncer at the state nonce, so Ready() ignores transactions that continue the still pending run)"
				if tolerate(x) {
					continue
				}
			}
		case "priced-stale-accounting":
			if h.readdPossible {
				x.class = classPricedDup
				x.msg += " (a transaction that had left the pool re-entered it while its old heap entry was still accounted stale)"
				if tolerate(x) {
					continue
				}
			}
		case "pool-size-exceeded":
			if h.readdPossible && staleSkew {
				x.class = classPricedDup
				x.msg += " (Discard popped two heap entries of one re-entered transaction and counted them as two evictions)"
				if tolerate(x) {
					continue
				}
			}
		case "global-queue-exceeded":
			globalOver = true
			demoted := 0
			for i := 0; i < nAcct; i++ {
				demoted += demotedOf(i)
			}
			grew := h.prev == nil || vs.queued > queuedTotal(h.prev)
			if demoted > 0 || (h.globalOverByDemote && !grew) {
				h.globalOverByDemote = true
				x.class = classQueueAfterDemotion
				x.msg += fmt.Sprintf(" (%d of them were demoted from pending by this step, which ran no queue truncation afterwards)", demoted)
				if tolerate(x) {
					continue
				}
			}
		case "account-queue-exceeded":
			i := x.acct
			over[i] = true
			demoted := demotedOf(i)
			grew := h.prev == nil || len(cur.Queued[addrs[i]]) > len(h.prev.Queued[addrs[i]])
			// (a run that contains a reset caps every queue in promoteExecutables and only
			// then demotes: whatever is above the cap after it was demoted inside that run,
			// possibly after having been promoted by the same run)
			if demoted > 0 || h.headOld != nil || (h.overByDemote[i] && !grew) {
				h.overByDemote[i] = true
				x.class = classQueueAfterDemotion
				x.msg += fmt.Sprintf(" (%d of them were demoted from pending by this step; demotion re-enqueues without applying the per-account cap)", demoted)
				if tolerate(x) {
					continue
				}
			}
		}
		out = append(out, x)
	}
	for i := range over {
		if !over[i] {
			h.overByDemote[i] = false
		}
	}
	if !globalOver {
		h.globalOverByDemote = false
	}
	for i := range promotable {
		if !promotable[i] {
			h.mergedBatch[i] = false
		}
	}
	// a re-heap rebuilds the heap from the lookup index: no duplicate can survive it
	if cur.Stales == 0 && cur.Priced == len(cur.All) {
		h.readdPossible = false
	}
	// bookkeeping for the next step: which transactions have ever been pooled, which left
	now := map[common.Hash]bool{}
	for _, m := range []map[common.Address]types.Transactions{cur.Pending, cur.Queued} {
		for _, txs := range m {
			for _, tx := range txs {
				now[tx.Hash()] = true
				h.everPooled[tx.Hash()] = true
			}
		}
	}
	if h.prev != nil {
		for i := 0; i < nAcct; i++ {
			for _, tx := range pooledOf(h.prev, i) {
				if !now[tx.Hash()] {
					h.gone = append(h.gone, tx)
				}
			}
		}
		if len(h.gone) > 24 {
			h.gone = h.gone[len(h.gone)-24:]
		}
	}
	return out
}

// probeSet: all pooled hashes plus up to 8 recently rejected ones.
func (h *harness) probeSet(vs *viewStats) []common.Hash {
	var hs []common.Hash
	for x := range vs.hashes {
		hs = append(hs, x)
	}
	sort.Slice(hs, func(i, j int) bool { return string(hs[i][:]) < string(hs[j][:]) })
	p := h.probe
	if len(p) > 8 {
		p = p[len(p)-8:]
	}
	return append(hs, p...)
}

func queuedTotal(s *core.VerifPoolSnapshot) int {
	n := 0
	for _, q := range s.Queued {
		n += len(q)
	}
	return n
}

// pooledOf lists the pooled transactions of an account (pending then queued, by nonce).
func pooledOf(s *core.VerifPoolSnapshot, acct int) types.Transactions {
	var out types.Transactions
	out = append(out, s.Pending[addrs[acct]]...)
	out = append(out, s.Queued[addrs[acct]]...)
	return out
}

type resolved struct {
	tx         *types.Transaction
	spec       TxSpec
	acct       int
	mustReject string // non-empty: a static admission rule is broken
	dupOf      bool   // exact re-delivery of a pooled transaction
}

// resolve turns a TxSpec into a concrete signed transaction against the state before the batch.
func (h *harness) resolve(spec TxSpec, snap *core.VerifPoolSnapshot, head *hblock, run, qrun *[nAcct]uint64, local bool) resolved {
	a := spec.A
	if a < 0 {
		a = -a
	}
	a %= nAcct
	st := head.st[a]
	poolN := snap.PoolNonce[addrs[a]]
	to := spec.To
	if to < 0 || to > 2 {
		to = 0
	}
	h.salt++
	data := txData(to, h.salt)
	intr := intrinsicGas(to, data)
	gas := intr + gasExtraChoices[abs(spec.G)%len(gasExtraChoices)]
	price := int64(abs(spec.P)%12 + 1)
	if price < h.floor && h.floor <= 12 && spec.K != "underpriced" {
		// keep ordinary submissions admissible after the price floor was raised
		price = h.floor + int64(abs(spec.P)%3)
	}
	value := pick64(valueChoices, spec.V)
	nonce := poolN + run[a]
	bad := false
	r := resolved{spec: spec, acct: a}
	kind := spec.K
	pooled := pooledOf(snap, a)
	if (kind == "repl" || kind == "dup") && len(pooled) == 0 {
		kind = "next"
	}
	if kind == "stale" && st.nonce == 0 {
		kind = "next"
	}
	if kind == "resub" && len(h.gone) == 0 {
		kind = "next"
	}
	switch kind {
	case "resub":
		// a peer delivers again a transaction that has left the pool (mined, evicted, dropped)
		tgt := h.gone[abs(spec.Off)%len(h.gone)]
		info := h.known[tgt.Hash()]
		r.tx = wireCopy(tgt)
		r.acct = info.acct
		r.mustReject = h.staticRule(r.tx, info, snap, head, local)
		return r
	case "next":
		run[a]++
	case "gap":
		nonce = poolN + run[a] + 1 + uint64(abs(spec.Off)%3)
	case "qnext":
		// extends the account's queue: right above its highest queued nonce, or leaving a
		// gap of one above the pending run
		nonce = poolN + 1
		if q := snap.Queued[addrs[a]]; len(q) > 0 {
			nonce = q[len(q)-1].Nonce() + 1
		}
		nonce += qrun[a]
		qrun[a]++
	case "state":
		nonce = st.nonce + uint64(abs(spec.Off)%8)
	case "repl":
		tgt := pooled[abs(spec.Off)%len(pooled)]
		nonce = tgt.Nonce()
		old := tgt.GasPrice().Int64()
		thr := old * (100 + int64(h.cfg.PriceBump))
		ceil := (thr + 99) / 100
		switch abs(spec.P) % 5 {
		case 0:
			price = maxI64(ceil, old+1) // exactly enough
		case 1:
			price = maxI64(ceil, old+1) - 1 // one short
		case 2:
			price = old // no bump
		case 3:
			price = maxI64(old-1, 0)
		default:
			price = old*2 + 1
		}
		value = tgt.Value().Int64() + 1 + int64(abs(spec.V)%2) // a different transaction for the same slot
	case "dup":
		tgt := pooled[abs(spec.Off)%len(pooled)]
		r.tx = wireCopy(tgt)
		r.dupOf = true
		return r
	case "stale":
		nonce = st.nonce - 1 - uint64(abs(spec.Off))%st.nonce
		r.mustReject = "nonce below the account's state nonce"
	case "unaffordable":
		// cost = gas*price + value = balance + 1
		v := new(big.Int).Sub(st.bal, new(big.Int).Mul(big.NewInt(int64(gas)), big.NewInt(price)))
		if v.Sign() < 0 {
			v.SetInt64(0)
		}
		value = v.Int64() + 1
		r.mustReject = "cost above the account's balance"
	case "overgas":
		gas = head.hdr.GasLimit + 1 + uint64(abs(spec.Off))
		r.mustReject = "gas above the head's block gas limit"
	case "lowgas":
		gas = intr - 1 - uint64(abs(spec.Off))
		r.mustReject = "gas below the intrinsic gas of the message kind"
	case "wrongnet":
		bad = true
		r.mustReject = "signed for another network id"
	case "underpriced":
		price = maxI64(h.floor-1-int64(abs(spec.Off)%2), 0)
	}
	tx := makeTx(a, nonce, to, h.salt, gas, price, value, bad)
	h.register(tx, a, to, bad)
	r.tx = tx
	if r.mustReject == "" {
		r.mustReject = h.staticRule(tx, h.known[tx.Hash()], snap, head, local)
	}
	return r
}

// staticRule states the admission rules that do not depend on the pool content, from the
// transaction's own fields and the head state; "" = none is broken.
func (h *harness) staticRule(tx *types.Transaction, info *txInfo, snap *core.VerifPoolSnapshot, head *hblock, local bool) string {
	a := info.acct
	st := head.st[a]
	isLocal := false
	for _, l := range snap.Locals {
		if l == addrs[a] {
			isLocal = true
		}
	}
	switch {
	case info.bad:
		return "signed for another network id"
	case tx.Gas() > head.hdr.GasLimit:
		return "gas above the head's block gas limit"
	case tx.Nonce() < st.nonce:
		return "nonce below the account's state nonce"
	case tx.Cost().Cmp(st.bal) > 0:
		return "cost above the account's balance"
	case tx.Gas() < intrinsicGas(info.toKind, tx.Data()):
		return "gas below the intrinsic gas of the message kind"
	case !local && !isLocal && tx.GasPrice().Cmp(big.NewInt(h.floor)) < 0:
		return "remote transaction priced below the pool's minimum"
	}
	return ""
}

func abs(x int) int {
	if x < 0 {
		return -x
	}
	return x
}

func maxI64(a, b int64) int64 {
	if a > b {
		return a
	}
	return b
}

func (h *harness) doAdd(op Op, when string) *kit.Result {
	head := h.chain.Head()
	before := h.pool.VerifSnapshot(addrList)
	local := op.Local
	effLocal := local && !h.c.NoLocals
	var run, qrun [nAcct]uint64
	var rs []resolved
	for _, spec := range op.Txs {
		rs = append(rs, h.resolve(spec, before, head, &run, &qrun, effLocal))
	}
	txs := make([]*types.Transaction, len(rs))
	for i := range rs {
		txs[i] = rs[i].tx
	}
	var errs []error
	switch {
	case op.Kind == "addhead":
		errs = h.mergedAddHead(op, when, txs, effLocal, before, head)
	case local:
		errs = h.pool.AddLocals(txs)
	case op.Mode == 1:
		errs = h.pool.AddRemotes(txs)
		h.pool.VerifQuiesce()
	case op.Mode == 2:
		for k, tx := range txs {
			errs = append(errs, h.pool.AddRemotesSync([]*types.Transaction{tx})[0])
			// every submission is a step of its own: all invariants hold between them
			if k+1 < len(txs) {
				if r, _ := h.check(fmt.Sprintf("%s, submission %d", when, k)); r != nil {
					return r
				}
			}
		}
	default:
		errs = h.pool.AddRemotesSync(txs)
	}
	if len(errs) != len(txs) {
		r := kit.Fail("add-result-shape", "%s: %d transactions submitted, %d results", when, len(txs), len(errs))
		return &r
	}
	after := h.pool.VerifSnapshot(addrList)
	pooledBefore := map[common.Hash]bool{}
	for _, x := range before.All {
		pooledBefore[x] = true
	}
	pooledAfter := map[common.Hash]bool{}
	for _, x := range after.All {
		pooledAfter[x] = true
	}
	acceptedHash := map[common.Hash]bool{}
	accepted := 0
	for i, r := range rs {
		// (with lifetime eviction in the background the transaction may leave the pool between
		// the snapshot and the submission)
		if h.everPooled[r.tx.Hash()] && (!pooledBefore[r.tx.Hash()] || h.c.Evict) {
			h.readdPossible = true
			h.labels["redelivery-of-departed-tx"] = true
		}
		if errs[i] == nil {
			h.everPooled[r.tx.Hash()] = true
			acceptedHash[r.tx.Hash()] = true
			accepted++
			if effLocal {
				h.localCand[r.acct] = true
			}
		}
	}
	full := len(before.All)+len(txs) > globalSlots+globalQueue
	for i, r := range rs {
		hash := r.tx.Hash()
		err := errs[i]
		if r.mustReject != "" && err == nil {
			res := kit.Fail("inadmissible-accepted", "%s: tx %d (account %d nonce %d gas %d price %s cost %s) was accepted although: %s", when, i, r.acct, r.tx.Nonce(), r.tx.Gas(), r.tx.GasPrice(), r.tx.Cost(), r.mustReject)
			return &res
		}
		if r.dupOf && pooledBefore[hash] && err == nil && len(txs) == 1 && !h.c.Evict {
			res := kit.Fail("duplicate-accepted", "%s: re-delivery of pooled tx (account %d nonce %d) was accepted as new", when, r.acct, r.tx.Nonce())
			return &res
		}
		// (a reorg served by the same run may legitimately reinject the very transaction that was refused)
		if err != nil && !pooledBefore[hash] && !acceptedHash[hash] && pooledAfter[hash] && !(op.Kind == "addhead" && op.Depth > 0) {
			res := kit.Fail("rejected-but-pooled", "%s: tx %d (account %d nonce %d) was refused (%v) but is in the pool", when, i, r.acct, r.tx.Nonce(), err)
			return &res
		}
		if err != nil && !pooledAfter[hash] {
			h.probe = append(h.probe, hash)
		}
		// replacement rule, decidable when a single tx meets an occupied slot in a pool that is not full
		// (not while lifetime eviction may remove the old transaction behind our back)
		if len(txs) == 1 && !full && r.mustReject == "" && !r.dupOf && !h.c.Evict {
			for _, old := range pooledOf(before, r.acct) {
				if old.Nonce() != r.tx.Nonce() || old.Hash() == hash {
					continue
				}
				op, np := old.GasPrice().Int64(), r.tx.GasPrice().Int64()
				need := maxI64((op*(100+int64(h.cfg.PriceBump))+99)/100, op+1)
				if np <= op && err == nil {
					res := kit.Fail("replacement-without-bump", "%s: account %d nonce %d priced %d replaced a pooled transaction priced %d (PriceBump %d%%)", when, r.acct, r.tx.Nonce(), np, op, h.cfg.PriceBump)
					return &res
				}
				if np >= need && err != nil {
					res := kit.Fail("replacement-refused", "%s: account %d nonce %d priced %d (>= %d) was refused as replacement of one priced %d: %v", when, r.acct, r.tx.Nonce(), np, need, op, err)
					return &res
				}
				if err == nil {
					h.labels["replace-accepted"] = true
					if pooledAfter[old.Hash()] {
						res := kit.Fail("replaced-still-pooled", "%s: account %d nonce %d was replaced but the old transaction is still pooled", when, r.acct, r.tx.Nonce())
						return &res
					}
				} else {
					h.labels["replace-refused"] = true
				}
			}
		}
		if r.mustReject != "" {
			h.labels["inadmissible:"+r.spec.K] = true
		}
	}
	// eviction by a limit: an accepted or previously pooled transaction is gone although
	// nothing replaced it
	slots := map[[2]uint64]bool{}
	for i := 0; i < nAcct; i++ {
		for _, tx := range pooledOf(after, i) {
			slots[[2]uint64{uint64(i), tx.Nonce()}] = true
		}
	}
	for i := 0; i < nAcct; i++ {
		for _, tx := range pooledOf(before, i) {
			if !slots[[2]uint64{uint64(i), tx.Nonce()}] {
				h.labels["evicted-by-limit"] = true
				h.nontriv = true
			}
		}
	}
	for i, r := range rs {
		if errs[i] == nil && !slots[[2]uint64{uint64(r.acct), r.tx.Nonce()}] {
			h.labels["evicted-by-limit"] = true
			h.nontriv = true
		}
	}
	return nil
}

// mergedAddHead submits txs and changes the head so that one pool run serves both (see
// VerifMergedRun). While the finding this provokes is recorded, the risky shape is executed
// as two separate runs instead (submission, then head change).
func (h *harness) mergedAddHead(op Op, when string, txs []*types.Transaction, effLocal bool, before *core.VerifPoolSnapshot, head *hblock) []error {
	var errs []error
	plain := func() []error {
		if op.Local {
			return h.pool.AddLocals(txs)
		}
		return h.pool.AddRemotesSync(txs)
	}
	merged := func(o, n *types.Header) {
		tip := h.chain.Head()
		if !h.c.NoExclude && kit.IsKnown(classMergedStuck) {
			// excluded by construction: an account of the batch keeps pending transactions across the head change
			for _, tx := range txs {
				info := h.known[tx.Hash()]
				if info == nil {
					continue
				}
				for _, p := range before.Pending[addrs[info.acct]] {
					if p.Nonce() >= tip.st[info.acct].nonce {
						h.labels["excluded:"+classMergedStuck] = true
						errs = plain()
						h.pool.VerifResetSync(o, n)
						return
					}
				}
			}
		}
		errs = h.pool.VerifMergedRun(txs, effLocal, o, n)
		h.labels["merged-add+reset-run"] = true
		for _, tx := range txs {
			if info := h.known[tx.Hash()]; info != nil {
				h.mergedBatch[info.acct] = true
			}
		}
	}
	h.batchSize = len(txs)
	for _, tx := range txs {
		if info := h.known[tx.Hash()]; info != nil {
			h.batchAccts[info.acct] = true
		}
	}
	moved := h.doHead(op, when, merged)
	h.batchSize, h.batchAccts = 0, [nAcct]bool{}
	if moved {
		return errs
	}
	// the head change itself was excluded (recorded findings) or did not move the head
	return plain()
}

// buildBlock builds one block on parent following spec. discarded: transactions of the
// abandoned branch that the new branch may include again (reorg only).
func (h *harness) buildBlock(parent *hblock, spec BlockSpec, pend map[common.Address]types.Transactions, discarded []*types.Transaction, used map[common.Hash]bool) *hblock {
	st := parent.st.clone()
	gl := parent.hdr.GasLimit
	if spec.GasLim > 0 {
		gl = gasLimitChoices[spec.GasLim%len(gasLimitChoices)]
	}
	fee := spec.FeePct
	if fee < 1 || fee > 100 {
		fee = 100
	}
	var txs []*types.Transaction
	gasSum := uint64(0)
	include := func(a int, tx *types.Transaction) bool {
		if used[tx.Hash()] || tx.Nonce() != st[a].nonce || tx.Cost().Cmp(st[a].bal) > 0 || tx.Gas() > gl || gasSum+tx.Gas() > gl {
			return false
		}
		used[tx.Hash()] = true
		gasSum += tx.Gas()
		charge := new(big.Int).Mul(tx.GasPrice(), new(big.Int).SetUint64(tx.Gas()*uint64(fee)/100))
		charge.Add(charge, tx.Value())
		st[a].bal.Sub(st[a].bal, charge)
		st[a].nonce++
		txs = append(txs, tx)
		return true
	}
	// transactions of the abandoned branch that made it into the new one
	for j, tx := range discarded {
		if spec.Keep&(1<<uint(j%16)) != 0 {
			if info := h.known[tx.Hash()]; info != nil {
				include(info.acct, tx)
			}
		}
	}
	for a := 0; a < nAcct; a++ {
		take, foreign := 0, 0
		if a < len(spec.Take) {
			take = spec.Take[a]
		}
		if a < len(spec.Foreign) {
			foreign = spec.Foreign[a]
		}
		list := pend[addrs[a]]
		for k := 0; k < take && len(list) > 0; k++ {
			if !include(a, list[0]) {
				break
			}
			list = list[1:]
		}
		pend[addrs[a]] = list
		for f := 0; f < foreign; f++ {
			h.salt++
			ftx := makeTx(a, st[a].nonce, toPlain, h.salt, 21000, 1+int64(h.salt%3), pick64(foreignValues, spec.FVal)+int64(h.salt), false)
			h.register(ftx, a, toPlain, false)
			if include(a, ftx) {
				h.labels["foreign-tx-mined"] = true
			}
		}
	}
	for a := 0; a < nAcct && a < len(spec.Credit); a++ {
		st[a].bal.Add(st[a].bal, big.NewInt(pick64(creditChoices, spec.Credit[a])))
	}
	return h.chain.extend(parent, txs, st, gl)
}

// doHead builds the new branch and makes it the head; reset tells the pool (by default as
// loop() does for a ChainHeadEvent, waiting for the run). It reports whether the head moved.
func (h *harness) doHead(op Op, when string, reset func(oldHead, newHead *types.Header)) bool {
	old := h.chain.Head()
	before := h.pool.VerifSnapshot(addrList)
	parent := old
	var discarded []*types.Transaction
	if op.Depth > 0 {
		for d := 0; d < op.Depth && parent.parent != nil; d++ {
			discarded = append(append([]*types.Transaction{}, parent.blk.Transactions()...), discarded...)
			parent = parent.parent
		}
		if parent != old {
			h.labels["reorg"] = true
		}
	}
	pend, _ := h.pool.Pending() // as the block builder fetches them
	used := map[common.Hash]bool{}
	tip := parent
	blocks := op.Blocks
	if len(blocks) == 0 {
		blocks = []BlockSpec{{}}
	}
	for _, bs := range blocks {
		tip = h.buildBlock(tip, bs, pend, discarded, used)
	}
	if !h.c.NoExclude && kit.IsKnown(classGapAfterReinject) && h.partialReinjectRisk(before, old, tip, discarded, used) {
		// recorded finding: excluded by construction (the branch is built but never becomes the head)
		h.labels["excluded:"+classGapAfterReinject] = true
		return false
	}
	reinjected := 0
	for _, tx := range discarded {
		if !used[tx.Hash()] {
			reinjected++
		}
	}
	// (h.batchSize: transactions submitted in the same run, see mergedAddHead)
	crowded := reinjected > 0 && len(before.All)+h.batchSize+reinjected >= globalSlots+globalQueue
	if !h.c.NoExclude && kit.IsKnown(classNoncerLow) && crowded {
		// recorded finding, excluded by construction: no reinjection into a full pool while a
		// remote account holds pending transactions that the new branch has mined
		isLocal := map[common.Address]bool{}
		for _, l := range before.Locals {
			isLocal[l] = true
		}
		for i := 0; i < nAcct; i++ {
			if p := before.Pending[addrs[i]]; !isLocal[addrs[i]] && len(p) > 0 && tip.st[i].nonce > p[0].Nonce() {
				h.labels["excluded:"+classNoncerLow] = true
				return false
			}
		}
	}
	for _, tx := range discarded {
		if !used[tx.Hash()] {
			if h.everPooled[tx.Hash()] {
				h.readdPossible = true
			}
			h.everPooled[tx.Hash()] = true
		}
	}
	h.headCrowded = crowded
	h.chain.setHead(tip)
	if reset == nil {
		// the pool learns about the new head exactly as loop() handles a ChainHeadEvent
		reset = h.pool.VerifResetSync
	}
	reset(old.hdr, tip.hdr)
	os, ns := old.st.clone(), tip.st.clone()
	h.headOld, h.headNew = &os, &ns

	// classify
	for i := 0; i < nAcct; i++ {
		holds := len(before.Pending[addrs[i]])+len(before.Queued[addrs[i]]) > 0
		if !holds {
			continue
		}
		if tip.st[i].nonce < old.st[i].nonce {
			h.labels["reset-lowers-nonce"] = true
			h.nontriv = true
		}
		if tip.st[i].bal.Cmp(old.st[i].bal) < 0 {
			h.labels["reset-lowers-balance"] = true
			h.nontriv = true
		}
		if tip.st[i].nonce > old.st[i].nonce {
			h.labels["reset-raises-nonce"] = true
		}
	}
	if tip.hdr.GasLimit < old.hdr.GasLimit && len(before.All) > 0 {
		h.labels["reset-lowers-gaslimit"] = true
	}
	if len(discarded) > 0 {
		n := 0
		for _, tx := range discarded {
			if !used[tx.Hash()] {
				n++
			}
		}
		if n > 0 {
			h.labels["reorg-reinjects"] = true
		}
	}
	return true
}

// partialReinjectRisk predicts (conservatively) the trigger of the recorded finding
// pending-gap-after-partial-reinject: the head change lowers an account's nonce from o to
// s, the account still has pending transactions, and the transactions reset() will
// reinject do not admissibly cover every nonce s..o-1.
func (h *harness) partialReinjectRisk(before *core.VerifPoolSnapshot, old, tip *hblock, discarded []*types.Transaction, used map[common.Hash]bool) bool {
	isLocal := map[common.Address]bool{}
	for _, l := range before.Locals {
		isLocal[l] = true
	}
	re := 0
	for _, tx := range discarded {
		if !used[tx.Hash()] {
			re++
		}
	}
	crowded := len(before.All)+h.batchSize+re >= globalSlots+globalQueue
	for i := 0; i < nAcct; i++ {
		s, o := tip.st[i].nonce, old.st[i].nonce
		// (h.batchAccts: the account submits in the same run; what it submits may be promoted
		// by that run and then plays the part of the old pending run)
		if s >= o || (len(before.Pending[addrs[i]]) == 0 && !h.batchAccts[i]) {
			continue
		}
		if crowded {
			return true
		}
		ok := map[uint64]bool{}
		for _, tx := range discarded {
			info := h.known[tx.Hash()]
			if used[tx.Hash()] || info == nil || info.acct != i {
				continue
			}
			if tx.Nonce() < s || tx.Cost().Cmp(tip.st[i].bal) > 0 || tx.Gas() > tip.hdr.GasLimit {
				continue
			}
			if !isLocal[addrs[i]] && tx.GasPrice().Cmp(big.NewInt(h.floor)) < 0 {
				continue
			}
			ok[tx.Nonce()] = true
		}
		// nothing admissible at s: nothing is promoted in front of the old pending run and
		// demoteUnexecutables' gap-in-front branch handles it
		for n := s; ok[s] && n < o; n++ {
			if !ok[n] {
				return true
			}
		}
	}
	return false
}

func (h *harness) apply(i int, op Op) *kit.Result {
	when := fmt.Sprintf("op %d (%s)", i, op.Kind)
	switch op.Kind {
	case "add":
		if r := h.doAdd(op, when); r != nil {
			return r
		}
	case "mine", "reorg":
		h.doHead(op, when, nil)
	case "addhead":
		// a submission whose promotion request is served by the same run as a head change
		if r := h.doAdd(op, when); r != nil {
			return r
		}
	case "setprice":
		p := pick64(priceChoices, op.Price)
		h.pool.SetGasPrice(big.NewInt(p))
		h.floor = p
		h.labels["setprice"] = true
	case "restart":
		if h.jdir == "" {
			return nil
		}
		h.stop()
		h.start()
		h.prev, h.readdPossible, h.everPooled = nil, false, map[common.Hash]bool{}
		h.overByDemote, h.globalOverByDemote = [nAcct]bool{}, false
		h.labels["restart-with-journal"] = true
	case "evict":
		if !h.c.Evict {
			return nil
		}
		// lifetime eviction runs on the pool's own ticker; wait (bounded) until it has
		// visibly passed: no remote account has queued transactions left
		ok := false
		for k := 0; k < 20000 && !ok; k++ {
			s := h.pool.VerifSnapshot(addrList)
			isLocal := map[common.Address]bool{}
			for _, l := range s.Locals {
				isLocal[l] = true
			}
			ok = true
			for a, q := range s.Queued {
				if !isLocal[a] && len(q) > 0 {
					ok = false
				}
			}
			if !ok {
				time.Sleep(250 * time.Microsecond)
			}
		}
		if !ok {
			r := kit.Discarded("eviction did not run within 5s")
			return &r
		}
		h.labels["lifetime-eviction"] = true
	default:
		return nil
	}
	r, _ := h.check(when)
	if traceOn {
		h.trace(when)
	}
	return r
}

var traceOn = os.Getenv("C20_TRACE") != ""

// trace prints the pool's views after an op (debugging aid for replays: C20_TRACE=1).
func (h *harness) trace(when string) {
	s := h.pool.VerifSnapshot(addrList)
	head := h.chain.Head()
	fmt.Fprintf(os.Stderr, "== %s  head #%d gaslimit %d floor %d  all=%d priced=%d stales=%d locals=%d\n", when, head.hdr.Number, head.hdr.GasLimit, h.floor, len(s.All), s.Priced, s.Stales, len(s.Locals))
	for i := 0; i < nAcct; i++ {
		fmt.Fprintf(os.Stderr, "   acct %d state(n=%d bal=%s) poolnonce=%d pending %s queued %s\n", i, head.st[i].nonce, head.st[i].bal, s.PoolNonce[addrs[i]], describe(s.Pending[addrs[i]]), describe(s.Queued[addrs[i]]))
	}
}

func runCase(c Case) kit.Result {
	h := newHarness(c)
	defer h.close()
	if r, _ := h.check("pool start"); r != nil {
		return *r
	}
	for i, op := range c.Ops {
		if r := h.apply(i, op); r != nil {
			return *r
		}
	}
	var ls []string
	for l := range h.labels {
		ls = append(ls, l)
	}
	if c.Journal {
		ls = append(ls, "journal")
	}
	if c.NoLocals {
		ls = append(ls, "nolocals")
	}
	if h.events > 0 {
		ls = append(ls, "txs-announced")
	}
	sort.Strings(ls)
	// a recorded finding was observed (and tolerated so that the search could continue
	// behind it): report it under its class; the kit counts it as a known hit
	if len(h.knownObserved) > 0 {
		var cs []string
		for c := range h.knownObserved {
			cs = append(cs, c)
		}
		sort.Strings(cs)
		r := kit.Fail(cs[0], "%s", h.knownObserved[cs[0]])
		r.Labels = ls
		return r
	}
	return kit.OK(h.nontriv, ls...)
}

var _ = kit.Register(kit.Prop[Case]{
	Name: "PoolHistory",
	Rule: "histories of 1-40 ops over 4 accounts (<=2 local) on a pool with AccountSlots 4 / GlobalSlots 8 / AccountQueue 4 / GlobalQueue 8: local/remote batches (sync, async, one by one) of next-nonce, gapped, state-relative, replacing (exact bump / one short / equal / lower / double), re-delivered, stale, unaffordable, over-gas-limit, under-intrinsic, wrong-network and underpriced transactions (plain, staking-module and creation messages); head changes on a harness block tree (blocks mined from the pool's Pending() plus foreign txs and credits; reorgs of depth 1-3 onto branches that re-include some, all or none of the discarded txs; gas-limit changes); SetGasPrice; journal restarts; (thorough) lifetime eviction. All invariants are checked after every op on an atomic snapshot and against the exported read API. non-trivial = a head change lowered the nonce or balance of an account that had pooled transactions, or a pooled/accepted transaction was evicted by a limit; distinct = FNV-64 of the case JSON",
	Gen:  genCase, Run: runCase,
	Quick: 1500, Thorough: 20000, Chunk: 250, MinNonTrivialPct: 25,
	ThoroughBudgetS: 560,
})
