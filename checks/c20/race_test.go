package c20

import (
	"encoding/json"
	"fmt"
	"math/big"
	"os"
	"path/filepath"
	"sort"
	"strconv"
	"sync"
	"sync/atomic"
	"testing"
	"time"

	"github.com/youchainhq/go-youchain/common"
	"github.com/youchainhq/go-youchain/core"
	"github.com/youchainhq/go-youchain/core/types"
	"verif/kit"
)

// TestRaceStress hammers one pool from 8 goroutines (three remote submitters, one local
// submitter, one head changer, one re-pricer, two readers) while the pool's own tickers
// (lifetime eviction, stats report, journal rotation) run at millisecond intervals. The
// binary is built with -race by the driver (thorough tier); a detector report fails the
// run through GORACE, an invariant failure prints RACE-VIOLATION.
//
// The operation streams are seeded from VERIF_SEED, the interleaving is whatever the Go
// scheduler produces. Invariants are checked (a) by the readers on atomic snapshots while
// everything runs - only what must hold whenever the pool lock is free, judged against the
// pool's own view of the head state - and (b) fully, against the harness chain's head, at
// the quiescent point after every round.
func TestRaceStress(t *testing.T) {
	if !kit.Thorough() && os.Getenv("VERIF_RACE") == "" {
		t.Skip("race stress runs in the thorough tier (or with VERIF_RACE=1)")
	}
	epochs := envInt("VERIF_RACE_EPOCHS", 12)
	rounds := envInt("VERIF_RACE_ROUNDS", 120)
	s := &stress{t: t, seed: kit.Seed(), tolerated: map[string]int{}}
	for e := 0; e < epochs && !s.failed(); e++ {
		s.epoch(e, rounds)
	}
	// the ReaderBurst schedules (long lists, nothing else running) in this -race build
	schedules := envInt("VERIF_RACE_BURST_SCHEDULES", 150)
	brng := &prng{x: s.seed*0x9e3779b97f4a7c15 ^ 0xb0457}
	for k := 0; k < schedules && !s.failed(); k++ {
		c := genBurstCasePRNG(brng)
		if res := runBurstCase(c); res.Violation != nil {
			s.failBurst(c, res.Violation)
		}
	}
	st := map[string]interface{}{
		"seed": s.seed, "epochs": epochs, "rounds_per_epoch": rounds, "goroutines": 8,
		"submit_calls": s.nSubmit, "txs_submitted": s.nTx, "txs_accepted": s.nAccepted,
		"head_changes": s.nHeads, "reorgs": s.nReorgs, "reinjecting_reorgs": s.nReinject,
		"setgasprice": s.nPrice, "reads": s.nReads,
		"midflight_snapshots_checked": s.nMid, "quiescent_checks": s.nQuiet,
		"max_pooled": s.maxPooled, "stops_under_load": s.nStops,
		"known_findings_tolerated": s.tolerated,
		"reader_bursts":            atomic.LoadInt64(&nBursts), "concurrent_reads_in_bursts": atomic.LoadInt64(&nConcurrentReads),
		"reader_burst_schedules": atomic.LoadInt64(&nBurstCases),
	}
	b, _ := json.Marshal(st)
	fmt.Printf("RACE-STATS %s\n", b)
	if s.failed() {
		t.Fatalf("invariant violated under concurrency: %s", s.failMsg)
	}
}

func envInt(name string, def int) int {
	if v := os.Getenv(name); v != "" {
		if n, err := strconv.Atoi(v); err == nil && n > 0 {
			return n
		}
	}
	return def
}

// prng: splitmix64, one independent stream per goroutine (no math/rand, no clock)
type prng struct{ x uint64 }

func (p *prng) next() uint64 {
	p.x += 0x9e3779b97f4a7c15
	z := p.x
	z = (z ^ (z >> 30)) * 0xbf58476d1ce4e5b9
	z = (z ^ (z >> 27)) * 0x94d049bb133111eb
	return z ^ (z >> 31)
}
func (p *prng) intn(n int) int { return int(p.next() % uint64(n)) }

type stress struct {
	t    *testing.T
	seed uint64

	nSubmit, nTx, nAccepted, nHeads, nReorgs, nReinject, nPrice, nReads, nMid, nQuiet, nStops int64
	maxPooled                                                                                 int64

	mu        sync.Mutex
	tolerated map[string]int
	failMsg   string
	failFlag  int32
}

func (s *stress) failed() bool { return atomic.LoadInt32(&s.failFlag) != 0 }

// epochWorld is one pool + chain + shared registries.
type epochWorld struct {
	s     *stress
	e     int
	chain *hchain
	pool  *core.TxPool
	cfg   core.TxPoolConfig

	kmu   sync.RWMutex
	known map[common.Hash]*txInfo
	gone  []*types.Transaction // recently mined / dropped transactions (for re-delivery)
	salt  uint32

	floor int64 // last price set (atomic)

	// tolerance preconditions of recorded findings (see attribute() in check_test.go; under
	// concurrency the exact step-by-step predicates are not observable, so the preconditions
	// are per epoch / per account)
	reinject     int32        // a reorg reinjected transactions in this epoch
	readd        int32        // a departed transaction may have re-entered the pool
	nonceLowered [nAcct]int32 // a reorg lowered this account's nonce in this epoch
	localCand    [nAcct]int32
}

func (w *epochWorld) knownTx(h common.Hash) *txInfo {
	w.kmu.RLock()
	defer w.kmu.RUnlock()
	return w.known[h]
}

func (w *epochWorld) register(tx *types.Transaction, acct, to int, bad bool) {
	w.kmu.Lock()
	if w.known[tx.Hash()] == nil {
		w.known[tx.Hash()] = &txInfo{acct: acct, nonce: tx.Nonce(), toKind: to, bad: bad, cost: tx.Cost(), gas: tx.Gas(), price: tx.GasPrice().Int64()}
	}
	w.kmu.Unlock()
}

func (w *epochWorld) nextSalt() byte { return byte(atomic.AddUint32(&w.salt, 1)) }

func (s *stress) epoch(e, rounds int) {
	// epoch flavours: journal on/off, background eviction fast/off
	journal := e%2 == 0
	evict := e%3 != 2
	var gen worldState
	for i := range gen {
		gen[i] = acctState{uint64(e % 3), big.NewInt(2000000000)}
	}
	w := &epochWorld{s: s, e: e, known: map[common.Hash]*txInfo{}}
	w.chain = newChain(gen, 1000000)
	w.cfg = core.TxPoolConfig{
		Rejournal: time.Hour, PriceLimit: 1, PriceBump: 10,
		AccountSlots: accountSlots, GlobalSlots: globalSlots, AccountQueue: accountQueue, GlobalQueue: globalQueue,
		Lifetime: 3 * time.Hour,
	}
	var jdir string
	if journal {
		jdir, _ = os.MkdirTemp("", "c20-stress-journal-")
		w.cfg.Journal = filepath.Join(jdir, "transactions.rlp")
		w.cfg.Rejournal = 9 * time.Millisecond
		defer os.RemoveAll(jdir)
	}
	if e%4 == 1 {
		w.cfg.Locals = []common.Address{addrs[0]}
		w.localCand[0] = 1
	}
	if evict {
		w.cfg.Lifetime = 20 * time.Millisecond
	}
	// no pool is running here: the package-level ticker intervals can be set without a race
	oe, or := core.VerifSetIntervals(5*time.Millisecond, 7*time.Millisecond)
	w.pool = core.NewTxPool(w.cfg, w.chain)
	w.floor = 1
	evCh := make(chan core.NewTxsEvent, 64)
	sub := w.pool.SubscribeNewTxsEvent(evCh)
	consumerDone := make(chan struct{})
	go func() { // the miner / protocol manager side: consume announcements
		defer close(consumerDone)
		for {
			select {
			case <-evCh:
			case <-sub.Err():
				return
			}
		}
	}()
	stopped := false
	defer func() {
		if !stopped {
			w.pool.Stop()
		}
		<-consumerDone
		core.VerifSetIntervals(oe, or)
	}()

	for r := 0; r < rounds && !s.failed(); r++ {
		last := r == rounds-1
		var wg sync.WaitGroup
		for g := 0; g < 8; g++ {
			wg.Add(1)
			rng := &prng{x: s.seed*0x100000001b3 ^ uint64(e)<<40 ^ uint64(r)<<16 ^ uint64(g+1)*0x9e37}
			go func(g int, rng *prng) {
				defer wg.Done()
				defer func() {
					if p := recover(); p != nil {
						s.fail(w, r, "panic", fmt.Sprintf("goroutine %d panicked: %v", g, p), nil)
					}
				}()
				switch {
				case g < 3:
					w.submitter(rng, false, 10)
				case g == 3:
					w.submitter(rng, true, 3)
				case g == 4:
					w.headChanger(rng, 3)
				case g == 5:
					w.repricer(rng, 3)
				default:
					w.reader(rng, r, 8)
				}
			}(g, rng)
		}
		if last && e%2 == 1 {
			// node shutdown while everything is still running
			w.pool.Stop()
			stopped = true
			atomic.AddInt64(&s.nStops, 1)
		}
		wg.Wait()
		if stopped {
			break
		}
		// quiescence: every goroutine has returned; wait for all filed reset/promotion requests
		w.pool.VerifQuiesce()
		w.quietCheck(r)
		if !s.failed() {
			w.readerBurstPhase(r)
		}
	}
}

// readerBurstPhase: quietCheck's snapshot has just warmed every Flatten cache; make them
// cold again (gapped submissions to every account, now and then a re-pricing, neither
// followed by anything that flattens the lists) and let 8 readers call Content() /
// Pending() / Stats() at the same moment - concurrently with each other, with no writer.
// Each view is judged by itself here (per account strictly ascending, no duplicate, no nil):
// the 5 ms eviction ticker of these epochs may remove queued transactions between two reads
// (also in the epochs with a long Lifetime: an account that never had a pending transaction
// has no heartbeat and counts as idle since the epoch). The exact comparison with the
// lists' own maps is done by the ReaderBurst schedules that follow the epochs.
func (w *epochWorld) readerBurstPhase(round int) {
	rng := &prng{x: w.s.seed ^ uint64(w.e)<<32 ^ uint64(round)<<8 ^ 0xb0457}
	snap := w.pool.VerifSnapshot(addrList)
	var txs []*types.Transaction
	for a := 0; a < nAcct; a++ {
		nonce := snap.PoolNonce[addrs[a]] + 1
		if q := snap.Queued[addrs[a]]; len(q) > 0 {
			nonce = q[len(q)-1].Nonce() + 1
		}
		for k := 0; k <= rng.intn(2); k++ {
			tx := makeTx(a, nonce+uint64(k), toPlain, w.nextSalt(), 21000, 12, 3, false)
			w.register(tx, a, toPlain, false)
			txs = append(txs, tx)
		}
	}
	w.pool.AddRemotesSync(txs)
	if rng.intn(3) == 0 {
		p := pick64(priceChoices, 1+rng.intn(5))
		w.pool.SetGasPrice(big.NewInt(p))
		atomic.StoreInt64(&w.floor, p)
	}
	views := readerBurst(w.pool, 8, rng.intn(4))
	if class, msg := judgeBurst(w.pool, views, false); class != "" {
		w.s.fail(w, round, class, "reader burst after the round: "+msg, nil)
	}
}

// submitter sends batches the way peers (remote) or the RPC (local) do.
func (w *epochWorld) submitter(rng *prng, local bool, n int) {
	s := w.s
	for k := 0; k < n && !s.failed(); k++ {
		snap := w.pool.VerifSnapshot(addrList)
		head := w.chain.Head()
		a := rng.intn(nAcct)
		if local {
			a = 0
			if rng.intn(16) == 0 {
				a = 1
			}
		}
		ntx := 1 + rng.intn(4)
		style := rng.intn(5)
		var txs []*types.Transaction
		var run, qrun uint64
		for j := 0; j < ntx; j++ {
			if style == 0 && !local {
				a = rng.intn(nAcct)
			}
			poolN := snap.PoolNonce[addrs[a]]
			nonce := poolN + run
			price := int64(1 + rng.intn(12))
			gas := uint64(21000) + gasExtraChoices[rng.intn(2)]
			value := int64(rng.intn(3))
			bad := false
			kind := rng.intn(16)
			if style == 3 {
				kind = 0
			} else if style == 4 {
				kind = 8
			}
			pooled := pooledOf(snap, a)
			switch {
			case kind <= 7: // next
				run++
			case kind <= 9: // extend the queue
				nonce = poolN + 1
				if q := snap.Queued[addrs[a]]; len(q) > 0 {
					nonce = q[len(q)-1].Nonce() + 1
				}
				nonce += qrun
				qrun++
			case kind == 10: // gap
				nonce = poolN + run + 1 + uint64(rng.intn(3))
			case kind == 11 && len(pooled) > 0: // replacement with enough bump
				tgt := pooled[rng.intn(len(pooled))]
				nonce, price, value = tgt.Nonce(), tgt.GasPrice().Int64()*2+1, tgt.Value().Int64()+1
			case kind == 12 && len(pooled) > 0: // replacement without bump
				tgt := pooled[rng.intn(len(pooled))]
				nonce, price, value = tgt.Nonce(), tgt.GasPrice().Int64(), tgt.Value().Int64()+1
			case kind == 13 && len(pooled) > 0: // re-delivery of a pooled tx
				txs = append(txs, wireCopy(pooled[rng.intn(len(pooled))]))
				continue
			case kind == 14: // re-delivery of a departed tx
				w.kmu.RLock()
				var tgt *types.Transaction
				if len(w.gone) > 0 {
					tgt = w.gone[rng.intn(len(w.gone))]
				}
				w.kmu.RUnlock()
				if tgt != nil {
					atomic.StoreInt32(&w.readd, 1)
					txs = append(txs, wireCopy(tgt))
					continue
				}
				run++
			case kind == 15:
				switch rng.intn(4) {
				case 0:
					bad = true
				case 1:
					gas = head.hdr.GasLimit + 1
				case 2:
					gas = 20999
				default:
					if st := head.st[a].nonce; st > 0 {
						nonce = st - 1
					}
				}
			default:
				run++
			}
			salt := w.nextSalt()
			tx := makeTx(a, nonce, toPlain, salt, gas, price, value, bad)
			w.register(tx, a, toPlain, bad)
			txs = append(txs, tx)
		}
		var errs []error
		switch {
		case local && rng.intn(3) == 0:
			for _, tx := range txs {
				errs = append(errs, w.pool.AddLocal(tx))
			}
		case local:
			errs = w.pool.AddLocals(txs)
		case rng.intn(3) == 0:
			errs = w.pool.AddRemotesSync(txs)
		case rng.intn(4) == 0:
			for _, tx := range txs {
				errs = append(errs, w.pool.AddRemote(tx))
			}
		default:
			errs = w.pool.AddRemotes(txs)
		}
		atomic.AddInt64(&s.nSubmit, 1)
		atomic.AddInt64(&s.nTx, int64(len(txs)))
		for i, err := range errs {
			if err == nil {
				atomic.AddInt64(&s.nAccepted, 1)
				if local {
					if info := w.knownTx(txs[i].Hash()); info != nil {
						atomic.StoreInt32(&w.localCand[info.acct], 1)
					}
				}
			}
		}
	}
}

// headChanger plays the chain: it builds blocks from Pending() as the miner does, or
// reorganises onto a sibling branch, and notifies the pool as loop() does for a
// ChainHeadEvent (requestReset(previous head, new head), not waiting for the run).
func (w *epochWorld) headChanger(rng *prng, n int) {
	s := w.s
	for k := 0; k < n && !s.failed(); k++ {
		old := w.chain.Head()
		parent := old
		var discarded []*types.Transaction
		reorg := rng.intn(3) == 0
		if reorg {
			depth := 1 + rng.intn(2)
			for d := 0; d < depth && parent.parent != nil; d++ {
				discarded = append(append([]*types.Transaction{}, parent.blk.Transactions()...), discarded...)
				parent = parent.parent
			}
		}
		pend, _ := w.pool.Pending()
		atomic.AddInt64(&s.nReads, 1)
		used := map[common.Hash]bool{}
		tip := parent
		nb := 1
		if reorg {
			nb = 1 + rng.intn(3)
		}
		for b := 0; b < nb; b++ {
			tip = w.buildBlock(rng, tip, pend, discarded, used, reorg)
		}
		re := 0
		for _, tx := range discarded {
			if !used[tx.Hash()] {
				re++
			}
		}
		if parent != old {
			atomic.AddInt64(&s.nReorgs, 1)
			if re > 0 {
				atomic.AddInt64(&s.nReinject, 1)
				atomic.StoreInt32(&w.reinject, 1)
				atomic.StoreInt32(&w.readd, 1)
			}
			for i := 0; i < nAcct; i++ {
				if tip.st[i].nonce < old.st[i].nonce {
					atomic.StoreInt32(&w.nonceLowered[i], 1)
				}
			}
		}
		// mined / dropped transactions may be delivered again by peers later
		w.kmu.Lock()
		for _, tx := range tip.blk.Transactions() {
			w.gone = append(w.gone, tx)
		}
		if len(w.gone) > 32 {
			w.gone = w.gone[len(w.gone)-32:]
		}
		w.kmu.Unlock()
		w.chain.setHead(tip)
		w.pool.VerifResetAsync(old.hdr, tip.hdr)
		atomic.AddInt64(&s.nHeads, 1)
	}
}

func (w *epochWorld) buildBlock(rng *prng, parent *hblock, pend map[common.Address]types.Transactions, discarded []*types.Transaction, used map[common.Hash]bool, reorg bool) *hblock {
	st := parent.st.clone()
	gl := parent.hdr.GasLimit
	var txs []*types.Transaction
	gasSum := uint64(0)
	include := func(a int, tx *types.Transaction) bool {
		if used[tx.Hash()] || tx.Nonce() != st[a].nonce || tx.Cost().Cmp(st[a].bal) > 0 || tx.Gas() > gl || gasSum+tx.Gas() > gl {
			return false
		}
		used[tx.Hash()] = true
		gasSum += tx.Gas()
		st[a].bal.Sub(st[a].bal, tx.Cost())
		st[a].nonce++
		txs = append(txs, tx)
		return true
	}
	keepAll := rng.intn(2) == 0
	for _, tx := range discarded {
		if keepAll || rng.intn(3) != 0 {
			if info := w.knownTx(tx.Hash()); info != nil {
				include(info.acct, tx)
			}
		}
	}
	for a := 0; a < nAcct; a++ {
		take := rng.intn(4)
		list := pend[addrs[a]]
		if len(list) > 6 {
			take = len(list) // the local accounts are exempt from every limit: keep them mined
		}
		for k := 0; k < take && len(list) > 0; k++ {
			if !include(a, list[0]) {
				break
			}
			list = list[1:]
		}
		pend[addrs[a]] = list
		if rng.intn(6) == 0 { // a transaction of this account the pool never saw
			salt := w.nextSalt()
			ftx := makeTx(a, st[a].nonce, toPlain, salt, 21000, 1+int64(salt%3), int64(salt), false)
			w.register(ftx, a, toPlain, false)
			include(a, ftx)
		}
		st[a].bal.Add(st[a].bal, big.NewInt(1000000))
	}
	return w.chain.extend(parent, txs, st, gl)
}

func (w *epochWorld) repricer(rng *prng, n int) {
	for k := 0; k < n && !w.s.failed(); k++ {
		p := pick64(priceChoices, rng.intn(6)) // 0 1 2 3 5 8
		w.pool.SetGasPrice(big.NewInt(p))
		atomic.StoreInt64(&w.floor, p)
		atomic.AddInt64(&w.s.nPrice, 1)
		_ = w.pool.GasPrice()
	}
}

// reader uses every exported read method the RPC / miner / protocol manager use, and checks
// the lock-release invariants on atomic snapshots.
func (w *epochWorld) reader(rng *prng, round, n int) {
	s := w.s
	for k := 0; k < n && !s.failed(); k++ {
		switch rng.intn(6) {
		case 0:
			p, _ := w.pool.Pending()
			for a, txs := range p {
				for i := 1; i < len(txs); i++ {
					if txs[i-1].Nonce() >= txs[i].Nonce() {
						s.fail(w, round, "unsorted-list", fmt.Sprintf("Pending() of %x not nonce-ordered: %s", a, describe(txs)), nil)
					}
				}
			}
		case 1:
			w.pool.Content()
			w.pool.Stats()
		case 2:
			for i := 0; i < nAcct; i++ {
				w.pool.Nonce(addrs[i])
			}
			w.pool.Locals()
		case 3:
			snap := w.pool.VerifSnapshot(addrList)
			hs := snap.All
			if len(hs) > 6 {
				hs = hs[:6]
			}
			w.pool.Status(hs)
			for _, h := range hs {
				w.pool.Get(h)
			}
		default:
			snap := w.pool.VerifSnapshot(addrList)
			w.midflightCheck(round, snap)
		}
		atomic.AddInt64(&s.nReads, 1)
	}
}

// midflightCheck: what must hold whenever pool.mu is free, judged against the pool's own
// view of the head state (the harness chain may already be ahead of it).
func (w *epochWorld) midflightCheck(round int, snap *core.VerifPoolSnapshot) {
	var st worldState
	for i := 0; i < nAcct; i++ {
		st[i] = acctState{snap.StateNonce[addrs[i]], snap.StateBalance[addrs[i]]}
	}
	v := &poolView{snap: snap, st: st, gasLimit: snap.MaxGas, floor: -1, known: w.knownTx}
	viols, _ := checkView(v)
	var keep []*violation
	for _, x := range viols {
		switch x.class {
		// between a submission and the promotion run that follows it, and between a
		// demotion and the next truncation, these are legitimately open
		case "queued-promotable", "account-queue-exceeded", "global-queue-exceeded", "global-slots-exceeded", "pool-size-exceeded":
			continue
		}
		keep = append(keep, x)
	}
	atomic.AddInt64(&w.s.nMid, 1)
	w.judge(round, "mid-flight", keep, snap)
}

// quietCheck: the full invariant set against the harness chain's head.
func (w *epochWorld) quietCheck(round int) {
	snap := w.pool.VerifSnapshot(addrList)
	head := w.chain.Head()
	v := &poolView{snap: snap, st: head.st, gasLimit: head.hdr.GasLimit, floor: atomic.LoadInt64(&w.floor), known: w.knownTx}
	viols, vs := checkView(v)
	for i := 0; i < nAcct; i++ {
		if vs.local[i] && atomic.LoadInt32(&w.localCand[i]) == 0 {
			viols = append(viols, vf("spurious-local", "account %d is treated as local but no local submission of it was ever accepted", i))
		}
	}
	if n := int64(len(snap.All)); n > atomic.LoadInt64(&w.s.maxPooled) {
		atomic.StoreInt64(&w.s.maxPooled, n)
	}
	atomic.AddInt64(&w.s.nQuiet, 1)
	w.judge(round, "quiescent", viols, snap)
}

// judge separates the recorded findings (tolerated only while listed in known_findings.json
// and only under their epoch-level preconditions) from everything else, which is fatal.
func (w *epochWorld) judge(round int, phase string, viols []*violation, snap *core.VerifPoolSnapshot) {
	if len(viols) == 0 {
		return
	}
	s := w.s
	reinject := atomic.LoadInt32(&w.reinject) != 0
	readd := atomic.LoadInt32(&w.readd) != 0
	var tolAcct [nAcct]bool
	tolerate := func(class string) bool {
		if !kit.IsKnown(class) {
			return false
		}
		s.mu.Lock()
		s.tolerated[class]++
		s.mu.Unlock()
		return true
	}
	// pass 1: per-account root causes
	for _, x := range viols {
		i := x.acct
		switch x.class {
		case "pending-gap":
			if i >= 0 && reinject && atomic.LoadInt32(&w.nonceLowered[i]) != 0 && tolerate(classGapAfterReinject) {
				tolAcct[i] = true
			}
		case "nonce-view-mismatch":
			if i >= 0 && reinject && snap.PoolNonce[addrs[i]] < snap.StateNonce[addrs[i]] && tolerate(classNoncerLow) {
				tolAcct[i] = true
			}
		}
	}
	for _, x := range viols {
		switch x.class {
		case "pending-gap", "nonce-view-mismatch":
			if x.acct >= 0 && tolAcct[x.acct] {
				continue
			}
		case "queued-promotable":
			// consequence of a tolerated finding on the same account, or the merged
			// submission+reset run (which the scheduler produces all the time here)
			if (x.acct >= 0 && tolAcct[x.acct]) || tolerate(classMergedStuck) {
				continue
			}
		case "account-queue-exceeded", "global-queue-exceeded":
			if tolerate(classQueueAfterDemotion) {
				continue
			}
		case "priced-stale-accounting", "pool-size-exceeded":
			if readd && tolerate(classPricedDup) {
				continue
			}
		case "remote-below-price-floor":
			// SetGasPrice runs concurrently with submissions that were validated against the
			// previous floor only if the two overlap inside the pool; they do not (both hold
			// pool.mu), so this stays fatal at quiescence; mid-flight the floor is not judged
		}
		s.fail(w, round, x.class, phase+": "+x.msg, snap)
		return
	}
}

// failBurst saves the failing ReaderBurst schedule in the replay format of the props, so that
// `./run replay C20 <path>` re-runs exactly that op list + reader count.
func (s *stress) failBurst(c BurstCase, v *kit.Violation) {
	if !atomic.CompareAndSwapInt32(&s.failFlag, 0, 1) {
		return
	}
	raw, _ := json.Marshal(c)
	rec := kit.ReplayFile{Property: "C20", Prop: "ReaderBurst", Class: v.Class, Msg: v.Msg, Seed: s.seed, Case: raw}
	dir := os.Getenv("VERIF_OUT")
	if dir == "" {
		dir = os.TempDir()
	}
	os.MkdirAll(dir, 0o755)
	path := filepath.Join(dir, fmt.Sprintf("stress-readerburst-seed%d.json", s.seed))
	b, _ := json.MarshalIndent(rec, "", " ")
	os.WriteFile(path, b, 0o644)
	s.mu.Lock()
	s.failMsg = v.Class + ": " + v.Msg
	s.mu.Unlock()
	fmt.Printf("RACE-VIOLATION replay=%s\n", path)
}

func (s *stress) fail(w *epochWorld, round int, class, msg string, snap *core.VerifPoolSnapshot) {
	if !atomic.CompareAndSwapInt32(&s.failFlag, 0, 1) {
		return
	}
	rec := map[string]interface{}{
		"property": "C20", "test": "TestRaceStress", "seed": s.seed, "epoch": w.e, "round": round,
		"class": class, "msg": msg,
		"note": "found under a scheduler-dependent interleaving; re-run `./run check C20 --tier thorough` with the same VERIF_SEED (or VERIF_RACE=1 go test -race -run TestRaceStress) to retry; the operation streams are reproducible, the interleaving is not",
	}
	if snap != nil {
		views := map[string]interface{}{}
		for i := 0; i < nAcct; i++ {
			views[fmt.Sprintf("account%d", i)] = map[string]interface{}{
				"state_nonce": snap.StateNonce[addrs[i]], "pool_nonce": snap.PoolNonce[addrs[i]],
				"pending": describe(snap.Pending[addrs[i]]), "queued": describe(snap.Queued[addrs[i]]),
			}
		}
		views["lookup"] = len(snap.All)
		views["priced"] = []int{snap.Priced, snap.Stales, snap.PricedLive}
		rec["pool"] = views
	}
	dir := os.Getenv("VERIF_OUT")
	if dir == "" {
		dir = os.TempDir()
	}
	os.MkdirAll(dir, 0o755)
	path := filepath.Join(dir, fmt.Sprintf("stress-violation-seed%d.json", s.seed))
	b, _ := json.MarshalIndent(rec, "", " ")
	os.WriteFile(path, b, 0o644)
	s.mu.Lock()
	s.failMsg = class + ": " + msg
	s.mu.Unlock()
	fmt.Printf("RACE-VIOLATION replay=%s\n", path)
}

var _ = sort.Strings
