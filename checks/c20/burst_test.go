package c20

import (
	"fmt"
	"math/big"
	"runtime"
	"sort"
	"sync"
	"sync/atomic"
	"time"

	"github.com/youchainhq/go-youchain/common"
	"github.com/youchainhq/go-youchain/core"
	"github.com/youchainhq/go-youchain/core/types"
	"pgregory.net/rapid"
	"verif/kit"
)

// ---------------------------------------------------------------------------------
// Concurrent readers.
//
// Content() and Pending() are what the RPC, the block builder and the transaction syncer
// of a freshly connected peer call, possibly at the same moment. Both go through
// txSortedMap.Flatten, which lazily builds and stores a sorted copy of a list; they are
// only safe against EACH OTHER because they take the pool's write lock. The checks below
// release N readers at once right after an operation that left such caches cold and
// compare every view they got - and the view a lone reader gets afterwards - with the
// lists' own nonce->transaction maps (read through the shim, not through Flatten).
//
// On a correct pool the readers are serialised by the pool and every comparison is exact,
// so the verdict never depends on timing. Detecting a pool whose readers are NOT
// serialised needs two readers to really overlap inside one cold list: that is
// probabilistic (it needs GOMAXPROCS >= 2 and a scheduler that runs them in parallel), so
// the quick tier runs many bursts over long lists and reports how many it ran; the
// thorough tier additionally runs the same bursts in the -race build, where the detector
// reports the unsynchronised cache writes even without a temporal overlap.

// BurstOp is one cold-cache-making operation; a burst of concurrent readers follows it.
type BurstOp struct {
	Kind    string `json:"kind"`            // enqueue replace setprice fill
	Accts   int    `json:"accts"`           // bit i set: account i takes part
	N       int    `json:"n"`               // enqueue: transactions per account
	Idx     int    `json:"idx"`             // replace: which queued tx; setprice: step
	Async   bool   `json:"async,omitempty"` // AddRemotes + wait for the run, instead of AddRemotesSync
	Pattern int    `json:"pattern"`         // 0-3 rotates the readers' call mix, 4-7 all readers make the same calls
}

// BurstCase = the op list + the reader count (+ the initial list lengths).
type BurstCase struct {
	Readers int       `json:"readers"`
	Pending []int     `json:"pending"` // per account: length of the initial gap-free pending run
	Queue   []int     `json:"queue"`   // per account: initial gapped (queued) transactions
	Ops     []BurstOp `json:"ops"`
}

var burstKinds = []string{"enqueue", "enqueue", "enqueue", "enqueue", "replace", "replace", "setprice", "setprice", "setprice", "fill", "fill"}

func genBurstCase(t *rapid.T) BurstCase {
	c := BurstCase{Readers: rapid.SampledFrom([]int{2, 3, 4, 6, 8, 8}).Draw(t, "readers")}
	for i := 0; i < nAcct; i++ {
		c.Pending = append(c.Pending, rapid.SampledFrom([]int{0, 24, 72, 120}).Draw(t, "pending"))
		c.Queue = append(c.Queue, rapid.SampledFrom([]int{48, 64, 96, 128}).Draw(t, "queue"))
	}
	n := rapid.IntRange(4, 12).Draw(t, "nops")
	for i := 0; i < n; i++ {
		c.Ops = append(c.Ops, BurstOp{
			Kind:    rapid.SampledFrom(burstKinds).Draw(t, "kind"),
			Accts:   rapid.SampledFrom([]int{15, 15, 15, 7, 14, 5, 10, 1, 8}).Draw(t, "accts"),
			N:       rapid.IntRange(1, 3).Draw(t, "n"),
			Idx:     rapid.IntRange(0, 63).Draw(t, "idx"),
			Async:   rapid.IntRange(0, 3).Draw(t, "async") == 0,
			Pattern: rapid.IntRange(0, 7).Draw(t, "pattern"),
		})
		if op := &c.Ops[len(c.Ops)-1]; op.Kind == "setprice" && rapid.IntRange(0, 3).Draw(t, "pendingfirst") > 0 {
			op.Pattern = 5 // SetGasPrice is what leaves PENDING lists cold: all readers start with Pending()
		}
	}
	return c
}

// genBurstCasePRNG: the same shape from the stress test's own generator.
func genBurstCasePRNG(r *prng) BurstCase {
	c := BurstCase{Readers: []int{2, 3, 4, 6, 8, 8}[r.intn(6)]}
	for i := 0; i < nAcct; i++ {
		c.Pending = append(c.Pending, []int{0, 24, 48, 72}[r.intn(4)])
		c.Queue = append(c.Queue, []int{16, 32, 48, 64}[r.intn(4)])
	}
	n := 4 + r.intn(9)
	for i := 0; i < n; i++ {
		c.Ops = append(c.Ops, BurstOp{
			Kind: burstKinds[r.intn(len(burstKinds))], Accts: []int{15, 15, 15, 7, 14, 5, 10, 1, 8}[r.intn(9)],
			N: 1 + r.intn(3), Idx: r.intn(64), Async: r.intn(4) == 0, Pattern: r.intn(8),
		})
		if op := &c.Ops[len(c.Ops)-1]; op.Kind == "setprice" && r.intn(2) == 0 {
			op.Pattern = 5
		}
	}
	return c
}

// counters reported in the evidence (kit.Extra) / RACE-STATS
var (
	nBursts, nConcurrentReads, nBurstCases int64
)

// setup transactions are memoised as objects (they are immutable; only saves signing and
// sender recovery time across cases)
var (
	burstTxMu   sync.Mutex
	burstTxMemo = map[[3]uint64]*types.Transaction{}
)

func burstTx(acct int, nonce uint64, price int64) *types.Transaction {
	k := [3]uint64{uint64(acct), nonce, uint64(price)}
	burstTxMu.Lock()
	tx := burstTxMemo[k]
	burstTxMu.Unlock()
	if tx == nil {
		tx = makeTx(acct, nonce, toPlain, 0, 21000, price, 7, false)
		types.Sender(goodSigner, tx)
		burstTxMu.Lock()
		if len(burstTxMemo) > 100000 {
			burstTxMemo = map[[3]uint64]*types.Transaction{}
		}
		burstTxMemo[k] = tx
		burstTxMu.Unlock()
	}
	return tx
}

type burstWorld struct {
	pool  *core.TxPool
	chain *hchain
	gap   [nAcct]uint64 // the missing nonce below the account's queued run
	next  [nAcct]uint64 // next nonce to append to the account's queued run
	floor int64
	bump  int64
}

func newBurstWorld(c BurstCase) (*burstWorld, error) {
	var gen worldState
	for i := range gen {
		gen[i] = acctState{0, big.NewInt(2000000000)}
	}
	w := &burstWorld{chain: newChain(gen, 1000000), floor: 1}
	// limits far away: this prop is about the readers, the lists are meant to be long
	w.pool = core.NewTxPool(core.TxPoolConfig{
		Rejournal: time.Hour, PriceLimit: 1, PriceBump: 10, Lifetime: 3 * time.Hour,
		AccountSlots: 100000, GlobalSlots: 100000, AccountQueue: 100000, GlobalQueue: 100000,
	}, w.chain)
	var setup []*types.Transaction
	for a := 0; a < nAcct; a++ {
		p, q := 0, 32
		if a < len(c.Pending) {
			p = clampInt(c.Pending[a], 0, 200)
		}
		if a < len(c.Queue) {
			q = clampInt(c.Queue[a], 1, 400)
		}
		for n := 0; n < p; n++ {
			setup = append(setup, burstTx(a, uint64(n), pendingRunPrice(n)))
		}
		w.gap[a] = uint64(p)
		for n := p + 1; n <= p+q; n++ {
			setup = append(setup, burstTx(a, uint64(n), queuedRunPrice(n)))
		}
		w.next[a] = uint64(p + q + 1)
	}
	for i, err := range w.pool.AddRemotesSync(setup) {
		if err != nil {
			w.pool.Stop()
			return nil, fmt.Errorf("setup transaction %d refused: %v", i, err)
		}
	}
	return w, nil
}

// queuedRunPrice: 12, except every 24th transaction which is cheap (4..9, deeper ones
// cheaper first): once a run has been promoted, successive SetGasPrice steps cut it at
// different depths and leave a long pending head with a cold cache.
func queuedRunPrice(n int) int64 {
	if n%24 == 23 {
		return int64(4 + (n/24)%6)
	}
	return 12
}

// pendingRunPrice: 12, except every 24th transaction, which is cheap - the deeper the
// cheaper (9, 8, 7, ...): every SetGasPrice step evicts one transaction deep inside the
// run (demoting its successors) and leaves a long pending head with a cold cache.
func pendingRunPrice(n int) int64 {
	if n%24 == 23 {
		if p := int64(9 - n/24); p >= 4 {
			return p
		}
		return 4
	}
	return 12
}

func clampInt(x, lo, hi int) int {
	if x < lo {
		return lo
	}
	if x > hi {
		return hi
	}
	return x
}

// apply performs one cold-cache-making operation through the exported API.
func (w *burstWorld) apply(op BurstOp) {
	var txs []*types.Transaction
	switch op.Kind {
	case "enqueue": // every chosen account gets N more transactions at the end of its queued run
		for a := 0; a < nAcct; a++ {
			if op.Accts&(1<<uint(a)) == 0 {
				continue
			}
			for k := 0; k < clampInt(op.N, 1, 4); k++ {
				txs = append(txs, burstTx(a, w.next[a], 12))
				w.next[a]++
			}
		}
	case "replace": // a queued transaction is replaced by a better paying one
		_, q := w.pool.VerifItems()
		for a := 0; a < nAcct; a++ {
			l := q[addrs[a]]
			if op.Accts&(1<<uint(a)) == 0 || len(l) == 0 {
				continue
			}
			sort.Sort(types.TxByNonce(l))
			tgt := l[abs(op.Idx)%len(l)]
			w.bump++
			txs = append(txs, makeTx(a, tgt.Nonce(), toPlain, 0, 21000, tgt.GasPrice().Int64()*2+1, 1000+w.bump, false))
		}
	case "setprice": // evicts cheap pending transactions and demotes what follows them; runs no reorg
		switch {
		case w.floor < 5:
			w.floor = int64(5 + abs(op.Idx)%2)
		case w.floor < 10:
			w.floor += int64(1 + abs(op.Idx)%2)
		}
		w.pool.SetGasPrice(big.NewInt(w.floor))
		return
	case "fill": // the missing nonce arrives: the queued run is promoted; a new gap is opened above it
		for a := 0; a < nAcct; a++ {
			if op.Accts&(1<<uint(a)) == 0 {
				continue
			}
			txs = append(txs, burstTx(a, w.gap[a], 12))
			w.gap[a] = w.next[a]
			w.next[a]++
		}
	}
	if len(txs) == 0 {
		return
	}
	if op.Async {
		w.pool.AddRemotes(txs)
		w.pool.VerifQuiesce()
	} else {
		w.pool.AddRemotesSync(txs)
	}
}

// readerView is everything one reader got.
type readerView struct {
	contentP, contentQ, pending map[common.Address]types.Transactions
	haveContent, havePending    bool
	statsP, statsQ              int
	haveStats                   bool
	panicked                    interface{}
}

// readerBurst releases n readers at the same moment (spin barrier: nobody starts before all
// have arrived) and returns what each of them was given.
func readerBurst(pool *core.TxPool, n, pattern int) []readerView {
	views := make([]readerView, n)
	var arrived int32
	var wg sync.WaitGroup
	for r := 0; r < n; r++ {
		wg.Add(1)
		go func(r int) {
			defer wg.Done()
			v := &views[r]
			defer func() {
				if p := recover(); p != nil {
					v.panicked = p
				}
			}()
			atomic.AddInt32(&arrived, 1)
			for atomic.LoadInt32(&arrived) < int32(n) {
				runtime.Gosched()
			}
			mix := (pattern + r) % 4
			if pattern >= 4 {
				mix = pattern % 4 // every reader makes the same calls in the same order
			}
			switch mix {
			case 0:
				v.contentP, v.contentQ = pool.Content()
				v.haveContent = true
				v.pending, _ = pool.Pending()
				v.havePending = true
			case 1:
				v.pending, _ = pool.Pending()
				v.havePending = true
				v.contentP, v.contentQ = pool.Content()
				v.haveContent = true
			case 2:
				v.statsP, v.statsQ = pool.Stats()
				v.haveStats = true
				v.contentP, v.contentQ = pool.Content()
				v.haveContent = true
			default:
				v.contentP, v.contentQ = pool.Content()
				v.haveContent = true
				v.statsP, v.statsQ = pool.Stats()
				v.haveStats = true
			}
		}(r)
	}
	wg.Wait()
	atomic.AddInt64(&nBursts, 1)
	atomic.AddInt64(&nConcurrentReads, int64(2*n))
	return views
}

// selfConsistent: per account strictly ascending nonces, no nil entry (hence no duplicate).
func selfConsistent(what string, got map[common.Address]types.Transactions) string {
	for a := 0; a < nAcct; a++ {
		g := got[addrs[a]]
		for k, tx := range g {
			if tx == nil {
				return fmt.Sprintf("%s of account %d: entry %d of %d is nil", what, a, k, len(g))
			}
			if k > 0 && g[k-1] != nil && g[k-1].Nonce() >= tx.Nonce() {
				return fmt.Sprintf("%s of account %d is not strictly ascending: entry %d has nonce %d after nonce %d (duplicated / unsorted), %d entries", what, a, k, tx.Nonce(), g[k-1].Nonce(), len(g))
			}
		}
	}
	return ""
}

// sameAs: the view is exactly the reference (nonce-sorted content of the lists' own maps).
func sameAs(what string, got, ref map[common.Address]types.Transactions) string {
	if m := selfConsistent(what, got); m != "" {
		return m
	}
	if len(got) != len(ref) {
		return fmt.Sprintf("%s lists %d accounts, the pool's lists hold %d", what, len(got), len(ref))
	}
	for a := 0; a < nAcct; a++ {
		g, r := got[addrs[a]], ref[addrs[a]]
		if len(g) != len(r) {
			return fmt.Sprintf("%s of account %d has %d transactions, the list holds %d (missing / truncated / duplicated)", what, a, len(g), len(r))
		}
		for k := range r {
			if g[k].Hash() != r[k].Hash() {
				return fmt.Sprintf("%s of account %d: entry %d is nonce %d (%x), the list's %d-th transaction is nonce %d (%x)", what, a, k, g[k].Nonce(), g[k].Hash().Bytes()[:4], k, r[k].Nonce(), r[k].Hash().Bytes()[:4])
			}
		}
	}
	return ""
}

func sortedRef(m map[common.Address]types.Transactions) (map[common.Address]types.Transactions, int) {
	n := 0
	for _, l := range m {
		sort.Sort(types.TxByNonce(l))
		n += len(l)
	}
	return m, n
}

// judgeBurst compares every reader's views, and then a lone reader's, with the reference.
// exact=false (something else may legitimately mutate the pool meanwhile) only judges each
// view by itself.
func judgeBurst(pool *core.TxPool, views []readerView, exact bool) (class, msg string) {
	rp, rq := pool.VerifItems()
	refP, np := sortedRef(rp)
	refQ, nq := sortedRef(rq)
	cmp := func(what string, got, ref map[common.Address]types.Transactions) string {
		if exact {
			return sameAs(what, got, ref)
		}
		return selfConsistent(what, got)
	}
	for r, v := range views {
		who := fmt.Sprintf("concurrent reader %d of %d", r, len(views))
		if v.panicked != nil {
			return "reader-panic", fmt.Sprintf("%s panicked: %v", who, v.panicked)
		}
		if v.haveContent {
			if m := cmp("Content().pending", v.contentP, refP); m != "" {
				return "concurrent-view-corrupt", who + ": " + m
			}
			if m := cmp("Content().queued", v.contentQ, refQ); m != "" {
				return "concurrent-view-corrupt", who + ": " + m
			}
		}
		if v.havePending {
			if m := cmp("Pending()", v.pending, refP); m != "" {
				return "concurrent-view-corrupt", who + ": " + m
			}
		}
		if v.haveStats && exact && (v.statsP != np || v.statsQ != nq) {
			return "concurrent-view-corrupt", fmt.Sprintf("%s: Stats() = (%d, %d), the lists hold %d pending and %d queued", who, v.statsP, v.statsQ, np, nq)
		}
	}
	// nothing was submitted in between: a later, lone reader must see the same
	cp, cq := pool.Content()
	if m := cmp("Content().pending", cp, refP); m != "" {
		return "view-corrupt-after-concurrent-reads", "lone reader after the burst: " + m
	}
	if m := cmp("Content().queued", cq, refQ); m != "" {
		return "view-corrupt-after-concurrent-reads", "lone reader after the burst: " + m
	}
	pp, _ := pool.Pending()
	if m := cmp("Pending()", pp, refP); m != "" {
		return "view-corrupt-after-concurrent-reads", "lone reader after the burst: " + m
	}
	return "", ""
}

// burstAttempts: how often runBurstCase repeats the whole schedule (fresh pool each time)
// before it concludes "no violation". 1 during the search; the replay entry point raises
// it, because reproducing a reader overlap is a matter of chance.
var burstAttempts = 1

func runBurstCase(c BurstCase) kit.Result {
	if runtime.GOMAXPROCS(0) < 2 {
		return kit.Discarded("concurrent readers need GOMAXPROCS >= 2")
	}
	readers := clampInt(c.Readers, 2, 16)
	atomic.AddInt64(&nBurstCases, 1)
	bursts, longest := 0, 0
	kinds := map[string]bool{}
	for attempt := 0; attempt < burstAttempts; attempt++ {
		w, err := newBurstWorld(c)
		if err != nil {
			return kit.Fail("burst-setup", "%v", err)
		}
		fail := func() *kit.Result {
			defer w.pool.Stop()
			for i, op := range c.Ops {
				w.apply(op)
				if i == 0 {
					_, q := w.pool.VerifItems()
					for _, l := range q {
						if len(l) > longest {
							longest = len(l)
						}
					}
				}
				views := readerBurst(w.pool, readers, op.Pattern)
				bursts++
				kinds[op.Kind] = true
				if class, msg := judgeBurst(w.pool, views, true); class != "" {
					r := kit.Fail(class, "attempt %d, burst of %d readers after op %d (%s): %s", attempt, readers, i, op.Kind, msg)
					return &r
				}
			}
			return nil
		}()
		if fail != nil {
			return *fail
		}
	}
	var ls []string
	for k := range kinds {
		ls = append(ls, "cold-by:"+k)
	}
	sort.Strings(ls)
	ls = append(ls, fmt.Sprintf("readers:%d", readers))
	return kit.OK(bursts > 0 && longest >= 16, ls...)
}

var _ = kit.Register(kit.Prop[BurstCase]{
	Name: "ReaderBurst",
	Rule: "schedules of 4-12 cold-cache-making operations (gapped submissions at the end of 48-128 transaction queued runs of up to 4 accounts, sync or async; better-paying replacements of queued transactions; SetGasPrice steps that evict one cheap transaction deep inside a 24-120 transaction pending run and demote its successors without a reorg run, leaving the pending head cold; arrival of the missing nonce that promotes a whole queued run) on a pool with far-away limits, each followed by a burst of 2-8 readers released together by a spin barrier and calling Content() / Pending() / Stats() concurrently WITH EACH OTHER, in rotated or identical call order (nothing writes meanwhile). Every view every reader got, and the views of a lone reader afterwards, must be per account strictly nonce-ascending, duplicate-free and equal to the nonce-sorted content of the lists' own maps (read through the shim, not through Flatten's cache). On a correct pool the readers are serialised and the comparison is exact, so the verdict is timing-independent; DETECTION of unserialised readers is probabilistic (two readers must overlap inside one cold list; needs GOMAXPROCS >= 2): the number of bursts run is reported in coverage.extra (reader_bursts). A failure's replay is the op list + reader count; the replay entry re-runs the schedule up to 60 times. non-trivial = at least one burst ran over a queued run of >= 16 transactions; distinct = FNV-64 of the case JSON",
	Gen:  genBurstCase, Run: runBurstCase,
	Quick: 200, Thorough: 1500, Chunk: 50, MinNonTrivialPct: 50,
	QuickBudgetS: 40, ThoroughBudgetS: 300,
})

func burstSummary() map[string]interface{} {
	return map[string]interface{}{
		"prop": "ReaderBurst", "reader_bursts": atomic.LoadInt64(&nBursts), "concurrent_reads": atomic.LoadInt64(&nConcurrentReads),
		"schedules": atomic.LoadInt64(&nBurstCases), "gomaxprocs": runtime.GOMAXPROCS(0),
	}
}
