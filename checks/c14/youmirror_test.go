package c14

// Package you cannot be linked into a test binary built with this toolchain: it imports p2p, whose quic-go dependency
// panics in an init function ("qtls.ConnectionState not compatible with tls.ConnectionState") under Go 1.23. The
// packet structs of you/protocol.go have no custom coders, so the check exercises field-for-field mirrors of them;
// mirrorDrift() compares the mirrors' declarations with the source text of /repo/you/protocol.go at start-up, so a
// change of the real declarations is reported instead of silently testing a stale copy.

import (
	"bytes"
	"fmt"
	"go/ast"
	"go/parser"
	"go/printer"
	"go/token"
	"math/big"
	"os"
	"path/filepath"
	"runtime"

	"github.com/youchainhq/go-youchain/common"
	"github.com/youchainhq/go-youchain/core/types"
)

// statusData is the network packet for the status message.
type statusData struct {
	ProtocolVersion uint32
	NetworkId       uint64
	Origin          uint64 //chain origin height
	Height          uint64 //latest height
	CurrentBlock    common.Hash
	GenesisBlock    common.Hash
}

// NewBlockHashesData is the network packet for the block announcements.
type NewBlockHashesData []struct {
	Hash   common.Hash // Hash of one particular block being announced
	Number uint64      // Number of one particular block being announced
}

// HashOrNumber is a combined field for specifying an origin block.
type HashOrNumber struct {
	Hash   common.Hash // Block hash from which to retrieve headers (excludes Number)
	Number uint64      // Block hash from which to retrieve headers (excludes Hash)
}

type BlocksData []struct {
	Block  *types.Block
	Number *big.Int
}

// getBlockHeadersData represents a block header query.
type getBlockHeadersData struct {
	Origin  HashOrNumber // Block from which to retrieve headers
	Amount  uint64       // Maximum number of headers to retrieve
	Skip    uint64       // Blocks to skip between consecutive headers
	Reverse bool         // Query direction (false = rising towards latest, true = falling towards genesis)
	Light   bool         // If true, the returned headers should not contain the Validator field. Use for a light store.
}

type GetNodeDataMsgData struct {
	Kind   types.TrieKind
	Hashes []common.Hash
}

var mirrored = []string{"statusData", "NewBlockHashesData", "HashOrNumber", "BlocksData", "getBlockHeadersData", "GetNodeDataMsgData"}

func typeDecls(path string) (map[string]string, error) {
	fset := token.NewFileSet()
	f, err := parser.ParseFile(fset, path, nil, 0)
	if err != nil {
		return nil, err
	}
	out := map[string]string{}
	for _, d := range f.Decls {
		gd, ok := d.(*ast.GenDecl)
		if !ok || gd.Tok != token.TYPE {
			continue
		}
		for _, s := range gd.Specs {
			ts := s.(*ast.TypeSpec)
			var buf bytes.Buffer
			printer.Fprint(&buf, token.NewFileSet(), ts.Type)
			out[ts.Name.Name] = buf.String()
		}
	}
	return out, nil
}

// mirrorDrift returns a description of the first difference between the mirrors and /repo/you/protocol.go.
func mirrorDrift() error {
	_, self, _, _ := runtime.Caller(0)
	repo := os.Getenv("VERIF_REPO")
	if repo == "" {
		repo = "/repo"
	}
	real, err := typeDecls(filepath.Join(repo, "you", "protocol.go"))
	if err != nil {
		return err
	}
	mine, err := typeDecls(self)
	if err != nil {
		return err
	}
	for _, n := range mirrored {
		if real[n] == "" {
			return fmt.Errorf("you/protocol.go no longer declares %s", n)
		}
		if real[n] != mine[n] {
			return fmt.Errorf("you/protocol.go declares %s as\n%s\nbut the check mirrors\n%s", n, real[n], mine[n])
		}
	}
	return nil
}
