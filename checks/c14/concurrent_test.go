package c14

import (
	"bytes"
	"fmt"
	"math/big"
	"reflect"
	"runtime"
	"sort"
	"sync"
	"sync/atomic"

	"github.com/youchainhq/go-youchain/rlp"
	"pgregory.net/rapid"
	"verif/kit"
)

// Concurrent FIRST use of a type. rlp builds the encoder/decoder of a type the first time the process meets it and
// caches it; the clause "decoding never panics" (and "one encoding") must also hold for the callers that arrive
// while that is going on - in the node: the first block / transaction / consensus message after start-up coming from
// several peers at once. A type can be "first used" only once per process, so every case manufactures struct types
// the process has never seen (reflect.StructOf, salted with a process-wide counter) and lets several goroutines
// loose on them at the same instant.

// CFCase describes the fresh type, its value and the goroutines.
type CFCase struct {
	Tape    []uint64 `json:"tape"`
	Seed    uint64   `json:"seed"`
	Fields  int      `json:"fields"`  // number of fields of the outer struct (large: generation takes long)
	Depth   int      `json:"depth"`   // nesting depth of generated struct types below the outer one
	Workers int      `json:"workers"` // goroutines released at once
}

func genCF(t *rapid.T) CFCase {
	c := CFCase{Tape: genTape(t, 12), Seed: rapid.Uint64().Draw(t, "seed") | 1, Workers: 2 + uniform(t, 15, "workers")}
	switch uniform(t, 4, "size") {
	case 0:
		c.Fields = 3 + uniform(t, 40, "fields")
	case 1:
		c.Fields = 200 + uniform(t, 800, "fields")
	default:
		c.Fields = 1500 + uniform(t, 2500, "fields")
	}
	c.Depth = uniform(t, 4, "depth")
	return c
}

var (
	cfSalt    uint64 // process-wide: no two executions (also of the same case) share a type
	byteType  = reflect.TypeOf(byte(0))
	bytesType = reflect.TypeOf([]byte(nil))
)

// cfTarget is one generated struct type with a value of it and the value's reference encoding.
type cfTarget struct {
	typ  reflect.Type
	val  reflect.Value // addressable value of typ
	want []byte
	dump string
}

type cfGen struct {
	t       *tape
	targets []*cfTarget
}

// freshStruct makes a struct type of n generated fields (plus a salt field that makes it new to the process), a
// value of it, and the item tree of the value's canonical encoding - by the harness's own rules, not rlp's.
func (g *cfGen) freshStruct(n, depth int) (reflect.Type, reflect.Value, *item) {
	type fieldGen struct {
		typ  reflect.Type
		fill func(v reflect.Value) *item
	}
	scalar := func() fieldGen {
		switch g.t.n(9) {
		case 0:
			return fieldGen{reflect.TypeOf(uint8(0)), func(v reflect.Value) *item { return g.uintItem(v, 8) }}
		case 1:
			return fieldGen{reflect.TypeOf(uint16(0)), func(v reflect.Value) *item { return g.uintItem(v, 16) }}
		case 2:
			return fieldGen{reflect.TypeOf(uint32(0)), func(v reflect.Value) *item { return g.uintItem(v, 32) }}
		case 3, 4:
			return fieldGen{reflect.TypeOf(uint64(0)), func(v reflect.Value) *item { return g.uintItem(v, 64) }}
		case 5:
			return fieldGen{bytesType, func(v reflect.Value) *item {
				b := g.t.byteString()
				v.SetBytes(b)
				return str(b)
			}}
		case 6:
			return fieldGen{reflect.TypeOf(""), func(v reflect.Value) *item {
				b := g.t.byteString()
				v.SetString(string(b))
				return str(b)
			}}
		case 7:
			// (no [1]byte: rlp cannot round-trip [1]byte{0} - decodeByteArray ignores the error of s.Uint() on the byte
			// 0x00 and leaves the stream on it - but no type of the node has such a field, so that is outside C14)
			k := []int{2, 4, 20, 32}[g.t.n(4)]
			return fieldGen{reflect.ArrayOf(k, byteType), func(v reflect.Value) *item {
				b := make([]byte, k)
				g.t.fixedBytes(b)
				reflect.Copy(v, reflect.ValueOf(b))
				return str(b)
			}}
		default:
			return fieldGen{bigIntPtrType, func(v reflect.Value) *item {
				x := g.t.bigInt()
				v.Set(reflect.ValueOf(x))
				return str(x.Bytes())
			}}
		}
	}
	var gens []fieldGen
	for i := 0; i < n; i++ {
		if depth > 0 && g.t.n(n/3+4) == 0 {
			// a nested generated struct: by value, behind a pointer, or a slice of them
			kids := 1 + g.t.n(6)
			switch g.t.n(3) {
			case 0:
				nt, nv, ni := g.freshStruct(kids, depth-1)
				gens = append(gens, fieldGen{nt, func(v reflect.Value) *item { v.Set(nv); return ni }})
			case 1:
				nt, nv, ni := g.freshStruct(kids, depth-1)
				gens = append(gens, fieldGen{reflect.PtrTo(nt), func(v reflect.Value) *item {
					p := reflect.New(nt)
					p.Elem().Set(nv)
					v.Set(p)
					return ni
				}})
			default:
				nt, nv, ni := g.freshStruct(kids, depth-1)
				cnt := g.t.n(4)
				gens = append(gens, fieldGen{reflect.SliceOf(nt), func(v reflect.Value) *item {
					s := reflect.MakeSlice(reflect.SliceOf(nt), cnt, cnt)
					l := list()
					for j := 0; j < cnt; j++ {
						s.Index(j).Set(nv)
						l.Kids = append(l.Kids, ni.clone())
					}
					v.Set(s)
					return l
				}})
			}
			continue
		}
		gens = append(gens, scalar())
	}
	salt := atomic.AddUint64(&cfSalt, 1)
	fields := []reflect.StructField{{Name: fmt.Sprintf("Salt%d", salt), Type: reflect.ArrayOf(int(salt%7)+2, byteType)}}
	for i, fg := range gens {
		fields = append(fields, reflect.StructField{Name: fmt.Sprintf("F%d", i), Type: fg.typ})
	}
	typ := reflect.StructOf(fields)
	val := reflect.New(typ).Elem()
	sb := make([]byte, int(salt%7)+2)
	fill(sb, salt)
	reflect.Copy(val.Field(0), reflect.ValueOf(sb))
	tree := list(str(sb))
	for i, fg := range gens {
		tree.Kids = append(tree.Kids, fg.fill(val.Field(i+1)))
	}
	g.targets = append(g.targets, &cfTarget{typ: typ, val: val, want: tree.ser(), dump: theDumper.dump(val)})
	return typ, val, tree
}

func (g *cfGen) uintItem(v reflect.Value, bits int) *item {
	x := g.t.uintBits(bits)
	v.SetUint(x)
	var be []byte
	for ; x > 0; x >>= 8 {
		be = append([]byte{byte(x)}, be...)
	}
	return str(be)
}

func tailOf(s string, n int) string {
	if len(s) > n {
		return "..." + s[len(s)-n:]
	}
	return s
}

type cfResult struct {
	panicked interface{}
	problem  string
}

func runCF(c CFCase) kit.Result {
	if c.Fields < 1 || c.Fields > 6000 || c.Workers < 1 || c.Workers > 64 || c.Depth < 0 || c.Depth > 4 {
		return kit.Discarded("out of range")
	}
	g := &cfGen{t: &tape{d: c.Tape, seed: c.Seed}}
	g.freshStruct(c.Fields, c.Depth)
	outer := g.targets[len(g.targets)-1] // nested types were finished first
	// the other properties of this check run on one P; this one needs real parallelism
	procs := c.Workers
	if procs < 4 {
		procs = 4
	}
	if n := runtime.NumCPU(); procs > n {
		procs = n
	}
	defer runtime.GOMAXPROCS(runtime.GOMAXPROCS(procs))

	var (
		start     = make(chan struct{})
		ready, wg sync.WaitGroup
		results   = make([]cfResult, c.Workers)
		firstDone int32 // set when the first rlp call on a fresh type has returned
		overlap   int32 // goroutines that entered rlp before that
	)
	for w := 0; w < c.Workers; w++ {
		ready.Add(1)
		wg.Add(1)
		go func(w int) {
			defer wg.Done()
			defer func() {
				if r := recover(); r != nil {
					results[w].panicked = r
				}
			}()
			// odd goroutines meet a nested type first (if there is one), then the outer type; half of them decode
			// before they encode
			order := []*cfTarget{outer}
			if w%2 == 1 && len(g.targets) > 1 {
				order = []*cfTarget{g.targets[(w/2)%(len(g.targets)-1)], outer}
			}
			ready.Done()
			<-start
			if atomic.LoadInt32(&firstDone) == 0 {
				atomic.AddInt32(&overlap, 1)
			}
			for _, tg := range order {
				for step := 0; step < 2; step++ {
					if (step == 0) == (w%4 < 2) {
						enc, err := rlp.EncodeToBytes(tg.val.Interface())
						atomic.StoreInt32(&firstDone, 1)
						if err != nil {
							results[w].problem = fmt.Sprintf("EncodeToBytes failed: %v", err)
							return
						}
						if !bytes.Equal(enc, tg.want) {
							results[w].problem = fmt.Sprintf("EncodeToBytes gave other bytes than the reference encoding (first difference at byte %d of %d)", firstDiff(enc, tg.want), len(tg.want))
							return
						}
					} else {
						p := reflect.New(tg.typ)
						err := rlp.DecodeBytes(tg.want, p.Interface())
						atomic.StoreInt32(&firstDone, 1)
						if err != nil {
							results[w].problem = fmt.Sprintf("DecodeBytes of the reference encoding failed: %s", tailOf(err.Error(), 300))
							return
						}
						if d := theDumper.dump(p.Elem()); d != tg.dump {
							results[w].problem = "DecodeBytes produced a value observably different from the encoded one"
							return
						}
					}
				}
			}
		}(w)
	}
	ready.Wait()
	close(start)
	wg.Wait()

	for w, r := range results {
		if r.panicked != nil {
			return kit.Fail("concurrent-first-use-panic", "goroutine %d of %d panicked while a struct type of %d fields (%d generated struct types) was used for the first time by all of them at once: %v",
				w, c.Workers, c.Fields, len(g.targets), r.panicked)
		}
		if r.problem != "" {
			return kit.Fail("concurrent-first-use-wrong", "goroutine %d of %d, first concurrent use of a struct type of %d fields: %s", w, c.Workers, c.Fields, r.problem)
		}
	}
	labels := []string{fmt.Sprintf("overlap>=2:%v", overlap >= 2), fmt.Sprintf("nested-types:%v", len(g.targets) > 1)}
	switch {
	case c.Fields >= 1500:
		labels = append(labels, "fields>=1500")
	case c.Fields >= 200:
		labels = append(labels, "fields>=200")
	}
	sort.Strings(labels)
	return kit.OK(overlap >= 2 && c.Workers >= 2, labels...)
}

var _ = kit.Register(kit.Prop[CFCase]{
	Name: "ConcurrentFirstUse",
	Rule: "per case a struct type the process has never seen (reflect.StructOf: 3-4000 generated fields of uint8/16/32/64, byte slices, strings, byte arrays, *big.Int, and - to depth 0-3 - nested generated structs by value, behind pointers and in slices; a salt field named after a process-wide counter makes every type new), a value of it and the value's encoding by the harness's own reference encoder; 2-16 goroutines wait at a barrier and are released by one channel close on 4-16 Ps, each encoding the value and decoding the reference bytes into a new value (half of them a nested type first, half decode first); oracle: no goroutine panics (recovered and reported), every EncodeToBytes equals the reference bytes, every DecodeBytes succeeds and is observably equal. The schedule is NOT owned by the harness: whether callers really meet inside the first use is up to the Go scheduler and the machine, so a pass says less than in the single-goroutine properties and a defect in this window is found with a probability per case, not with certainty; the verdict on correct code does not depend on the schedule. non-trivial = at least 2 goroutines had entered rlp before the first call on the fresh type returned (counted with atomics behind the start barrier; large types keep the first use open for ~1 ms)",
	Gen:  genCF, Run: runCF,
	Quick: 80, Thorough: 1200, Chunk: 40, MinNonTrivialPct: 20,
})

var _ = big.NewInt
