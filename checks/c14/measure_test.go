package c14

import (
	"fmt"
	"os"
	"reflect"
	"sort"
	"sync"
)

// footprint walks a decoded value with reflection (exported and unexported fields alike; only Len/Cap/Index/Field
// are used, never Interface) and returns
//   - size: the bytes of memory the value holds by LENGTH: pointed-to structs, len*elemsize of every slice, string
//     bytes, map entries. Spare capacity is deliberately not part of it: it is what the allocation oracle compares
//     the allocated bytes with;
//   - slack: the first slice whose capacity is out of proportion to its length (cap > 2*len+8), "" if none. The
//     decoder under test grows slices by 1.5x starting at 4 and sizes byte slices exactly, append at most doubles.
type footprint struct {
	size  uint64
	slack string
}

func (f *footprint) walk(v reflect.Value, path string, depth int) {
	if depth > 64 || !v.IsValid() {
		return
	}
	switch v.Kind() {
	case reflect.Ptr:
		if !v.IsNil() {
			f.size += uint64(v.Type().Elem().Size())
			f.walk(v.Elem(), path, depth+1)
		}
	case reflect.Interface:
		if !v.IsNil() {
			f.size += uint64(v.Elem().Type().Size())
			f.walk(v.Elem(), path, depth+1)
		}
	case reflect.Struct:
		t := v.Type()
		for i := 0; i < v.NumField(); i++ {
			f.walk(v.Field(i), path+"."+t.Field(i).Name, depth+1)
		}
	case reflect.String:
		f.size += uint64(v.Len())
	case reflect.Slice:
		if v.IsNil() {
			return
		}
		n, c := v.Len(), v.Cap()
		f.size += uint64(n) * uint64(v.Type().Elem().Size())
		if c > 2*n+8 && f.slack == "" {
			f.slack = fmt.Sprintf("%s (%v): len %d, cap %d", path, v.Type(), n, c)
		}
		if flat(v.Type().Elem()) {
			return
		}
		for i := 0; i < n; i++ {
			f.walk(v.Index(i), path+"[]", depth+1)
		}
	case reflect.Array:
		if flat(v.Type().Elem()) {
			return
		}
		for i := 0; i < v.Len(); i++ {
			f.walk(v.Index(i), path+"[]", depth+1)
		}
	case reflect.Map:
		if v.IsNil() {
			return
		}
		// bucket arrays hold 8 slots at a load factor of 6.5 and double on growth
		f.size += uint64(v.Len()) * uint64(v.Type().Key().Size()+v.Type().Elem().Size()+1) * 2
		it := v.MapRange()
		for it.Next() {
			f.walk(it.Key(), path+"{k}", depth+1)
			f.walk(it.Value(), path+"{v}", depth+1)
		}
	}
}

// flat: values of the kind hold no further memory.
func flat(t reflect.Type) bool {
	switch t.Kind() {
	case reflect.Bool, reflect.Int, reflect.Int8, reflect.Int16, reflect.Int32, reflect.Int64,
		reflect.Uint, reflect.Uint8, reflect.Uint16, reflect.Uint32, reflect.Uint64, reflect.Uintptr,
		reflect.Float32, reflect.Float64, reflect.UnsafePointer, reflect.Chan, reflect.Func:
		return true
	case reflect.Array:
		return flat(t.Elem())
	}
	return false
}

func footprintOf(obj interface{}) footprint {
	var f footprint
	if obj != nil {
		f.walk(reflect.ValueOf(obj), "", 0)
	}
	return f
}

// Allocation bound of one decode, relative to what it produced (measured on the unchanged tree, see calibration
// below, then doubled):
//
//	allocated <= allocA*size(result, also a partial one) + b*len(input) + allocSlack
//
// allocA covers growing slices by 1.5x with a copy each time (3x the final array), the byte buffer behind every
// big integer and the temporaries of the typed decoders. b pays for what a decode allocates and does not hand
// back: nothing but error texts for types decoded in place (their partial result is still reachable and counted),
// the whole temporary for types whose DecodeRLP fills a local struct first and copies on success only.
const (
	allocA      = 8
	allocBPlain = 6
	allocBTemp  = 120
	allocSlack  = 3 << 10
)

// tempDecoded: registry types whose decoding goes through a DecodeRLP that builds a temporary (directly or in an
// element), so that a failed decode leaves nothing reachable.
var tempDecoded = map[string]bool{"Block": true, "BlocksData": true, "Receipt": true, "ReceiptForStorage": true, "ReceiptsMsg": true,
	"Log": true, "Validator": true, "ValKindStat": true, "ValidatorsStat": true, "Validators": true, "ValidatorIndex": true,
	"PendingRelationship": true, "EvidenceDoubleSign": true, "SlashData": true, "LogData": true, "UconMessage": true}

func allocLimit(ti *typeInfo, size uint64, n int) uint64 {
	b := uint64(allocBPlain)
	if tempDecoded[ti.Name] {
		b = allocBTemp
	}
	return allocA*size + b*uint64(n) + allocSlack
}

// warmUp makes every type's encoder/decoder exist (rlp builds them on first use and caches them; that one-off
// cost is not an allocation of a decode).
func warmUp() {
	for _, ti := range registry {
		for s := uint64(1); s <= 16; s++ {
			v := ti.build(newBuilder(nil, s*911, 0, nil))
			if enc, err := ti.encode(v); err == nil {
				ti.decode(enc)
				ti.decode(enc[:len(enc)/2])
			}
		}
		ti.decode([]byte{0xc0})
	}
}

// ---- calibration aid (VERIF_C14_CALIB=1): per type, the largest observed allocated/limit ratio -----------------

var (
	calibOn = os.Getenv("VERIF_C14_CALIB") != ""
	calibMu sync.Mutex
	calib   = map[string][3]float64{} // worst a-ratio (accepted), worst b-ratio (failed), worst overall vs limit
)

func calibNote(ti *typeInfo, ok bool, alloc, size uint64, n int) {
	if !calibOn {
		return
	}
	calibMu.Lock()
	defer calibMu.Unlock()
	c := calib[ti.Name]
	over := float64(alloc) - allocSlack
	if over > 0 {
		if ok {
			if r := over / float64(size+uint64(n)+1); r > c[0] {
				c[0] = r
			}
		} else if r := (over - allocA*float64(size)) / float64(n+1); r > c[1] {
			c[1] = r
		}
	}
	if r := float64(alloc) / float64(allocLimit(ti, size, n)); r > c[2] {
		c[2] = r
	}
	calib[ti.Name] = c
}

func calibDump() {
	if !calibOn {
		return
	}
	var names []string
	for n := range calib {
		names = append(names, n)
	}
	sort.Strings(names)
	for _, n := range names {
		c := calib[n]
		fmt.Printf("CALIB %-24s ok:alloc/(size+len)=%.2f  fail:(alloc-A*size)/len=%.2f  worst/limit=%.3f temp=%v\n", n, c[0], c[1], c[2], tempDecoded[n])
	}
}
