package c14

import (
	"encoding/json"
	"os"
	"path/filepath"
	"testing"

	"verif/kit"
)

// Native fuzz targets (thorough tier): oracles (c) accept=>canonical and (d) no panic / bounded allocation for the
// decoders of one type family. The first fuzz argument selects the type, the second is the byte string.

var hostileSeeds = [][]byte{
	{}, {0x80}, {0xc0}, {0x00}, {0x81, 0x00}, {0x81, 0x7f}, {0xb8, 0x00}, {0xb8, 0x37}, {0xf8, 0x00}, {0xf8, 0x37},
	{0xbf, 0x80, 0, 0, 0, 0, 0, 0, 0}, {0xff, 0x80, 0, 0, 0, 0, 0, 0, 0}, {0xbf, 0xff, 0xff, 0xff, 0xff, 0xff, 0xff, 0xff, 0xff},
	{0xff, 0xff, 0xff, 0xff, 0xff, 0xff, 0xff, 0xff, 0xff}, {0xbb, 0x10, 0x00, 0x00, 0x00}, {0xfb, 0x10, 0x00, 0x00, 0x00},
	{0xc2, 0xbb, 0x10, 0x00, 0x00, 0x00}, {0xc1, 0xc1}, {0xc3, 0xc2, 0xc1, 0xc0}, {0x82, 0x00, 0x01}, {0xc1, 0x80}, {0xc2, 0x80, 0x80},
	nested(60), nested(1500),
}

func fuzzFamily(f *testing.F, family string) {
	var tis []*typeInfo
	for _, ti := range registry {
		if ti.Family == family {
			tis = append(tis, ti)
		}
	}
	excl := knownExcl()
	for i, ti := range tis {
		for s := uint64(0); s < 4; s++ {
			tp := make([]uint64, 40)
			for k := range tp {
				tp[k] = splitmix(uint64(i)*1000+s*100+uint64(k)) >> (s * 16)
			}
			if s == 0 {
				tp = nil
			}
			enc, err := ti.encode(ti.build(newBuilder(tp, s*77+uint64(i), 0, excl)))
			if err != nil {
				f.Fatalf("seed corpus: %s: %v", ti.Name, err)
			}
			f.Add(uint8(i), enc)
		}
	}
	for i, h := range hostileSeeds {
		f.Add(uint8(i), h)
	}
	f.Fuzz(func(t *testing.T, sel uint8, data []byte) {
		if len(data) > 1<<16 {
			return
		}
		ti := tis[int(sel)%len(tis)]
		o := decodeOne(ti, data, true)
		if o.viol == nil || kit.IsKnown(o.viol.Class) {
			return // known, unrepaired classes are reported by their replays; the search goes on behind them
		}
		// the reproducible unit, in the form the replay tier understands
		c := HDCase{Raw: data, Targets: []string{ti.Name}}
		raw, _ := json.Marshal(c)
		rf := kit.ReplayFile{Property: "C14", Prop: "HostileDecode", Class: o.viol.Class, Msg: o.viol.Msg, Case: raw}
		b, _ := json.MarshalIndent(rf, "", " ")
		path := "(not saved)"
		if out := os.Getenv("VERIF_OUT"); out != "" {
			path = filepath.Join(out, "fuzz-"+family+"-"+o.viol.Class+".json")
			os.WriteFile(path, b, 0o644)
		}
		t.Fatalf("VIOLATION class=%s replay=%s\n%s", o.viol.Class, path, o.viol.Msg)
	})
}

func FuzzDecodeCore(f *testing.F)      { fuzzFamily(f, "core") }
func FuzzDecodeConsensus(f *testing.F) { fuzzFamily(f, "consensus") }
func FuzzDecodeStaking(f *testing.F)   { fuzzFamily(f, "staking") }
