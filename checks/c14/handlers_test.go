package c14

import (
	"crypto/ecdsa"
	"fmt"
	"math/big"
	"reflect"
	"runtime"
	"sort"
	"time"

	"github.com/youchainhq/go-youchain/bls"
	"github.com/youchainhq/go-youchain/common"
	"github.com/youchainhq/go-youchain/consensus/ucon"
	"github.com/youchainhq/go-youchain/core"
	"github.com/youchainhq/go-youchain/core/state"
	"github.com/youchainhq/go-youchain/core/types"
	"github.com/youchainhq/go-youchain/core/vm"
	"github.com/youchainhq/go-youchain/crypto"
	"github.com/youchainhq/go-youchain/crypto/vrf"
	secp256k1VRF "github.com/youchainhq/go-youchain/crypto/vrf/secp256k1"
	"github.com/youchainhq/go-youchain/local"
	"github.com/youchainhq/go-youchain/params"
	"github.com/youchainhq/go-youchain/rlp"
	"github.com/youchainhq/go-youchain/staking"
	"github.com/youchainhq/go-youchain/youdb"
	"pgregory.net/rapid"
	"verif/kit"
)

// ---------------------------------------------------------------------------------
// fixed actors (deterministic keys)

type actor struct {
	sk    *ecdsa.PrivateKey
	vrfSk vrf.PrivateKey
	blsSk bls.SecretKey
	addr  common.Address
	pub   []byte // compressed main public key
	blsPk []byte
}

var (
	actors   []*actor // 0..3 validators, 4 = a key that is no validator
	uconSeed = common.HexToHash("0x5eed5eed5eed5eed5eed5eed5eed5eed5eed5eed5eed5eed5eed5eed5eed5eed")
	fixedNow = time.Unix(1600000000, 0)
)

func init() {
	mgr := bls.NewBlsManager()
	for i := 0; i < 5; i++ {
		kb := make([]byte, 32)
		kb[31], kb[0] = byte(i+1), 0x11
		sk, err := crypto.ToECDSA(kb)
		if err != nil {
			panic(err)
		}
		vsk, err := secp256k1VRF.NewVRFSigner(sk)
		if err != nil {
			panic(err)
		}
		bb := make([]byte, 32)
		bb[31], bb[30] = byte(i+1), 0x22
		bsk, err := mgr.DecSecretKey(bb)
		if err != nil {
			panic(err)
		}
		bpk, err := bsk.PubKey()
		if err != nil {
			panic(err)
		}
		actors = append(actors, &actor{sk: sk, vrfSk: vsk, blsSk: bsk, addr: crypto.PubkeyToAddress(sk.PublicKey),
			pub: crypto.CompressPubkey(&sk.PublicKey), blsPk: bpk.Compress().Bytes()})
	}
}

func rigValidators() []*state.Validator {
	var vals []*state.Validator
	for i := 0; i < 4; i++ {
		a := actors[i]
		stake := big.NewInt(1000)
		token := new(big.Int).Mul(stake, params.StakeUint)
		vals = append(vals, state.NewValidator(fmt.Sprintf("v%d", i), a.addr, a.addr, params.RoleChancellor, a.pub, a.blsPk,
			token, stake, 0, 0, 0, params.ValidatorOnline))
	}
	return vals
}

func youParams() *params.YouParams {
	yp := params.Versions[params.YouV5]
	return &yp
}

// ---------------------------------------------------------------------------------
// consensus message handler

// UMCase is one message handed to MessageHandler.HandleMsg.
type UMCase struct {
	Code     uint8    `json:"code"`   // message code written into the envelope
	Kind     string   `json:"kind"`   // payload shape: priority | block | vote | other
	Other    string   `json:"other"`  // registry type used for kind "other"
	Honest   bool     `json:"honest"` // proofs and vote signatures as an honest validator makes them
	Tape     []uint64 `json:"tape"`   // content of the non-honest fields
	Seed     uint64   `json:"seed"`
	Muts     []Mut    `json:"muts"`      // mutations of the payload encoding (before signing the envelope)
	EnvMuts  []Mut    `json:"env_muts"`  // mutations of the signed envelope encoding
	Signer   int      `json:"signer"`    // 0..3 validator, 4 non-validator key, 5 garbage signature
	MsgRound uint64   `json:"msg_round"` // the handler stands at round 10, index 2
	MsgIndex uint32   `json:"msg_index"`
}

const rigRound, rigIndex = 10, 2

var umKinds = []string{"priority", "block", "vote", "vote", "priority", "block", "other"}

func genUM(t *rapid.T) UMCase {
	c := UMCase{Kind: umKinds[uniform(t, len(umKinds), "kind")], Tape: genTape(t, 20), Seed: genSeed(t)}
	c.Other = typeNames()[uniform(t, len(registry), "other")]
	switch c.Kind {
	case "priority":
		c.Code = ucon.VerifC14MsgPriority
	case "block":
		c.Code = ucon.VerifC14MsgBlock
	case "vote":
		c.Code = rapid.SampledFrom([]uint8{ucon.VerifC14MsgPrevote, ucon.VerifC14MsgPrecommit, ucon.VerifC14MsgNext, ucon.VerifC14MsgCert}).Draw(t, "vcode")
	default:
		c.Code = uint8(rapid.IntRange(0, 8).Draw(t, "code"))
	}
	if rapid.IntRange(0, 9).Draw(t, "codeflip") == 0 {
		c.Code = uint8(rapid.IntRange(0, 255).Draw(t, "anycode")) // a payload of one kind under another code
	}
	c.Honest = rapid.IntRange(0, 2).Draw(t, "honest") > 0
	c.Signer = rapid.SampledFrom([]int{0, 0, 1, 2, 3, 0, 1, 4, 5}).Draw(t, "signer")
	c.MsgRound = rapid.SampledFrom([]uint64{rigRound, rigRound, rigRound, rigRound, rigRound, rigRound, rigRound - 1, rigRound + 1, 1, 0, 1 << 40, 32768}).Draw(t, "round")
	c.MsgIndex = rapid.SampledFrom([]uint32{rigIndex, rigIndex, rigIndex, rigIndex, rigIndex, 1, rigIndex + 1, 0, 1 << 31}).Draw(t, "index")
	if n := rapid.IntRange(-2, 2).Draw(t, "nmuts"); n > 0 {
		for i := 0; i < n; i++ {
			c.Muts = append(c.Muts, genMut(t))
		}
	}
	if rapid.IntRange(0, 5).Draw(t, "envmut") == 0 {
		c.EnvMuts = append(c.EnvMuts, genMut(t))
	}
	return c
}

func voteTypeOfCode(code uint8) uint32 {
	switch code {
	case ucon.VerifC14MsgPrevote:
		return uint32(ucon.Prevote)
	case ucon.VerifC14MsgPrecommit:
		return uint32(ucon.Precommit)
	case ucon.VerifC14MsgNext:
		return uint32(ucon.NextIndex)
	case ucon.VerifC14MsgCert:
		return uint32(ucon.Certificate)
	}
	return uint32(ucon.Prevote)
}

// umPayload builds the payload value; selected reports whether an honest sender would have been selected at all.
func umPayload(c UMCase, yp *params.YouParams) (val interface{}, selected bool) {
	b := newBuilder(c.Tape, c.Seed, 0, nil)
	a := actors[c.Signer%4]
	stake, total := big.NewInt(1000), big.NewInt(4000)
	round := new(big.Int).SetUint64(c.MsgRound)
	switch c.Kind {
	case "priority":
		cc := b.build(reflect.TypeOf(ucon.ConsensusCommon{})).Addr().Interface().(*ucon.ConsensusCommon)
		cc.Round, cc.RoundIndex, cc.Timestamp = round, c.MsgIndex, 1000
		if c.Honest {
			h, proof, j := ucon.VrfSortition(a.vrfSk, uconSeed, c.MsgIndex, uint32(ucon.UConStepProposal), yp.ProposerThreshold, stake, total)
			cc.Step, cc.SortitionProof, cc.SubUsers, cc.Priority = uint32(ucon.UConStepProposal), proof, j, ucon.VrfComputePriority(h, j)
			selected = j > 0
		}
		return cc, selected
	case "block":
		blk := b.block()
		hdr := blk.Header()
		cd := b.build(reflect.TypeOf(ucon.BlockConsensusData{})).Addr().Interface().(*ucon.BlockConsensusData)
		cd.Round, cd.RoundIndex = round, c.MsgIndex
		if c.Honest {
			h, proof, j := ucon.VrfSortition(a.vrfSk, uconSeed, c.MsgIndex, uint32(ucon.UConStepProposal), yp.ProposerThreshold, stake, total)
			cd.SortitionProof, cd.SubUsers, cd.Priority = proof, j, ucon.VrfComputePriority(h, j)
			selected = j > 0
		}
		cons, err := rlp.EncodeToBytes(cd)
		if err != nil {
			panic(err)
		}
		hdr.Consensus, hdr.Number, hdr.Time, hdr.MixDigest = cons, round, 1000, types.UConMixHash
		return types.NewBlockWithHeader(hdr).WithBody(blk.Body()), selected
	case "vote":
		bv := b.build(reflect.TypeOf(ucon.BlockHashWithVotes{})).Addr().Interface().(*ucon.BlockHashWithVotes)
		bv.Round, bv.RoundIndex, bv.Timestamp = round, c.MsgIndex, 1000
		if c.Honest {
			step := voteTypeOfCode(c.Code)
			th := yp.ValidatorThreshold
			if step == uint32(ucon.Certificate) {
				th = yp.CertValThreshold
			}
			_, proof, j := ucon.VrfSortition(a.vrfSk, uconSeed, c.MsgIndex, step, th, stake, total)
			sig := a.blsSk.Sign(ucon.VerifC14VotePayload(bv.BlockHash, round, c.MsgIndex)).Compress()
			vals := state.NewValidators(rigValidators())
			idx, _ := vals.GetIndex(a.addr)
			bv.Vote = &ucon.SingleVote{VoterIdx: uint32(idx), Votes: j, Signature: sig.Bytes(), Proof: proof}
			selected = j > 0
		}
		return bv, selected
	default:
		ti := typeByName[c.Other]
		if ti == nil {
			ti = registry[0]
		}
		return ti.build(b), false
	}
}

func encodeAny(v interface{}) []byte {
	if p, ok := v.(*state.VerifC14Pending); ok {
		e, _ := p.Encode()
		return e
	}
	e, err := rlp.EncodeToBytes(v)
	if err != nil {
		panic(err)
	}
	return e
}

func quiesce(base int) {
	for i := 0; i < 2000 && runtime.NumGoroutine() > base; i++ {
		runtime.Gosched()
		if i > 100 {
			time.Sleep(50 * time.Microsecond)
		}
	}
}

func runUM(c UMCase) kit.Result {
	yp := youParams()
	base := runtime.NumGoroutine()
	rig := ucon.VerifC14NewRig(actors[0].sk, actors[0].blsSk, rigValidators(), yp, uconSeed, big.NewInt(rigRound), rigIndex)
	val, selected := umPayload(c, yp)
	penc := encodeAny(val)
	payload, papplied := mutate(penc, c.Muts)
	var sig []byte
	switch {
	case c.Signer >= 0 && c.Signer <= 4:
		s, err := ucon.Sign(actors[c.Signer].sk, ucon.VerifC14MsgSigPayload(payload, c.Code))
		if err != nil {
			panic(err)
		}
		sig = s
	default:
		sig = make([]byte, 65)
		fill(sig, uint64(len(payload))+7)
	}
	env, err := rlp.EncodeToBytes(&ucon.Message{Code: ucon.MsgType(c.Code), Payload: payload, Signature: sig})
	if err != nil {
		panic(err)
	}
	data, eapplied := mutate(env, c.EnvMuts)

	var herr error
	if p := func() (p interface{}) {
		defer func() { p = recover() }()
		herr = rig.MH.HandleMsg(data, fixedNow)
		return nil
	}(); p != nil {
		quiesce(base)
		return kit.Fail("handlemsg-panic", "MessageHandler.HandleMsg panicked on a %d-byte message (code %d, kind %s): %v\n  data: %s", len(data), c.Code, c.Kind, p, clip(data))
	}
	quiesce(base)

	// what a receiver can say about the message without any consensus state
	labels := []string{"kind:" + c.Kind}
	var m ucon.Message
	envOK := rlp.DecodeBytes(data, &m) == nil
	payloadOK := false
	if envOK {
		var perr error
		switch {
		case uint8(m.Code) == ucon.VerifC14MsgPriority:
			perr = rlp.DecodeBytes(m.Payload, new(ucon.ConsensusCommon))
		case uint8(m.Code) == ucon.VerifC14MsgBlock:
			perr = rlp.DecodeBytes(m.Payload, new(types.Block))
		case uint8(m.Code) >= ucon.VerifC14MsgPrevote && uint8(m.Code) <= ucon.VerifC14MsgCert:
			perr = rlp.DecodeBytes(m.Payload, new(ucon.BlockHashWithVotes))
		default:
			perr = fmt.Errorf("unknown code")
		}
		payloadOK = perr == nil
	}
	switch {
	case !envOK:
		labels = append(labels, "envelope-undecodable")
	case !payloadOK:
		labels = append(labels, "payload-undecodable")
	default:
		labels = append(labels, "payload-decodable")
	}
	if (!envOK || !payloadOK) && herr == nil {
		return kit.Fail("handlemsg-undecodable-not-rejected", "HandleMsg returned nil for a message whose envelope or payload does not decode (envelope ok: %v)\n  data: %s", envOK, clip(data))
	}
	pristine := len(papplied) == 0 && len(eapplied) == 0
	honestLive := c.Honest && pristine && selected && c.Signer < 4 && c.MsgRound == rigRound && c.MsgIndex == rigIndex &&
		((c.Kind == "priority" && c.Code == ucon.VerifC14MsgPriority) || (c.Kind == "block" && c.Code == ucon.VerifC14MsgBlock) ||
			(c.Kind == "vote" && c.Code >= ucon.VerifC14MsgPrevote && c.Code <= ucon.VerifC14MsgNext))
	if honestLive {
		labels = append(labels, "honest-live")
		if herr != nil {
			return kit.Fail("handlemsg-honest-rejected", "HandleMsg rejected an honest, unmodified %s message of validator %d for the current round: %v", c.Kind, c.Signer, herr)
		}
	}
	if herr != nil {
		labels = append(labels, "returned-error")
	} else {
		labels = append(labels, "returned-nil")
	}
	if !pristine {
		labels = append(labels, "mutated")
	}
	sort.Strings(labels)
	return kit.OK(envOK && c.Signer < 4 && (!pristine || !c.Honest || !payloadOK), labels...)
}

var _ = kit.Register(kit.Prop[UMCase]{
	Name: "UconHandleMsg",
	Rule: "one consensus message handed to the real MessageHandler.HandleMsg wired (through an add-only shim) to the real Proposal and Voter processors at round 10 index 2 with 4 chamber validators; the payload is a priority / block proposal / vote built honestly (real VRF proofs, BLS vote signature) or with generated fields, or the encoding of any other registry type, structurally mutated 0-2 times, signed by a validator, a stranger or with a garbage signature, under the matching or another code, for the same / older / future / absurd round; the signed envelope is mutated in 1 of 6 cases; oracle: no panic, an undecodable envelope or payload or an unknown code is answered with an error, an honest unmodified message of a selected validator for the current round is not rejected; non-trivial = decodable envelope signed by a validator whose payload is generated, mutated or undecodable",
	Gen:  genUM, Run: runUM,
	Quick: 2000, Thorough: 8000, Chunk: 500, MinNonTrivialPct: 22,
})

// ---------------------------------------------------------------------------------
// staking message path: TxConverter.ApplyMessage with arbitrary payloads to the staking address

// SMCase is one transaction payload sent to the staking module address.
type SMCase struct {
	Action  uint8    `json:"action"`
	Payload string   `json:"payload"` // registry type whose encoding is the action payload
	Tape    []uint64 `json:"tape"`
	Seed    uint64   `json:"seed"`
	Aim     bool     `json:"aim"`      // point the payload at an existing validator and send from its operator
	Muts    []Mut    `json:"muts"`     // mutations of the payload encoding
	EnvMuts []Mut    `json:"env_muts"` // mutations of the staking.Message encoding
	Gas     uint64   `json:"gas"`
	V4      bool     `json:"v4"` // run under the YouV4 parameters instead of YouV5
}

var smPayloads = []struct {
	action staking.ActionType
	typ    string
}{
	{staking.ValidatorCreate, "TxCreateValidator"}, {staking.ValidatorUpdate, "TxUpdateValidator"},
	{staking.ValidatorDeposit, "TxValidatorDeposit"}, {staking.ValidatorWithDraw, "TxValidatorWithdraw"},
	{staking.ValidatorChangeStatus, "TxValidatorChangeStatus"}, {staking.ValidatorSettle, "TxValidatorSettle"},
	{staking.DelegationAdd, "TxDelegation"}, {staking.DelegationSub, "TxDelegation"}, {staking.DelegationSettle, "TxDelegationSettle"},
}

func genSM(t *rapid.T) SMCase {
	p := smPayloads[uniform(t, len(smPayloads), "action")]
	c := SMCase{Action: uint8(p.action), Payload: p.typ, Tape: genTape(t, 20), Seed: genSeed(t)}
	switch rapid.IntRange(0, 9).Draw(t, "confuse") {
	case 0:
		c.Action = uint8(rapid.IntRange(0, 255).Draw(t, "anyaction"))
	case 1:
		c.Payload = typeNames()[uniform(t, len(registry), "anytype")]
	}
	c.Aim = rapid.IntRange(0, 3).Draw(t, "aim") > 0
	if n := rapid.IntRange(-1, 2).Draw(t, "nmuts"); n > 0 {
		for i := 0; i < n; i++ {
			c.Muts = append(c.Muts, genMut(t))
		}
	}
	if rapid.IntRange(0, 5).Draw(t, "envmut") == 0 {
		c.EnvMuts = append(c.EnvMuts, genMut(t))
	}
	c.Gas = rapid.SampledFrom([]uint64{0, 21000, 1000000, 50000000}).Draw(t, "gas")
	c.V4 = rapid.IntRange(0, 4).Draw(t, "v4") == 0
	return c
}

func runSM(c SMCase) kit.Result {
	ti := typeByName[c.Payload]
	if ti == nil {
		return kit.Discarded("unknown type")
	}
	yp := params.Versions[params.YouV5]
	if c.V4 {
		yp = params.Versions[params.YouV4]
	}
	st, err := state.New(common.Hash{}, common.Hash{}, common.Hash{}, state.NewDatabase(youdb.NewMemDatabase()))
	if err != nil {
		panic(err)
	}
	// two existing validators operated by actors 0 and 1; actor 2 is a funded account without validator
	rich := new(big.Int).Mul(big.NewInt(1000000), params.StakeUint)
	for i, role := range []params.ValidatorRole{params.RoleChancellor, params.RoleHouse} {
		a := actors[i]
		stake := big.NewInt(1000)
		st.CreateValidator(fmt.Sprintf("v%d", i), a.addr, a.addr, role, a.pub, a.blsPk, new(big.Int).Mul(stake, params.StakeUint), stake, 1, 100, 100, params.ValidatorOnline)
	}
	for i := 0; i < 3; i++ {
		st.AddBalance(actors[i].addr, rich)
	}
	from := actors[2].addr
	v := ti.build(newBuilder(c.Tape, c.Seed, 0, nil))
	if c.Aim {
		// aim the generated payload at validator 0 / 1 and send it from that validator's operator
		w := 0
		if len(c.Tape) > 0 {
			w = int(c.Tape[0] % 2)
		}
		from = actors[w].addr
		rv := reflect.ValueOf(v)
		if rv.Kind() == reflect.Ptr && rv.Elem().Kind() == reflect.Struct {
			for _, fn := range []string{"MainAddress", "Validator"} {
				if f := rv.Elem().FieldByName(fn); f.IsValid() && f.CanSet() && f.Type() == reflect.TypeOf(common.Address{}) {
					f.Set(reflect.ValueOf(actors[w].addr))
				}
			}
			if f := rv.Elem().FieldByName("OperatorAddress"); f.IsValid() && f.CanSet() && f.Type() == reflect.TypeOf(common.Address{}) {
				f.Set(reflect.ValueOf(from))
			}
		}
	}
	penc, err := ti.encode(v)
	if err != nil {
		return kit.Discarded("payload does not encode")
	}
	payload, _ := mutate(penc, c.Muts)
	env, err := rlp.EncodeToBytes(&staking.Message{Action: staking.ActionType(c.Action), Payload: payload})
	if err != nil {
		panic(err)
	}
	data, _ := mutate(env, c.EnvMuts)

	to := params.StakingModuleAddress
	msg := types.NewMessage(from, &to, st.GetNonce(from), new(big.Int), c.Gas, big.NewInt(1), data, true)
	header := &types.Header{Number: big.NewInt(20), Time: 1000, GasLimit: 80000000, GasRewards: new(big.Int), Subsidy: new(big.Int)}
	cfg := &vm.Config{}
	cfg.CurrYouParams = &yp
	ctx := core.NewMsgContext(msg, st, nil, header, actors[0].addr, new(core.GasPool).AddGas(80000000), cfg, local.FakeRecorder())
	ctx.InitialGas, ctx.AvailableGas = c.Gas, c.Gas
	nonce0 := st.GetNonce(from)

	var failed bool
	var aerr error
	if p := func() (p interface{}) {
		defer func() { p = recover() }()
		_, _, failed, aerr = (&staking.TxConverter{}).ApplyMessage(ctx)
		return nil
	}(); p != nil {
		return kit.Fail("staking-apply-panic", "TxConverter.ApplyMessage panicked on action %d with a %d-byte payload: %v\n  data: %s", c.Action, len(payload), p, clip(data))
	}
	if aerr != nil {
		return kit.Fail("staking-apply-error", "ApplyMessage returned an error for a message to the staking address (the message must be accepted, failed or not): %v", aerr)
	}
	if got := st.GetNonce(from); got != nonce0+1 {
		return kit.Fail("staking-apply-nonce", "sender nonce went from %d to %d", nonce0, got)
	}
	var m staking.Message
	envOK := rlp.DecodeBytes(data, &m) == nil
	labels := []string{fmt.Sprintf("failed:%v", failed)}
	if !envOK {
		labels = append(labels, "message-undecodable")
		if !failed {
			return kit.Fail("staking-undecodable-not-failed", "ApplyMessage reported success for transaction data that does not decode as a staking message: %s", clip(data))
		}
	} else {
		var target interface{}
		for _, p := range smPayloads {
			if p.action == m.Action {
				target = reflect.New(reflect.TypeOf(typeByName[p.typ].build(newBuilder(nil, 0, 0, nil))).Elem()).Interface()
			}
		}
		switch {
		case target == nil:
			labels = append(labels, "unknown-action")
			if !failed {
				return kit.Fail("staking-unknown-action-not-failed", "ApplyMessage reported success for unknown action %d", m.Action)
			}
		case rlp.DecodeBytes(m.Payload, target) != nil:
			labels = append(labels, "payload-undecodable")
			if !failed {
				return kit.Fail("staking-undecodable-not-failed", "ApplyMessage reported success for action %d whose payload does not decode: %s", m.Action, clip(m.Payload))
			}
		default:
			labels = append(labels, "payload-decodable")
		}
	}
	if c.Aim {
		labels = append(labels, "aimed")
	}
	sort.Strings(labels)
	return kit.OK(len(c.Muts)+len(c.EnvMuts) > 0 || c.Aim, labels...)
}

var _ = kit.Register(kit.Prop[SMCase]{
	Name: "StakingApplyMessage",
	Rule: "transaction data sent to the staking module address through the real TxConverter.ApplyMessage on a fresh state with two validators and funded senders: a staking.Message carrying the encoding of a generated Tx* payload of the action (or of another action, or of any registry type), optionally aimed at an existing validator from its operator, payload mutated 0-2 times and message mutated in 1 of 6 cases, under YouV5 or YouV4 parameters and gas 0..5e7; oracle: no panic, no error (the message is always accepted), sender nonce +1, undecodable message / payload or unknown action is reported as failed; non-trivial = mutated or aimed",
	Gen:  genSM, Run: runSM,
	Quick: 4000, Thorough: 25000, Chunk: 1000, MinNonTrivialPct: 40,
})
