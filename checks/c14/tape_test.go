package c14

import (
	"encoding/hex"
	"fmt"
	"math/big"
	"reflect"
	"sort"
	"strings"
)

// ---------------------------------------------------------------------------------
// tape: the generated randomness of a case, as plain data. Values are built from it
// deterministically, so a case replays from JSON without rapid.

type tape struct {
	d    []uint64
	i    int
	seed uint64 // behind the explicit words: zeros (seed 0, what shrinking arrives at) or a pseudo-random stream
}

func (t *tape) u64() uint64 {
	t.i++
	if t.i <= len(t.d) {
		return t.d[t.i-1]
	}
	if t.seed == 0 {
		return 0
	}
	return splitmix(t.seed ^ uint64(t.i)*0x9e3779b97f4a7c15)
}

func (t *tape) n(k int) int {
	if k <= 1 {
		return 0
	}
	return int(t.u64() % uint64(k))
}

func splitmix(x uint64) uint64 {
	x += 0x9e3779b97f4a7c15
	x = (x ^ (x >> 30)) * 0xbf58476d1ce4e5b9
	x = (x ^ (x >> 27)) * 0x94d049bb133111eb
	return x ^ (x >> 31)
}

// fill writes a pseudo-random byte stream derived from seed.
func fill(b []byte, seed uint64) {
	x := seed
	for i := 0; i < len(b); i += 8 {
		x = splitmix(x)
		for j := 0; j < 8 && i+j < len(b); j++ {
			b[i+j] = byte(x >> (8 * uint(j)))
		}
	}
}

var uintEdges = []uint64{0, 1, 0x7f, 0x80, 0xff, 0x100, 0xffff, 0x10000, 0xffffffff, 0x100000000,
	1<<56 - 1, 1 << 56, 1 << 63, ^uint64(0)}

// uintBits picks an unsigned integer of the given width: RLP boundary values, small values, or anything.
func (t *tape) uintBits(bits int) uint64 {
	w := t.u64()
	var v uint64
	switch w % 4 {
	case 0:
		v = uintEdges[(w>>2)%uint64(len(uintEdges))]
	case 1:
		v = (w >> 2) % 300
	default:
		v = splitmix(w)
		v >>= (w >> 2) % 64
	}
	if bits < 64 {
		v &= 1<<uint(bits) - 1
	}
	return v
}

// bigInt picks a non-negative big integer (never nil: the node never stores nil amounts).
func (t *tape) bigInt() *big.Int {
	w := t.u64()
	switch w % 6 {
	case 0:
		return new(big.Int)
	case 1:
		return new(big.Int).SetUint64((w >> 3) % 300)
	case 2:
		return new(big.Int).SetUint64(splitmix(w))
	case 3:
		ks := []uint{8, 64, 128, 255, 256}
		x := new(big.Int).Lsh(big.NewInt(1), ks[(w>>3)%uint64(len(ks))])
		if (w>>6)&1 == 1 {
			x.Sub(x, big.NewInt(1))
		}
		return x
	case 4:
		// 18-decimals token amounts
		x := new(big.Int).SetUint64((w >> 3) % 100000)
		return x.Mul(x, new(big.Int).Exp(big.NewInt(10), big.NewInt(18), nil))
	default:
		b := make([]byte, 1+(w>>3)%40)
		fill(b, w)
		return new(big.Int).SetBytes(b)
	}
}

// byteString picks a byte string with lengths around the RLP header boundaries.
func (t *tape) byteString() []byte {
	w := t.u64()
	var n int
	switch w % 10 {
	case 0:
		return []byte{}
	case 1:
		return []byte{byte(w>>4) & 0x7f} // single byte < 0x80: its own encoding
	case 2:
		return []byte{byte(w>>4) | 0x80}
	case 3:
		n = 55
	case 4:
		n = 56
	case 5:
		n = 57 + int((w>>4)%260) // crosses 255/256
	case 6:
		// leading zero bytes are legitimate in byte strings
		b := make([]byte, 1+(w>>4)%8)
		if (w>>8)&1 == 1 {
			b[len(b)-1] = byte(w >> 9)
		}
		return b
	case 7:
		n = 32
	default:
		n = 2 + int((w>>4)%53)
	}
	b := make([]byte, n)
	fill(b, w)
	return b
}

func (t *tape) fixedBytes(b []byte) {
	w := t.u64()
	switch w % 5 {
	case 0: // zero value
	case 1:
		b[len(b)-1] = byte(w >> 3) // small
	case 2:
		b[0] = byte(w >> 3) // leading byte only
	default:
		fill(b, w)
	}
}

// ---------------------------------------------------------------------------------
// generic reflection builder ("as the node produces them": no nil pointers, no nil
// big integers; nil only where the field carries rlp:"nil")

var bigIntPtrType = reflect.TypeOf((*big.Int)(nil))

type builder struct {
	t       *tape
	variant int                                             // 0 / 1: the independently rebuilt copy inserts set members in another order
	excl    map[string]bool                                 // known classes excluded by construction
	labels  map[string]bool                                 // distribution labels
	custom  map[reflect.Type]func(b *builder) reflect.Value // types with unexported state
}

func (b *builder) label(s string) { b.labels[s] = true }

func (b *builder) sliceLen() int {
	w := b.t.u64()
	switch w % 8 {
	case 0, 1:
		return 0
	case 2, 3:
		return 1
	case 4:
		return 2
	case 5:
		return 3
	case 6:
		return 4 + int((w>>3)%4)
	default:
		return int((w >> 3) % 3)
	}
}

// cheapElem: fixed-size byte arrays, byte strings, and (pointers to) structs made of scalars, byte arrays / strings
// and big integers only - long lists of them stay small enough to generate often.
func cheapElem(t reflect.Type) bool {
	if t.Kind() == reflect.Ptr {
		t = t.Elem()
	}
	switch t.Kind() {
	case reflect.Array:
		return t.Elem().Kind() == reflect.Uint8
	case reflect.Slice:
		return t.Elem().Kind() == reflect.Uint8
	case reflect.Struct:
		if t == bigIntPtrType.Elem() || t.Size() > 160 {
			return false
		}
		for i := 0; i < t.NumField(); i++ {
			ft := t.Field(i).Type
			switch {
			case t.Field(i).PkgPath != "":
				return false
			case ft == bigIntPtrType, flat(ft), ft.Kind() == reflect.String:
			case ft.Kind() == reflect.Slice && ft.Elem().Kind() == reflect.Uint8:
			default:
				return false
			}
		}
		return true
	}
	return false
}

func (b *builder) build(typ reflect.Type) reflect.Value {
	v := reflect.New(typ).Elem()
	b.fillValue(v, "")
	return v
}

func (b *builder) fillValue(v reflect.Value, tag string) {
	typ := v.Type()
	if f, ok := b.custom[typ]; ok {
		v.Set(f(b))
		return
	}
	if typ == bigIntPtrType {
		v.Set(reflect.ValueOf(b.t.bigInt()))
		return
	}
	switch typ.Kind() {
	case reflect.Bool:
		v.SetBool(b.t.n(2) == 1)
	case reflect.Uint, reflect.Uint8, reflect.Uint16, reflect.Uint32, reflect.Uint64, reflect.Uintptr:
		bits := typ.Bits()
		v.SetUint(b.t.uintBits(bits))
	case reflect.String:
		v.SetString(string(b.t.byteString()))
	case reflect.Slice:
		if typ.Elem().Kind() == reflect.Uint8 {
			v.SetBytes(b.t.byteString())
			return
		}
		n := b.sliceLen()
		if cheapElem(typ.Elem()) && b.t.n(24) == 0 {
			n = 100 + b.t.n(1200) // now and then a long list of small elements
			b.label("long-list")
		}
		s := reflect.MakeSlice(typ, n, n)
		for i := 0; i < n; i++ {
			b.fillValue(s.Index(i), "")
		}
		v.Set(s)
	case reflect.Array:
		if typ.Elem().Kind() == reflect.Uint8 {
			buf := make([]byte, typ.Len())
			b.t.fixedBytes(buf)
			reflect.Copy(v, reflect.ValueOf(buf))
			return
		}
		for i := 0; i < typ.Len(); i++ {
			b.fillValue(v.Index(i), "")
		}
	case reflect.Ptr:
		if strings.Contains(tag, "nil") && b.t.n(3) == 0 {
			return // stays nil
		}
		p := reflect.New(typ.Elem())
		b.fillValue(p.Elem(), "")
		v.Set(p)
	case reflect.Struct:
		for i := 0; i < typ.NumField(); i++ {
			f := typ.Field(i)
			if f.PkgPath != "" {
				continue
			}
			ft := f.Tag.Get("rlp")
			if ft == "-" {
				continue
			}
			b.fillValue(v.Field(i), ft)
		}
	default:
		panic(fmt.Sprintf("c14: no generator for %v", typ))
	}
}

// ---------------------------------------------------------------------------------
// generic observation: exported fields and registered getters; caches and unexported
// state are not looked at; nil and empty slices are the same observation.

type dumper struct {
	custom map[reflect.Type]func(d *dumper, v reflect.Value) string
}

func (d *dumper) dump(v reflect.Value) string {
	if !v.IsValid() {
		return "nil"
	}
	typ := v.Type()
	if f, ok := d.custom[typ]; ok {
		return f(d, v)
	}
	if typ == bigIntPtrType {
		if v.IsNil() {
			return "nilbig"
		}
		return v.Interface().(*big.Int).String()
	}
	switch typ.Kind() {
	case reflect.Bool:
		return fmt.Sprint(v.Bool())
	case reflect.Uint, reflect.Uint8, reflect.Uint16, reflect.Uint32, reflect.Uint64, reflect.Uintptr:
		return fmt.Sprint(v.Uint())
	case reflect.String:
		return "s" + hex.EncodeToString([]byte(v.String()))
	case reflect.Slice, reflect.Array:
		if typ.Elem().Kind() == reflect.Uint8 {
			buf := make([]byte, v.Len())
			reflect.Copy(reflect.ValueOf(buf), v)
			return "x" + hex.EncodeToString(buf)
		}
		parts := make([]string, v.Len())
		for i := range parts {
			parts[i] = d.dump(v.Index(i))
		}
		return "[" + strings.Join(parts, ",") + "]"
	case reflect.Ptr, reflect.Interface:
		if v.IsNil() {
			return "nil"
		}
		return d.dump(v.Elem())
	case reflect.Map:
		var parts []string
		for _, k := range v.MapKeys() {
			parts = append(parts, d.dump(k)+":"+d.dump(v.MapIndex(k)))
		}
		sort.Strings(parts)
		return "{" + strings.Join(parts, ",") + "}"
	case reflect.Struct:
		var parts []string
		for i := 0; i < typ.NumField(); i++ {
			f := typ.Field(i)
			if f.PkgPath != "" {
				continue
			}
			parts = append(parts, f.Name+"="+d.dump(v.Field(i)))
		}
		return "{" + strings.Join(parts, " ") + "}"
	default:
		return fmt.Sprintf("?%v", typ)
	}
}
