package c14

import (
	"fmt"
	"reflect"
	"sort"
	"strings"

	"github.com/youchainhq/go-youchain/common"
	"github.com/youchainhq/go-youchain/consensus/ucon"
	"github.com/youchainhq/go-youchain/core/state"
	"github.com/youchainhq/go-youchain/core/types"
	"github.com/youchainhq/go-youchain/params"
	"github.com/youchainhq/go-youchain/rlp"
	"github.com/youchainhq/go-youchain/staking"
)

// typeInfo describes one wire / disk type of the node.
type typeInfo struct {
	Name   string
	Family string // core | consensus | staking (fuzz target grouping)
	// Listed: the statement's accept=>canonical list names this kind of object
	// (header, block, transaction, consensus payload, vote container, staking message,
	// evidence, validator record). Other types get round-trip and safety only.
	Listed string
	build  func(b *builder) interface{}           // a value as the node produces it, in the form callers hand to the encoder
	encode func(v interface{}) ([]byte, error)    // how callers encode it
	decode func(data []byte) (interface{}, error) // how callers decode it (fresh object as they create it)
	dump   func(v interface{}) string             // observation through exported fields / getters
}

var (
	registry   []*typeInfo
	typeByName = map[string]*typeInfo{}
	theDumper  = &dumper{custom: map[reflect.Type]func(d *dumper, v reflect.Value) string{}}
	customFill = map[reflect.Type]func(b *builder) reflect.Value{}
)

func register(ti *typeInfo) {
	if ti.encode == nil {
		ti.encode = func(v interface{}) ([]byte, error) { return rlp.EncodeToBytes(v) }
	}
	if ti.dump == nil {
		ti.dump = func(v interface{}) string { return theDumper.dump(reflect.ValueOf(v)) }
	}
	registry = append(registry, ti)
	typeByName[ti.Name] = ti
}

// plain registers a type that is encoded and decoded through a pointer to it.
func plain(name, family, listed string, ptr interface{}) {
	typ := reflect.TypeOf(ptr).Elem()
	register(&typeInfo{Name: name, Family: family, Listed: listed,
		build: func(b *builder) interface{} { return b.build(typ).Addr().Interface() },
		decode: func(data []byte) (interface{}, error) {
			p := reflect.New(typ).Interface()
			return p, rlp.DecodeBytes(data, p)
		}})
}

func newBuilder(tp []uint64, seed uint64, variant int, excl []string) *builder {
	b := &builder{t: &tape{d: tp, seed: seed}, variant: variant, excl: map[string]bool{}, labels: map[string]bool{}, custom: customFill}
	for _, e := range excl {
		b.excl[e] = true
	}
	return b
}

// fillFields fills the exported, encoded fields of a struct without consulting customFill for the struct itself.
func (b *builder) fillFields(v reflect.Value) {
	typ := v.Type()
	for i := 0; i < typ.NumField(); i++ {
		f := typ.Field(i)
		if f.PkgPath != "" || f.Tag.Get("rlp") == "-" {
			continue
		}
		b.fillValue(v.Field(i), f.Tag.Get("rlp"))
	}
}

func (b *builder) address() common.Address {
	var a common.Address
	b.t.fixedBytes(a[:])
	return a
}

func (b *builder) hash() common.Hash {
	var h common.Hash
	b.t.fixedBytes(h[:])
	return h
}

// ---------------------------------------------------------------------------------
// builders for types with unexported state

func (b *builder) transaction() *types.Transaction {
	nonce := b.t.uintBits(64)
	gas := b.t.uintBits(64)
	amount, price := b.t.bigInt(), b.t.bigInt()
	data := b.t.byteString()
	var tx *types.Transaction
	if b.t.n(4) == 0 {
		tx = types.NewContractCreation(nonce, amount, gas, price, data)
	} else {
		tx = types.NewTransaction(nonce, b.address(), amount, gas, price, data)
	}
	if b.t.n(4) != 0 {
		sig := make([]byte, 65)
		fill(sig, b.t.u64())
		sig[64] &= 1
		if b.t.n(8) == 0 {
			copy(sig, make([]byte, 40)) // r with leading zero bytes
		}
		signed, err := tx.WithSignature(types.NewYouSigner(1+b.t.uintBits(16)), sig)
		if err != nil {
			panic(err)
		}
		tx = signed
	}
	return tx
}

func (b *builder) header() *types.Header {
	return b.build(reflect.TypeOf(types.Header{})).Addr().Interface().(*types.Header)
}

func (b *builder) block() *types.Block {
	n := b.sliceLen()
	txs := make([]*types.Transaction, n)
	for i := range txs {
		txs[i] = b.transaction()
	}
	if n > 0 {
		b.label("block-with-txs")
	}
	return types.NewBlockWithHeader(b.header()).WithBody(&types.Body{Transactions: txs})
}

func (b *builder) consensusLog() *types.Log {
	l := &types.Log{Address: b.address(), Data: b.t.byteString()}
	n := b.t.n(5)
	l.Topics = make([]common.Hash, n)
	for i := range l.Topics {
		l.Topics[i] = b.hash()
	}
	return l
}

func (b *builder) receipt(storage bool) *types.Receipt {
	// the node creates receipts with an empty post state (core/state_processor.go, staking/endblock.go)
	r := types.NewReceipt([]byte{}, b.t.n(2) == 0, b.t.uintBits(64))
	fill(r.Bloom[:], b.t.u64())
	n := b.sliceLen()
	r.Logs = make([]*types.Log, n)
	for i := range r.Logs {
		l := b.consensusLog()
		if storage {
			l.BlockNumber, l.TxHash, l.TxIndex = b.t.uintBits(64), b.hash(), uint(b.t.uintBits(32))
			l.BlockHash, l.Index = b.hash(), uint(b.t.uintBits(32))
		}
		r.Logs[i] = l
	}
	if storage {
		r.TxHash, r.ContractAddress, r.GasUsed = b.hash(), b.address(), b.t.uintBits(64)
	}
	return r
}

func (b *builder) validator() *state.Validator {
	v := new(state.Validator)
	b.fillFields(reflect.ValueOf(v).Elem())
	v.Expelled = b.t.n(2) == 1
	// "delegations must be kept sorted" (validator.go); delegators are unique
	sort.Slice(v.Delegations, func(i, j int) bool {
		return v.Delegations[i].Delegator.Big().Cmp(v.Delegations[j].Delegator.Big()) < 0
	})
	out := v.Delegations[:0]
	for i, d := range v.Delegations {
		if i == 0 || d.Delegator != v.Delegations[i-1].Delegator {
			out = append(out, d)
		}
	}
	v.Delegations = out
	if len(v.Delegations) > 0 {
		b.label("validator-with-delegations")
	}
	return v
}

func (b *builder) kindStat() *state.ValKindStat {
	s := state.NewValKindStat()
	add := func(status uint8) {
		for i, n := 0, b.t.n(3); i < n; i++ {
			s.AddVal(&state.Validator{Status: status, Stake: b.t.bigInt(), Token: b.t.bigInt()})
		}
	}
	add(params.ValidatorOnline)
	add(params.ValidatorOffline)
	s.SetRewardsResidue(b.t.bigInt())
	s.AddRewards(b.t.bigInt())
	return s
}

func (b *builder) validatorsStat() *state.ValidatorsStat {
	m := state.NewValidatorsStat()
	for _, k := range []params.ValidatorKind{params.KindValidator, params.KindChamber, params.KindHouse} {
		m.Kinds[k] = b.kindStat()
	}
	for _, r := range []params.ValidatorRole{params.RoleChancellor, params.RoleSenator, params.RoleHouse} {
		m.Roles[r] = b.kindStat()
	}
	return m
}

// setLen: the size of a set record; now and then hundreds of members.
func (b *builder) setLen() int {
	n := b.sliceLen()
	if b.t.n(24) == 0 {
		n = 100 + b.t.n(1200)
		b.label("long-list")
	}
	return n
}

// members are inserted in another order by the independently rebuilt copy
func (b *builder) order(n int) []int {
	idx := make([]int, n)
	for i := range idx {
		idx[i] = i
		if b.variant == 1 {
			idx[i] = n - 1 - i
		}
	}
	return idx
}

func (b *builder) validatorIndex() *state.ValidatorIndex {
	n := b.setLen()
	addrs := make([]common.Address, n)
	for i := range addrs {
		addrs[i] = b.address()
	}
	x := state.NewValidatorIndex()
	for _, i := range b.order(n) {
		x.Add(addrs[i])
	}
	return x
}

func (b *builder) pending() *state.VerifC14Pending {
	n := b.setLen()
	pairs := make([][2]common.Address, n)
	for i := range pairs {
		pairs[i] = [2]common.Address{b.address(), b.address()}
	}
	p := state.VerifC14NewPending()
	for _, i := range b.order(n) {
		p.Add(pairs[i][0], pairs[i][1])
	}
	return p
}

func (b *builder) doubleSign() staking.EvidenceDoubleSign {
	e := staking.EvidenceDoubleSign{Round: b.t.bigInt(), RoundIndex: uint32(b.t.uintBits(32)), Signs: map[common.Hash][]byte{}}
	n := b.t.n(5)
	var hs []common.Hash
	var ss [][]byte
	for i := 0; i < n; i++ {
		h, s := b.hash(), b.t.byteString()
		dup := false
		for _, x := range hs {
			dup = dup || x == h
		}
		if !dup { // map keys: one value per hash, whatever the insertion order
			hs, ss = append(hs, h), append(ss, s)
		}
	}
	n = len(hs)
	for _, i := range b.order(n) {
		e.Signs[hs[i]] = ss[i]
	}
	if len(e.Signs) > 1 {
		b.label("doublesign-multi")
	}
	return e
}

func (b *builder) doubleSignV5() staking.EvidenceDoubleSignV5 {
	return b.build(reflect.TypeOf(staking.EvidenceDoubleSignV5{})).Interface().(staking.EvidenceDoubleSignV5)
}

func (b *builder) inactive() staking.EvidenceInactive {
	return b.build(reflect.TypeOf(staking.EvidenceInactive{})).Interface().(staking.EvidenceInactive)
}

func (b *builder) evidence() staking.Evidence {
	switch b.t.n(4) {
	case 0:
		return staking.NewEvidence(b.inactive())
	case 1:
		return staking.NewEvidence(b.doubleSignV5())
	case 2:
		return staking.NewEvidence(b.doubleSign())
	default:
		return staking.Evidence{Type: string(b.t.byteString()), Data: b.t.byteString()}
	}
}

func (b *builder) slashData() *staking.SlashData {
	n := b.sliceLen()
	recs := make([]*staking.SlashWithdrawRecord, n)
	for i := range recs {
		recs[i] = b.build(reflect.TypeOf(staking.SlashWithdrawRecord{})).Addr().Interface().(*staking.SlashWithdrawRecord)
	}
	ev := b.evidence()
	if ev.Data == nil {
		ev.Data = []byte{}
	}
	sd, err := staking.NewSlashData(uint8(b.t.uintBits(8)), b.address(), b.t.bigInt(), recs, &ev)
	if err != nil {
		panic(err)
	}
	return sd
}

// ---------------------------------------------------------------------------------
// getters-based observations of opaque types

func dumpTx(tx *types.Transaction) string {
	if tx == nil {
		return "niltx"
	}
	v, r, s := tx.RawSignatureValues()
	to := "create"
	if tx.To() != nil {
		to = tx.To().Hex()
	}
	// Size(): "the true RLP encoded storage size"; a decoded transaction answers from the size noted while decoding
	return fmt.Sprintf("tx{%d %v %d %s %v %x %v %v %v size=%v hash=%x}", tx.Nonce(), tx.GasPrice(), tx.Gas(), to, tx.Value(), tx.Data(), v, r, s, tx.Size(), tx.Hash())
}

func dumpBlock(blk *types.Block) string {
	var parts []string
	for _, tx := range blk.Transactions() {
		parts = append(parts, dumpTx(tx))
	}
	return fmt.Sprintf("block{%s [%s] size=%v hash=%x}", theDumper.dump(reflect.ValueOf(blk.Header())), strings.Join(parts, ","), blk.Size(), blk.Hash())
}

func dumpKindStat(s *state.ValKindStat) string {
	if s == nil {
		return "nilstat"
	}
	return fmt.Sprintf("stat{%v %v %d %v %v %d %v %v}", s.GetOnlineStake(), s.GetOnlineToken(), s.GetCount(),
		s.GetOfflineStake(), s.GetOfflineToken(), s.GetOfflineCount(), s.GetRewardsResidue(), s.GetRewardsDistributable())
}

func dumpPending(p *state.VerifC14Pending) string {
	var sb strings.Builder
	for _, pr := range p.Pairs() {
		dc, _ := p.Counts(pr[0])
		_, vc := p.Counts(pr[1])
		fmt.Fprintf(&sb, "(%x %x %d %d)", pr[0], pr[1], dc, vc)
	}
	return sb.String()
}

func init() {
	params.InitNetworkId(params.NetworkIdForTestCase)
	if err := mirrorDrift(); err != nil {
		panic("c14: the mirrors of the you/protocol.go packet structs are stale: " + err.Error())
	}

	customFill[reflect.TypeOf(types.Transaction{})] = func(b *builder) reflect.Value { return reflect.ValueOf(b.transaction()).Elem() }
	customFill[reflect.TypeOf(types.Block{})] = func(b *builder) reflect.Value { return reflect.ValueOf(b.block()).Elem() }
	customFill[reflect.TypeOf(types.Header{})] = func(b *builder) reflect.Value {
		h := new(types.Header)
		b.fillFields(reflect.ValueOf(h).Elem())
		if b.t.n(2) == 0 {
			h.MixDigest = types.UConMixHash // the ucon engine's headers
		}
		return reflect.ValueOf(h).Elem()
	}
	customFill[reflect.TypeOf(types.Receipt{})] = func(b *builder) reflect.Value { return reflect.ValueOf(b.receipt(false)).Elem() }
	customFill[reflect.TypeOf(types.Log{})] = func(b *builder) reflect.Value { return reflect.ValueOf(b.consensusLog()).Elem() }
	customFill[reflect.TypeOf(state.Validator{})] = func(b *builder) reflect.Value { return reflect.ValueOf(b.validator()).Elem() }
	customFill[reflect.TypeOf(state.ValKindStat{})] = func(b *builder) reflect.Value { return reflect.ValueOf(b.kindStat()).Elem() }
	customFill[reflect.TypeOf(staking.Evidence{})] = func(b *builder) reflect.Value { return reflect.ValueOf(b.evidence()) }

	theDumper.custom[reflect.TypeOf(&types.Transaction{})] = func(d *dumper, v reflect.Value) string {
		return dumpTx(v.Interface().(*types.Transaction))
	}
	theDumper.custom[reflect.TypeOf(&types.Block{})] = func(d *dumper, v reflect.Value) string {
		if v.IsNil() {
			return "nilblock"
		}
		return dumpBlock(v.Interface().(*types.Block))
	}
	theDumper.custom[reflect.TypeOf(&state.ValKindStat{})] = func(d *dumper, v reflect.Value) string {
		return dumpKindStat(v.Interface().(*state.ValKindStat))
	}
	theDumper.custom[reflect.TypeOf(&state.ValidatorIndex{})] = func(d *dumper, v reflect.Value) string {
		return fmt.Sprintf("index%x", v.Interface().(*state.ValidatorIndex).List())
	}
	theDumper.custom[reflect.TypeOf(&state.Validators{})] = func(d *dumper, v reflect.Value) string {
		return "validators" + d.dump(reflect.ValueOf(v.Interface().(*state.Validators).List()))
	}
	theDumper.custom[reflect.TypeOf(&state.VerifC14Pending{})] = func(d *dumper, v reflect.Value) string {
		return dumpPending(v.Interface().(*state.VerifC14Pending))
	}

	// ---- core/types and the sync protocol containers -------------------------------
	plain("Header", "core", "header", new(types.Header))
	plain("Headers", "core", "header", new([]*types.Header))
	register(&typeInfo{Name: "Block", Family: "core", Listed: "block",
		build: func(b *builder) interface{} { return b.block() },
		decode: func(data []byte) (interface{}, error) {
			blk := new(types.Block)
			return blk, rlp.DecodeBytes(data, blk)
		}})
	register(&typeInfo{Name: "Transaction", Family: "core", Listed: "transaction",
		build: func(b *builder) interface{} { return b.transaction() },
		decode: func(data []byte) (interface{}, error) {
			tx := new(types.Transaction)
			return tx, rlp.DecodeBytes(data, tx)
		}})
	plain("Transactions", "core", "transaction", new([]*types.Transaction))
	plain("Bodies", "core", "block", new([]*types.Body))
	plain("BlocksData", "core", "block", new(BlocksData))
	plain("Receipt", "core", "", new(types.Receipt))
	register(&typeInfo{Name: "ReceiptForStorage", Family: "core",
		build: func(b *builder) interface{} { return (*types.ReceiptForStorage)(b.receipt(true)) },
		decode: func(data []byte) (interface{}, error) {
			r := new(types.ReceiptForStorage)
			return r, rlp.DecodeBytes(data, r)
		}})
	plain("ReceiptsMsg", "core", "", new([][]*types.Receipt))
	plain("Log", "core", "", new(types.Log))
	plain("Account", "core", "", new(state.Account))
	plain("NewBlockHashesData", "core", "", new(NewBlockHashesData))
	plain("GetNodeDataMsgData", "core", "", new(GetNodeDataMsgData))
	plain("NodeData", "core", "", new([][]byte))
	plain("Hash", "core", "", new(common.Hash))
	plain("statusData", "core", "", new(statusData))
	plain("getBlockHeadersData", "core", "", new(getBlockHeadersData))

	// ---- consensus -------------------------------------------------------------------
	plain("UconMessage", "consensus", "consensus payload", new(ucon.Message))
	plain("ConsensusCommon", "consensus", "consensus payload", new(ucon.ConsensusCommon))
	plain("BlockHashWithVotes", "consensus", "consensus payload", new(ucon.BlockHashWithVotes))
	plain("BlockConsensusData", "consensus", "consensus payload", new(ucon.BlockConsensusData))
	plain("UconValidators", "consensus", "vote container", new(ucon.UconValidators))
	plain("SingleVote", "consensus", "vote container", new(ucon.SingleVote))
	plain("VoteItem", "consensus", "", new(ucon.VoteItem))

	// ---- validator state and staking -------------------------------------------------
	register(&typeInfo{Name: "Validator", Family: "staking", Listed: "validator record",
		build: func(b *builder) interface{} { return b.validator() },
		decode: func(data []byte) (interface{}, error) {
			v := new(state.Validator) // statedb_val.go: var data Validator; DecodeBytes(enc, &data)
			return v, rlp.DecodeBytes(data, v)
		}})
	register(&typeInfo{Name: "ValidatorIndex", Family: "staking", Listed: "validator record",
		build: func(b *builder) interface{} { return b.validatorIndex() },
		decode: func(data []byte) (interface{}, error) {
			x := state.NewValidatorIndex()
			return x, rlp.DecodeBytes(data, x)
		}})
	register(&typeInfo{Name: "ValKindStat", Family: "staking",
		build: func(b *builder) interface{} { return b.kindStat() },
		decode: func(data []byte) (interface{}, error) {
			s := new(state.ValKindStat)
			return s, rlp.DecodeBytes(data, s)
		}})
	register(&typeInfo{Name: "ValidatorsStat", Family: "staking",
		build: func(b *builder) interface{} { return b.validatorsStat() },
		decode: func(data []byte) (interface{}, error) {
			s := state.NewValidatorsStat() // as loadValidatorsStat does
			return s, rlp.DecodeBytes(data, s)
		}})
	register(&typeInfo{Name: "Validators", Family: "staking",
		build: func(b *builder) interface{} {
			n := b.sliceLen()
			vs := make([]*state.Validator, n)
			for i := range vs {
				vs[i] = b.validator()
			}
			return state.NewValidators(vs)
		},
		decode: func(data []byte) (interface{}, error) {
			s := new(state.Validators)
			return s, rlp.DecodeBytes(data, s)
		}})
	plain("WithdrawQueue", "staking", "", new(state.WithdrawQueue))
	plain("WithdrawRecord", "staking", "", new(state.WithdrawRecord))
	plain("SortedAddresses", "staking", "", new(common.SortedAddresses))
	register(&typeInfo{Name: "StakingRecord", Family: "staking",
		build: func(b *builder) interface{} {
			return b.build(reflect.TypeOf(state.Record{})).Addr().Interface()
		},
		encode: func(v interface{}) ([]byte, error) { return state.VerifC14EncodeStakingRecord(*v.(*state.Record)) },
		decode: func(data []byte) (interface{}, error) {
			r := new(state.Record)
			return r, rlp.DecodeBytes(data, r)
		}})
	register(&typeInfo{Name: "PendingRelationship", Family: "staking",
		build:  func(b *builder) interface{} { return b.pending() },
		encode: func(v interface{}) ([]byte, error) { return v.(*state.VerifC14Pending).Encode() },
		decode: func(data []byte) (interface{}, error) {
			p := state.VerifC14NewPending()
			return p, p.Decode(data)
		}})

	plain("StakingMessage", "staking", "staking message", new(staking.Message))
	plain("TxCreateValidator", "staking", "staking message", new(staking.TxCreateValidator))
	plain("TxUpdateValidator", "staking", "staking message", new(staking.TxUpdateValidator))
	plain("TxValidatorDeposit", "staking", "staking message", new(staking.TxValidatorDeposit))
	plain("TxValidatorWithdraw", "staking", "staking message", new(staking.TxValidatorWithdraw))
	plain("TxValidatorChangeStatus", "staking", "staking message", new(staking.TxValidatorChangeStatus))
	plain("TxValidatorSettle", "staking", "staking message", new(staking.TxValidatorSettle))
	plain("TxDelegation", "staking", "staking message", new(staking.TxDelegation))
	plain("TxDelegationSettle", "staking", "staking message", new(staking.TxDelegationSettle))

	register(&typeInfo{Name: "Evidence", Family: "staking", Listed: "evidence",
		build: func(b *builder) interface{} { e := b.evidence(); return &e },
		decode: func(data []byte) (interface{}, error) {
			e := new(staking.Evidence)
			return e, rlp.DecodeBytes(data, e)
		}})
	plain("Evidences", "staking", "evidence", new([]staking.Evidence)) // header.SlashData (staking/slash.go)
	register(&typeInfo{Name: "EvidenceDoubleSign", Family: "staking", Listed: "evidence",
		build: func(b *builder) interface{} { e := b.doubleSign(); return &e },
		decode: func(data []byte) (interface{}, error) {
			e := new(staking.EvidenceDoubleSign)
			return e, rlp.DecodeBytes(data, e)
		}})
	plain("EvidenceDoubleSignV5", "staking", "evidence", new(staking.EvidenceDoubleSignV5))
	plain("EvidenceInactive", "staking", "evidence", new(staking.EvidenceInactive))
	register(&typeInfo{Name: "SlashData", Family: "staking",
		build: func(b *builder) interface{} { return b.slashData() },
		decode: func(data []byte) (interface{}, error) {
			s := new(staking.SlashData)
			return s, rlp.DecodeBytes(data, s)
		}})
	plain("SlashDataV5", "staking", "", new(staking.SlashDataV5))
	plain("LogData", "staking", "", new(staking.LogData))
}

func typeNames() []string {
	out := make([]string, len(registry))
	for i, ti := range registry {
		out[i] = ti.Name
	}
	return out
}

// txPaths lists where transactions sit in the item tree of the types that carry them
// (used by the exact predicate of the recipient class).
func txItems(name string, root *item) []*item {
	kids := func(it *item) []*item {
		if it == nil || !it.List {
			return nil
		}
		return it.Kids
	}
	at := func(it *item, i int) *item {
		if k := kids(it); i < len(k) {
			return k[i]
		}
		return nil
	}
	switch name {
	case "Transaction":
		return []*item{root}
	case "Transactions":
		return kids(root)
	case "Block":
		return kids(at(root, 1))
	case "Bodies":
		var out []*item
		for _, body := range kids(root) {
			out = append(out, kids(at(body, 0))...)
		}
		return out
	case "BlocksData":
		var out []*item
		for _, e := range kids(root) {
			out = append(out, kids(at(at(e, 0), 1))...)
		}
		return out
	}
	return nil
}
