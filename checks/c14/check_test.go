package c14

import (
	"bytes"
	"encoding/hex"
	"encoding/json"
	"fmt"
	"runtime"
	"sort"
	"testing"

	"github.com/youchainhq/go-youchain/consensus/ucon"
	"github.com/youchainhq/go-youchain/core/types"
	"github.com/youchainhq/go-youchain/params"
	"github.com/youchainhq/go-youchain/staking"
	"pgregory.net/rapid"
	"verif/kit"
)

func TestMain(m *testing.M) {
	// every property runs on one goroutine; a single P makes the stop-the-world allocation read-out of the
	// decode-allocation oracle cheap (20x) and keeps it exact
	runtime.GOMAXPROCS(1)
	warmUp()
	kit.Main(m, "C14")
}
func TestProps(t *testing.T)  { kit.RunAll(t); calibDump() }
func TestReplay(t *testing.T) { kit.ReplayAll(t) }

var allClasses = []string{classExpelled, classIndexOrder, classPairOrder, classHashLen, classRecipient}

// knownExcl lists the recorded, unrepaired classes; generators put it into the case so that the case itself says
// what was excluded by construction (a replay of a known finding carries an empty list and still violates).
func knownExcl() []string {
	var out []string
	for _, c := range allClasses {
		if kit.IsKnown(c) {
			out = append(out, c)
		}
	}
	return out
}

func exclSet(l []string) map[string]bool {
	m := map[string]bool{}
	for _, e := range l {
		m[e] = true
	}
	return m
}

func sortedLabels(m map[string]bool, extra ...string) []string {
	out := append([]string(nil), extra...)
	for l := range m {
		out = append(out, l)
	}
	sort.Strings(out)
	return out
}

func firstDiff(a, b []byte) int {
	n := len(a)
	if len(b) < n {
		n = len(b)
	}
	for i := 0; i < n; i++ {
		if a[i] != b[i] {
			return i
		}
	}
	return n
}

func clip(b []byte) string {
	if len(b) > 300 {
		return fmt.Sprintf("%x...(%d bytes)", b[:300], len(b))
	}
	return fmt.Sprintf("%x", b)
}

// ---------------------------------------------------------------------------------
// (a) round trip and (b) one encoding, over typed values

// RTCase: a type of the registry and the tape its value is built from.
type RTCase struct {
	Type string   `json:"type"`
	Tape []uint64 `json:"tape"` // the first words the value is built from
	Seed uint64   `json:"seed"` // the words behind the tape: zeros if 0, else a pseudo-random stream of this seed
	Excl []string `json:"excl,omitempty"`
}

// uniform draws an index without rapid's bias towards small integers (every type and mutation kind equally often):
// rapid's booleans are fair coins.
func uniform(t *rapid.T, n int, label string) int {
	v := 0
	for _, bit := range rapid.SliceOfN(rapid.Bool(), 12, 12).Draw(t, label) {
		v <<= 1
		if bit {
			v |= 1
		}
	}
	return v % n
}

// genSeed draws the seed of the stream behind the tape; 1 in 8 values is zero-filled.
func genSeed(t *rapid.T) uint64 {
	if rapid.IntRange(0, 7).Draw(t, "zerofill") == 0 {
		return 0
	}
	return rapid.Uint64().Draw(t, "seed")
}

func genTape(t *rapid.T, max int) []uint64 {
	return rapid.SliceOfN(rapid.Uint64(), 0, max).Draw(t, "tape")
}

func genRT(t *rapid.T) RTCase {
	return RTCase{Type: typeNames()[uniform(t, len(registry), "type")], Tape: genTape(t, 40), Seed: genSeed(t), Excl: knownExcl()}
}

// unstable attributes two different encodings of one value.
func unstable(typ string, e1, e2 []byte, what string) kit.Result {
	return kit.Fail("encoding-not-unique", "%s of one %s value differ at byte %d:\n  %s\n  %s", what, typ, firstDiff(e1, e2), clip(e1), clip(e2))
}

func runRT(c RTCase) kit.Result {
	ti := typeByName[c.Type]
	if ti == nil {
		return kit.Discarded("unknown type")
	}
	b1 := newBuilder(c.Tape, c.Seed, 0, c.Excl)
	v1 := ti.build(b1)
	e1, err := ti.encode(v1)
	if err != nil {
		return kit.Fail("encode-error", "encoding a generated %s failed: %v", c.Type, err)
	}
	// (b) one encoding: repeated, and for an independently rebuilt equal value. An encoder that walks a Go map
	// shows another order only now and then (1 in 8 for two entries), so values that hold such a map are
	// encoded and rebuilt often enough to make the verdict repeatable.
	reps, rebuilds := 8, 2
	if b1.labels["doublesign-multi"] {
		reps, rebuilds = 200, 200
	}
	for k := 0; k < reps; k++ {
		ek, err := ti.encode(v1)
		if err != nil {
			return kit.Fail("encode-error", "re-encoding the same %s failed: %v", c.Type, err)
		}
		if !bytes.Equal(ek, e1) {
			return unstable(c.Type, e1, ek, "two encodings")
		}
	}
	for k := 0; k < rebuilds; k++ {
		v2 := ti.build(newBuilder(c.Tape, c.Seed, (k+1)%2, c.Excl))
		e2, err := ti.encode(v2)
		if err != nil {
			return kit.Fail("encode-error", "encoding the rebuilt %s failed: %v", c.Type, err)
		}
		if !bytes.Equal(e2, e1) {
			return unstable(c.Type, e1, e2, "the encodings of two independently built copies")
		}
	}
	// what the encoder emits is structurally canonical RLP by the independent parser
	tree, err := refParse(e1)
	if err != nil {
		return kit.Fail("encoder-noncanonical", "the encoding of a %s is not canonical RLP (%v): %s", c.Type, err, clip(e1))
	}
	// (a) round trip
	d, err := ti.decode(e1)
	if err != nil {
		return kit.Fail("roundtrip-decode-error", "decoding the encoding of a generated %s failed: %v\n  %s", c.Type, err, clip(e1))
	}
	if fp := footprintOf(d); fp.slack != "" {
		return kit.Fail("decode-overcapacity", "the %s decoded from its own %d-byte encoding keeps a slice with capacity far beyond its length: %s", c.Type, len(e1), fp.slack)
	}
	e3, err := ti.encode(d)
	if err != nil {
		return kit.Fail("encode-error", "encoding the decoded %s failed: %v", c.Type, err)
	}
	if !bytes.Equal(e3, e1) {
		return kit.Fail("roundtrip-reencode-mismatch", "encode(decode(encode(v))) != encode(v) for %s at byte %d:\n  %s\n  %s", c.Type, firstDiff(e1, e3), clip(e1), clip(e3))
	}
	if o1, o2 := ti.dump(v1), ti.dump(d); o1 != o2 {
		return kit.Fail("roundtrip-value-mismatch", "decode(encode(v)) is observably different from v for %s:\n  v      : %.1500s\n  decoded: %.1500s", c.Type, o1, o2)
	}
	return kit.OK(tree.nestedNonEmpty(), sortedLabels(b1.labels, "type:"+c.Type)...)
}

var _ = kit.Register(kit.Prop[RTCase]{
	Name: "RoundTrip",
	Rule: "a type drawn from the registry of the node's wire/disk types (core/types, state validator records, ucon and staking messages, evidences, sync protocol packets) and a tape of up to 40 words plus the seed of the stream behind it (0 = zeros) from which the value is built as the node produces it (nil-free, RLP boundary lengths and integers); oracles: encoding repeated 9 times (201 times when the value holds a Go map) and for independently rebuilt copies (set members inserted in reverse) is identical, is canonical by an independent RLP parser, decodes, re-encodes to the same bytes and is observably equal through exported fields/getters; non-trivial = the value's item tree has a non-empty nested list",
	Gen:  genRT, Run: runRT,
	Quick: 6000, Thorough: 40000, Chunk: 1000, MinNonTrivialPct: 18,
})

// ---------------------------------------------------------------------------------
// (c) accept => canonical, (d) safety: one decode of one byte string as one type

type outcome struct {
	accepted bool
	viol     *kit.Violation
	labels   []string
}

func totalAlloc() uint64 {
	var ms runtime.MemStats
	runtime.ReadMemStats(&ms) // stops the world and flushes the allocation counters: exact for this goroutine
	return ms.TotalAlloc
}

// decodeOne decodes b as ti, with the panic, allocation and accept=>canonical oracles.
func decodeOne(ti *typeInfo, b []byte, measure bool) (out outcome) {
	fail := func(class, format string, a ...interface{}) outcome {
		r := kit.Fail(class, format, a...)
		return outcome{viol: r.Violation}
	}
	var obj interface{}
	var err error
	var before, after uint64
	panicked := func() (p interface{}) {
		defer func() { p = recover() }()
		if measure {
			before = totalAlloc()
		}
		obj, err = ti.decode(b)
		if measure {
			after = totalAlloc()
		}
		return nil
	}()
	if panicked != nil {
		return fail("decode-panic", "decoding %d bytes as %s panicked: %v\n  input: %s", len(b), ti.Name, panicked, clip(b))
	}
	// what the decode produced (a failed decode of a type that is decoded in place leaves its partial result)
	fp := footprintOf(obj)
	if measure {
		calibNote(ti, err == nil, after-before, fp.size, len(b))
		if lim := allocLimit(ti, fp.size, len(b)); after-before > lim {
			return fail("decode-alloc", "decoding %d bytes as %s (accepted: %v) allocated %d bytes; the result holds %d bytes; limit %d*result + b*input + %d = %d\n  input: %s",
				len(b), ti.Name, err == nil, after-before, fp.size, allocA, allocSlack, lim, clip(b))
		}
	}
	if err != nil {
		return outcome{}
	}
	out.accepted = true
	if fp.slack != "" {
		return fail("decode-overcapacity", "the %s decoded from %d accepted bytes keeps a slice with capacity far beyond its length: %s\n  input: %s", ti.Name, len(b), fp.slack, clip(b))
	}
	var re []byte
	if p := func() (p interface{}) {
		defer func() { p = recover() }()
		re, err = ti.encode(obj)
		return nil
	}(); p != nil {
		return fail("reencode-panic", "re-encoding the %s decoded from accepted bytes panicked: %v\n  input: %s", ti.Name, p, clip(b))
	}
	if ti.Listed == "" {
		if err != nil || !bytes.Equal(re, b) {
			out.labels = append(out.labels, "unlisted-noncanonical:"+ti.Name)
		}
		return out
	}
	if err != nil {
		return fail("accepted-unencodable", "bytes accepted as %s (%s) decode to a value that cannot be encoded: %v\n  input: %s", ti.Name, ti.Listed, err, clip(b))
	}
	if !bytes.Equal(re, b) {
		return fail(classify(ti.Name, b, re), "bytes accepted as %s (%s) re-encode differently (first difference at byte %d)\n  accepted : %s\n  re-encode: %s",
			ti.Name, ti.Listed, firstDiff(b, re), clip(b), clip(re))
	}
	if _, perr := refParse(b); perr != nil {
		return fail("accepted-noncanonical", "bytes accepted as %s are not canonical RLP by the independent parser (%v): %s", ti.Name, perr, clip(b))
	}
	return out
}

// ACCase: the canonical encoding of a generated value of type Base, structurally mutated, decoded as Target.
type ACCase struct {
	Base   string   `json:"base"`
	Target string   `json:"target"`
	Tape   []uint64 `json:"tape"`
	Seed   uint64   `json:"seed"`
	Muts   []Mut    `json:"muts"`
	Excl   []string `json:"excl,omitempty"`
}

func genMut(t *rapid.T) Mut {
	kinds := append(append([]string{}, treeMuts...), byteMuts...)
	return Mut{Kind: kinds[uniform(t, len(kinds), "mkind")], Node: rapid.IntRange(0, 400).Draw(t, "node"),
		A: rapid.Uint64().Draw(t, "a"), B: rapid.Uint64().Draw(t, "b")}
}

func genAC(t *rapid.T) ACCase {
	names := typeNames()
	c := ACCase{Base: names[uniform(t, len(names), "base")], Excl: knownExcl()}
	c.Target = c.Base
	if rapid.IntRange(0, 9).Draw(t, "cross") == 0 {
		c.Target = names[uniform(t, len(names), "target")]
	}
	c.Tape, c.Seed = genTape(t, 30), genSeed(t)
	n := rapid.IntRange(1, 3).Draw(t, "nmuts")
	for i := 0; i < n; i++ {
		c.Muts = append(c.Muts, genMut(t))
	}
	return c
}

func runAC(c ACCase) kit.Result {
	base, target := typeByName[c.Base], typeByName[c.Target]
	if base == nil || target == nil {
		return kit.Discarded("unknown type")
	}
	v := base.build(newBuilder(c.Tape, c.Seed, 0, c.Excl))
	enc, err := base.encode(v)
	if err != nil {
		return kit.Fail("encode-error", "encoding a generated %s failed: %v", c.Base, err)
	}
	b, applied := mutate(enc, c.Muts)
	b, exl := excludeKnown(c.Target, b, exclSet(c.Excl))
	o := decodeOne(target, b, false)
	if o.viol != nil {
		return kit.Result{Violation: o.viol, NonTrivial: true}
	}
	labels := append(o.labels, exl...)
	for _, a := range applied {
		labels = append(labels, "mut:"+a)
	}
	mutant := !bytes.Equal(b, enc)
	switch {
	case o.accepted && mutant:
		labels = append(labels, "accepted-mutant")
		if target.Listed != "" {
			labels = append(labels, "accepted-mutant-listed")
		}
	case o.accepted:
		labels = append(labels, "accepted-unchanged")
	default:
		labels = append(labels, "rejected")
	}
	if c.Base != c.Target {
		labels = append(labels, "cross-type")
	}
	sort.Strings(labels)
	return kit.OK(mutant, labels...)
}

var _ = kit.Register(kit.Prop[ACCase]{
	Name: "AcceptCanonical",
	Rule: "the canonical encoding of a generated value, parsed into an item tree by an independent RLP parser and mutated 1-3 times (leading zero, single byte wrapped in a string header, long-form header for a short payload or with a zero length byte, declared length +-1..3, 2^20..2^64-1 length fields, deep nesting, leaf replaced by 0/1/2/8/9/20/32/33-byte values, string<->list flips incl. empty, child duplicated/swapped/dropped/added, truncation, trailing bytes, bit flip, byte set), decoded as the same type (90%) or another one; oracle: no panic, and if accepted as a type the statement lists (header, block, transaction, consensus payload, vote container, staking message, evidence, validator record) the decoded value re-encodes to exactly the accepted bytes and the bytes are canonical by the independent parser; known classes are rewritten out of the input (counted by excluded:* labels); non-trivial = the decoded bytes differ from the canonical encoding (accepted mutants are counted by the label accepted-mutant)",
	Gen:  genAC, Run: runAC,
	Quick: 20000, Thorough: 150000, Chunk: 1000, MinNonTrivialPct: 45,
})

// ---------------------------------------------------------------------------------
// (d) hostile bytes decoded as every type

// HDCase: raw bytes decoded as the listed target types (all types when empty).
type HDCase struct {
	Raw     hexBytes `json:"raw"` // hex in JSON
	Targets []string `json:"targets,omitempty"`
	Excl    []string `json:"excl,omitempty"`
}

// hexBytes is a byte string that reads as hex in replay files.
type hexBytes []byte

func (h hexBytes) MarshalJSON() ([]byte, error) { return json.Marshal(hex.EncodeToString(h)) }
func (h *hexBytes) UnmarshalJSON(b []byte) error {
	var s string
	if err := json.Unmarshal(b, &s); err != nil {
		return err
	}
	d, err := hex.DecodeString(s)
	*h = d
	return err
}

func genBytes(t *rapid.T, max int) []byte {
	return rapid.SliceOfN(rapid.Byte(), 0, max).Draw(t, "bytes")
}

func genHD(t *rapid.T) HDCase {
	c := HDCase{Excl: knownExcl()}
	names := typeNames()
	switch uniform(t, 9, "shape") {
	case 0: // random bytes
		c.Raw = genBytes(t, 80)
	case 1: // a lying length field in front of random bytes
		sz := rapid.SampledFrom(hugeSizes).Draw(t, "size")
		if rapid.Bool().Draw(t, "jitter") {
			sz -= uint64(rapid.IntRange(0, 4096).Draw(t, "j"))
		}
		tag := rapid.SampledFrom([]byte{0xb7, 0xf7}).Draw(t, "tag")
		k := minLenBytes(sz)
		c.Raw = append(append([]byte{tag + byte(k)}, putBE(sz, k)...), genBytes(t, 40)...)
	case 2: // lying length inside a well-formed outer list
		sz := rapid.SampledFrom(hugeSizes).Draw(t, "size")
		tag := rapid.SampledFrom([]byte{0xb7, 0xf7}).Draw(t, "tag")
		k := minLenBytes(sz)
		inner := append([]byte{tag + byte(k)}, putBE(sz, k)...)
		pre := rapid.IntRange(0, 12).Draw(t, "pre")
		var kids []*item
		for i := 0; i < pre; i++ {
			kids = append(kids, str(genBytes(t, 34)))
		}
		kids = append(kids, &item{Raw: inner})
		c.Raw = list(kids...).ser()
	case 3: // deep nesting
		c.Raw = nested(rapid.SampledFrom([]int{1, 2, 5, 60, 1000, 5000}).Draw(t, "depth"))
		if rapid.Bool().Draw(t, "wrap") {
			c.Raw = list(&item{Raw: c.Raw}, str(genBytes(t, 8))).ser()
		}
	case 4: // random well-formed item tree
		var gen func(d int) *item
		gen = func(d int) *item {
			if d > 3 || rapid.IntRange(0, 2).Draw(t, "leaf") == 0 {
				return str(genBytes(t, 40))
			}
			n := rapid.IntRange(0, 12).Draw(t, "kids")
			it := list()
			for i := 0; i < n; i++ {
				it.Kids = append(it.Kids, gen(d+1))
			}
			return it
		}
		c.Raw = gen(0).ser()
	case 5: // a large homogeneous list in the frame of a type that carries one, honest or with a corrupted tail
		c.Raw = genBigList(t)
	default: // the valid encoding of some type, decoded as every type
		ti := registry[uniform(t, len(names), "type")]
		enc, err := ti.encode(ti.build(newBuilder(genTape(t, 20), genSeed(t), 0, c.Excl)))
		if err != nil {
			panic(err)
		}
		c.Raw = enc
		if rapid.IntRange(0, 2).Draw(t, "mut") == 0 {
			c.Raw, _ = mutate(enc, []Mut{genMut(t)})
		}
	}
	return c
}

// entryPoints are exported helpers of the node that take untrusted bytes (a header field, a log, a message) and
// decode them; they must return, whatever the bytes.
var entryPoints = []struct {
	name string
	call func(b []byte)
}{
	{"ucon.Decode", func(b []byte) { ucon.Decode(b) }},
	{"ucon.ExtractConsensusData", func(b []byte) { ucon.ExtractConsensusData(&types.Header{Consensus: b}) }},
	{"ucon.ExtractUconValidators(pos)", func(b []byte) { ucon.ExtractUconValidators(&types.Header{Validator: b}, params.LookBackPos) }},
	{"ucon.ExtractUconValidators(cert)", func(b []byte) { ucon.ExtractUconValidators(&types.Header{Certificate: b}, params.LookBackCert) }},
	{"staking.DecodeLogDataFromBytes", func(b []byte) { staking.DecodeLogDataFromBytes(b) }},
}

// bigFrames: how the node's types frame a long list of small elements.
var bigFrames = []struct {
	name  string
	elem  string // hash | addr | announce | vote | bytes | pair | str
	frame func(l *item) *item
}{
	{"SortedAddresses/ValidatorIndex", "addr", func(l *item) *item { return l }},
	{"NodeData", "bytes", func(l *item) *item { return l }},
	{"NewBlockHashesData", "announce", func(l *item) *item { return l }},
	{"GetNodeDataMsgData", "hash", func(l *item) *item { return list(str([]byte{1}), l) }},
	{"StakingRecord", "hash", func(l *item) *item { return list(str([]byte{9}), l) }},
	{"EvidenceInactive", "addr", func(l *item) *item { return list(str([]byte{9}), l) }},
	{"Log", "hash", func(l *item) *item { return list(str(make([]byte, 20)), l, str(nil)) }},
	{"LogData", "str", func(l *item) *item { return list(str([]byte("t")), l, str(nil)) }},
	{"UconValidators", "vote", func(l *item) *item { return list(str([]byte{1}), l, list(), list(), str(nil), str(nil), str(nil)) }},
	{"EvidenceDoubleSign", "pair", func(l *item) *item { return list(str([]byte{7}), str([]byte{1}), l) }},
	{"EvidenceDoubleSignV5", "pair", func(l *item) *item {
		return list(str([]byte{7}), str([]byte{1}), str([]byte{2}), str([]byte{3}), l)
	}},
}

func bigElem(kind string, i int, seed uint64) *item {
	h := func(n int, k uint64) []byte {
		b := make([]byte, n)
		fill(b, seed+uint64(i)*131+k)
		b[0] = byte(i >> 8) // ascending within 64k elements: valid for the ordered records too
		b[1] = byte(i)
		return b
	}
	switch kind {
	case "hash":
		return str(h(32, 0))
	case "addr":
		return str(h(20, 0))
	case "announce":
		return list(str(h(32, 0)), str([]byte{byte(i) | 1, byte(i >> 8)}))
	case "vote":
		return list(str([]byte{byte(i%120 + 1)}), str([]byte{3}), str(nil), str(h(8, 1)))
	case "pair":
		return list(str(h(32, 0)), str([]byte{0x81}))
	case "str":
		return str(nil)
	default: // bytes: empty, short
		if i%3 == 0 {
			return str(nil)
		}
		return str(h(2+i%5, 2))
	}
}

// genBigList draws hundreds to thousands of elements (thorough: up to ~8000, > 100 KB) and optionally replaces the
// tail of the element list by junk of the same byte length, so that every length field stays honest.
func genBigList(t *rapid.T) []byte {
	fr := bigFrames[uniform(t, len(bigFrames), "frame")]
	max := 2500
	if kit.Thorough() {
		max = 8000
	}
	n := 100 + uniform(t, 4096, "n")*uniform(t, 4096, "n2")*max/(4096*4096) // skewed to the lower end
	seed := rapid.Uint64().Draw(t, "lseed")
	l := list()
	for i := 0; i < n; i++ {
		l.Kids = append(l.Kids, bigElem(fr.elem, i, seed))
	}
	switch uniform(t, 6, "tail") {
	case 0, 1: // honest
	case 2: // nothing but junk, honestly framed
		var size int
		for _, k := range l.Kids {
			size += len(k.ser())
		}
		junk := make([]byte, size)
		switch uniform(t, 3, "junk") {
		case 0:
			for i := range junk {
				junk[i] = 0xc0
			}
		case 1:
			for i := range junk {
				junk[i] = 0x80
			}
		default:
			fill(junk, seed)
		}
		l.Kids = []*item{{Raw: junk}}
	default: // the last 1..50 % of the elements replaced by junk of the same length
		cut := n - 1 - uniform(t, n/2+1, "cut")
		var size int
		for _, k := range l.Kids[cut:] {
			size += len(k.ser())
		}
		junk := make([]byte, size)
		if uniform(t, 2, "junk") == 0 {
			fill(junk, seed+1)
		} else {
			for i := range junk {
				junk[i] = 0xc0
			}
		}
		l.Kids = append(l.Kids[:cut], &item{Raw: junk})
	}
	return fr.frame(l).ser()
}

func runHD(c HDCase) kit.Result {
	targets := registry
	if len(c.Targets) > 0 {
		targets = nil
		for _, n := range c.Targets {
			if ti := typeByName[n]; ti != nil {
				targets = append(targets, ti)
			}
		}
	}
	excl := exclSet(c.Excl)
	labels := map[string]bool{}
	accepted := 0
	for _, ti := range targets {
		b, exl := excludeKnown(ti.Name, c.Raw, excl)
		o := decodeOne(ti, b, true)
		if o.viol != nil {
			return kit.Result{Violation: o.viol, NonTrivial: true}
		}
		for _, l := range append(o.labels, exl...) {
			labels[l] = true
		}
		if o.accepted {
			accepted++
		}
	}
	// the node's own "bytes in" helpers built on the decoders
	for _, ep := range entryPoints {
		if p := func() (p interface{}) {
			defer func() { p = recover() }()
			ep.call(c.Raw)
			return nil
		}(); p != nil {
			return kit.Fail("decode-panic", "%s panicked on %d bytes: %v\n  input: %s", ep.name, len(c.Raw), p, clip(c.Raw))
		}
	}
	if accepted > 0 {
		labels["accepted-by-some-type"] = true
	}
	if len(c.Raw) > 3000 {
		labels["big-input"] = true
		if accepted > 0 {
			labels["big-input-accepted"] = true
		}
	}
	if len(c.Raw) > 100000 {
		labels["input>100KB"] = true
	}
	if len(c.Raw) > 9 && (c.Raw[0] >= 0xf8 || (c.Raw[0] >= 0xb8 && c.Raw[0] < 0xc0)) {
		labels["long-form-head"] = true
	}
	return kit.OK(len(c.Raw) > 0, sortedLabels(labels)...)
}

var _ = kit.Register(kit.Prop[HDCase]{
	Name: "HostileDecode",
	Rule: "a byte string (random bytes; a 2^20..2^64-1 length field in front of / inside well-formed data; nesting up to depth 5000; a random well-formed item tree; the valid or once-mutated encoding of a value of some type; 100-2500 (thorough 8000, > 100 KB) hashes / addresses / announcements / votes / strings / evidence pairs in the frame of a type that carries such a list, honest or with the tail or everything replaced by junk of the same length so that all length fields stay true) decoded as EVERY registered type the way the node's callers decode it, and handed to ucon.Decode / ExtractConsensusData / ExtractUconValidators / staking.DecodeLogDataFromBytes; oracle: no panic; allocation of each decode (runtime.ReadMemStats TotalAlloc delta around the call) at most 8x the bytes the (possibly partial) result holds by length + 6 B per input byte (120 B for types whose DecodeRLP fills a temporary) + 3 KiB; no slice of an accepted value with cap > 2*len+8; accept=>canonical for the listed types; non-trivial = non-empty input",
	Gen:  genHD, Run: runHD,
	Quick: 2000, Thorough: 8000, Chunk: 500, MinNonTrivialPct: 45,
})
