package c14

// An independent, deliberately small implementation of RLP item structure (yellow paper,
// appendix B). It shares no code with /repo/rlp. It is used (1) to check that what the
// encoder under test emits is structurally canonical RLP, (2) to build structured
// mutations of canonical encodings node by node, (3) to state the exact predicates of the
// known violation classes.

import (
	"errors"
	"fmt"
)

// item is one RLP item: a byte string (List == false) or a list of items.
type item struct {
	List bool
	Str  []byte
	Kids []*item

	// serialisation directives; the zero values give the canonical encoding
	Style    int    // 0 canonical, 1 long-form header with LenBytes length bytes, 2 single byte < 0x80 wrapped as 0x81 xx
	LenBytes int    // Style 1: number of length bytes (1..8)
	LenDelta int64  // added to the declared payload length
	Raw      []byte // non-nil: emitted verbatim instead of the item
}

func str(b []byte) *item       { return &item{Str: b} }
func list(k ...*item) *item    { return &item{List: true, Kids: k} }
func (it *item) isEmpty() bool { return len(it.Str) == 0 && len(it.Kids) == 0 }

var errRef = errors.New("refrlp: not canonical RLP")

func refErr(format string, a ...interface{}) error {
	return fmt.Errorf("%w: %s", errRef, fmt.Sprintf(format, a...))
}

// beUint decodes a big-endian length without leading zero.
func beUint(b []byte) (uint64, error) {
	if len(b) == 0 || len(b) > 8 || b[0] == 0 {
		return 0, refErr("bad length-of-length")
	}
	var v uint64
	for _, c := range b {
		v = v<<8 | uint64(c)
	}
	return v, nil
}

// refParseOne parses one strictly canonical item from the front of b.
func refParseOne(b []byte, depth int) (*item, []byte, error) {
	if depth > 20000 {
		return nil, nil, refErr("nesting too deep")
	}
	if len(b) == 0 {
		return nil, nil, refErr("empty input")
	}
	t := b[0]
	var isList bool
	var hdr int
	var size uint64
	switch {
	case t < 0x80:
		return &item{Str: []byte{t}}, b[1:], nil
	case t <= 0xb7:
		hdr, size = 1, uint64(t-0x80)
	case t <= 0xbf:
		n := int(t - 0xb7)
		if len(b) < 1+n {
			return nil, nil, refErr("short length")
		}
		v, err := beUint(b[1 : 1+n])
		if err != nil {
			return nil, nil, err
		}
		if v < 56 {
			return nil, nil, refErr("long form for short string")
		}
		hdr, size = 1+n, v
	case t <= 0xf7:
		isList, hdr, size = true, 1, uint64(t-0xc0)
	default:
		n := int(t - 0xf7)
		if len(b) < 1+n {
			return nil, nil, refErr("short length")
		}
		v, err := beUint(b[1 : 1+n])
		if err != nil {
			return nil, nil, err
		}
		if v < 56 {
			return nil, nil, refErr("long form for short list")
		}
		isList, hdr, size = true, 1+n, v
	}
	if size > uint64(len(b)-hdr) {
		return nil, nil, refErr("size %d exceeds input", size)
	}
	payload, rest := b[hdr:hdr+int(size)], b[hdr+int(size):]
	if !isList {
		if size == 1 && payload[0] < 0x80 {
			return nil, nil, refErr("single byte wrapped in a string header")
		}
		return &item{Str: append([]byte(nil), payload...)}, rest, nil
	}
	it := &item{List: true}
	for len(payload) > 0 {
		k, r, err := refParseOne(payload, depth+1)
		if err != nil {
			return nil, nil, err
		}
		it.Kids = append(it.Kids, k)
		payload = r
	}
	return it, rest, nil
}

// refParse parses b as exactly one canonical item.
func refParse(b []byte) (*item, error) {
	it, rest, err := refParseOne(b, 0)
	if err != nil {
		return nil, err
	}
	if len(rest) != 0 {
		return nil, refErr("%d trailing bytes", len(rest))
	}
	return it, nil
}

func minLenBytes(n uint64) int {
	k := 1
	for n >>= 8; n > 0; n >>= 8 {
		k++
	}
	return k
}

func putBE(n uint64, k int) []byte {
	out := make([]byte, k)
	for i := k - 1; i >= 0; i-- {
		out[i] = byte(n)
		n >>= 8
	}
	return out
}

// ser serialises the item, honouring the non-canonical directives.
func (it *item) ser() []byte {
	if it.Raw != nil {
		return it.Raw
	}
	var payload []byte
	base := byte(0x80)
	if it.List {
		base = 0xc0
		for _, k := range it.Kids {
			payload = append(payload, k.ser()...)
		}
	} else {
		payload = it.Str
	}
	declared := int64(len(payload)) + it.LenDelta
	if declared < 0 {
		declared = 0
	}
	n := uint64(declared)
	switch {
	case it.Style == 2 && !it.List && len(payload) == 1:
		return []byte{0x81, payload[0]}
	case it.Style == 1:
		k := it.LenBytes
		if k < minLenBytes(n) {
			k = minLenBytes(n)
		}
		if k > 8 {
			k = 8
		}
		out := append([]byte{base + 0x37 + byte(k)}, putBE(n, k)...)
		return append(out, payload...)
	}
	if !it.List && len(payload) == 1 && payload[0] < 0x80 && it.LenDelta == 0 {
		return []byte{payload[0]}
	}
	if n < 56 {
		return append([]byte{base + byte(n)}, payload...)
	}
	k := minLenBytes(n)
	out := append([]byte{base + 0x37 + byte(k)}, putBE(n, k)...)
	return append(out, payload...)
}

// clone makes a deep copy without directives.
func (it *item) clone() *item {
	c := &item{List: it.List, Str: append([]byte(nil), it.Str...)}
	for _, k := range it.Kids {
		c.Kids = append(c.Kids, k.clone())
	}
	return c
}

// flatten returns all nodes in pre-order.
func (it *item) flatten() []*item {
	out := []*item{it}
	for _, k := range it.Kids {
		out = append(out, k.flatten()...)
	}
	return out
}

// equal compares two trees structurally (directives ignored).
func (it *item) equal(o *item) bool {
	if it.List != o.List || len(it.Kids) != len(o.Kids) || string(it.Str) != string(o.Str) {
		return false
	}
	for i := range it.Kids {
		if !it.Kids[i].equal(o.Kids[i]) {
			return false
		}
	}
	return true
}

// depthOf returns the nesting depth and whether some list below the root is non-empty.
func (it *item) nestedNonEmpty() bool {
	if !it.List {
		return false
	}
	for _, k := range it.Kids {
		if k.List && len(k.Kids) > 0 {
			return true
		}
	}
	return false
}

// uintOf interprets a string item as a canonical unsigned integer.
func (it *item) uintOf() (uint64, bool) {
	if it.List || len(it.Str) > 8 || (len(it.Str) > 0 && it.Str[0] == 0) {
		return 0, false
	}
	var v uint64
	for _, c := range it.Str {
		v = v<<8 | uint64(c)
	}
	return v, true
}
