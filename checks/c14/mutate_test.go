package c14

import (
	"bytes"
	"sort"
)

// Mut is one structured mutation of a canonical encoding (plain data).
type Mut struct {
	Kind string `json:"kind"`
	Node int    `json:"node"`
	A    uint64 `json:"a"`
	B    uint64 `json:"b"`
}

// tree-level kinds first, byte-level kinds after serialisation
var treeMuts = []string{"lead0", "wrap1", "longhdr", "lenplus", "lenminus", "huge", "deep", "setleaf", "setleaf", "kindflip",
	"dupkid", "swapkids", "dropkid", "addkid"}
var byteMuts = []string{"trunc", "trail", "flipbit", "setbyte"}

func isByteMut(k string) bool {
	for _, b := range byteMuts {
		if b == k {
			return true
		}
	}
	return false
}

// pick returns the first node at or after idx (cyclically) that satisfies pred.
func pick(nodes []*item, idx int, pred func(*item) bool) *item {
	if len(nodes) == 0 {
		return nil
	}
	if idx < 0 {
		idx = -idx
	}
	for k := 0; k < len(nodes); k++ {
		n := nodes[(idx+k)%len(nodes)]
		if pred(n) {
			return n
		}
	}
	return nil
}

var hugeSizes = []uint64{1 << 63, 1<<63 - 1, ^uint64(0), 1 << 62, 1 << 40, 1 << 32, 1<<32 - 1, 1 << 31, 1 << 28, 1 << 24, 1 << 20, 70000}

func nested(depth int) []byte {
	// depth nested lists around an empty list; every level is a valid canonical list
	var hdrs [][]byte
	size := uint64(1)
	for i := 0; i < depth; i++ {
		var h []byte
		if size < 56 {
			h = []byte{0xc0 + byte(size)}
		} else {
			k := minLenBytes(size)
			h = append([]byte{0xf7 + byte(k)}, putBE(size, k)...)
		}
		hdrs = append(hdrs, h)
		size += uint64(len(h))
	}
	out := make([]byte, 0, size)
	for i := len(hdrs) - 1; i >= 0; i-- {
		out = append(out, hdrs[i]...)
	}
	return append(out, 0xc0)
}

// applyTreeMut applies one tree-level mutation; it reports whether anything changed.
func applyTreeMut(root *item, m Mut) bool {
	nodes := root.flatten()
	isStr := func(n *item) bool { return !n.List && n.Raw == nil }
	isList := func(n *item) bool { return n.List && n.Raw == nil }
	any := func(n *item) bool { return n.Raw == nil }
	switch m.Kind {
	case "lead0":
		if n := pick(nodes, m.Node, isStr); n != nil {
			n.Str = append([]byte{0}, n.Str...)
			return true
		}
	case "wrap1":
		if n := pick(nodes, m.Node, func(n *item) bool { return isStr(n) && len(n.Str) == 1 && n.Str[0] < 0x80 }); n != nil {
			n.Style = 2
			return true
		}
	case "longhdr":
		if n := pick(nodes, m.Node, any); n != nil {
			n.Style = 1
			var plen uint64
			if n.List {
				for _, k := range n.Kids {
					plen += uint64(len(k.ser()))
				}
			} else {
				plen = uint64(len(n.Str))
			}
			n.LenBytes = 1 + int(m.A%3)
			if plen >= 56 {
				n.LenBytes = minLenBytes(plen) + 1 + int(m.A%2) // leading zero in the length
			}
			return true
		}
	case "lenplus":
		if n := pick(nodes, m.Node, any); n != nil {
			n.LenDelta = 1 + int64(m.A%3)
			return true
		}
	case "lenminus":
		if n := pick(nodes, m.Node, func(n *item) bool { return any(n) && !n.isEmpty() }); n != nil {
			n.LenDelta = -(1 + int64(m.A%3))
			return true
		}
	case "huge":
		if n := pick(nodes, m.Node, any); n != nil {
			sz := hugeSizes[m.A%uint64(len(hugeSizes))]
			tag := byte(0xb7)
			if m.B&1 == 1 {
				tag = 0xf7
			}
			k := minLenBytes(sz)
			raw := append([]byte{tag + byte(k)}, putBE(sz, k)...)
			if m.B&2 == 2 {
				raw = append(raw, n.ser()...) // some real content behind the lying header
			}
			n.Raw = raw
			return true
		}
	case "deep":
		if n := pick(nodes, m.Node, any); n != nil {
			depths := []int{3, 17, 200, 2000}
			n.Raw = nested(depths[m.A%uint64(len(depths))])
			return true
		}
	case "setleaf":
		if n := pick(nodes, m.Node, isStr); n != nil {
			var v []byte
			switch m.A % 12 {
			case 0:
				v = []byte{}
			case 1, 9, 10:
				v = []byte{byte(m.B)} // any single byte, incl. 0 and 2..255 (bytes < 0x80 are their own encoding)
			case 11:
				v = []byte{byte(m.B) & 0x7f}
			case 2:
				v = []byte{byte(m.B) | 1, byte(m.B >> 8)}
			case 3:
				v = bytes.Repeat([]byte{0xff}, 8)
			case 4:
				v = bytes.Repeat([]byte{0xff}, 9)
			case 5:
				v = make([]byte, 32)
				fill(v, m.B)
			case 6:
				v = make([]byte, 33)
				fill(v, m.B)
			case 7:
				v = make([]byte, 20)
				fill(v, m.B)
			default:
				v = make([]byte, 1+m.B%70)
				fill(v, m.B)
			}
			n.Str = v
			return true
		}
	case "kindflip":
		if n := pick(nodes, m.Node, any); n != nil {
			switch {
			case n.isEmpty():
				n.List = !n.List
			case n.List:
				var payload []byte
				for _, k := range n.Kids {
					payload = append(payload, k.ser()...)
				}
				n.List, n.Kids, n.Str = false, nil, payload
			default:
				n.List, n.Kids, n.Str = true, []*item{str(n.Str)}, nil
			}
			return true
		}
	case "dupkid":
		if n := pick(nodes, m.Node, func(n *item) bool { return isList(n) && len(n.Kids) > 0 }); n != nil {
			j := int(m.A % uint64(len(n.Kids)))
			c := n.Kids[j].clone()
			pos := int(m.B % uint64(len(n.Kids)+1))
			n.Kids = append(n.Kids[:pos], append([]*item{c}, n.Kids[pos:]...)...)
			return true
		}
	case "swapkids":
		if n := pick(nodes, m.Node, func(n *item) bool { return isList(n) && len(n.Kids) > 1 }); n != nil {
			i, j := int(m.A%uint64(len(n.Kids))), int(m.B%uint64(len(n.Kids)))
			if i == j {
				j = (i + 1) % len(n.Kids)
			}
			n.Kids[i], n.Kids[j] = n.Kids[j], n.Kids[i]
			return true
		}
	case "dropkid":
		if n := pick(nodes, m.Node, func(n *item) bool { return isList(n) && len(n.Kids) > 0 }); n != nil {
			j := int(m.A % uint64(len(n.Kids)))
			n.Kids = append(n.Kids[:j], n.Kids[j+1:]...)
			return true
		}
	case "addkid":
		if n := pick(nodes, m.Node, isList); n != nil {
			var k *item
			switch {
			case m.A%3 == 0 || len(n.Kids) == 0:
				k = str(nil)
			case m.A%3 == 1:
				k = list()
			default:
				k = n.Kids[int(m.B%uint64(len(n.Kids)))].clone()
			}
			n.Kids = append(n.Kids, k)
			return true
		}
	}
	return false
}

func applyByteMut(b []byte, m Mut) ([]byte, bool) {
	switch m.Kind {
	case "trunc":
		if len(b) > 0 {
			return b[:m.A%uint64(len(b))], true
		}
	case "trail":
		ext := make([]byte, 1+m.A%4)
		fill(ext, m.B)
		if m.B%3 == 0 {
			ext = ext[:1]
			ext[0] = 0x80
		}
		return append(append([]byte(nil), b...), ext...), true
	case "flipbit":
		if len(b) > 0 {
			c := append([]byte(nil), b...)
			c[m.A%uint64(len(c))] ^= 1 << (m.B % 8)
			return c, true
		}
	case "setbyte":
		if len(b) > 0 {
			c := append([]byte(nil), b...)
			c[m.A%uint64(len(c))] = byte(m.B)
			return c, true
		}
	}
	return b, false
}

// mutate applies the mutations to the canonical encoding enc (tree-level ones in order, then byte-level ones).
func mutate(enc []byte, muts []Mut) (out []byte, applied []string) {
	root, err := refParse(enc)
	if err != nil {
		return enc, nil
	}
	for _, m := range muts {
		if !isByteMut(m.Kind) && applyTreeMut(root, m) {
			applied = append(applied, m.Kind)
		}
	}
	out = root.ser()
	for _, m := range muts {
		if isByteMut(m.Kind) {
			var ok bool
			if out, ok = applyByteMut(out, m); ok {
				applied = append(applied, m.Kind)
			}
		}
	}
	return out, applied
}

// ---------------------------------------------------------------------------------
// known violation classes: exact predicates on (target type, accepted bytes, re-encoding)
// and the matching by-construction exclusions

const (
	classExpelled   = "validator-expelled-byte"
	classIndexOrder = "validator-index-order"
	classPairOrder  = "evidence-pair-order-accepted"
	classHashLen    = "evidence-hash-length"
	classRecipient  = "tx-recipient-empty-list"
)

func allStrLen(kids []*item, n int) bool {
	for _, k := range kids {
		if k.List || len(k.Str) != n {
			return false
		}
	}
	return true
}

func sortedDedup(kids []*item) []*item {
	c := make([]*item, len(kids))
	copy(c, kids)
	sort.SliceStable(c, func(i, j int) bool { return bytes.Compare(c[i].Str, c[j].Str) < 0 })
	out := c[:0]
	for i, k := range c {
		if i == 0 || !bytes.Equal(k.Str, c[i-1].Str) {
			out = append(out, k)
		}
	}
	return out
}

func strictlyAscending(kids []*item) bool {
	for i := 1; i < len(kids); i++ {
		if bytes.Compare(kids[i-1].Str, kids[i].Str) >= 0 {
			return false
		}
	}
	return true
}

// doubleSignShape: [round, roundIndex, [[hash, sign]...]]
func doubleSignPairs(root *item) ([]*item, bool) {
	if !root.List || len(root.Kids) != 3 || root.Kids[0].List || root.Kids[1].List || !root.Kids[2].List {
		return nil, false
	}
	for _, p := range root.Kids[2].Kids {
		if !p.List || len(p.Kids) != 2 || p.Kids[0].List || p.Kids[1].List {
			return nil, false
		}
	}
	return root.Kids[2].Kids, true
}

func pairHashes(pairs []*item) []*item {
	out := make([]*item, len(pairs))
	for i, p := range pairs {
		out[i] = p.Kids[0]
	}
	return out
}

// hash32 mirrors common.BytesToHash: crop from the left, left-pad with zeros.
func hash32(b []byte) string {
	if len(b) > 32 {
		b = b[len(b)-32:]
	}
	return string(append(make([]byte, 32-len(b)), b...))
}

// expelledValue reports the integer carried by the trailing Expelled item of a validator record.
func expelledItem(root *item) (*item, uint64, bool) {
	if !root.List || len(root.Kids) != 2 || !root.Kids[0].List {
		return nil, 0, false
	}
	v, ok := root.Kids[1].uintOf()
	return root.Kids[1], v, ok && len(root.Kids[1].Str) <= 1
}

func recipientFlip(target string, root *item) int {
	n := 0
	for _, tx := range txItems(target, root) {
		if tx != nil && tx.List && len(tx.Kids) >= 4 && tx.Kids[3].List && len(tx.Kids[3].Kids) == 0 {
			tx.Kids[3].List = false
			n++
		}
	}
	return n
}

// classify attributes an accepted byte string whose re-encoding differs to the first known class whose exact
// predicate holds; anything else is "accepted-noncanonical".
func classify(target string, b, reenc []byte) string {
	const other = "accepted-noncanonical"
	tb, err1 := refParse(b)
	tr, err2 := refParse(reenc)
	if err1 != nil || err2 != nil {
		return other
	}
	switch target {
	case "Validator":
		if e, v, ok := expelledItem(tb); ok && v >= 2 && v <= 255 {
			c := tb.clone()
			c.Kids[1].Str = nil
			_ = e
			if c.equal(tr) {
				return classExpelled
			}
		}
	case "ValidatorIndex":
		if tb.List && tr.List && allStrLen(tb.Kids, 20) && !strictlyAscending(tb.Kids) {
			if list(sortedDedup(tb.Kids)...).equal(tr) {
				return classIndexOrder
			}
		}
	case "EvidenceDoubleSign":
		in, ok1 := doubleSignPairs(tb)
		out, ok2 := doubleSignPairs(tr)
		if ok1 && ok2 && tb.Kids[0].equal(tr.Kids[0]) && tb.Kids[1].equal(tr.Kids[1]) {
			m := map[string]string{}
			all32 := true
			for _, p := range in {
				if len(p.Kids[0].Str) != 32 {
					all32 = false
				}
				m[hash32(p.Kids[0].Str)] = string(p.Kids[1].Str)
			}
			same := len(out) == len(m)
			for _, p := range out {
				if s, ok := m[string(p.Kids[0].Str)]; !ok || s != string(p.Kids[1].Str) || len(p.Kids[0].Str) != 32 {
					same = false
				}
			}
			seen := map[string]bool{}
			for _, p := range out {
				if seen[string(p.Kids[0].Str)] {
					same = false
				}
				seen[string(p.Kids[0].Str)] = true
			}
			ascending := true
			for i := 1; i < len(in); i++ {
				if bytes.Compare(in[i-1].Kids[0].Str, in[i].Kids[0].Str) >= 0 {
					ascending = false
				}
			}
			outSorted := strictlyAscending(pairHashes(out))
			if same && all32 && !ascending && outSorted {
				// pairs out of ascending hash order, or a repeated hash: accepted into the map, re-encoded sorted and once
				return classPairOrder
			}
			if same && !all32 {
				return classHashLen
			}
		}
	}
	if txItems(target, tb) != nil {
		c := tb.clone()
		if recipientFlip(target, c) > 0 && c.equal(tr) {
			return classRecipient
		}
	}
	return other
}

// excludeKnown rewrites b so that it cannot fall into an excluded (known, unrepaired) class for the given target;
// everything else about b is kept. It returns the labels counting what was excluded.
func excludeKnown(target string, b []byte, excl map[string]bool) ([]byte, []string) {
	if len(excl) == 0 {
		return b, nil
	}
	root, err := refParse(b)
	if err != nil {
		return b, nil // structurally non-canonical input is in none of the known classes
	}
	var labels []string
	switch target {
	case "Validator":
		if excl[classExpelled] {
			if e, v, ok := expelledItem(root); ok && v >= 2 && v <= 255 {
				e.Str = []byte{1}
				labels = append(labels, "excluded:"+classExpelled)
			}
		}
	case "ValidatorIndex":
		if excl[classIndexOrder] && root.List && allStrLen(root.Kids, 20) && !strictlyAscending(root.Kids) {
			root.Kids = sortedDedup(root.Kids)
			labels = append(labels, "excluded:"+classIndexOrder)
		}
	case "EvidenceDoubleSign":
		if pairs, ok := doubleSignPairs(root); ok {
			if excl[classHashLen] {
				ch := false
				for _, p := range pairs {
					if len(p.Kids[0].Str) != 32 {
						p.Kids[0].Str = []byte(hash32(p.Kids[0].Str))
						ch = true
					}
				}
				if ch {
					labels = append(labels, "excluded:"+classHashLen)
				}
			}
			if excl[classPairOrder] && allStrLen(pairHashes(pairs), 32) && !strictlyAscending(pairHashes(pairs)) {
				// keep the content, put the pairs in the order the encoder writes (a repeated hash keeps its last pair)
				last := map[string]*item{}
				for _, p := range pairs {
					last[string(p.Kids[0].Str)] = p
				}
				var keys []string
				for k := range last {
					keys = append(keys, k)
				}
				sort.Strings(keys)
				var sorted []*item
				for _, k := range keys {
					sorted = append(sorted, last[k])
				}
				root.Kids[2].Kids = sorted
				labels = append(labels, "excluded:"+classPairOrder)
			}
		}
	}
	if excl[classRecipient] && recipientFlip(target, root) > 0 {
		labels = append(labels, "excluded:"+classRecipient)
	}
	if labels == nil {
		return b, nil
	}
	return root.ser(), labels
}
