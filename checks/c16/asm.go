package c16

import (
	"fmt"
	"math"

	"github.com/youchainhq/go-youchain/common"
	"github.com/youchainhq/go-youchain/core/vm"
	"github.com/youchainhq/go-youchain/crypto"
)

// ---------------------------------------------------------------------------------
// a small assembler: labels (PUSH2 operands) and trailing data blobs

type asm struct {
	b      []byte
	fixes  []fixup
	labels map[string]int
	blobs  []blob
	nlabel int
}

type fixup struct {
	pos   int
	label string
}

type blob struct {
	label string
	data  []byte
}

func newAsm() *asm { return &asm{labels: map[string]int{}} }

func (a *asm) pos() int { return len(a.b) }

func (a *asm) op(ops ...vm.OpCode) {
	for _, o := range ops {
		a.b = append(a.b, byte(o))
	}
}

// pushW emits PUSH<width> with the big-endian value.
func (a *asm) pushW(width int, v uint64) {
	a.b = append(a.b, byte(vm.PUSH1)+byte(width-1))
	for i := width - 1; i >= 0; i-- {
		if i >= 8 {
			a.b = append(a.b, 0)
		} else {
			a.b = append(a.b, byte(v>>(8*uint(i))))
		}
	}
}

// push emits the shortest PUSH for v.
func (a *asm) push(v uint64) {
	w := 1
	for x := v >> 8; x > 0; x >>= 8 {
		w++
	}
	a.pushW(w, v)
}

func (a *asm) pushBytes(b []byte) {
	a.b = append(a.b, byte(vm.PUSH1)+byte(len(b)-1))
	a.b = append(a.b, b...)
}

func (a *asm) newLabel() string {
	a.nlabel++
	return fmt.Sprintf("L%d", a.nlabel)
}

func (a *asm) pushLabel(l string) {
	a.b = append(a.b, byte(vm.PUSH2), 0, 0)
	a.fixes = append(a.fixes, fixup{pos: len(a.b) - 2, label: l})
}

func (a *asm) jumpdest(l string) {
	a.labels[l] = len(a.b)
	a.op(vm.JUMPDEST)
}

// data registers a blob placed after the code; returns the label of its offset.
func (a *asm) data(d []byte) string {
	l := a.newLabel()
	a.blobs = append(a.blobs, blob{label: l, data: d})
	return l
}

func (a *asm) finish() []byte {
	for _, bl := range a.blobs {
		a.labels[bl.label] = len(a.b)
		a.b = append(a.b, bl.data...)
	}
	for _, f := range a.fixes {
		p, ok := a.labels[f.label]
		if !ok || p > 0xffff {
			panic("asm: bad label " + f.label)
		}
		a.b[f.pos], a.b[f.pos+1] = byte(p>>8), byte(p)
	}
	return a.b
}

// ---------------------------------------------------------------------------------
// compiler: Case -> bytecode

var (
	originAddr = common.BytesToAddress([]byte{0x0a, 0x11, 0xce, 0x00})
	eoaAddr    = common.BytesToAddress([]byte{0xe0, 0xa0, 0x00, 0x01})
	noneAddr   = common.BytesToAddress([]byte{0xe0, 0xa0, 0x00, 0x02})
)

func contractAddr(i int) common.Address {
	return common.BytesToAddress([]byte{0xc0, 0xde, 0x00, byte(i + 1)})
}

type siteKey struct {
	contract int
	pc       uint64
}

type compiler struct {
	c         *Case
	addrs     []common.Address
	derived1  []common.Address // CREATE addresses (code independent); used inside init/runtime code
	derived2  []common.Address // + CREATE2 addresses of the contracts' own create2 actions
	ids       map[*Action]int
	initBlobs map[*Init][]byte
	measuring bool               // pass 1: "exact" call sites request all gas
	overrides map[*Action]uint64 // pass 2: call site -> requested gas
	sites     map[siteKey]*Action
	codes     [][]byte
}

func (cp *compiler) number(acts []Action) {
	for i := range acts {
		a := &acts[i]
		cp.ids[a] = len(cp.ids) + 1
		if a.Init != nil {
			cp.number(a.Init.Ctor)
			if a.Init.Runtime != nil {
				cp.number(a.Init.Runtime.Acts)
			}
		}
	}
}

// compile builds the code of every contract of the case.
func compile(c *Case, measuring bool, overrides map[*Action]uint64) *compiler {
	cp := &compiler{c: c, ids: map[*Action]int{}, initBlobs: map[*Init][]byte{}, measuring: measuring,
		overrides: overrides, sites: map[siteKey]*Action{}}
	for i := range c.Contracts {
		cp.addrs = append(cp.addrs, contractAddr(i))
		cp.number(c.Contracts[i].Prog.Acts)
	}
	for i := range c.Txs {
		if in := c.Txs[i].Init; in != nil {
			cp.number(in.Ctor)
			if in.Runtime != nil {
				cp.number(in.Runtime.Acts)
			}
		}
	}
	for i := range c.Contracts {
		// pre-deployed contracts have nonce 1
		cp.derived1 = append(cp.derived1, crypto.CreateAddress(cp.addrs[i], 1), crypto.CreateAddress(cp.addrs[i], 2))
	}
	cp.derived2 = append(cp.derived2, cp.derived1...)
	for i := range c.Contracts {
		acts := c.Contracts[i].Prog.Acts
		for j := range acts {
			if a := &acts[j]; a.Op == "create2" {
				var salt common.Hash
				salt[31] = byte(a.Salt)
				cp.derived2 = append(cp.derived2, crypto.CreateAddress2(cp.addrs[i], salt, cp.initCode(a.Init)))
			}
		}
	}
	for i := range c.Contracts {
		a := newAsm()
		cp.program(a, &c.Contracts[i].Prog, 0, i)
		cp.codes = append(cp.codes, a.finish())
	}
	return cp
}

func (cp *compiler) resolve(t Target, level int) common.Address {
	switch t.K {
	case "c":
		return cp.addrs[t.I%len(cp.addrs)]
	case "eoa":
		return eoaAddr
	case "origin":
		return originAddr
	case "pre":
		return nativeAddr(normNative(t.I))
	case "made":
		d := cp.derived2
		if level > 0 {
			d = cp.derived1
		}
		if len(d) > 0 {
			return d[t.I%len(d)]
		}
	}
	return noneAddr
}

func (cp *compiler) pushTarget(a *asm, t Target, level int) {
	if t.K == "self" {
		a.op(vm.ADDRESS)
		return
	}
	ad := cp.resolve(t, level)
	a.pushBytes(ad[:])
}

func (cp *compiler) pushGas(a *asm, act *Action, level int) {
	switch act.Gas {
	case "stipend":
		a.push(2300)
	case "zero":
		a.push(0)
	case "small":
		a.push(uint64(act.GasN))
	case "near":
		// what the native contract requires for its input, +-2 (a value call adds the 2300 stipend on top)
		g := int64(specNative(normNative(act.To.I), cp.nativeInput(act)).gas) + int64(act.GasN-2)
		if act.Value != 0 && (act.Op == "call" || act.Op == "callcode") {
			g -= 2300
		}
		if g < 1 {
			g = 1
		}
		a.push(uint64(g))
	case "exact":
		if level > 0 {
			a.push(uint64(4000 + 1000*act.GasN))
			return
		}
		v := uint64(3000)
		if cp.measuring {
			v = math.MaxUint32
		} else if ov, ok := cp.overrides[act]; ok {
			v = ov
		}
		a.pushW(4, v)
	default: // all
		a.pushW(8, math.MaxUint64)
	}
}

// nativeInput is the input vector a call action passes (nil unless the target is a native contract).
func (cp *compiler) nativeInput(act *Action) []byte {
	if act.To.K != "pre" {
		return nil
	}
	return nativeVector(normNative(act.To.I), act.Vec)
}

func (cp *compiler) after(a *asm, bubble bool) {
	if !bubble {
		a.op(vm.POP)
		return
	}
	ok := a.newLabel()
	a.pushLabel(ok)
	a.op(vm.JUMPI)
	a.push(0)
	a.push(0)
	a.op(vm.REVERT)
	a.jumpdest(ok)
}

func (cp *compiler) unique(a *asm, id int) {
	// GAS + id<<32: a value that identifies the code site and (through the remaining gas) the executing frame
	a.op(vm.GAS)
	a.pushW(8, uint64(id)<<32)
	a.op(vm.ADD)
}

func (cp *compiler) action(a *asm, act *Action, level, contract int) {
	id := cp.ids[act]
	switch act.Op {
	case "sstore":
		cp.unique(a, id)
		a.push(uint64(act.Slot))
		a.op(vm.SSTORE)
	case "sstore0":
		a.push(0)
		a.push(uint64(act.Slot))
		a.op(vm.SSTORE)
	case "sload":
		a.push(uint64(act.Slot))
		a.op(vm.SLOAD, vm.POP)
	case "log":
		cp.unique(a, id)
		a.push(0)
		a.op(vm.MSTORE)
		for i := act.Topics - 1; i >= 0; i-- {
			a.pushW(4, uint64(id)<<8|uint64(i+1))
		}
		a.push(32)
		a.push(0)
		a.op(vm.LOG0 + vm.OpCode(act.Topics))
	case "balance":
		cp.pushTarget(a, act.To, level)
		a.op(vm.BALANCE, vm.POP)
	case "extsize":
		cp.pushTarget(a, act.To, level)
		a.op(vm.EXTCODESIZE, vm.POP)
	case "selfbalance":
		a.op(vm.SELFBALANCE, vm.POP)
	case "ctx":
		a.op(vm.CALLER, vm.POP, vm.CALLVALUE, vm.POP, vm.ADDRESS, vm.POP)
	case "call", "callcode", "delegatecall", "staticcall":
		in := cp.nativeInput(act)
		if len(in) > 0 {
			// input of a native contract: copied from the code's data section to memory 0x80
			l := a.data(in)
			a.pushW(2, uint64(len(in)))
			a.pushLabel(l)
			a.push(0x80)
			a.op(vm.CODECOPY)
		}
		a.push(0)
		a.push(0)
		a.push(uint64(len(in)))
		a.push(0x80)
		if act.Op == "call" || act.Op == "callcode" {
			a.push(uint64(act.Value))
		}
		cp.pushTarget(a, act.To, level)
		cp.pushGas(a, act, level)
		if level == 0 && act.Gas == "exact" {
			cp.sites[siteKey{contract, uint64(a.pos())}] = act
		}
		a.op(map[string]vm.OpCode{"call": vm.CALL, "callcode": vm.CALLCODE, "delegatecall": vm.DELEGATECALL, "staticcall": vm.STATICCALL}[act.Op])
		cp.after(a, act.Bubble)
	case "create", "create2":
		init := cp.initCode(act.Init)
		l := a.data(init)
		a.pushW(2, uint64(len(init)))
		a.pushLabel(l)
		a.push(0x40)
		a.op(vm.CODECOPY)
		if act.Op == "create2" {
			a.push(uint64(act.Salt))
		}
		a.pushW(2, uint64(len(init)))
		a.push(0x40)
		a.push(uint64(act.Value))
		if act.Op == "create2" {
			a.op(vm.CREATE2)
		} else {
			a.op(vm.CREATE)
		}
		if act.ThenCall {
			a.push(0)
			a.push(0)
			a.push(0)
			a.push(0)
			a.push(uint64(act.Value2))
			a.op(vm.DUP6)
			a.pushW(8, math.MaxUint64)
			a.op(vm.CALL, vm.POP)
		}
		cp.after(a, act.Bubble)
	default:
		panic("unknown action " + act.Op)
	}
}

func (cp *compiler) program(a *asm, p *Program, level, contract int) {
	for i := range p.Acts {
		cp.action(a, &p.Acts[i], level, contract)
	}
	switch p.Term {
	case "stop":
		a.op(vm.STOP)
	case "return":
		a.push(32)
		a.push(0)
		a.op(vm.RETURN)
	case "revert":
		a.push(0)
		a.push(0)
		a.op(vm.REVERT)
	case "invalid":
		a.op(vm.OpCode(0xfe))
	case "loop":
		l := a.newLabel()
		a.jumpdest(l)
		a.op(vm.ADDRESS, vm.EXTCODESIZE, vm.POP)
		a.pushLabel(l)
		a.op(vm.JUMP)
	case "oog":
		a.pushW(4, 0x0fffffff)
		a.op(vm.MLOAD)
	case "underflow":
		a.op(vm.POP)
	case "badjump":
		a.pushW(2, 0xffff)
		a.op(vm.JUMP)
	case "selfdestruct":
		cp.pushTarget(a, p.Ben, level)
		a.op(vm.SELFDESTRUCT)
	default:
		panic("unknown terminator " + p.Term)
	}
}

// initCode compiles an init-code template (memoised: the same bytes are embedded in the creator and hashed for
// the CREATE2 address).
func (cp *compiler) initCode(in *Init) []byte {
	if b, ok := cp.initBlobs[in]; ok {
		return b
	}
	a := newAsm()
	for i := range in.Ctor {
		cp.action(a, &in.Ctor[i], 1, -1)
	}
	switch in.End {
	case "code":
		ra := newAsm()
		cp.program(ra, in.Runtime, 1, -1)
		rt := ra.finish()
		l := a.data(rt)
		a.pushW(2, uint64(len(rt)))
		a.pushLabel(l)
		a.push(0)
		a.op(vm.CODECOPY)
		a.pushW(2, uint64(len(rt)))
		a.push(0)
		a.op(vm.RETURN)
	case "stop":
		if len(in.Ctor) > 0 {
			a.op(vm.STOP)
		}
	case "revert":
		a.push(0)
		a.push(0)
		a.op(vm.REVERT)
	case "invalid":
		a.op(vm.OpCode(0xfe))
	case "oog":
		a.pushW(4, 0x0fffffff)
		a.op(vm.MLOAD)
	case "zeros":
		a.pushW(3, uint64(in.ZeroLen))
		a.push(0)
		a.op(vm.RETURN)
	default:
		panic("unknown init end " + in.End)
	}
	b := a.finish()
	cp.initBlobs[in] = b
	return b
}
