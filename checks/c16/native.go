package c16

import (
	"bytes"
	"encoding/hex"
	"math/big"

	"github.com/youchainhq/go-youchain/common"
)

// ---------------------------------------------------------------------------------
// native (precompiled) contracts 0x01..0x08: an independent specification of "how much gas" and "does the input
// make it fail", written from the EIPs (Yellow Paper appendix E, EIP-196/197/198), not from core/vm/contracts.go.
// All eight are active: the interpreter dispatches PrecompiledContractsByzantium unconditionally.

type nativeSpec struct {
	gas   uint64 // gas the contract requires for this input
	valid bool   // the input is accepted (otherwise the frame fails and consumes all its gas)
	known bool   // false: the harness cannot decide validity/gas for this input; the outcome is then only observed
}

func nativeAddr(n int) common.Address { return common.BytesToAddress([]byte{byte(n)}) }

// nativeOf returns 1..8 for a native contract address, 0 otherwise.
func nativeOf(a common.Address) int {
	for i := 0; i < 19; i++ {
		if a[i] != 0 {
			return 0
		}
	}
	if a[19] >= 1 && a[19] <= 8 {
		return int(a[19])
	}
	return 0
}

func words(n int) uint64 { return uint64((n + 31) / 32) }

// rpad returns in[off:off+n] right-padded with zeros (how every native contract reads short input).
func rpad(in []byte, off, n int) []byte {
	out := make([]byte, n)
	if off < len(in) {
		copy(out, in[off:])
	}
	return out
}

var bnP, _ = new(big.Int).SetString("21888242871839275222246405745257275088696311157297823662689037894645226208583", 10)

// g1 decides a 64-byte G1 encoding: (0,0) is the point at infinity, otherwise y^2 = x^3 + 3 (mod p).
func g1(blob []byte) (valid, known bool) {
	x, y := new(big.Int).SetBytes(blob[:32]), new(big.Int).SetBytes(blob[32:64])
	if x.Cmp(bnP) >= 0 || y.Cmp(bnP) >= 0 {
		return false, false // EIP-196 says invalid; not generated, left undecided
	}
	if x.Sign() == 0 && y.Sign() == 0 {
		return true, true
	}
	l := new(big.Int).Mul(y, y)
	l.Mod(l, bnP)
	r := new(big.Int).Mul(x, x)
	r.Mul(r, x)
	r.Add(r, big.NewInt(3))
	r.Mod(r, bnP)
	return l.Cmp(r) == 0, true
}

func unhex(s string) []byte {
	b, err := hex.DecodeString(s)
	if err != nil {
		panic(err)
	}
	return b
}

// the generator of G2 in EIP-197 encoding (x imaginary, x real, y imaginary, y real)
var g2Gen = unhex("198e9393920d483a7260bfb731fb5d25f1aa493335a9e71297e485b7aef312c2" +
	"1800deef121f1e76426a00665e5c4479674322d4f75edadd46debd5cd992f6ed" +
	"090689d0585ff075ec9e99ad690c3395bc4b313370b38ef355acdadcd122975b" +
	"12c85ea5db8c6deb4aab71808dcb408fe3d1e7690c43d37b4ce6cc0166fa7daa")

// g2 knows two valid encodings only: infinity and the generator.
func g2(blob []byte) (valid, known bool) {
	if bytes.Equal(blob, make([]byte, 128)) || bytes.Equal(blob, g2Gen) {
		return true, true
	}
	return false, false
}

func specNative(n int, in []byte) nativeSpec {
	switch n {
	case 1: // ecrecover: fixed price, never fails (bad signatures give empty output)
		return nativeSpec{3000, true, true}
	case 2:
		return nativeSpec{60 + 12*words(len(in)), true, true}
	case 3:
		return nativeSpec{600 + 120*words(len(in)), true, true}
	case 4:
		return nativeSpec{15 + 3*words(len(in)), true, true}
	case 5:
		return modexpSpec(in)
	case 6:
		v1, k1 := g1(rpad(in, 0, 64))
		if k1 && !v1 {
			return nativeSpec{500, false, true}
		}
		v2, k2 := g1(rpad(in, 64, 64))
		return nativeSpec{500, v1 && v2, k1 && k2}
	case 7:
		v, k := g1(rpad(in, 0, 64))
		return nativeSpec{40000, v, k}
	case 8:
		sp := nativeSpec{gas: 100000 + 80000*uint64(len(in)/192), valid: true, known: true}
		if len(in)%192 != 0 {
			sp.valid = false
			return sp
		}
		for i := 0; i < len(in); i += 192 {
			v, k := g1(in[i : i+64])
			if k && !v {
				sp.valid = false
				return sp
			}
			v2, k2 := g2(in[i+64 : i+192])
			if !k || !k2 {
				sp.known = false
				return sp
			}
			if !v2 {
				sp.valid = false
				return sp
			}
		}
		return sp
	}
	return nativeSpec{}
}

// modexpSpec: EIP-198 gas; the contract never fails.
func modexpSpec(in []byte) nativeSpec {
	bl := new(big.Int).SetBytes(rpad(in, 0, 32))
	el := new(big.Int).SetBytes(rpad(in, 32, 32))
	ml := new(big.Int).SetBytes(rpad(in, 64, 32))
	if bl.BitLen() > 10 || el.BitLen() > 10 || ml.BitLen() > 10 {
		return nativeSpec{known: false}
	}
	b, e, m := int(bl.Int64()), int(el.Int64()), int(ml.Int64())
	// adjusted exponent length
	head := e
	if head > 32 {
		head = 32
	}
	eh := new(big.Int).SetBytes(rpad(in, 96+b, head))
	adj := uint64(0)
	if e > 32 {
		adj = 8 * uint64(e-32)
	}
	if eh.BitLen() > 0 {
		adj += uint64(eh.BitLen() - 1)
	}
	if adj < 1 {
		adj = 1
	}
	x := uint64(b)
	if m > b {
		x = uint64(m)
	}
	var mc uint64
	switch {
	case x <= 64:
		mc = x * x
	case x <= 1024:
		mc = x*x/4 + 96*x - 3072
	default:
		mc = x*x/16 + 480*x - 199680
	}
	return nativeSpec{mc * adj / 20, true, true}
}

// ---------------------------------------------------------------------------------
// input vectors: known-good inputs and malformed / short / off-curve ones

func cat(parts ...[]byte) []byte {
	var out []byte
	for _, p := range parts {
		out = append(out, p...)
	}
	return out
}

func word(v int64) []byte { return common.LeftPadBytes(big.NewInt(v).Bytes(), 32) }

func fill(n int, b byte) []byte { return bytes.Repeat([]byte{b}, n) }

var nativeVectors = func() [9][][]byte {
	var v [9][][]byte
	ecOK := unhex("18c547e4f7b0f325ad1e56f57e26c745b09a3e503d86e00e5255ff7f715d3d1c" +
		"000000000000000000000000000000000000000000000000000000000000001c" +
		"73b1693892219d736caba55bdb67216e485557ea6b6af75f37096c9aa6a5a75f" +
		"eeb940b1d03b21e36b0e47e79769f095fe2ab855bd91e3a38756b7d75a9c4549")
	v[1] = [][]byte{ecOK, nil, ecOK[:100], fill(128, 0xff), fill(64, 0)}
	data := [][]byte{nil, {0x61}, fill(32, 0x11), fill(33, 0x22), fill(100, 0x33)}
	v[2], v[3], v[4] = data, data, data
	negY := new(big.Int).Sub(bnP, big.NewInt(2))
	gen, negGen := cat(word(1), word(2)), cat(word(1), common.LeftPadBytes(negY.Bytes(), 32))
	off := cat(word(1), word(3)) // not on the curve
	v[5] = [][]byte{
		cat(word(1), word(1), word(1), []byte{3, 5, 7}),
		cat(word(32), word(32), word(32), fill(32, 0x03), fill(32, 0xf1), fill(32, 0xfd)),
		nil,
		cat(word(1), word(1))[:40],
		cat(word(0), word(0), word(0)),
		cat(word(2), word(40), word(3), []byte{1, 2}, fill(40, 0x81), []byte{9, 9, 9}),
		cat(word(1), word(1), word(1), []byte{3}), // exponent and modulus missing
	}
	v[6] = [][]byte{cat(gen, gen), nil, gen, cat(off, gen), cat(gen, off), gen[:10], cat(gen, negGen), off[:40]}
	v[7] = [][]byte{cat(gen, word(2)), nil, gen, cat(off, word(5)), cat(gen, fill(32, 0xff)), off, cat(negGen, word(3))[:70]}
	v[8] = [][]byte{
		nil,
		fill(192, 0),
		cat(gen, g2Gen),
		cat(gen, g2Gen, negGen, g2Gen),
		{1},
		fill(191, 0),
		fill(193, 0),
		cat(off, fill(128, 0)),
		cat(fill(192, 0), off, g2Gen),
		cat(gen, g2Gen)[:100],
	}
	return v
}()

func nativeVector(n, vec int) []byte {
	l := nativeVectors[n]
	return l[((vec%len(l))+len(l))%len(l)]
}

func normNative(i int) int { return ((i-1)%8+8)%8 + 1 }
