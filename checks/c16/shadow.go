package c16

import (
	"bytes"
	"fmt"
	"math/big"
	"sort"
	"time"

	"github.com/youchainhq/go-youchain/common"
	cmath "github.com/youchainhq/go-youchain/common/math"
	"github.com/youchainhq/go-youchain/core/vm"
	"github.com/youchainhq/go-youchain/crypto"
	"github.com/youchainhq/go-youchain/params"
)

// ---------------------------------------------------------------------------------
// tracer: records every interpreter step (vm.Config.Debug + Tracer)

type step struct {
	depth     int
	pc        uint64
	op        vm.OpCode
	gas, cost uint64
	slen      int
	st        [7]common.Hash // st[0] = top of stack (before the op executes)
	mem       []byte         // LOG data / CREATE init code / RETURN-REVERT data / CALL* input
	memLen    int            // memory size when the step was captured (after the op's own expansion)
	addr      common.Address // contract.Address(): the storage context
	entry     bool           // first step after the depth increased
	caller    common.Address
	codeAddr  common.Address
	value     *big.Int
	err       string
	fault     bool // error raised by the op's execution (CaptureFault)
}

// stepBuf is reused between cases (one case runs at a time per process); only its capacity survives.
var stepBuf []step

type tracer struct {
	steps     []step
	prevDepth int
	anomaly   string
}

func stackNeed(op vm.OpCode) int {
	switch {
	case op == vm.CALL || op == vm.CALLCODE:
		return 7
	case op == vm.DELEGATECALL || op == vm.STATICCALL:
		return 6
	case op == vm.CREATE:
		return 3
	case op == vm.CREATE2:
		return 4
	case op >= vm.LOG0 && op <= vm.LOG4:
		return 2 + int(op-vm.LOG0)
	case op == vm.SSTORE || op == vm.RETURN || op == vm.REVERT:
		return 2
	}
	return 1
}

func hashU64(h common.Hash) (uint64, bool) {
	for i := 0; i < 24; i++ {
		if h[i] != 0 {
			return 0, false
		}
	}
	var v uint64
	for i := 24; i < 32; i++ {
		v = v<<8 | uint64(h[i])
	}
	return v, true
}

func hashAddr(h common.Hash) common.Address { return common.BytesToAddress(h[12:]) }

func (t *tracer) CaptureStart(from common.Address, to common.Address, call bool, input []byte, gas uint64, value *big.Int) error {
	return nil
}

func (t *tracer) CaptureState(env *vm.EVM, pc uint64, op vm.OpCode, gas, cost uint64, memory *vm.Memory, stack *vm.Stack, contract *vm.Contract, depth int, err error) error {
	t.steps = append(t.steps, step{})
	s := &t.steps[len(t.steps)-1]
	s.depth, s.pc, s.op, s.gas, s.cost = depth, pc, op, gas, cost
	data := stack.Data()
	s.slen = len(data)
	n := stackNeed(op)
	if n > s.slen {
		n = s.slen
	}
	for i := 0; i < n; i++ {
		cmath.ReadBits(data[len(data)-1-i], s.st[i][:])
	}
	s.addr = contract.Address()
	if depth > t.prevDepth {
		s.entry = true
		s.caller = contract.Caller()
		if contract.CodeAddr != nil {
			s.codeAddr = *contract.CodeAddr
		}
		if v := contract.Value(); v != nil {
			s.value = new(big.Int).Set(v)
		}
	}
	t.prevDepth = depth
	if err != nil {
		s.err = err.Error()
		return nil
	}
	s.memLen = memory.Len()
	// memory regions the oracle needs
	offIdx := -1
	switch {
	case op == vm.CALL, op == vm.CALLCODE:
		offIdx = 3
	case op == vm.DELEGATECALL, op == vm.STATICCALL:
		offIdx = 2
	case op >= vm.LOG0 && op <= vm.LOG4, op == vm.RETURN, op == vm.REVERT:
		offIdx = 0
	case op == vm.CREATE, op == vm.CREATE2:
		offIdx = 1
	}
	if offIdx >= 0 && s.slen >= offIdx+2 {
		off, ok1 := hashU64(s.st[offIdx])
		size, ok2 := hashU64(s.st[offIdx+1])
		if ok1 && ok2 && size > 0 && off+size <= uint64(memory.Len()) {
			s.mem = append([]byte(nil), memory.Data()[off:off+size]...)
		} else if size > 0 {
			t.anomaly = fmt.Sprintf("step %d (%v): memory region [%d,+%d) not available (memory %d)", len(t.steps)-1, op, off, size, memory.Len())
		}
	}
	return nil
}

func (t *tracer) CaptureFault(env *vm.EVM, pc uint64, op vm.OpCode, gas, cost uint64, memory *vm.Memory, stack *vm.Stack, contract *vm.Contract, depth int, err error) error {
	// the faulting step has already been recorded by CaptureState; it is the last step of that depth
	for i := len(t.steps) - 1; i >= 0; i-- {
		if t.steps[i].depth == depth {
			s := &t.steps[i]
			if s.pc != pc || s.op != op || i != len(t.steps)-1 {
				t.anomaly = fmt.Sprintf("CaptureFault(depth %d pc %d %v) does not match the last recorded step", depth, pc, op)
			}
			if op == vm.REVERT {
				// the interpreter reports the REVERT opcode's own outcome (errExecutionReverted) through
				// CaptureFault; the step itself executed (opRevert cannot fail once it has been charged)
				t.prevDepth = depth
				return nil
			}
			s.fault = true
			if err != nil {
				s.err = err.Error()
			} else {
				s.err = "fault"
			}
			t.prevDepth = depth
			return nil
		}
		if t.steps[i].depth < depth {
			break
		}
	}
	t.anomaly = fmt.Sprintf("CaptureFault(depth %d pc %d %v) without a recorded step", depth, pc, op)
	return nil
}

func (t *tracer) CaptureEnd(output []byte, gasUsed uint64, d time.Duration, err error) error {
	return nil
}

// ---------------------------------------------------------------------------------
// shadow world

type acct struct {
	exists bool
	bal    uint64
	nonce  uint64
	code   []byte
	stor   map[common.Hash]common.Hash
	dead   bool // self-destructed in the current transaction
	// ghost: what a self-destructed predecessor of this (currently non-existent) account held when the end of an
	// earlier transaction removed it. By the statement that value is burnt; it is tracked only to recognise the
	// known defect "deleted-account-balance-resurrected" (StateDB.CreateAccount copies it into the new account).
	ghost uint64
}

type slog struct {
	addr   common.Address
	topics []common.Hash
	data   []byte
}

type world struct {
	acc   map[common.Address]*acct
	logs  []slog
	burnt uint64
}

func newWorld() *world { return &world{acc: map[common.Address]*acct{}} }

func (w *world) clone() *world {
	n := &world{acc: make(map[common.Address]*acct, len(w.acc)), logs: w.logs[:len(w.logs):len(w.logs)], burnt: w.burnt}
	for k, a := range w.acc {
		c := *a
		if len(a.stor) > 0 {
			c.stor = make(map[common.Hash]common.Hash, len(a.stor))
			for sk, sv := range a.stor {
				c.stor[sk] = sv
			}
		} else {
			c.stor = nil
		}
		n.acc[k] = &c
	}
	return n
}

func (w *world) get(ad common.Address) *acct {
	a := w.acc[ad]
	if a == nil {
		a = &acct{}
		w.acc[ad] = a
	}
	return a
}

// finalise models the end of a transaction: self-destructed accounts disappear with whatever they hold.
func (w *world) finalise(gone map[common.Address]bool) {
	for ad, a := range w.acc {
		if a.dead {
			w.burnt += a.bal
			*a = acct{ghost: a.bal}
			gone[ad] = true
		}
	}
	w.logs = nil
}

// ghosts reports whether some removed account held value (the precondition of the known resurrection defect).
func (w *world) ghosts() bool {
	for _, a := range w.acc {
		if !a.exists && a.ghost > 0 {
			return true
		}
	}
	return false
}

// ---------------------------------------------------------------------------------
// the oracle: rebuilds the frame tree from the trace and drives the shadow world

type fkind int

const (
	kCall fkind = iota
	kCallCode
	kDelegate
	kStatic
	kCreate
	kCreate2
)

func (k fkind) String() string {
	return [...]string{"CALL", "CALLCODE", "DELEGATECALL", "STATICCALL", "CREATE", "CREATE2"}[k]
}
func (k fkind) isCreate() bool { return k == kCreate || k == kCreate2 }

type result struct {
	exact    bool // returned is exact although no step of the callee was traced (native contracts)
	ok       bool
	hard     bool // failure that consumes all gas
	returned uint64
	why      string
}

type pending struct {
	kind        fkind
	idx         int  // index of the call step in the trace (-1: the transaction itself)
	top         bool // the transaction's own message call
	keep        uint64
	keepKnown   bool   // keep is final (calls); for creates it is fixed when the init frame starts
	maxSupplied uint64 // upper bound of the gas the callee may start with
	value       uint64
	pre         string // non-empty: the call fails before any code runs (depth, balance, collision)
	code        []byte // code the callee runs (shadow's view)
	snap        *world // shadow state to return to when the frame fails
	ctxAddr     common.Address
	ctxCaller   common.Address
	ctxValue    uint64
	codeAddr    common.Address
	static      bool
	res         *result
	ran         bool
	valueMoved  bool
	// native contract callee (no code, no steps): its specification and the exact gas handed to it
	native        int
	spec          nativeSpec
	supplied      uint64
	suppliedKnown bool
}

type frame struct {
	depth    int
	p        *pending
	addr     common.Address
	caller   common.Address
	value    uint64
	codeAddr common.Address
	static   bool
	supplied uint64
	first    int
	last     int
	ended    bool // a halting or faulting step was seen
	pend     *pending
	expect   *common.Hash // value the last (read) op must have pushed
	expectOp vm.OpCode
	writes   int
}

type viol struct {
	class string
	msg   string
}

type siteUse struct {
	codeAddr common.Address
	pc       uint64
	used     uint64
	value    bool
}

type stats struct {
	steps, frames, maxDepth                 int
	failedFrames, failedWithWrites          int
	deepFailWithWrites                      int // depth >= 2
	staticAttempts, staticFrames            int
	createOK, createFail, collisions        int
	selfdestructs, burns                    int
	insufficient, stepless                  int
	revertFrames, hardFailFrames            int
	valueCalls, delegate, callcode, logs    int
	sstores, codeStoreOOG, readsChecked     int
	callAfterCreate, recreateAfterDestroyed int
	resurrections                           int
	nativeCalls, nativeOK, nativeFail       int
	nativeFailValue, nativeOpaque           int
}

type oracle struct {
	// carry: model the known defect instead of the statement (used only to attribute a violation precisely)
	carry    bool
	gone     map[common.Address]bool // accounts removed at the end of an earlier transaction (self-destructed)
	w        *world
	seen     map[common.Address]bool
	touched  map[common.Address]map[common.Hash]bool
	labels   map[common.Address]string
	steps    []step
	topInput []byte
	open     []*frame
	st       stats
	uses     []siteUse
	txi      int
}

func (o *oracle) name(ad common.Address) string {
	if l, ok := o.labels[ad]; ok {
		return l
	}
	return fmt.Sprintf("%x", ad[:])
}

func (o *oracle) acct(ad common.Address) *acct {
	o.seen[ad] = true
	return o.w.get(ad)
}

func (o *oracle) touch(ad common.Address, slot common.Hash) {
	m := o.touched[ad]
	if m == nil {
		m = map[common.Hash]bool{}
		o.touched[ad] = m
	}
	m[slot] = true
}

func (o *oracle) fail(class, format string, args ...interface{}) *viol {
	return &viol{class: class, msg: fmt.Sprintf("tx %d: ", o.txi) + fmt.Sprintf(format, args...)}
}

func (o *oracle) where(i int) string {
	if i < 0 || i >= len(o.steps) {
		return "transaction level"
	}
	s := &o.steps[i]
	return fmt.Sprintf("step %d (depth %d, context %s, pc %d, %v, gas %d, cost %d)", i, s.depth, o.name(s.addr), s.pc, s.op, s.gas, s.cost)
}

var minStack = func() map[vm.OpCode]int {
	m := map[vm.OpCode]int{
		vm.STOP: 0, vm.ADD: 2, vm.ADDRESS: 0, vm.BALANCE: 1, vm.CALLER: 0, vm.CALLVALUE: 0, vm.CODECOPY: 3,
		vm.EXTCODESIZE: 1, vm.SELFBALANCE: 0, vm.POP: 1, vm.MLOAD: 1, vm.MSTORE: 2, vm.SLOAD: 1, vm.SSTORE: 2,
		vm.JUMP: 1, vm.JUMPI: 2, vm.GAS: 0, vm.JUMPDEST: 0, vm.DUP6: 6, vm.CREATE: 3, vm.CALL: 7, vm.CALLCODE: 7,
		vm.RETURN: 2, vm.DELEGATECALL: 6, vm.CREATE2: 4, vm.STATICCALL: 6, vm.REVERT: 2, vm.SELFDESTRUCT: 1,
	}
	for op := vm.PUSH1; op <= vm.PUSH32; op++ {
		m[op] = 0
	}
	for i := 0; i <= 4; i++ {
		m[vm.LOG0+vm.OpCode(i)] = 2 + i
	}
	return m
}()

func isWrite(s *step) bool {
	switch {
	case s.op == vm.SSTORE, s.op == vm.CREATE, s.op == vm.CREATE2, s.op == vm.SELFDESTRUCT:
		return true
	case s.op >= vm.LOG0 && s.op <= vm.LOG4:
		return true
	case s.op == vm.CALL && s.slen >= 3:
		return s.st[2] != (common.Hash{})
	}
	return false
}

func u64Hash(v uint64) common.Hash {
	var h common.Hash
	for i := 0; i < 8; i++ {
		h[31-i] = byte(v >> (8 * uint(i)))
	}
	return h
}

func addrHash(a common.Address) common.Hash { return common.BytesToHash(a[:]) }

// beginTx prepares the pending message call of the transaction itself.
func (o *oracle) beginTx(to common.Address, value, gas uint64, input []byte) *pending {
	p := &pending{kind: kCall, idx: -1, top: true, keep: 0, keepKnown: true, maxSupplied: gas, value: value,
		ctxAddr: to, ctxCaller: originAddr, ctxValue: value, codeAddr: to}
	if n := nativeOf(to); n != 0 {
		p.native, p.spec, p.supplied, p.suppliedKnown = n, specNative(n, input), gas, true
		o.labels[to] = fmt.Sprintf("native%d", n)
	}
	o.prepare(p, originAddr, 0)
	return p
}

// beginTxCreate prepares the pending frame of a contract-creation transaction.
func (o *oracle) beginTxCreate(init []byte, value, gas uint64) *pending {
	p := &pending{kind: kCreate, idx: -1, top: true, keep: 0, keepKnown: true, maxSupplied: gas, value: value,
		ctxCaller: originAddr, ctxValue: value, code: init}
	oa := o.acct(originAddr)
	if oa.bal >= value {
		p.ctxAddr = crypto.CreateAddress(originAddr, oa.nonce)
		oa.nonce++
	}
	p.codeAddr = p.ctxAddr
	o.prepare(p, originAddr, 0)
	p.code = init
	return p
}

// revive is called when StateDB.CreateAccount builds a new object for a non-existent account. By the statement
// nothing is inherited from a predecessor that an earlier transaction destroyed; when modelling the known defect
// the predecessor's last balance comes back.
func (o *oracle) revive(a *acct) uint64 {
	g := a.ghost
	a.ghost = 0
	if g == 0 {
		return 0
	}
	o.st.resurrections++
	if !o.carry {
		return 0
	}
	o.w.burnt -= g
	return g
}

// prepare evaluates the checks made before any code runs and applies the frame's entry effects.
func (o *oracle) prepare(p *pending, from common.Address, fromDepth int) {
	if fromDepth > int(params.CallCreateDepth) {
		p.pre = "depth"
		return
	}
	if p.kind == kCall || p.kind == kCallCode || p.kind.isCreate() {
		if o.acct(from).bal < p.value {
			p.pre = "balance"
			o.st.insufficient++
			return
		}
	}
	switch {
	case p.kind.isCreate():
		na := o.acct(p.ctxAddr)
		if na.nonce != 0 || len(na.code) > 0 {
			p.pre = "collision"
			o.st.collisions++
			return
		}
		if o.gone[p.ctxAddr] {
			o.st.recreateAfterDestroyed++
		}
		p.snap = o.w.clone()
		na = o.acct(p.ctxAddr)
		bal := na.bal
		if !na.exists {
			bal += o.revive(na)
		}
		*na = acct{exists: true, bal: bal, nonce: 1}
		o.acct(from).bal -= p.value
		na.bal += p.value
		p.valueMoved = p.value > 0
	case p.kind == kCall:
		p.snap = o.w.clone()
		ta := o.acct(p.ctxAddr)
		if !ta.exists {
			ta.bal += o.revive(ta)
		}
		ta.exists = true
		o.acct(from).bal -= p.value
		o.acct(p.ctxAddr).bal += p.value
		p.valueMoved = p.value > 0
		p.code = o.acct(p.codeAddr).code
	default:
		p.snap = o.w.clone()
		p.code = o.acct(p.codeAddr).code
	}
}

// beginCall handles a CALL*/CREATE* step (without error) of frame f.
func (o *oracle) beginCall(f *frame, i int) (*pending, *viol) {
	s := &o.steps[i]
	p := &pending{idx: i}
	avail := s.gas - s.cost
	switch s.op {
	case vm.CALL, vm.CALLCODE:
		p.kind = kCall
		if s.op == vm.CALLCODE {
			p.kind = kCallCode
		}
		v, ok := hashU64(s.st[2])
		if !ok {
			v = ^uint64(0) // more than anybody owns
		}
		p.value = v
		to := hashAddr(s.st[1])
		p.codeAddr = to
		if p.kind == kCall {
			p.ctxAddr, p.ctxCaller, p.ctxValue, p.static = to, f.addr, v, f.static
		} else {
			p.ctxAddr, p.ctxCaller, p.ctxValue, p.static = f.addr, f.addr, v, f.static
		}
		base := params.CallGas
		var stipend uint64
		if s.st[2] != (common.Hash{}) {
			base += params.CallValueTransferGas
			stipend = params.CallStipend
		}
		if s.cost < base {
			return nil, o.fail("gas-mismatch", "%s is charged %d, less than the fixed part %d of the call cost", o.where(i), s.cost, base)
		}
		p.keep, p.keepKnown, p.maxSupplied = avail, true, s.cost-base+stipend
	case vm.DELEGATECALL, vm.STATICCALL:
		to := hashAddr(s.st[1])
		p.codeAddr = to
		if s.op == vm.DELEGATECALL {
			p.kind = kDelegate
			p.ctxAddr, p.ctxCaller, p.ctxValue, p.static = f.addr, f.caller, f.value, f.static
		} else {
			p.kind = kStatic
			p.ctxAddr, p.ctxCaller, p.ctxValue, p.static = to, f.addr, 0, true
		}
		if s.cost < params.CallGas {
			return nil, o.fail("gas-mismatch", "%s is charged %d, less than the fixed call cost", o.where(i), s.cost)
		}
		p.keep, p.keepKnown, p.maxSupplied = avail, true, s.cost-params.CallGas
	case vm.CREATE, vm.CREATE2:
		p.kind = kCreate
		v, ok := hashU64(s.st[0])
		if !ok {
			v = ^uint64(0)
		}
		p.value = v
		p.code = s.mem
		p.ctxCaller, p.ctxValue, p.static = f.addr, v, f.static
		p.maxSupplied = avail
		// the address is derived before the nonce is bumped; the bump survives a failing init code
		if f.depth <= int(params.CallCreateDepth) && o.acct(f.addr).bal >= v {
			ca := o.acct(f.addr)
			if s.op == vm.CREATE {
				p.ctxAddr = crypto.CreateAddress(f.addr, ca.nonce)
			} else {
				p.kind = kCreate2
				p.ctxAddr = crypto.CreateAddress2(f.addr, s.st[3], s.mem)
			}
			ca.nonce++
		} else if s.op == vm.CREATE2 {
			p.kind = kCreate2
		}
		p.codeAddr = p.ctxAddr
	}
	if n := nativeOf(p.codeAddr); n != 0 && !p.kind.isCreate() {
		p.native, p.spec = n, specNative(n, s.mem)
		o.labels[p.codeAddr] = fmt.Sprintf("native%d", n)
		// gas handed over = cost - fixed part - value surcharge - new-account surcharge (+ stipend); exact only
		// if the step did not also pay for memory expansion
		prevMem := 0
		if f.last >= 0 {
			prevMem = o.steps[f.last].memLen
		}
		fixed := params.CallGas
		var stipend uint64
		if (p.kind == kCall || p.kind == kCallCode) && s.st[2] != (common.Hash{}) {
			fixed += params.CallValueTransferGas
			stipend = params.CallStipend
			if ta := o.acct(p.codeAddr); p.kind == kCall && ta.nonce == 0 && ta.bal == 0 && len(ta.code) == 0 {
				fixed += params.CallNewAccountGas
			}
		}
		if s.memLen == prevMem && s.cost >= fixed {
			p.supplied, p.suppliedKnown = s.cost-fixed+stipend, true
		}
	}
	o.prepare(p, f.addr, f.depth)
	if p.kind.isCreate() {
		p.code = s.mem
	}
	switch p.kind {
	case kDelegate:
		o.st.delegate++
	case kCallCode:
		o.st.callcode++
	}
	if p.valueMoved {
		o.st.valueCalls++
	}
	return p, nil
}

// openFrame starts the frame whose first step is step i.
func (o *oracle) openFrame(p *pending, i int) (*frame, *viol) {
	s := &o.steps[i]
	if p == nil || p.ran || p.res != nil {
		return nil, o.fail("frame-structure", "%s starts a new frame, but the caller's previous step is not an open call", o.where(i))
	}
	if p.pre != "" {
		return nil, o.fail("frame-structure", "%s: code runs although the %v must fail before execution (%s)", o.where(i), p.kind, p.pre)
	}
	if len(p.code) == 0 {
		return nil, o.fail("frame-structure", "%s: code runs although the shadow state has no code at %s (%v from %s)", o.where(i), o.name(p.codeAddr), p.kind, o.where(p.idx))
	}
	p.ran = true
	f := &frame{depth: s.depth, p: p, addr: p.ctxAddr, caller: p.ctxCaller, value: p.ctxValue, codeAddr: p.codeAddr,
		static: p.static, supplied: s.gas, first: i, last: -1}
	o.st.frames++
	if f.depth > o.st.maxDepth {
		o.st.maxDepth = f.depth
	}
	if p.kind == kStatic {
		o.st.staticFrames++
	}
	// context as the interpreter sees it
	if !s.entry {
		return nil, o.fail("frame-structure", "%s: the oracle expects a new frame here, the tracer saw no depth increase", o.where(i))
	}
	if s.addr != f.addr || s.caller != f.caller || s.codeAddr != f.codeAddr || s.value == nil || !s.value.IsUint64() || s.value.Uint64() != f.value {
		return nil, o.fail("frame-context", "%v frame opened by %s runs with address=%s caller=%s value=%v code=%s; expected address=%s caller=%s value=%d code=%s",
			p.kind, o.where(p.idx), o.name(s.addr), o.name(s.caller), s.value, o.name(s.codeAddr), o.name(f.addr), o.name(f.caller), f.value, o.name(f.codeAddr))
	}
	// gas handed to the callee
	if p.top {
		if f.supplied != p.maxSupplied {
			return nil, o.fail("gas-mismatch", "the transaction's frame starts with %d gas, gas limit is %d", f.supplied, p.maxSupplied)
		}
	} else if f.supplied > p.maxSupplied {
		return nil, o.fail("gas-supplied-unpaid", "%v frame opened by %s starts with %d gas, the caller paid for at most %d", p.kind, o.where(p.idx), f.supplied, p.maxSupplied)
	}
	if p.kind.isCreate() && !p.top {
		p.keep, p.keepKnown = p.maxSupplied-f.supplied, true
	}
	return f, nil
}

// closeFrame determines how the frame ended and commits or discards its checkpoint.
func (o *oracle) closeFrame(f *frame) *viol {
	p := f.p
	if f.pend != nil {
		return o.fail("frame-structure", "%s: frame ends right after a call step", o.where(f.last))
	}
	last := &o.steps[f.last]
	r := &result{}
	var code []byte
	switch {
	case last.err != "":
		r.hard, r.why = true, "fault: "+last.err
	case last.op == vm.REVERT:
		r.returned, r.why = last.gas-last.cost, "REVERT"
	case last.op == vm.STOP, last.op == vm.RETURN, last.op == vm.SELFDESTRUCT:
		r.ok, r.returned, r.why = true, last.gas-last.cost, last.op.String()
		if p.kind.isCreate() {
			if last.op == vm.RETURN {
				code = last.mem
			}
			deposit := uint64(len(code)) * params.CreateDataGas
			switch {
			case len(code) > params.MaxCodeSize:
				r.ok, r.hard, r.returned, r.why = false, true, 0, "code too large"
			case r.returned < deposit:
				r.ok, r.hard, r.returned, r.why = false, true, 0, "code deposit out of gas"
				o.st.codeStoreOOG++
			default:
				r.returned -= deposit
			}
		}
	default:
		return o.fail("frame-structure", "%s is the last step of its frame but neither halts nor faults", o.where(f.last))
	}
	if r.returned > f.supplied {
		return o.fail("gas-returned-exceeds-supplied", "%v frame [%s .. %s] started with %d gas and returns %d", p.kind, o.where(f.first), o.where(f.last), f.supplied, r.returned)
	}
	if r.ok {
		if p.kind.isCreate() {
			o.acct(f.addr).code = code
			o.st.createOK++
		}
	} else {
		o.w = p.snap
		o.st.failedFrames++
		if r.hard {
			o.st.hardFailFrames++
		} else {
			o.st.revertFrames++
		}
		if f.writes > 0 || p.valueMoved {
			o.st.failedWithWrites++
		}
		if f.writes > 0 && f.depth >= 2 {
			o.st.deepFailWithWrites++
		}
		if p.kind.isCreate() {
			o.st.createFail++
		}
	}
	p.res = r
	if len(o.open) >= 2 {
		parent := o.open[len(o.open)-2]
		if r.ok {
			parent.writes += f.writes
			if p.valueMoved || p.kind.isCreate() {
				parent.writes++
			}
		}
		if !p.kind.isCreate() && p.idx >= 0 {
			o.uses = append(o.uses, siteUse{codeAddr: parent.codeAddr, pc: o.steps[p.idx].pc, used: f.supplied - r.returned, value: p.value > 0})
		}
	}
	return nil
}

// resolve checks what the caller observes after the call: the pushed word and its gas.
func (o *oracle) resolve(p *pending, word common.Hash, gasAfter uint64, at string) *viol {
	r := p.res
	if r == nil {
		// no code ran
		switch {
		case p.pre != "":
			r = &result{ok: false, why: "fails before execution: " + p.pre}
		case p.native != 0:
			o.st.nativeCalls++
			switch {
			case !p.spec.known || !p.suppliedKnown:
				// outcome only observed: state effects follow what the caller sees, gas is only bounded
				r = &result{ok: word != (common.Hash{}), why: fmt.Sprintf("native contract %d, outcome not predicted", p.native)}
				o.st.nativeOpaque++
			case !p.spec.valid:
				r = &result{exact: true, hard: true, why: fmt.Sprintf("native contract %d rejects its %d byte input", p.native, len(o.inputOf(p)))}
			case p.supplied < p.spec.gas:
				r = &result{exact: true, hard: true, why: fmt.Sprintf("native contract %d needs %d gas, is given %d", p.native, p.spec.gas, p.supplied)}
			default:
				r = &result{exact: true, ok: true, returned: p.supplied - p.spec.gas, why: fmt.Sprintf("native contract %d uses %d of %d gas", p.native, p.spec.gas, p.supplied)}
			}
			if r.ok {
				o.st.nativeOK++
			} else {
				// a failed native frame is a failed frame: value transfer and account creation are undone
				o.w = p.snap
				o.st.nativeFail++
				o.st.failedFrames++
				if p.valueMoved {
					o.st.nativeFailValue++
					o.st.failedWithWrites++
				}
			}
		case len(p.code) == 0:
			r = &result{ok: true, why: "no code"}
			o.st.stepless++
			if p.kind.isCreate() {
				o.st.createOK++
			}
		case word == (common.Hash{}):
			return o.fail("outcome-mismatch", "%v at %s: the caller sees failure and no code ran, but nothing forbids the call (depth %s, caller balance covers the value %d, no address collision) and the callee %s has %d bytes of code (%s)",
				p.kind, o.where(p.idx), "below the limit", p.value, o.name(p.codeAddr), len(p.code), at)
		default:
			return o.fail("frame-structure", "%v at %s: the callee %s has %d bytes of code and nothing forbids the call, yet no step of it was traced and the caller sees %x",
				p.kind, o.where(p.idx), o.name(p.codeAddr), len(p.code), word)
		}
	}
	want := common.Hash{}
	if r.ok {
		if p.kind.isCreate() {
			want = addrHash(p.ctxAddr)
		} else {
			want = u64Hash(1)
		}
	}
	if word != want {
		return o.fail("outcome-mismatch", "%v at %s: the frame %s (%s), so the caller must see %x; it sees %x (%s)",
			p.kind, o.where(p.idx), map[bool]string{true: "succeeds", false: "fails"}[r.ok], r.why, want, word, at)
	}
	if p.ran || r.exact {
		if gasAfter != p.keep+r.returned {
			return o.fail("gas-mismatch", "%v at %s: caller keeps %d, callee returns %d (%s), caller must continue with %d; it has %d (%s)",
				p.kind, o.where(p.idx), p.keep, r.returned, r.why, p.keep+r.returned, gasAfter, at)
		}
	} else {
		bound := p.maxSupplied
		if !p.kind.isCreate() {
			bound += p.keep
		}
		if gasAfter > bound {
			return o.fail("gas-returned-exceeds-supplied", "%v at %s (%s): caller continues with %d gas, more than the %d it could have left (%s)",
				p.kind, o.where(p.idx), r.why, gasAfter, bound, at)
		}
	}
	return nil
}

func (o *oracle) inputOf(p *pending) []byte {
	if p.idx >= 0 && p.idx < len(o.steps) {
		return o.steps[p.idx].mem
	}
	return o.topInput
}

// run processes the whole trace of one transaction.
func (o *oracle) run(steps []step, top *pending, word common.Hash, gas uint64, errTop error, leftOver uint64) *viol {
	o.steps = steps
	o.open = nil
	o.st.steps += len(steps)
	root := &frame{depth: 0, addr: originAddr, last: -1}
	root.pend = top
	o.open = append(o.open, root)

	closeTo := func(depth int) *viol {
		for len(o.open)-1 > depth {
			f := o.open[len(o.open)-1]
			if v := o.closeFrame(f); v != nil {
				return v
			}
			o.open = o.open[:len(o.open)-1]
		}
		return nil
	}

	for i := range steps {
		s := &steps[i]
		if s.depth < 1 {
			return o.fail("frame-structure", "%s has depth %d", o.where(i), s.depth)
		}
		if v := closeTo(s.depth); v != nil {
			return v
		}
		cur := o.open[len(o.open)-1]
		if s.depth == cur.depth+1 {
			f, v := o.openFrame(cur.pend, i)
			if v != nil {
				return v
			}
			o.open = append(o.open, f)
			cur = f
		} else if s.depth != cur.depth {
			return o.fail("frame-structure", "%s: depth jumps from %d to %d", o.where(i), cur.depth, s.depth)
		} else {
			// next step of an open frame
			if cur.ended {
				return o.fail("frame-structure", "%s: the frame continues after %s", o.where(i), o.where(cur.last))
			}
			if s.addr != cur.addr {
				return o.fail("frame-context", "%s: context address changed inside a frame (was %s)", o.where(i), o.name(cur.addr))
			}
			if cur.pend != nil {
				if s.slen < 1 {
					return o.fail("outcome-mismatch", "%s: empty stack after a call", o.where(i))
				}
				if v := o.resolve(cur.pend, s.st[0], s.gas, o.where(i)); v != nil {
					return v
				}
				cur.pend = nil
			} else {
				prev := &steps[cur.last]
				if s.gas != prev.gas-prev.cost {
					return o.fail("gas-mismatch", "%s: previous step %s leaves %d gas", o.where(i), o.where(cur.last), prev.gas-prev.cost)
				}
				if cur.expect != nil {
					if s.slen < 1 || s.st[0] != *cur.expect {
						return o.fail("read-mismatch", "%s: %v at %s must push %x according to the shadow state, top of stack is %x (stack size %d)",
							o.where(i), cur.expectOp, o.where(cur.last), *cur.expect, s.st[0], s.slen)
					}
					o.st.readsChecked++
					cur.expect = nil
				}
			}
		}
		if v := o.exec(cur, i); v != nil {
			return v
		}
		cur.last = i
	}
	if v := closeTo(0); v != nil {
		return v
	}
	at := fmt.Sprintf("the call returned err=%v leftOverGas=%d", errTop, leftOver)
	if v := o.resolve(root.pend, word, leftOver, at); v != nil {
		return v
	}
	if leftOver > gas {
		return o.fail("gas-returned-exceeds-supplied", "transaction with gas limit %d returns %d", gas, leftOver)
	}
	return nil
}

// exec applies step i to frame f.
func (o *oracle) exec(f *frame, i int) *viol {
	s := &o.steps[i]
	need, known := minStack[s.op]
	write := isWrite(s)
	if f.static && write && s.slen >= need {
		o.st.staticAttempts++
	}
	if s.err != "" {
		f.ended = true
		return nil
	}
	// the step executes: it must have been legal
	switch {
	case !known:
		return o.fail("missing-fault", "%s: undefined opcode executes without a fault", o.where(i))
	case s.slen < need:
		return o.fail("missing-fault", "%s: needs %d stack items, has %d, executes without a fault", o.where(i), need, s.slen)
	case f.static && write:
		return o.fail("static-write-executed", "%s: state-changing operation executes inside a static call (frame opened by %s)", o.where(i), o.where(f.p.idx))
	case s.gas < s.cost:
		return o.fail("missing-fault", "%s: costs more than the gas left, executes without a fault", o.where(i))
	}
	me := func() *acct { return o.acct(f.addr) }
	expect := func(h common.Hash) {
		f.expect, f.expectOp = &h, s.op
	}
	switch {
	case s.op == vm.SSTORE:
		a := me()
		if s.st[1] == (common.Hash{}) {
			delete(a.stor, s.st[0])
		} else {
			if a.stor == nil {
				a.stor = map[common.Hash]common.Hash{}
			}
			a.stor[s.st[0]] = s.st[1]
		}
		o.touch(f.addr, s.st[0])
		f.writes++
		o.st.sstores++
	case s.op >= vm.LOG0 && s.op <= vm.LOG4:
		n := int(s.op - vm.LOG0)
		l := slog{addr: f.addr, data: s.mem}
		for k := 0; k < n; k++ {
			l.topics = append(l.topics, s.st[2+k])
		}
		o.w.logs = append(o.w.logs, l)
		f.writes++
		o.st.logs++
	case s.op == vm.SELFDESTRUCT:
		ben := hashAddr(s.st[0])
		a := me()
		bal := a.bal
		b := o.acct(ben)
		if !b.exists {
			b.ghost = 0 // AddBalance -> GetOrNewStateObject: a fresh object, nothing inherited
		}
		b.exists = true
		b.bal += bal
		a = me()
		if ben == f.addr {
			o.w.burnt += bal
			if bal > 0 {
				o.st.burns++
			}
		}
		a.bal = 0
		a.dead = true
		f.writes++
		f.ended = true
		o.st.selfdestructs++
	case s.op == vm.SLOAD:
		expect(me().stor[s.st[0]])
	case s.op == vm.BALANCE:
		expect(u64Hash(o.acct(hashAddr(s.st[0])).bal))
	case s.op == vm.SELFBALANCE:
		expect(u64Hash(me().bal))
	case s.op == vm.EXTCODESIZE:
		expect(u64Hash(uint64(len(o.acct(hashAddr(s.st[0])).code))))
	case s.op == vm.CALLER:
		expect(addrHash(f.caller))
	case s.op == vm.ADDRESS:
		expect(addrHash(f.addr))
	case s.op == vm.CALLVALUE:
		expect(u64Hash(f.value))
	case s.op == vm.GAS:
		expect(u64Hash(s.gas - s.cost))
	case s.op == vm.CALL, s.op == vm.CALLCODE, s.op == vm.DELEGATECALL, s.op == vm.STATICCALL, s.op == vm.CREATE, s.op == vm.CREATE2:
		p, v := o.beginCall(f, i)
		if v != nil {
			return v
		}
		f.pend = p
	case s.op == vm.STOP, s.op == vm.RETURN, s.op == vm.REVERT:
		f.ended = true
	}
	return nil
}

// ---------------------------------------------------------------------------------
// comparison of the real state with the shadow

type realState interface {
	GetBalance(common.Address) *big.Int
	GetNonce(common.Address) uint64
	GetCode(common.Address) []byte
	GetState(common.Address, common.Hash) common.Hash
	HasSuicided(common.Address) bool
	Exist(common.Address) bool
}

func (o *oracle) sortedSeen() []common.Address {
	var l []common.Address
	for a := range o.seen {
		l = append(l, a)
	}
	sort.Slice(l, func(i, j int) bool { return bytes.Compare(l[i][:], l[j][:]) < 0 })
	return l
}

func (o *oracle) compare(st realState, when string) *viol {
	for _, ad := range o.sortedSeen() {
		a := o.w.acc[ad]
		if a == nil {
			a = &acct{}
		}
		if !st.Exist(ad) {
			// every getter of a non-existent account returns zero: the shadow account must be all-zero too
			if a.bal != 0 || a.nonce != 0 || len(a.code) != 0 || a.dead || len(a.stor) != 0 {
				return o.fail("account-missing", "%s: account %s does not exist; shadow has balance %d nonce %d code %d bytes, %d storage slots, self-destructed %v",
					when, o.name(ad), a.bal, a.nonce, len(a.code), len(a.stor), a.dead)
			}
			continue
		}
		if b := st.GetBalance(ad); !b.IsUint64() || b.Uint64() != a.bal {
			return o.fail("balance-mismatch", "%s: balance of %s is %v, the effects of the frames whose whole ancestor chain succeeded give %d", when, o.name(ad), b, a.bal)
		}
		if n := st.GetNonce(ad); n != a.nonce {
			return o.fail("nonce-mismatch", "%s: nonce of %s is %d, shadow has %d", when, o.name(ad), n, a.nonce)
		}
		if c := st.GetCode(ad); !bytes.Equal(c, a.code) {
			return o.fail("code-mismatch", "%s: code of %s is %d bytes (%x...), shadow has %d bytes", when, o.name(ad), len(c), head(c, 8), len(a.code))
		}
		if d := st.HasSuicided(ad); d != a.dead {
			return o.fail("suicide-flag-mismatch", "%s: HasSuicided(%s) = %v, shadow has %v", when, o.name(ad), d, a.dead)
		}
		var slots []common.Hash
		for sl := range o.touched[ad] {
			slots = append(slots, sl)
		}
		sort.Slice(slots, func(i, j int) bool { return bytes.Compare(slots[i][:], slots[j][:]) < 0 })
		for _, sl := range slots {
			if v := st.GetState(ad, sl); v != a.stor[sl] {
				return o.fail("storage-mismatch", "%s: storage of %s slot %x is %x, shadow has %x", when, o.name(ad), sl[28:], v, a.stor[sl])
			}
		}
		if !a.exists && st.Exist(ad) {
			return o.fail("account-left-behind", "%s: account %s exists, but no successful frame created it", when, o.name(ad))
		}
	}
	return nil
}

func head(b []byte, n int) []byte {
	if len(b) > n {
		return b[:n]
	}
	return b
}
